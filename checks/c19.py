"""C19 -- invalid inputs are refused with an error, not undefined behaviour.

Proof: coq/Properties_C19.v over coq/Params.v (check() functions over exact rationals, constructors
with option-returning table reads, Circuit setters / addNet / setNets / check, entry of the stages).
Translator: the effort->defaults table is dumped from the C++ on every run into
coq/ParamsDefaults_gen.v (rewritten only when it changed); `efforts_1_9_pass` is re-proved over it.
Tie: extracted model vs. harness/params.cpp (plain = assertions on, and asan = ASan+UBSan), exact
comparison of outcome, message and circuit state; the property's own statement is evaluated on the
C++ output independently of the model (oracle() below)."""
import json
import math
import os
import struct
from fractions import Fraction

from tools import common

LEVEL = "proof"
GEN = os.path.join(common.COQ, "ParamsDefaults_gen.v")

# ------------------------------------------------------------------ parameter struct layouts (harness/params.cpp header)
ROUGH = [("costModel", "I"), ("nbSteps", "I"), ("binSize", "D"), ("lineReoptSize", "I"), ("lineReoptOverlap", "I"),
         ("diagReoptSize", "I"), ("diagReoptOverlap", "I"), ("squareReoptSize", "I"), ("squareReoptOverlap", "I"),
         ("unidimensionalTransport", "B"), ("quadraticPenalty", "D"), ("sideMargin", "D"), ("coarseningLimit", "D"),
         ("targetBlending", "D")]
PENALTY = [("cutoffDistance", "D"), ("cutoffDistanceUpdateFactor", "D"), ("areaExponent", "D"), ("initialValue", "D"),
           ("updateFactor", "D"), ("targetBlending", "D")]
CONT = [("netModel", "I"), ("approximationDistance", "D"), ("approximationDistanceUpdateFactor", "D"),
        ("maxNbConjugateGradientSteps", "I"), ("conjugateGradientErrorTolerance", "D")]
GOWN = [("maxNbSteps", "I"), ("nbInitialSteps", "I"), ("nbStepsBeforeRoughLegalization", "I"), ("gapTolerance", "D"),
        ("distanceTolerance", "D"), ("penaltyUpdateDistance", "D"), ("penaltyUpdateBackoff", "D"), ("exportBlending", "D"),
        ("noise", "D")]
LEGAL = [("costModel", "I"), ("orderingWidth", "D"), ("orderingHeight", "D"), ("orderingY", "D")]
DET = [("nbPasses", "I"), ("localSearchNbNeighbours", "I"), ("localSearchNbRows", "I"), ("shiftNbRows", "I"),
       ("shiftMaxNbCells", "I"), ("reorderingNbRows", "I"), ("reorderingMaxNbCells", "I")]
PREFIX = {"rough": "rl_", "penalty": "pe_", "cont": "cm_", "gown": "gp_", "legal": "lg_", "det": "dp_"}
LAYOUT = {"rough": ROUGH, "penalty": PENALTY, "cont": CONT, "gown": GOWN, "legal": LEGAL, "det": DET}
# struct k -> sequence of groups, in serialisation order
STRUCT = {0: ["gown", "cont", "rough", "penalty", "legal", "det", "seed"], 1: ["gown", "cont", "rough", "penalty"],
          2: ["rough"], 3: ["cont"], 4: ["penalty"], 5: ["legal"], 6: ["det"]}
KNAME = {0: "ColoquinteParameters", 1: "GlobalPlacerParameters", 2: "RoughLegalizationParameters",
         3: "ContinuousModelParameters", 4: "PenaltyParameters", 5: "LegalizationParameters", 6: "DetailedPlacerParameters"}


def fields_of(k):
    out = []
    for g in STRUCT[k]:
        if g == "seed":
            out.append(("seed", "seed", "I"))
        else:
            out += [(g, n, t) for n, t in LAYOUT[g]]
    return out


def dyadic(x):
    """float -> (m, e) with x = m * 2^e exactly, m odd (or 0 0)"""
    if x == 0:
        return (0, 0)
    fr = Fraction(x)
    m, d = fr.numerator, fr.denominator
    e = -(d.bit_length() - 1)
    while m % 2 == 0:
        m //= 2
        e += 1
    return (m, e)


def undyadic(m, e):
    return math.ldexp(m, e)


def parse_struct(k, toks):
    """tokens of an 'OK ...' constructor line -> dict (group, field) -> int | (m, e)"""
    vals, i = {}, 0
    for g, n, t in fields_of(k):
        if t == "D":
            vals[(g, n)] = (int(toks[i]), int(toks[i + 1]))
            i += 2
        else:
            vals[(g, n)] = int(toks[i])
            i += 1
    if i != len(toks):
        raise ValueError("field count")
    return vals


def ser_struct(k, vals):
    out = []
    for g, n, t in fields_of(k):
        v = vals[(g, n)]
        if t == "D":
            out += [str(v[0]), str(v[1])]
        else:
            out.append(str(v))
    return " ".join(out)


# ------------------------------------------------------------------ translator: defaults table -> Coq
def coq_q(v):
    m, e = v
    if e >= 0:
        num, den = m * (1 << e), 1
    else:
        num, den = m, 1 << (-e)
    return "(%s # %d)" % (("(%d)" % num) if num < 0 else str(num), den)


def coq_z(v):
    return "(%d)" % v if v < 0 else str(v)


def coq_record(g, vals):
    parts = []
    for n, t in LAYOUT[g]:
        v = vals[(g, n)]
        if t == "D":
            s = coq_q(v)
        elif t == "B":
            s = "true" if v else "false"
        else:
            s = coq_z(v)
        parts.append("%s%s := %s" % (PREFIX[g], n, s))
    return "{| " + "; ".join(parts) + " |}"


def dump_defaults(harness):
    """runs every constructor for efforts 1..9; returns (tables dict or None, list of (case, output) that failed)"""
    cases = ["CTOR %d %d" % (k, e) for k in range(7) for e in range(1, 10)]
    rc, out, err = common.sh([harness, "run"], inp="\n".join(cases) + "\n", timeout=300, env=common.HARNESS_ENV)
    lines = out.split("\n")
    res, bad = {}, []
    for c, l in zip(cases, lines):
        _, k, e = c.split()
        if not l.startswith("OK "):
            bad.append((c, l))
            continue
        try:
            res[(int(k), int(e))] = parse_struct(int(k), l.split()[1:])
        except (ValueError, IndexError):
            bad.append((c, l))
    if len(lines) < len(cases):
        bad.append(("harness", "no output: " + err[-300:]))
    return res, bad


def gen_text(res):
    """the generated Coq file (deterministic)"""
    def lst(k, g):
        return "[ " + ";\n    ".join(coq_record(g, res[(k, e)]) for e in range(1, 10)) + " ]"
    t = ["(* GENERATED by checks/c19.py from the C++ of the tree under test (harness `params`, CTOR k e for",
         "   e = 1..9): the values the constructors of parameters.cpp build, as exact dyadic rationals.",
         "   Do not edit; rewritten whenever the dumped values change. *)",
         "From Coq Require Import List ZArith QArith.", "Require Import CV.Params.", "Import ListNotations.",
         "Open Scope Z_scope.", "",
         "Definition gen_rough : list RoughParams :=\n  " + lst(2, "rough") + ".", "",
         "Definition gen_penalty : list PenaltyParams :=\n  " + lst(4, "penalty") + ".", "",
         "Definition gen_global : list GlobalOwn :=\n  " + lst(1, "gown") + ".", "",
         "Definition gen_detailed : list DetailedParams :=\n  " + lst(6, "det") + ".", "",
         "Definition gen_continuous : ContinuousParams :=\n  " + coq_record("cont", res[(3, 1)]) + ".", "",
         "Definition gen_legalization : LegalizationParams :=\n  " + coq_record("legal", res[(5, 1)]) + ".", "",
         "Definition default_tables : Tables :=",
         "  {| t_rough := gen_rough; t_penalty := gen_penalty; t_global := gen_global; t_detailed := gen_detailed;",
         "     t_continuous := gen_continuous; t_legalization := gen_legalization |}.", ""]
    return "\n".join(t)


def regenerate(harness):
    """returns (changed, problems)"""
    res, bad = dump_defaults(harness)
    if bad:
        return False, bad
    # the two constructors that ignore the effort must really ignore it, and the nested values must agree
    incons = []
    for e in range(1, 10):
        if res[(3, e)] != res[(3, 1)]:
            incons.append(("CTOR 3 %d" % e, "ContinuousModelParameters depends on the effort"))
        if res[(5, e)] != res[(5, 1)]:
            incons.append(("CTOR 5 %d" % e, "LegalizationParameters depends on the effort"))
    if incons:
        return False, incons
    txt = gen_text(res)
    try:
        old = open(GEN).read()
    except OSError:
        old = None
    if old != txt:
        tmp = GEN + ".tmp%d" % os.getpid()
        with open(tmp, "w") as f:
            f.write(txt)
        os.rename(tmp, GEN)
        return True, []
    return False, []


# ------------------------------------------------------------------ generators
def f32(x):
    return struct.unpack("f", struct.pack("f", x))[0]


# (group, field, bound) for every literal bound of the check() functions; doubles are probed at
# nextafter below / at / above, ints at b-1 / b / b+1
DBOUNDS = [("penalty", "cutoffDistance", 1.0e-6), ("penalty", "cutoffDistanceUpdateFactor", 0.8),
           ("penalty", "cutoffDistanceUpdateFactor", 1.2), ("penalty", "areaExponent", 0.49), ("penalty", "areaExponent", 1.01),
           ("penalty", "initialValue", 0.0), ("penalty", "updateFactor", 1.0), ("penalty", "updateFactor", 2.0),
           ("penalty", "targetBlending", f32(0.1)), ("penalty", "targetBlending", f32(1.1)),
           ("cont", "approximationDistance", 1.0e-6), ("cont", "approximationDistance", 1.0e3),
           ("cont", "approximationDistanceUpdateFactor", 0.8), ("cont", "approximationDistanceUpdateFactor", 1.2),
           ("cont", "conjugateGradientErrorTolerance", 1.0e-8), ("cont", "conjugateGradientErrorTolerance", 1.0),
           ("rough", "binSize", 1.0), ("rough", "binSize", 25.0), ("rough", "quadraticPenalty", 0.0),
           ("rough", "quadraticPenalty", 1.0), ("rough", "targetBlending", -0.1), ("rough", "targetBlending", f32(0.9)),
           ("rough", "targetBlending", 0.9),   # the decimal value, which is NOT the bound
           ("gown", "gapTolerance", 0.0), ("gown", "gapTolerance", 1.0), ("gown", "distanceTolerance", 0.0),
           ("gown", "exportBlending", -0.5), ("gown", "exportBlending", 1.5), ("gown", "noise", 0.0), ("gown", "noise", 2.0),
           ("gown", "penaltyUpdateDistance", 0.0), ("gown", "penaltyUpdateBackoff", 1.0),
           ("legal", "orderingWidth", 2.0), ("legal", "orderingWidth", -1.0), ("legal", "orderingY", 0.2),
           ("legal", "orderingY", -0.2), ("legal", "orderingHeight", 0.0), ("rough", "sideMargin", 0.0),
           ("rough", "coarseningLimit", 0.0)]
IBOUNDS = [("cont", "maxNbConjugateGradientSteps", 0), ("cont", "netModel", 1), ("rough", "nbSteps", 0),
           ("rough", "lineReoptSize", 1), ("rough", "lineReoptSize", 64), ("rough", "diagReoptSize", 1),
           ("rough", "diagReoptSize", 64), ("rough", "squareReoptSize", 1), ("rough", "squareReoptSize", 8),
           ("rough", "lineReoptOverlap", 1), ("rough", "diagReoptOverlap", 1), ("rough", "squareReoptOverlap", 1),
           ("rough", "costModel", 1), ("rough", "costModel", 4), ("rough", "unidimensionalTransport", 0),
           ("gown", "maxNbSteps", 0), ("gown", "nbInitialSteps", 0), ("gown", "nbStepsBeforeRoughLegalization", 1),
           ("legal", "costModel", 1), ("legal", "costModel", 4),
           ("det", "nbPasses", 0), ("det", "localSearchNbNeighbours", 0), ("det", "localSearchNbRows", 0),
           ("det", "shiftNbRows", 0), ("det", "shiftMaxNbCells", 0), ("det", "reorderingNbRows", 0),
           ("det", "reorderingMaxNbCells", 0)]
OWNER = {"rough": 2, "cont": 3, "penalty": 4, "legal": 5, "det": 6, "gown": 1}
FTYPE = {(g, n): t for g in LAYOUT for n, t in LAYOUT[g]}


def probes():
    """list of ((group, field), value) around every bound"""
    out = []
    for g, n, b in DBOUNDS:
        for v in (math.nextafter(b, -math.inf), b, math.nextafter(b, math.inf)):
            out.append(((g, n), dyadic(v)))
    for g, n, b in IBOUNDS:
        for v in (b - 1, b, b + 1):
            if FTYPE[(g, n)] == "B":
                if v not in (0, 1):
                    continue
            out.append(((g, n), v))
    seen, res = set(), []
    for p in out:
        if p not in seen:
            seen.add(p)
            res.append(p)
    return res


def extra_probes():
    """values far outside (not next to) the ranges, for EVERY numeric field whether or not check() bounds it: zero, negative, tiny
    and huge sizes -- the values with which work done BEFORE the refusal goes wrong (division by a zero size, negative counts,
    allocation from a huge one).  Enumerations and booleans are left to IBOUNDS."""
    out = []
    for (g, n), t in FTYPE.items():
        if t == "D":
            for v in (0.0, -1.0, 0.05, -0.05, 0.5, 1.0e9):
                out.append(((g, n), dyadic(v)))
        elif t == "I" and n not in ("costModel", "netModel"):
            for v in (0, -1, -2147483648, 2147483647):
                out.append(((g, n), v))
    return out


def with_fields(base, assigns):
    v = dict(base)
    for key, val in assigns:
        v[key] = val
    return v


def gen_pchk(ctx, base_by_effort, rng):
    """PCHK cases: singles (whole struct + owning struct), all pairs, relational grids, random"""
    lines = []
    pr = probes()
    avail = [e for e in (3, 9, 1, 5, 7, 2, 4, 6, 8) if e in base_by_effort]
    bases = [base_by_effort[avail[i % len(avail)]] for i in range(3)]
    base = bases[0]
    for (key, val) in pr:
        for b in bases[:2]:
            lines.append("PCHK 0 " + ser_struct(0, with_fields(b, [(key, val)])))
        k = OWNER[key[0]]
        lines.append("PCHK %d " % k + ser_struct(k, with_fields(base, [(key, val)])))
        if k in (2, 3, 4):
            lines.append("PCHK 1 " + ser_struct(1, with_fields(base, [(key, val)])))
    for (key, val) in extra_probes():
        lines.append("PCHK 0 " + ser_struct(0, with_fields(base, [(key, val)])))
        lines.append("PCHK %d " % OWNER[key[0]] + ser_struct(OWNER[key[0]], with_fields(base, [(key, val)])))
    nsing = len(lines)
    # pairs on different fields; quick: a seeded half of them, thorough: all
    for i in range(len(pr)):
        for j in range(i + 1, len(pr)):
            if pr[i][0] == pr[j][0]:
                continue
            if ctx.quick and rng.next() % 3 != 0:
                continue
            lines.append("PCHK 0 " + ser_struct(0, with_fields(base, [pr[i], pr[j]])))
    npairs = len(lines) - nsing
    # relational tests of RoughLegalizationParameters::check and GlobalPlacerParameters::check
    for pre in ("line", "diag", "square"):
        for size in (0, 1, 2, 3, 8, 9, 64, 65):
            for ov in (0, 1, 2, 3, 7, 8, 63, 64, 65):
                v = with_fields(base, [(("rough", pre + "ReoptSize"), size), (("rough", pre + "ReoptOverlap"), ov)])
                lines.append("PCHK 2 " + ser_struct(2, v))
    for a in (1, 2):
        for b in (1, 2):
            for c in (1, 2):
                for ut in (0, 1):
                    for cm in (0, 1):
                        v = with_fields(base, [(("rough", "lineReoptSize"), a), (("rough", "diagReoptSize"), b),
                                               (("rough", "squareReoptSize"), c), (("rough", "unidimensionalTransport"), ut),
                                               (("rough", "costModel"), cm)])
                        lines.append("PCHK 2 " + ser_struct(2, v))
                        lines.append("PCHK 0 " + ser_struct(0, v))
    for mx in (-1, 0, 1, 2, 400):
        for ini in (-1, 0, 1, 2, 399, 400, 401):
            v = with_fields(base, [(("gown", "maxNbSteps"), mx), (("gown", "nbInitialSteps"), ini)])
            lines.append("PCHK 1 " + ser_struct(1, v))
    nrel = len(lines) - nsing - npairs
    # random: every field drawn from a pool around its bounds or at random magnitude
    dpool = sorted(set([math.nextafter(b, s) for _, _, b in DBOUNDS for s in (-math.inf, math.inf)] +
                       [b for _, _, b in DBOUNDS] + [-1e9, -3.5, -1e-300, 5e-324, 1e-12, 0.3, 0.5, 0.75, 3.0, 10.0, 24.5, 1e9, 1e300]))
    nrand = 3000 if ctx.quick else 60000
    for _ in range(nrand):
        b = bases[rng.next() % 3]
        assigns = []
        nch = 1 + rng.next() % 4 if rng.coin(85) else 12
        keys = list(FTYPE)
        for _ in range(nch):
            key = keys[rng.next() % len(keys)]
            t = FTYPE[key]
            if t == "D":
                val = dyadic(dpool[rng.next() % len(dpool)]) if rng.coin(80) else (rng.uni(-2 ** 52, 2 ** 52) | 1, rng.uni(-80, 12))
            elif t == "B":
                val = rng.uni(0, 1)
            elif key[1] in ("costModel", "netModel"):
                val = rng.uni(0, 5 if key[1] == "costModel" else 3)
            else:
                val = rng.choice([-2147483648, -5, -1, 0, 1, 2, 3, 7, 8, 9, 63, 64, 65, 1000, 2147483647]) if rng.coin(70) else rng.uni(-100, 100)
            assigns.append((key, val))
        v = with_fields(b, assigns)
        k = rng.choice([0, 0, 0, 1, OWNER[assigns[0][0][0]]])
        lines.append("PCHK %d " % k + ser_struct(k, v))
    return lines, {"probes": len(pr), "single": nsing, "pairs": npairs, "relational": nrel, "random": nrand}


def ser_state(s):
    t = []
    for key in ("w", "h", "f", "o", "pol", "x", "y", "ori", "lim", "wt", "pc", "px", "py"):
        t.append(str(len(s[key])))
        t += [str(v) for v in s[key]]
    t.append(str(len(s["rows"])))
    for r in s["rows"]:
        t += [str(v) for v in r]
    t += [str(s["inuse"]), str(s["su"]), str(s["nu"])]
    return " ".join(t)


def rand_state(rng, n, nets=None, inuse=0, big=False):
    """a consistent circuit with n cells"""
    s = {"w": [rng.uni(1, 6) for _ in range(n)], "h": [rng.choice([10, 10, 20]) for _ in range(n)],
         "f": [1 if rng.coin(25) else 0 for _ in range(n)], "o": [1 if rng.coin(70) else 0 for _ in range(n)],
         "pol": [rng.uni(0, 4) for _ in range(n)], "x": [rng.uni(-5, 30) for _ in range(n)],
         "y": [rng.choice([0, 10, 3]) for _ in range(n)], "ori": [rng.uni(0, 7) for _ in range(n)],
         "lim": [0], "wt": [], "pc": [], "px": [], "py": [],
         "rows": [(0, 40, 10 * i, 10 * i + 10, [0, 5][i % 2]) for i in range(rng.uni(0, 3))],
         "inuse": inuse, "su": rng.uni(0, 1), "nu": rng.uni(0, 1)}
    nn = rng.uni(0, 3) if nets is None else nets
    if n == 0:
        nn = 0
    for _ in range(nn):
        d = rng.uni(1, 3)
        s["lim"].append(s["lim"][-1] + d)
        s["wt"].append(rng.uni(1, 3))
        for _ in range(d):
            s["pc"].append(rng.uni(0, n - 1))
            s["px"].append(rng.uni(-1, 4))
            s["py"].append(rng.uni(-1, 4))
    return s


def gen_setters(ctx, rng):
    lines = []
    maxn = 3 if ctx.quick else 5
    reps = 1 if ctx.quick else 3
    for _ in range(reps):
        for n in range(0, maxn + 1):
            for inuse in (0, 1):
                for sid in range(11):
                    s = rand_state(rng, n, inuse=inuse)
                    want = len(s["wt"]) if sid == 9 else n
                    for L in range(0, want + 3):
                        if sid in (2, 3):
                            arg = [rng.uni(0, 1) for _ in range(L)]
                        elif sid == 4:
                            arg = [rng.uni(0, 7) for _ in range(L)]
                        elif sid == 5:
                            arg = [rng.uni(0, 4) for _ in range(L)]
                        elif sid == 8:
                            arg = [v for _ in range(L) for v in (rng.uni(-9, 9), rng.uni(-9, 9), rng.uni(0, 7))]
                        elif sid == 10:
                            arg = [v for i in range(L) for v in (rng.uni(-3, 3), rng.uni(4, 9), i, i + 1, rng.uni(0, 7))]
                        elif sid == 9:
                            arg = [rng.uni(1, 5) for _ in range(L)]
                        else:
                            arg = [rng.uni(-9, 9) for _ in range(L)]
                        lines.append("SET %d %s %d %s" % (sid, ser_state(s), L, " ".join(map(str, arg))))
    return [l.rstrip() for l in lines]


def gen_addnet(ctx, rng):
    lines = []
    maxn = 3 if ctx.quick else 4
    for n in range(0, maxn + 1):
        idx = list(range(-2, n + 2))
        for np_ in range(0, 3):
            tuples = [[]]
            for _ in range(np_):
                tuples = [t + [i] for t in tuples for i in idx]
            for cells in tuples:
                combos = [(np_, np_)] if (ctx.quick and rng.next() % 4) else [(a, b) for a in (np_ - 1, np_, np_ + 1) for b in (np_ - 1, np_, np_ + 1)]
                for lx, ly in combos:
                    if lx < 0 or ly < 0:
                        continue
                    s = rand_state(rng, n, inuse=1 if rng.coin(10) else 0)
                    xs = [rng.uni(-2, 5) for _ in range(lx)]
                    ys = [rng.uni(-2, 5) for _ in range(ly)]
                    lines.append("ADDNET %s %d %s %d %s %d %s %d" % (ser_state(s), len(cells), " ".join(map(str, cells)),
                                                                      lx, " ".join(map(str, xs)), ly, " ".join(map(str, ys)), rng.uni(1, 4)))
        # one 3-pin net with one bad pin at each position
        for pos in range(3):
            for bad in (-2, -1, n, n + 1):
                if n == 0:
                    continue
                cells = [rng.uni(0, n - 1) for _ in range(3)]
                cells[pos] = bad
                s = rand_state(rng, n)
                lines.append("ADDNET %s 3 %s 3 0 1 2 3 3 4 5 2" % (ser_state(s), " ".join(map(str, cells))))
    return [" ".join(l.split()) for l in lines]


def setnets_line(s, lim, cells, xs, ys, ws):
    def v(l):
        return "%d %s" % (len(l), " ".join(map(str, l)))
    return " ".join(("SETNETS %s %s %s %s %s %s" % (ser_state(s), v(lim), v(cells), v(xs), v(ys), v(ws))).split())


def gen_setnets(ctx, rng):
    lines = []
    maxn = 3 if ctx.quick else 4
    reps = 2 if ctx.quick else 8
    for _ in range(reps):
        for n in range(0, maxn + 1):
            s = rand_state(rng, n, inuse=1 if rng.coin(8) else 0)
            # a well-formed argument
            lim, cells = [0], []
            for _ in range(rng.uni(0, 3) if n else 0):
                d = rng.uni(0, 3)
                lim.append(lim[-1] + d)
                cells += [rng.uni(0, n - 1) for _ in range(d)]
            xs = [rng.uni(-2, 5) for _ in cells]
            ys = [rng.uni(-2, 5) for _ in cells]
            nn = len(lim) - 1
            for ws in ([], [rng.uni(1, 4) for _ in range(nn)]):
                lines.append(setnets_line(s, lim, cells, xs, ys, ws))
            ws = [rng.uni(1, 4) for _ in range(nn)]
            # every single malformation
            lines.append(setnets_line(s, [], cells, xs, ys, ws))
            lines.append(setnets_line(s, [], [], [], [], []))
            for first in (-1, 1):
                lines.append(setnets_line(s, [first] + lim[1:], cells, xs, ys, ws))
            for d in (-1, 1):
                lines.append(setnets_line(s, lim[:-1] + [lim[-1] + d], cells, xs, ys, ws))
                lines.append(setnets_line(s, lim, cells + [0] * d if d > 0 else cells[:-1], xs, ys, ws))
                lines.append(setnets_line(s, lim, cells, xs + [0] * d if d > 0 else xs[:-1], ys, ws))
                lines.append(setnets_line(s, lim, cells, xs, ys + [0] * d if d > 0 else ys[:-1], ws))
            for wl in range(0, nn + 3):
                lines.append(setnets_line(s, lim, cells, xs, ys, [rng.uni(1, 4) for _ in range(wl)]))
            if len(lim) >= 3:
                bad = list(lim)
                i = rng.uni(1, len(lim) - 2)
                bad[i] = bad[i + 1] + 1 + rng.uni(0, 2)
                lines.append(setnets_line(s, bad, cells, xs, ys, ws))
                bad2 = list(lim)
                bad2[i] = -1
                lines.append(setnets_line(s, bad2, cells, xs, ys, ws))
            for pos in range(len(cells)):
                for badc in range(-2, n + 2):
                    c2 = list(cells)
                    c2[pos] = badc
                    lines.append(setnets_line(s, lim, c2, xs, ys, ws))
    return lines


VEC_KEYS = ("w", "h", "f", "o", "pol", "x", "y", "ori", "lim", "wt", "pc", "px", "py")


def gen_cchk(ctx, rng):
    lines = []
    for n in range(0, 4):
        for _ in range(2 if ctx.quick else 8):
            s = rand_state(rng, n)
            lines.append("CCHK " + ser_state(s))
            for key in VEC_KEYS:
                for d in (-1, 1):
                    t = dict(s)
                    t[key] = list(s[key]) + [0] if d > 0 else list(s[key])[:-1]
                    if t[key] != s[key]:
                        lines.append("CCHK " + ser_state(t))
            t = dict(s)
            t["lim"] = [1] + s["lim"][1:]
            lines.append("CCHK " + ser_state(t))
            t = dict(s)
            t["lim"] = s["lim"] + [s["lim"][-1] + 2]
            lines.append("CCHK " + ser_state(t))
    return lines


def placeable_state(rng, H=10):
    """a small sane circuit (used where a mutated /repo may accept the parameters and really place); cells and rows of height H
    (1: sizes that are fractions of a cell height truncate to 0 units; 10; 2720: a real library's row height, widths scaled too)"""
    n = rng.uni(1, 4)
    s = rand_state(rng, n, nets=rng.uni(0, 2))
    u = 1 if H <= 10 else H // 8
    s["w"] = [w * u for w in s["w"]]
    s["x"] = [x * u for x in s["x"]]
    s["h"] = [H] * n
    s["f"] = [0] * n
    s["pol"] = [0] * n
    s["ori"] = [0] * n
    s["y"] = [rng.choice([0, H]) for _ in range(n)]
    s["rows"] = [(0, 60 * u, 0, H, 0), (0, 60 * u, H, 2 * H, 5)]
    s["inuse"] = 0
    return s


ENTER_HEIGHTS = (1, 10, 2720)


def gen_enter_probes(ctx, base_by_effort, lines, impl):
    """ENTER cases for EVERY probe of the tables (DBOUNDS / IBOUNDS neighbours + extra_probes) that ColoquinteParameters::check()
    rejects when it is set alone on the defaults: all three stages x cell heights 1, 10, 2720"""
    avail = [e for e in (3, 9, 1, 5, 7, 2, 4, 6, 8) if e in base_by_effort]
    if not avail:
        return [], {}
    base = base_by_effort[avail[0]]
    res = dict(zip(lines, impl))
    rng = common.Rng(ctx.seed + 1907)
    out, nrej, fields = [], 0, set()
    allp = probes() + extra_probes()
    for (key, val) in allp:
        fl = ser_struct(0, with_fields(base, [(key, val)]))
        if not res.get("PCHK 0 " + fl, "").startswith("THROW"):
            continue
        nrej += 1
        fields.add(key)
        for H in ENTER_HEIGHTS:
            for stage in range(3):
                out.append("ENTER %d %s %s" % (stage, ser_state(placeable_state(rng, H)), fl))
    out = list(dict.fromkeys(out))
    return out, {"probes": len(allp), "rejected_probes": nrej, "fields_with_a_rejected_probe": len(fields),
                 "cell_heights": list(ENTER_HEIGHTS), "stages": 3, "cases": len(out)}


BAD_EFFORTS = [e for e in range(-16, 33) if e < 1 or e > 9]
SPECIAL_EFFORTS = [-2147483648, 2147483647, -2147483647, 65536, -65536, 1 << 30, 256 + 3, -(1 << 31) + 9]


def rand_efforts(rng, k):
    out = []
    while len(out) < k:
        e = rng.uni(-2 ** 31, 2 ** 31 - 1)
        if e < 1 or e > 9:
            out.append(e)
    return out


def gen_ctor(ctx, rng):
    lines = []
    nr = 6 if ctx.quick else 60
    for k in range(7):
        for e in range(-16, 33):
            lines.append("CTOR %d %d" % (k, e))
        for e in SPECIAL_EFFORTS + rand_efforts(rng, nr):
            lines.append("CTOR %d %d" % (k, e))
    return lines


def gen_entere(ctx, rng):
    lines = []
    nr = 4 if ctx.quick else 40
    for stage in range(4):
        for e in BAD_EFFORTS + SPECIAL_EFFORTS[:3] + rand_efforts(rng, nr):
            lines.append("ENTERE %d %s %d" % (stage, ser_state(placeable_state(rng)), e))
    return lines


def gen_pseq(ctx, base_by_effort, rng):
    """PSEQ cases: ONE parameter object lives through a sequence of check() / edit / copy / assign / stage calls
    (harness/params.cpp header).  The edits use the probe table (values just inside / outside every literal bound)."""
    lines = []
    pr = probes()
    avail = [e for e in range(1, 10) if e in base_by_effort]
    if not avail:
        return lines, {}
    nseq = 700 if ctx.quick else 12000
    nsteps = 0
    for _ in range(nseq):
        k = 0 if rng.coin(60) else rng.uni(1, 6)
        e = rng.choice(avail)
        base = base_by_effort[e]
        mine = [q for q in pr if (q[0][0], q[0][1], FTYPE[q[0]]) in fields_of(k)]
        steps = []

        def use(n=1):
            for _ in range(n):
                c = rng.uni(0, 9)
                if c <= 3:
                    steps.append("1")
                elif c == 4:
                    steps.append("3")
                elif c == 5:
                    steps.append("4 %d %d" % (rng.choice(avail), rng.uni(0, 1)))
                elif c == 6:
                    steps.append("5")
                    steps.append("1")
                elif c == 7:
                    steps.append("7 " + ser_struct(k, with_fields(base, [rng.choice(mine)])))
                elif k == 0:
                    steps.append("6 %d" % rng.uni(0, 2))
                else:
                    steps.append("1")
        if rng.coin(85):
            use(rng.uni(1, 2))              # validated (or used for a placement) while valid
        for _ in range(rng.uni(1, 3)):
            assigns = [rng.choice(mine) for _ in range(1 if rng.coin(80) else 2)]
            steps.append("2 " + ser_struct(k, with_fields(base, assigns)))
            use(rng.uni(1, 3))
            if rng.coin(40):                # back to the valid values, and used again
                steps.append("2 " + ser_struct(k, base))
                use(rng.uni(1, 2))
        nsteps += len(steps)
        st = (ser_state(placeable_state(rng)) + " ") if k == 0 else ""
        lines.append("PSEQ %d %d %s%d %s" % (k, e, st, len(steps), " ".join(steps)))
    return lines, {"sequences": nseq, "steps": nsteps}


def eval_pseq(driver, cases):
    """runs the PSEQ cases (plain build) and judges every recorded call as the one-shot case it amounts to.
    returns dict: records, violations [(category, msg, detail)], mismatches [detail], nontrivial set, outcomes"""
    out = {"records": 0, "violations": [], "mismatches": [], "nontrivial": set(), "outcomes": {}, "oneshot": 0}
    if not cases:
        return out
    harness = common.build_harness("params", "plain")
    impl, _, _ = common.run_both([harness, "run"], None, cases, timeout=1200, chunk=100)
    recs = []      # (case, index, oneshot line, observed)
    for c, line in zip(cases, impl):
        for n, r in enumerate(line.split(" @@ ")):
            if " => " in r:
                a, b = r.split(" => ", 1)
                recs.append((c, n, a.strip(), b.strip()))
            elif r.strip() or n == 0:
                if r.startswith("BADCASE"):
                    raise common.BuildError("malformed PSEQ case (generator bug): %s\n%s" % (r, c[:300]))
                out["violations"].append(("PSEQ/dies", "a sequence of check()/edit/copy/stage calls on one parameter object does not end in a "
                                          "catchable error: " + r[:200], {"case": c, "after_record": n, "implementation_output": line[-400:]}))
    out["records"] = len(recs)
    # phase A: every check() of the sequences, and the parameter set of every stage call, as one-shot PCHK on a fresh object
    def pchk_of(one):
        if one.startswith("PCHK "):
            return one
        t = one.split()
        _, j = parse_case_state(t, 2)
        return "PCHK 0 " + " ".join(t[j:])
    la = sorted(set(pchk_of(r[2]) for r in recs))
    ia, ma, _ = common.run_both([harness, "run"], [driver], la, timeout=1200)
    fresh = dict(zip(la, zip(ia, ma)))
    # phase B: stage calls that were refused, or whose parameters a fresh check() rejects, as one-shot ENTER
    lb = sorted(set(r[2] for r in recs if r[2].startswith("ENTER ") and (not r[3].startswith("OK") or not fresh[pchk_of(r[2])][0].startswith("OK"))))
    ib, mb, _ = common.run_both([harness, "run"], [driver], lb, timeout=1200) if lb else ([], [], None)
    fresh.update(dict(zip(lb, zip(ib, mb))))
    out["oneshot"] = len(la) + len(lb)
    for c, n, one, obs in recs:
        fi, fm = fresh[pchk_of(one)]
        kind = one.split()[0]
        key = "seq:%s:%s" % (kind, obs.split(" ", 1)[0])
        out["outcomes"][key] = out["outcomes"].get(key, 0) + 1
        if fm.startswith("THROW"):
            out["nontrivial"].add(one)
        detail = {"case": c, "variant": "plain", "format": "see harness/params.cpp header (PSEQ)", "record": n,
                  "call_as_one_shot_case": one, "implementation_output": obs, "fresh_object_same_values": fi, "model_output": fm}
        if kind == "PCHK":
            if obs.startswith("OK") and fi.startswith("THROW"):
                msg = ("after an earlier check()/copy/use of the same object, check() accepts field values that check() rejects on a fresh "
                       "object (%s)" % fi[6:80])
                out["violations"].append(("PSEQ/rejected-values-accepted", msg, dict(detail, why=msg)))
            elif died(obs):
                out["violations"].append(("PSEQ/dies", "check() inside a sequence does not end in a catchable error: " + obs[:120], dict(detail)))
            elif obs != fm.strip():
                out["mismatches"].append(detail)
        else:
            why = oracle(one, obs, {one: fi})
            if why:
                out["violations"].append(("PSEQ-ENTER/" + why[0], "inside a sequence on one parameter object: " + why[1], dict(detail, why=why[1])))
            elif one in fresh:
                m2 = fresh[one][1]
                if not m2.startswith("WORK") and norm_for_compare(one, obs) != norm_for_compare(one, m2):
                    out["mismatches"].append(dict(detail, model_output=m2, fresh_object_same_values=fresh[one][0]))
    return out


# ------------------------------------------------------------------ oracle: the statement of C19 on the C++ output
def split_state(line):
    """'RES | state' -> (RES, [state tokens]) ; (line, None) when there is no state"""
    if " | " in line:
        a, b = line.split(" | ", 1)
        return a, b.split()
    return line, None


def parse_case_state(toks, i):
    """reads a raw state from the case tokens starting at i; returns (state token list, next index)"""
    j = i
    for _ in range(13):
        n = int(toks[j])
        j += 1 + n
    n = int(toks[j])
    j += 1 + 5 * n
    j += 3
    return toks[i:j], j


def read_vec(toks, i, width=1):
    n = int(toks[i])
    return [int(x) for x in toks[i + 1:i + 1 + n * width]], i + 1 + n * width


def state_ncells(st):
    return int(st[0])


def state_nnets(st):
    """number of nets of a raw state token list = len(netLimits) - 1"""
    j = 0
    for _ in range(8):
        j += 1 + int(st[j])
    return int(st[j]) - 1


def died(res):
    return res.startswith(("DIED", "ABORT", "SEGV", "FPE", "SIGNAL", "<missing>", "BADCASE", "NOCTOR")) or res == ""


def oracle(case, impl, aux):
    """returns None when the C++ behaviour satisfies the statement of C19 on this case, else a reason.
    aux: dict case -> result of the follow-up PCHK run (for CTOR ok-values and ENTER parameters)"""
    toks = case.split()
    tag = toks[0]
    res, st_after = split_state(impl)
    if died(res):
        what = {"CTOR": lambda: "%s(%s)" % (KNAME[int(toks[1])], toks[2]), "SET": lambda: "setter %s" % toks[1],
                "ENTER": lambda: "stage %s" % toks[1], "ENTERE": lambda: "stage %s with effort %s" % (toks[1], toks[-1])}
        if tag == "ENTER" and (aux.get(case) or "").startswith("THROW"):
            return "dies", ("stage %s entered with a parameter set that check() rejects (%s) is not refused with a catchable error before any "
                            "placement work and without undefined behaviour: the child process died / did not finish: %s"
                            % (toks[1], aux[case][6:90], res[:200]))
        return "dies", "%s does not end in a catchable error: %s" % (what.get(tag, lambda: tag)(), res[:200])
    if tag == "CTOR":
        k, e = int(toks[1]), int(toks[2])
        if 1 <= e <= 9:
            if not res.startswith("OK "):
                return "effort-in-refused", "effort %d in 1..9 is refused by %s: %s" % (e, KNAME[k], res[:120])
            follow = aux.get(case)
            if follow is not None and follow != "OK":
                return "defaults-fail-check", "the parameters built for effort %d do not pass their own check(): %s" % (e, follow[:120])
        elif k in (0, 1, 2, 4, 6):
            if not res.startswith("THROW"):
                return "effort-out-accepted", "effort %d outside 1..9 is not refused by %s: %s" % (e, KNAME[k], res[:80])
        return None
    if tag == "PCHK" or tag == "CCHK":
        return None
    if tag == "SET":
        sid = int(toks[1])
        st, j = parse_case_state(toks, 2)
        L = int(toks[j])
        want = None if sid == 10 else (state_nnets(st) if sid == 9 else state_ncells(st))
        if want is not None and L != want:
            if not res.startswith("THROW"):
                return "wrong-length-accepted", "setter %d accepted a vector of length %d (expected %d): %s" % (sid, L, want, res[:60])
            if st_after != st:
                return "refused-but-changed", "setter %d refused the vector but changed the circuit" % sid
        elif res.startswith("THROW") and st_after != st:
            return "refused-but-changed", "setter %d threw and changed the circuit" % sid
        return None
    if tag == "ADDNET":
        st, j = parse_case_state(toks, 1)
        cells, j = read_vec(toks, j)
        xs, j = read_vec(toks, j)
        ys, j = read_vec(toks, j)
        n = state_ncells(st)
        bad = len(cells) != len(xs) or len(cells) != len(ys) or any(c < 0 or c >= n for c in cells)
        if bad and not res.startswith("THROW"):
            return "malformed-accepted", "addNet accepted a malformed net (cells %s of %d, %d x-offsets, %d y-offsets): %s" % (cells, n, len(xs), len(ys), res[:40])
        if res.startswith("THROW") and st_after != st:
            return "refused-but-changed", "addNet threw and changed the circuit"
        return None
    if tag == "SETNETS":
        st, j = parse_case_state(toks, 1)
        lim, j = read_vec(toks, j)
        cells, j = read_vec(toks, j)
        xs, j = read_vec(toks, j)
        ys, j = read_vec(toks, j)
        ws, j = read_vec(toks, j)
        n = state_ncells(st)
        bad = (not lim or lim[0] != 0 or any(a > b for a, b in zip(lim, lim[1:])) or lim[-1] != len(cells) or
               len(xs) != len(cells) or len(ys) != len(cells) or (ws and len(ws) != len(lim) - 1) or
               any(c < 0 or c >= n for c in cells))
        if bad and not res.startswith("THROW"):
            return "malformed-accepted", "setNets accepted malformed nets (limits %s, cells %s of %d, %d/%d offsets, %d weights): %s" % (
                lim, cells, n, len(xs), len(ys), len(ws), res[:40])
        if res.startswith("THROW") and st_after != st:
            return "refused-but-changed", "setNets threw and changed the circuit"
        return None
    if tag in ("ENTER", "ENTERE"):
        st, j = parse_case_state(toks, 2)
        # isInUse_ after an exception is C10's subject: not compared here
        a = None if st_after is None else st_after[:-3] + st_after[-2:]
        b = st[:-3] + st[-2:]
        if tag == "ENTERE":
            if not res.startswith("THROW"):
                return "effort-out-accepted", "stage %s accepted effort %s: %s" % (toks[1], toks[j], res[:60])
            if a != b:
                return "refused-but-changed", "stage %s refused effort %s but modified the circuit" % (toks[1], toks[j])
            return None
        follow = aux.get(case)
        if follow is not None and follow.startswith("THROW"):
            if not res.startswith("THROW"):
                return "rejected-params-accepted", "stage %s started with parameters that check() rejects (%s): %s" % (toks[1], follow[6:60], res[:40])
            if res != follow:
                return "other-error", "stage %s refused the parameters with another error than check(): %s vs %s" % (toks[1], res[:80], follow[:80])
            if a != b:
                return "refused-but-changed", "stage %s rejected the parameters but modified the circuit (flags/vectors differ)" % toks[1]
        return None
    return None


def norm_for_compare(case, line):
    """model and implementation lines made comparable: isInUse_ is dropped for the stage-entry cases"""
    if case.startswith(("ENTER ", "ENTERE ")):
        res, st = split_state(line)
        if st is not None and len(st) >= 3:
            return res + " | " + " ".join(st[:-3] + st[-2:])
    return line.strip()


def model_expect(case, model):
    """what the model line predicts for the implementation line"""
    if model == "UB" or model == "ABORT":
        return model
    return model




def sweep_lengths(n):
    """the wrong (and the right) lengths tried against a requirement of n entries: 0, 1, n-1, n, n+1, n+2, 2n"""
    return sorted({L for L in (0, 1, n - 1, n, n + 1, n + 2, 2 * n) if L >= 0})


def setter_arg(rng, sid, L):
    if sid in (2, 3):
        return [rng.uni(0, 1) for _ in range(L)]
    if sid == 4:
        return [rng.uni(0, 7) for _ in range(L)]
    if sid == 5:
        return [rng.uni(0, 4) for _ in range(L)]
    if sid == 8:
        return [v for _ in range(L) for v in (rng.uni(-9, 9), rng.uni(-9, 9), rng.uni(0, 7))]
    if sid == 10:
        return [v for i in range(L) for v in (rng.uni(-3, 3), rng.uni(4, 9), i, i + 1, rng.uni(0, 7))]
    if sid == 9:
        return [rng.uni(1, 5) for _ in range(L)]
    return [rng.uni(-9, 9) for _ in range(L)]


def gen_lengths(ctx, rng):
    """the length sweep 0, 1, n-1, n, n+1, n+2, 2n on LARGER circuits than gen_setters / gen_addnet / gen_setnets reach (n = 5, 8, 13 cells;
    nets of 4 and 6 pins), for every modelled entry point: the eleven setters, the offset vectors of addNet, the five vectors of setNets.
    Returns {"SET": [...], "ADDNET": [...], "SETNETS": [...]}"""
    out = {"SET": [], "ADDNET": [], "SETNETS": []}
    for n in ((5, 8) if ctx.quick else (5, 8, 13)):
        for sid in range(11):
            s = rand_state(rng, n, nets=(4 if sid == 9 else None), inuse=1 if rng.coin(15) else 0)
            want = len(s["wt"]) if sid == 9 else n
            for L in sweep_lengths(want):
                out["SET"].append(("SET %d %s %d %s" % (sid, ser_state(s), L, " ".join(map(str, setter_arg(rng, sid, L))))).rstrip())
        for npins in (4, 6):
            cells = [rng.uni(0, n - 1) for _ in range(npins)]
            for lx in sweep_lengths(npins):
                for ly in sweep_lengths(npins):
                    if lx != npins and ly != npins and rng.next() % 3:
                        continue
                    s = rand_state(rng, n)
                    out["ADDNET"].append(" ".join(("ADDNET %s %d %s %d %s %d %s %d" % (
                        ser_state(s), npins, " ".join(map(str, cells)), lx, " ".join(str(rng.uni(-2, 5)) for _ in range(lx)),
                        ly, " ".join(str(rng.uni(-2, 5)) for _ in range(ly)), rng.uni(1, 4))).split()))
            # ... and the cell vector against correct-length offsets of another length
            for lc in sweep_lengths(npins):
                s = rand_state(rng, n)
                out["ADDNET"].append(" ".join(("ADDNET %s %d %s %d %s %d %s 2" % (
                    ser_state(s), lc, " ".join(str(rng.uni(0, n - 1)) for _ in range(lc)), npins, " ".join(["1"] * npins), npins, " ".join(["2"] * npins))).split()))
        s = rand_state(rng, n)
        lim, cells = [0], []
        for d in (2, 3, 1, 4):
            lim.append(lim[-1] + d)
            cells += [rng.uni(0, n - 1) for _ in range(d)]
        xs, ys, ws = [1] * len(cells), [2] * len(cells), [1, 2, 3, 1]
        np_ = len(cells)
        for L in sweep_lengths(np_):
            pad = lambda v, fill: (v + [fill] * L)[:L]
            out["SETNETS"].append(setnets_line(s, lim, pad(cells, 0), xs, ys, ws))
            out["SETNETS"].append(setnets_line(s, lim, cells, pad(xs, 0), ys, ws))
            out["SETNETS"].append(setnets_line(s, lim, cells, xs, pad(ys, 0), ws))
            out["SETNETS"].append(setnets_line(s, lim, pad(cells, 0), pad(xs, 0), pad(ys, 0), ws))
        for L in sweep_lengths(len(ws)):
            out["SETNETS"].append(setnets_line(s, lim, cells, xs, ys, (ws + [1] * L)[:L]))
        for L in sweep_lengths(len(lim)):
            out["SETNETS"].append(setnets_line(s, (lim + [lim[-1]] * L)[:L], cells, xs, ys, ws))
    return out


def gen_vec(ctx, rng):
    """VEC cases: the per-cell vector entry points outside Params.v (expandCellsByFactor, mean/rms/maxDisruption) with the lengths
    0, 1, n-1, n, n+1, n+2, 2n on circuits of n = 0, 1, 2, 3, 5, 8 cells (n = 0: every non-empty vector is a wrong length)"""
    lines = []
    for rep_ in range(1 if ctx.quick else 4):
        for n in (0, 1, 2, 3, 5, 8):
            for L in sweep_lengths(n):
                for variant in range(3):
                    s = rand_state(rng, n, inuse=0)
                    if variant == 1:
                        s["f"] = [1] * n                       # fixed cells only: the area loop reads no factor
                    if variant == 2 and not s["rows"]:
                        s["rows"] = [(0, 40, 0, 10, 0)]
                    fac = [rng.choice([4, 4, 5, 6, 8, 12]) for _ in range(L)]
                    if L and L == n and rng.coin(25):
                        fac[rng.uni(0, L - 1)] = 2             # a factor 0.5 < 1 with the right length: refused as well (documented range)
                    md = rng.choice(["1 0", "1 -1", "1 1", "3 -2"])
                    lines.append("VEC 0 %s %d %s %s 0 0" % (ser_state(s), L, " ".join(map(str, fac)), md))
                for vid in range(1, 10):
                    if L == n and n == 0 and vid >= 7:
                        continue      # maxDisruption of an EMPTY circuit with (valid) empty solutions dereferences max_element's end(): observation, not a wrong length
                    s = rand_state(rng, n, inuse=0)
                    arg = [v for _ in range(L) for v in (rng.uni(-9, 30), rng.uni(-9, 30), rng.uni(0, 7))]
                    lines.append("VEC %d %s %d %s %d" % (vid, ser_state(s), L, " ".join(map(str, arg)), rng.uni(0, 5)))
    return [" ".join(l.split()) for l in lines]


def oracle_vec(case, impl):
    """the statement of C19 on a VEC case: None, or (category, reason)"""
    toks = case.split()
    vid = int(toks[1])
    st, j = parse_case_state(toks, 2)
    L = int(toks[j])
    n = state_ncells(st)
    name = VEC_NAME.get(vid, "entry point %d" % vid)
    res, st_after = split_state(impl)
    if died(res):
        return "dies", ("Circuit::%s called with a vector of %d entries on a circuit of %d cells does not end in a catchable error (undefined "
                        "behaviour / the child process died): %s" % (name, L, n, res[:220]))
    if L != n:
        if not res.startswith("THROW"):
            return "wrong-length-accepted", "Circuit::%s accepted a vector of %d entries on a circuit of %d cells: %s" % (name, L, n, res[:60])
        if st_after != st:
            return "refused-but-changed", "Circuit::%s refused the vector of %d entries (%d cells) but changed the circuit" % (name, L, n)
        return None
    if vid == 0:
        low = any(int(x) < 4 for x in toks[j + 1:j + 1 + L])
        if low and not res.startswith("THROW"):
            return "out-of-range-accepted", "Circuit::expandCellsByFactor accepted an expansion factor below 1 (documented: at least 1): %s" % res[:60]
        if not low and res.startswith("THROW") and LEN_MSG_EXPAND in res:
            return "right-length-refused", "Circuit::expandCellsByFactor refused a vector with one entry per cell (%d): %s" % (n, res[:90])
    elif res.startswith("THROW"):
        return "right-length-refused", "Circuit::%s refused solutions with one entry per cell (%d): %s" % (name, n, res[:90])
    elif st_after != st:
        return "query-changed-circuit", "Circuit::%s (a query) changed the circuit" % name
    if res.startswith("THROW") and st_after != st:
        return "refused-but-changed", "Circuit::%s threw and changed the circuit" % name
    return None

# ------------------------------------------------------------------ every public entry point of coloquinte.hpp that takes a vector
import re

_CXX_KEYWORDS = {"if", "for", "while", "switch", "return", "sizeof", "catch", "static_cast", "decltype", "operator", "assert", "throw"}


def vector_entry_points(header_text):
    """[(scope, name, [names of the std::vector / PlacementSolution parameters])] for every PUBLIC member function of a class / struct
    and every namespace-scope function DECLARED in the header text whose parameter list has a std::vector (or the alias
    PlacementSolution = std::vector<CellPlacement>) parameter.  Small hand-written scanner: comments and string literals are blanked,
    braces are tracked (class / struct / namespace scopes are named, every other brace -- inline function bodies -- is anonymous and
    nothing inside it is a declaration), access labels are followed (class: private by default, struct: public)."""
    s = re.sub(r"/\*.*?\*/", lambda m: " " * len(m.group(0)), header_text, flags=re.S)
    s = re.sub(r"//[^\n]*", lambda m: " " * len(m.group(0)), s)
    s = re.sub(r'"(?:[^"\\\n]|\\.)*"', lambda m: " " * len(m.group(0)), s)
    out = []
    stack = []                     # [kind, name, access]
    i, n = 0, len(s)
    pending = None                 # (kind, name) seen after the keyword class / struct / namespace, waiting for its '{' (or ';')
    tok = re.compile(r"[A-Za-z_~][A-Za-z_0-9]*|[{}();]|\S")
    pos = 0
    while True:
        m = tok.search(s, pos)
        if not m:
            break
        w = m.group(0)
        pos = m.end()
        if w in ("class", "struct", "namespace"):
            m2 = re.compile(r"\s*([A-Za-z_][A-Za-z_0-9]*)?").match(s, pos)
            prev = s[max(0, m.start() - 6):m.start()]
            if w != "namespace" and prev.rstrip().endswith("enum"):
                pending = ("anon", "")             # enum class X { ... }
            else:
                pending = (w, m2.group(1) or "")
            pos = m2.end()
            continue
        if w == ";":
            pending = None
            continue
        if w == "{":
            if pending:
                stack.append([pending[0], pending[1], "public" if pending[0] in ("struct", "namespace") else "private"])
            else:
                stack.append(["anon", "", ""])
            pending = None
            continue
        if w == "}":
            if stack:
                stack.pop()
            continue
        if w in ("public", "private", "protected") and stack and stack[-1][0] in ("class", "struct") and re.compile(r"\s*:(?!:)").match(s, pos):
            stack[-1][2] = w
            continue
        if w == "(" or not (w[0].isalpha() or w[0] in "_~"):
            continue
        m3 = re.compile(r"\s*\(").match(s, pos)
        if not m3 or w in _CXX_KEYWORDS:
            continue
        # w( ... ) : find the matching parenthesis
        depth, k = 1, m3.end()
        while k < n and depth:
            depth += {"(": 1, ")": -1}.get(s[k], 0)
            k += 1
        params = s[m3.end():k - 1]
        in_decl_scope = (not stack) or stack[-1][0] in ("class", "struct", "namespace")
        public = all(fr[0] != "class" and fr[0] != "struct" or fr[2] == "public" for fr in stack)
        if in_decl_scope and pending is None and ("std::vector" in params or "PlacementSolution" in params):
            names = []
            d2, cur = 0, ""
            for ch in params + ",":
                if ch in "<(":
                    d2 += 1
                elif ch in ">)":
                    d2 -= 1
                if ch == "," and d2 == 0:
                    if "std::vector" in cur or "PlacementSolution" in cur:
                        decl = cur.split("=")[0].strip()
                        names.append(re.findall(r"[A-Za-z_][A-Za-z_0-9]*", decl)[-1])
                    cur = ""
                else:
                    cur += ch
            if public:
                scope = "::".join(fr[1] for fr in stack if fr[0] in ("class", "struct"))
                out.append((scope, w, names))
            pos = k            # the parameter list holds no further declaration
        # (a call inside an inline body is skipped by in_decl_scope; its arguments are scanned on)
    return out


# What the check does with each of them.  "SET k" / "ADDNET" / "SETNETS": swept by the modelled case kinds (Params.v, theorems
# c19_setters_refuse_wrong_length, c19_addnet_refuses_bad_cell, c19_setnets_accepts_iff); "VEC k": swept by the VEC cases (statement oracle
# and sanitizers only, no Coq model); "any length": the vector is not per cell / net / pin, every length is a valid argument (setRows is
# modelled so: setter_expected (ARows _) = None, theorem c19_setter_requirements).
VECTOR_ENTRY_POINTS = {
    ("Row", "freespace", ("obstacles",)): "any length (a list of obstacle rectangles)",
    ("Circuit", "setCellX", ("x",)): "SET 0", ("Circuit", "setCellY", ("y",)): "SET 1",
    ("Circuit", "setCellIsFixed", ("f",)): "SET 2", ("Circuit", "setCellIsObstruction", ("f",)): "SET 3",
    ("Circuit", "setCellOrientation", ("orient",)): "SET 4", ("Circuit", "setCellRowPolarity", ("f",)): "SET 5",
    ("Circuit", "setCellWidth", ("widths",)): "SET 6", ("Circuit", "setCellHeight", ("heights",)): "SET 7",
    ("Circuit", "setSolution", ("sol",)): "SET 8", ("Circuit", "setNetWeights", ("weights",)): "SET 9",
    ("Circuit", "setRows", ("r",)): "SET 10; any length (a list of rows)",
    ("Circuit", "addNet", ("cells", "xOffsets", "yOffsets")): "ADDNET",
    ("Circuit", "setNets", ("limits", "cells", "xOffsets", "yOffsets", "weights")): "SETNETS",
    ("Circuit", "computeRows", ("additionalObstacles",)): "any length (a list of obstacle rectangles)",
    ("Circuit", "expandCellsByFactor", ("expansionFactor",)): "VEC 0",
    ("Circuit", "computeCellExpansion", ("congestionMap",)): "any length (a list of congestion regions)",
    ("Circuit", "meanDisruption", ("a", "b")): "VEC 1 2 3", ("Circuit", "rmsDisruption", ("a", "b")): "VEC 4 5 6",
    ("Circuit", "maxDisruption", ("a", "b")): "VEC 7 8 9",
}
VEC_NAME = {0: "expandCellsByFactor"}
for _fn, _nm in enumerate(("meanDisruption", "rmsDisruption", "maxDisruption")):
    for _wh, _d in enumerate(("first solution of length L, second of nbCells", "second solution of length L, first of nbCells", "both solutions of length L")):
        VEC_NAME[1 + 3 * _fn + _wh] = "%s (%s)" % (_nm, _d)
LEN_MSG_EXPAND = "Target expansion should have one element per cell"


def entry_point_table(ctx):
    """compares the header of the tree under test with VECTOR_ENTRY_POINTS; returns (list found, list of problems)"""
    hdr = open(os.path.join(common.REPO, "src", "coloquinte.hpp")).read()
    got = [(sc, nm, tuple(ps)) for sc, nm, ps in vector_entry_points(hdr)]
    problems = []
    for e in got:
        if e not in VECTOR_ENTRY_POINTS:
            problems.append("public entry point %s::%s(%s) of coloquinte.hpp takes a vector and is not in the wrong-length sweep of checks/c19.py" % (e[0], e[1], ", ".join(e[2])))
    for e in VECTOR_ENTRY_POINTS:
        if e not in got:
            problems.append("entry point %s::%s(%s) of the sweep table is no longer declared (public) in coloquinte.hpp" % (e[0], e[1], ", ".join(e[2])))
    return got, problems

# ------------------------------------------------------------------ the check
def run_variant(variant, driver, lines, chunk=4000):
    harness = common.build_harness("params", variant)
    if not lines:
        return harness, [], []
    impl, model, _ = common.run_both([harness, "run"], [driver] if driver else None, lines, timeout=1200, chunk=chunk)
    return harness, impl, model


def followups(harness, lines, impl):
    """second phase: PCHK on the values built by the constructors (efforts 1..9) and on the parameter
    sets of the ENTER cases; returns dict case -> PCHK result"""
    fl, owner = [], []
    for c, i in zip(lines, impl):
        t = c.split()
        if t[0] == "CTOR" and 1 <= int(t[2]) <= 9 and i.startswith("OK "):
            fl.append("PCHK %s %s" % (t[1], i[3:]))
            owner.append(c)
        elif t[0] == "ENTER":
            st, j = parse_case_state(t, 2)
            fl.append("PCHK 0 " + " ".join(t[j:]))
            owner.append(c)
    if not fl:
        return {}
    out, _, _ = common.run_both([harness, "run"], None, fl, timeout=600)
    return dict(zip(owner, out))


def classify(case):
    t = case.split()
    if t[0] == "CTOR":
        return "CTOR-in" if 1 <= int(t[2]) <= 9 else "CTOR-out"
    return t[0]


def run(ctx):
    rng = common.Rng(ctx.seed)
    plain = common.build_harness("params", "plain")
    # translator: defaults table -> coq/ParamsDefaults_gen.v (before the proof build)
    changed, problems = regenerate(plain)
    for c, l in problems[:3]:
        ctx.violation("an effort from 1 to 9 does not yield parameters: %s -> %s" % (c, l[:200]),
                      {"case": c, "variant": "plain", "implementation_output": l,
                       "why": "every effort from 1 to 9 must construct (and the constructors run check())"})
    proof_ok, proof = common.proof_status(ctx, "C19")
    driver = common.build_driver("params")
    res9, _ = dump_defaults(plain)
    base_by_effort = {e: res9[(0, e)] for e in range(1, 10) if (0, e) in res9}
    sets = {k: [] for k in ("PCHK", "CTOR", "SET", "ADDNET", "SETNETS", "CCHK", "ENTERE")}
    dist = {}
    sets["CTOR"] += common.corpus("C19", ("CTOR ",))
    for sd in ([ctx.seed] if ctx.quick else [ctx.seed, ctx.seed + 1000, ctx.seed + 2000]):
        rng = common.Rng(sd)
        if base_by_effort:
            l, dist["pchk"] = gen_pchk(ctx, base_by_effort, rng)
            sets["PCHK"] += l
        sets["CTOR"] += gen_ctor(ctx, rng)
        sets["SET"] += gen_setters(ctx, rng)
        sets["ADDNET"] += gen_addnet(ctx, rng)
        sets["SETNETS"] += gen_setnets(ctx, rng)
        sets["CCHK"] += gen_cchk(ctx, rng)
        sets["ENTERE"] += gen_entere(ctx, rng)
        for k2, l2 in gen_lengths(ctx, rng).items():          # lengths 0, 1, n-1, n, n+1, n+2, 2n on circuits of 5 .. 13 cells
            sets[k2] += l2
    for k in sets:
        sets[k] = list(dict.fromkeys(sets[k]))
    # ENTER: parameter sets that the implementation's own check() rejects (phase 1 = the PCHK 0 cases)
    both = sets["CTOR"] + sets["ENTERE"] + sets["SET"] + sets["ADDNET"] + sets["SETNETS"] + sets["CCHK"]
    plain_only = sets["PCHK"] + common.corpus("C19", ("PCHK ", "SET ", "ADDNET ", "SETNETS ", "CCHK ", "ENTER ", "ENTERE "))
    lines_plain = both + plain_only
    _, impl_p, model_p = run_variant("plain", driver, lines_plain)
    rejected = [c for c, i in zip(lines_plain, impl_p) if c.startswith("PCHK 0 ") and i.startswith("THROW")]
    nenter = 400 if ctx.quick else 4000
    enter = []
    for n in range(min(nenter, 3 * len(rejected))):
        c = rejected[rng.next() % len(rejected)] if n >= len(rejected) or n % 2 else rejected[n]
        enter.append("ENTER %d %s %s" % (n % 3, ser_state(placeable_state(rng)), c[len("PCHK 0 "):]))
    # ... and every single rejected probe of the tables, all stages, three cell heights (one child process per ENTER case)
    enter_probe, enter_probe_dist = gen_enter_probes(ctx, base_by_effort, lines_plain, impl_p)
    enter = list(dict.fromkeys(enter + enter_probe))
    sets["ENTER"] = enter
    _, impl_e, model_e = run_variant("plain", driver, enter, chunk=120)
    asan_h, impl_a0, _ = run_variant("asan", None, both)
    _, impl_a1, _ = run_variant("asan", None, enter, chunk=120)
    impl_a = impl_a0 + impl_a1
    runs = [("plain", lines_plain + enter, impl_p + impl_e, model_p + model_e),
            ("asan", both + enter, impl_a, (model_p[:len(both)] + model_e))]
    nviol, nmism = 0, 0
    found = {}          # (kind, category) -> first failing case (the asan report is preferred: it names the line)
    kinds = {}
    outcomes = {}
    nontriv = set()
    first_mism = None
    for variant, lines, impl, model in runs:
        harness = common.build_harness("params", variant)
        aux = followups(harness, lines, impl)
        for c, i, m in zip(lines, impl, model):
            kind = classify(c)
            kinds[kind] = kinds.get(kind, 0) + 1
            okey = variant + ":" + kind + ":" + i.split(" ", 1)[0]
            outcomes[okey] = outcomes.get(okey, 0) + 1
            if m.startswith("THROW") or kind == "CTOR-in":
                nontriv.add(c)
            why = oracle(c, i, aux)
            differs = norm_for_compare(c, i) != norm_for_compare(c, m) and not m.startswith("WORK")
            if why:
                nviol += 1
                key = (kind, why[0])
                if key not in found or ("runtime error" in i and "runtime error" not in found[key][2]):
                    found[key] = (variant, c, i, m, why[1])
            elif differs:
                nmism += 1
                if first_mism is None:
                    first_mism = {"case": c, "variant": variant, "implementation": i, "model": m}
    # every PUBLIC entry point of coloquinte.hpp with a vector parameter is in the sweep (enumerated from the header of the tree under test)
    entry_points, ep_problems = entry_point_table(ctx)
    for msg in ep_problems[:3]:
        ctx.violation(msg, {"broken": "checks/c19.py VECTOR_ENTRY_POINTS (the list of vector-taking entry points the wrong-length sweep covers)",
                            "declared_in_header": ["%s::%s(%s)" % (a, b, ", ".join(c)) for a, b, c in entry_points]}, found_input=False)
    # the per-cell vector entry points outside Params.v (expandCellsByFactor, mean/rms/maxDisruption): statement oracle, plain and asan builds
    vec = common.corpus("C19", ("VEC ",))
    for sd in ([ctx.seed] if ctx.quick else [ctx.seed, ctx.seed + 1000, ctx.seed + 2000]):
        vec += gen_vec(ctx, common.Rng(sd + 311))
    vec = list(dict.fromkeys(vec))
    sets["VEC"] = vec
    for variant in ("plain", "asan"):
        _, impl_v, _ = run_variant(variant, None, vec, chunk=120)
        for c, i in zip(vec, impl_v):
            kinds["VEC"] = kinds.get("VEC", 0) + 1
            okey = variant + ":VEC:" + i.split(" ", 1)[0]
            outcomes[okey] = outcomes.get(okey, 0) + 1
            if i.startswith("THROW"):
                nontriv.add(c)
            why = oracle_vec(c, i)
            if why:
                nviol += 1
                key = ("VEC", why[0])
                if key not in found or (("AddressSanitizer" in i or "runtime error" in i) and not ("AddressSanitizer" in found[key][2] or "runtime error" in found[key][2])):
                    found[key] = (variant, c, i, "(not modelled)", why[1])
    # sequences on ONE parameter object (stale state kept between calls): every recorded call judged as a one-shot case
    pseq_cases = common.corpus("C19", ("PSEQ ",))
    pseq_dist = {}
    for sd in ([ctx.seed] if ctx.quick else [ctx.seed, ctx.seed + 1000, ctx.seed + 2000]):
        l, d = gen_pseq(ctx, base_by_effort, common.Rng(sd + 77))
        pseq_cases += l
        for k2, v2 in d.items():
            pseq_dist[k2] = pseq_dist.get(k2, 0) + v2
    pseq = eval_pseq(driver, pseq_cases)
    seen_cat = set()
    for cat, msg, detail in pseq["violations"]:
        nviol += 1
        if cat in seen_cat:
            continue
        seen_cat.add(cat)
        ctx.violation("C19 violated by /repo (plain build): " + msg, dict(detail, category=cat))
    nmism += len(pseq["mismatches"])
    if first_mism is None and pseq["mismatches"]:
        m0 = pseq["mismatches"][0]
        first_mism = {"case": m0["case"], "variant": "plain", "record": m0["record"], "call_as_one_shot_case": m0["call_as_one_shot_case"],
                      "implementation": m0["implementation_output"], "model": m0["model_output"]}
    nontriv |= pseq["nontrivial"]
    outcomes.update(pseq["outcomes"])
    kinds["PSEQ"] = len(pseq_cases)
    kinds["PSEQ-recorded-calls"] = pseq["records"]
    prio = ["CTOR-out", "ADDNET", "SETNETS", "VEC", "ENTER", "ENTERE", "CTOR-in", "SET", "PCHK", "CCHK"]
    for key in sorted(found, key=lambda k: (k[1] != "dies" or k[0] != "CTOR-out", prio.index(k[0]) if k[0] in prio else 99, k[1])):
        variant, c, i, m, msg = found[key]
        ctx.violation("C19 violated by /repo (%s build): %s" % (variant, msg),
                      {"case": c, "variant": variant, "format": "see harness/params.cpp header",
                       "implementation_output": i, "model_output": m, "why": msg, "category": "%s/%s" % key})
    # cross-check of the extracted code against evaluation inside Coq (efforts -16..32)
    vm_bad = None
    if proof_ok:
        exprs = ["map (fun e => match coloquinte_ctor default_tables e 7 with Ok _ => 0 | Throw _ => 1 | UBIndex => 2 | AbortAssert => 3 end) "
                 "[%s]" % ";".join("(%d)" % e for e in range(-16, 33))]
        got = common.vm_eval("C19", "From Coq Require Import List ZArith. Import ListNotations. Open Scope Z_scope.\n"
                                    "Require Import CV.Params CV.ParamsDefaults_gen.", exprs)
        want = "[" + "; ".join("0" if 1 <= e <= 9 else "1" for e in range(-16, 33)) + "]"
        mdl = dict(zip(lines_plain, model_p))
        ext = ["0" if m.startswith("OK") else "1" if m.startswith("THROW") else "2"
               for m in (mdl.get("CTOR 0 %d" % e, "") for e in range(-16, 33))]
        if got is None or got[0].replace(" ", "") != want.replace(" ", "") or "[" + ";".join(ext) + "]" != want.replace(" ", ""):
            vm_bad = {"vm_compute": got, "extracted": ext, "expected": want}
    if nviol == 0:
        if first_mism is not None:
            ctx.violation("correspondence Params.v <-> parameters.cpp/coloquinte.cpp broken (%d cases differ); no input violating C19 found"
                          % nmism, {"broken": "correspondence of coq/Params.v (theorems of Properties_C19.v)",
                                    "first_difference": first_mism}, found_input=False)
        if vm_bad is not None:
            ctx.violation("extracted model and vm_compute disagree on the constructor outcomes",
                          {"broken": "extraction cross-check", "detail": vm_bad}, found_input=False)
        if not proof_ok:
            ctx.violation("proof obligations of Properties_C19.v do not check (defaults table regenerated: %s)" % changed,
                          {"broken": "Properties_C19.v", "detail": proof}, found_input=False)
    elif not proof_ok:
        ctx.notes.append("proof broken as well")
    total = sum(len(r[1]) for r in runs) + pseq["records"] + pseq["oneshot"] + 2 * len(vec)
    cov = dict(proof)
    cov.update({"trusted_base": common.TRUSTED_BASE + [
                    "checks/c19.py translator (constructor dump -> coq/ParamsDefaults_gen.v) and its oracle()",
                    "the exact binary values of the literal bounds in Params.v were transcribed by hand (tied by the nextafter probes)"],
                "evaluations": total, "distinct_nontrivial": len(nontriv),
                "rule": "non-trivial = the model predicts a refusal (THROW) or the case is a constructor call with an effort in 1..9; "
                        "distinct = distinct case lines (sequence stream: distinct one-shot cases that the recorded calls amount to). "
                        "sequence stream (PSEQ): ONE parameter object (any of the 7 structs, efforts 1..9) lives through check(), in-place "
                        "edits of its public fields to the probe values just inside/outside every literal bound (and back to valid values), "
                        "copy construction, assignment into another (checked or unchecked) object, replacement by its own copy, a copy edited "
                        "on its own, and for ColoquinteParameters placeGlobal/legalize/placeDetailed on a small circuit with valid and then "
                        "invalid values; EVERY check()/stage call is recorded with the field values (and circuit state) read at that moment "
                        "and compared with the model and with a fresh object holding those values (one-shot PCHK/ENTER cases)",
                "sequence_stream": dict(pseq_dist, recorded_calls=pseq["records"], one_shot_cases_derived=pseq["oneshot"],
                                        calls_differing_from_model=len(pseq["mismatches"]), calls_violating_statement=len(pseq["violations"])),
                "vector_entry_points_declared_in_coloquinte_hpp": {"%s::%s(%s)" % (a, b, ", ".join(c)): VECTOR_ENTRY_POINTS.get((a, b, c), "NOT IN THE SWEEP")
                                                                   for a, b, c in entry_points},
                "kinds": kinds, "outcomes_by_variant_kind": outcomes, "pchk_distribution": dist.get("pchk"),
                "enter_probe_stream": enter_probe_dist,
                "defaults_table_regenerated": changed,
                "samples": [sets["CTOR"][0], sets["PCHK"][0] if sets["PCHK"] else "", sets["SET"][5], sets["ADDNET"][-1],
                            sets["SETNETS"][3], enter[0] if enter else "", sets["ENTERE"][0]] + pseq_cases[-1:] + vec[:1] + vec[-1:],
                "input_distribution": "constructors: 7 structs x efforts -16..32 exhaustive + 8 special + random 32-bit, child process per case, "
                                      "plain (assertions on) and asan (ASan+UBSan) builds; check(): every literal bound at nextafter below/at/above "
                                      "(ints b-1/b/b+1) singly on 2 bases and in pairs, relational grids, random; setters: 11 setters x n=0..%d cells x "
                                      "every length 0..n+2 x in-use; addNet: pin indices -2..n+1 exhaustive up to 2 pins x offset lengths; setNets: "
                                      "every single malformation of a well-formed argument; stage entry: rejected parameter sets (a seeded sample of the rejected "
                                      "PCHK sets: singles, pairs, relational, random) and refused efforts on small circuits with cells of height 10, PLUS "
                                      "every probe that check() rejects when set alone on the defaults -- the neighbours of every literal bound and, for every "
                                      "numeric field, 0 / -1 / +-0.05 / 0.5 / 1e9 (doubles), 0 / -1 / INT_MIN / INT_MAX (ints) -- at all three stages on "
                                      "circuits with cells of height 1, 10 and 2720 (enter_probe_stream); one CHILD PROCESS per ENTER / ENTERE case with a "
                                      "30 s CPU limit: a child that is killed by a signal (SIGFPE, SIGSEGV, SIGABRT, sanitizer report) or does not finish is "
                                      "a violation 'not refused with a catchable error before any placement work / without undefined behaviour'; state "
                                      "compared; sequences on one parameter object: see rule.  LENGTH SWEEP over EVERY public entry point of coloquinte.hpp "
                                      "with a std::vector / PlacementSolution parameter (enumerated from the header of the tree under test by "
                                      "vector_entry_points() and compared with the table VECTOR_ENTRY_POINTS: an entry point missing from the table fails the "
                                      "run): lengths 0, 1, n-1, n, n+1, n+2, 2n against a requirement of n -- the eleven setters on circuits of 5, 8 (13) cells, "
                                      "the offset and cell vectors of addNet for nets of 4 and 6 pins, the five vectors of setNets (modelled kinds: compared "
                                      "with Params.v), and the VEC cases (no Coq model; statement oracle on plain and asan builds, one child process per case): "
                                      "expandCellsByFactor and mean / rms / maxDisruption (first, second, both solutions) on circuits of 0, 1, 2, 3, 5, 8 cells "
                                      "(n = 0: every non-empty vector is a wrong length; the EMPTY vector is a wrong length whenever n > 0), movable, "
                                      "fixed-only and with / without rows: a wrong length must be refused with a catchable error and leave all 14 vectors "
                                      "and the flags unchanged, the right length must not be refused for its length, a factor below 1 is refused, a query "
                                      "leaves the circuit unchanged; vectors without a per-cell requirement (setRows, computeRows, computeCellExpansion, "
                                      "Row::freespace) are listed as 'any length'" % (3 if ctx.quick else 5),
                "model_vs_impl_differences": nmism, "impl_outputs_violating_statement": nviol,
                "violation_categories": {"%s/%s" % k: v[4][:160] for k, v in found.items()},
                "extraction_cross_check": "ok" if vm_bad is None else vm_bad})
    return ctx.finish(LEVEL, cov, [
        "NaN and infinite parameter values are outside the model (Q has neither); check() lets NaN through every comparison",
        "int fields are modelled over Z; values passed fit in 32 bits",
        "isInUse_ after a refused call is C10's subject and is not compared here",
        "'accepted set = ranges' is a Prop-level reading of check() (coloquinte_ok transcribes the same test lists); 'before any placement work' holds by construction of the model's `enter` and is validated per run; "
        "expandCellsByFactor and mean/rms/maxDisruption (VEC cases) have NO Coq model: their refusal of wrong lengths is validated by the statement oracle and the sanitizers on the cases of the run; "
        "maxDisruption on an EMPTY circuit with (valid) empty solutions dereferences max_element's end() -- an observation outside the wrong-length clause, not generated",
        "'without undefined behaviour' is expressible in Coq only for the four array[effort-1] reads and the unrepaired setNets asserts, elsewhere it is sanitizer-validated; place(int) has no model of its own; addNet has the refusal direction only",
        "net weights are small integers in the correspondence runs (exact floats)",
        "the work after an accepted parameter set (CWork) is not modelled in this property",
        "exp/log/round of the detailed-placer defaults are not modelled: the dumped table is (regenerated on every run)",
        "model tied to the code by exact comparison on the cases of this run"])


def replay(ctx, path):
    r = json.load(open(path))["replay"]
    case = r.get("case") or r["first_difference"]["case"]
    variant = r.get("variant") or r.get("first_difference", {}).get("variant", "plain")
    harness = common.build_harness("params", variant)
    driver = common.build_driver("params")
    if case.startswith("PSEQ "):
        o = eval_pseq(driver, [case])
        print("case   :", case)
        print("recorded calls:", o["records"])
        for cat, msg, d in o["violations"]:
            print("VIOLATES %s: %s" % (cat, msg))
            for k2 in ("record", "call_as_one_shot_case", "implementation_output", "fresh_object_same_values", "model_output"):
                print("   %s: %s" % (k2, d.get(k2)))
        for d in o["mismatches"]:
            print("DIFFERS FROM MODEL: record %s %s\n   impl : %s\n   model: %s" % (d["record"], d["call_as_one_shot_case"], d["implementation_output"], d["model_output"]))
        return 1 if o["violations"] or o["mismatches"] else 0
    if case.startswith("VEC "):
        impl, _, _ = common.run_both([harness, "run"], None, [case])
        why = oracle_vec(case, impl[0])
        print("case   :", case)
        print("variant:", variant)
        print("entry  : Circuit::%s" % VEC_NAME.get(int(case.split()[1])))
        print("impl   :", impl[0])
        print("oracle :", why[1] if why else "statement holds on this case")
        return 1 if why else 0
    impl, model, _ = common.run_both([harness, "run"], [driver], [case])
    aux = followups(harness, [case], impl)
    why = oracle(case, impl[0], aux)
    print("case   :", case)
    print("variant:", variant)
    print("impl   :", impl[0])
    print("model  :", model[0])
    print("oracle :", why[1] if why else "statement holds on this case")
    bad = bool(why) or (norm_for_compare(case, impl[0]) != norm_for_compare(case, model[0]) and not model[0].startswith("WORK"))
    return 1 if bad else 0
