#!/bin/bash
# offline set-up: full .vo build of the Coq development, extraction, OCaml driver
set -e
cd "$(dirname "$0")/coq"
coq_makefile -f _CoqProject -o Makefile
timeout 3000 make -j16
cd ..
python3 -c "from tools import common; print(common.build_driver())"
