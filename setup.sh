#!/bin/bash
# offline set-up: full .vo build of the Coq development (never -vos), extraction, OCaml drivers.
# make -k: one file that does not compile must not take the other properties' proofs down with it;
# every check re-builds and inspects its own Properties_<id>.vo and reports what does not check.
cd "$(dirname "$0")"
python3 -c "from tools import common; common.coq_project()"
# route-1 translators: the generated Coq files are rewritten from /repo's current tree before the
# build (every check that depends on one regenerates it again before its own proof build)
python3 tools/bindings.py --repo "${VERIF_REPO:-/repo}" --coq coq/Bindings_gen.v || echo "bindings.py failed (C20 will report it)"
timeout 600 python3 tools/effects.py >/dev/null 2>&1 || echo "effects.py could not translate (C08 will report it)"
python3 tools/circuit_access.py --repo "${VERIF_REPO:-/repo}" --coq coq/CircuitAccess_gen.v || echo "circuit_access.py could not translate (C03 will report it)"
python3 tools/nondet.py --repo "${VERIF_REPO:-/repo}" --coq coq/Nondet_gen.v || echo "nondet.py could not translate (C08 will report it)"
python3 tools/machine_ops.py --repo "${VERIF_REPO:-/repo}" --coq coq/MachineOps_gen.v || echo "machine_ops.py could not translate (C07 will report it)"
cd coq
coq_makefile -f _CoqProject -o Makefile
timeout 3000 make -k -j16
cd ..
python3 - <<'PY'
import os, re
from tools import common
fams = [None] + sorted(m.group(1) for f in os.listdir(common.COQ) for m in [re.match(r"Extract_(\w+)\.v$", f)] if m)
for f in fams:
    try:
        print(common.build_driver(f))
    except common.BuildError as e:
        print("driver", f, "does not build:", str(e)[:500])
PY
exit 0
