#!/usr/bin/env python3
"""C08 translator no. 2 (route 1, TRUSTED BASE): sources of run-to-run nondeterminism in the library, read from
clang's AST + a token scan of /repo's current tree, written as the Coq table `coq/Nondet_gen.v`:

    Definition nondet_facts : list nfact := [ mkN "<function or file>" <kind> "<detail>" <line>; ... ].

kinds
  NClockPrint   a value derived from a clock (std::chrono::*::now(), time(), clock()) is only printed (operand of
                operator<< on an ostream)                                                     -- harmless
  NClockVar     such a value initialises / is assigned to a variable, which is tracked in turn   -- harmless by itself
  NClockOther   such a value is used in any other way (comparison, arithmetic outside a print, argument, return,
                condition ...): the result of placement may depend on the wall clock
  NRng          informative: a pseudo-random engine object / a .seed() call (deterministic unless fed by one of the others)
  NSource       any other source: std::random_device, rand()/srand(), getenv(), getpid(), thread ids, %p,
                unordered containers keyed by pointers, std::shuffle/random_shuffle without an engine ...
Nothing here decides what is allowed: that is `nondet_okb` of coq/Determinism.v (theorem
c08_no_nondeterminism_source evaluates it on the table of every run)."""
import glob
import os
import re
import sys

sys.path.insert(0, os.path.dirname(os.path.abspath(__file__)))
import circuit_access as ca  # clang_dump, walk, qt

CLOCK_CALLEES = {"now", "time", "clock", "gettimeofday", "clock_gettime", "steady_clock", "system_clock"}
ENGINE = re.compile(r"\b(mt19937(_64)?|minstd_rand0?|default_random_engine|ranlux\w+|knuth_b|mersenne_twister_engine|linear_congruential_engine)\b")
TOKEN_SOURCES = [
    (re.compile(r"\brandom_device\b"), "std::random_device"),
    (re.compile(r"(?<![\w:.>])s?rand\s*\("), "rand()/srand()"),
    (re.compile(r"\b(drand48|lrand48|random)\s*\(\s*\)"), "libc random"),
    (re.compile(r"\bgetenv\s*\("), "getenv()"),
    (re.compile(r"\bgetpid\s*\("), "getpid()"),
    (re.compile(r"this_thread\s*::\s*get_id|pthread_self"), "thread id"),
    (re.compile(r"%p"), "pointer value printed/formatted"),
    (re.compile(r"unordered_(map|set|multimap|multiset)\s*<\s*(const\s+)?[\w:]+\s*\*"), "unordered container keyed by a pointer (iteration order depends on addresses)"),
    (re.compile(r"\brandom_shuffle\b"), "std::random_shuffle (unspecified source of randomness)"),
    (re.compile(r"\bhardware_concurrency\b"), "std::thread::hardware_concurrency()"),
    (re.compile(r"reinterpret_cast\s*<\s*(std::)?(u?intptr_t|size_t|long)\s*>"), "address converted to an integer"),
    # ambient process state (seeded C08-11 / C08-12): the thread's errno, the state of the standard streams, the global locale
    (re.compile(r"(?<![\w.])errno\b"), "errno read or tested"),
    (re.compile(r"(if|while)\s*\(\s*!?\s*std\s*::\s*(cout|cerr|clog|cin)\s*[)&|]|std\s*::\s*(cout|cerr|clog)\s*\.\s*(good|fail|bad|eof|rdstate|operator\s+bool)\s*\("), "state of a standard stream tested"),
    (re.compile(r"\bsetlocale\s*\(|std\s*::\s*locale\s*(::\s*global|\s*\(\s*\))|\blocaleconv\s*\("), "global locale read or set"),
]


def is_clock_call(n):
    if n.get("kind") not in ("CallExpr", "CXXMemberCallExpr"):
        return False
    inner = [c for c in n.get("inner", []) if isinstance(c, dict)]
    if not inner:
        return False
    for w in ca.walk(inner[0]):
        if w.get("kind") == "DeclRefExpr":
            rd = w.get("referencedDecl", {})
            nm = rd.get("name", "")
            t = rd.get("type", {}).get("qualType", "")
            if nm == "now" and "chrono" in (t + ca.qt(n)):
                return True
            if nm in ("time", "clock", "gettimeofday", "clock_gettime") and rd.get("kind") == "FunctionDecl":
                return True
            return False
        if w.get("kind") == "MemberExpr":
            return False
    return False


def scan_function(fn, d, facts):
    """taint = values derived from a clock call; reports how each tainted value is used"""
    tainted = {}   # decl id -> name

    def lineof(n, default=0):
        for key in ("loc",):
            v = n.get(key, {})
            for vv in (v, v.get("expansionLoc", {}), v.get("spellingLoc", {})):
                if "line" in vv:
                    return vv["line"]
        b = n.get("range", {}).get("begin", {})
        for vv in (b, b.get("expansionLoc", {}), b.get("spellingLoc", {})):
            if "line" in vv:
                return vv["line"]
        return default

    state = {"line": 0}

    def classify(chain, idx, what):
        """chain[idx] is a tainted expression (clock call or reference to a tainted variable)"""
        x = idx
        while x > 0:
            p = chain[x - 1]
            pk = p.get("kind")
            if pk == "VarDecl":
                if p.get("id") not in tainted:
                    tainted[p["id"]] = p.get("name", "?")
                    return ("NClockVar", "%s -> variable %s" % (what, p.get("name", "?")), True)
                return ("NClockVar", "%s -> variable %s" % (what, p.get("name", "?")), False)
            if pk == "CXXOperatorCallExpr":
                inner = [c for c in p.get("inner", []) if isinstance(c, dict)]
                op = ""
                for w in ca.walk(inner[0]) if inner else []:
                    if w.get("kind") == "DeclRefExpr":
                        op = w.get("referencedDecl", {}).get("name", "")
                        break
                if op == "operator<<" and "ostream" in ca.qt(p):
                    return ("NClockPrint", "%s printed" % what, False)
                if op in ("operator-", "operator+", "operator/", "operator*") and "chrono" in ca.qt(p):
                    x -= 1
                    continue       # duration arithmetic: still a clock value, look further up
                if op == "operator=" and len(inner) > 1:
                    tgt = None
                    for w in ca.walk(inner[1]):
                        if w.get("kind") == "DeclRefExpr" and w.get("referencedDecl", {}).get("kind") == "VarDecl":
                            tgt = w["referencedDecl"]
                            break
                    if tgt is not None and inner[1] is not chain[x]:
                        new = tgt.get("id") not in tainted
                        tainted[tgt.get("id")] = tgt.get("name", "?")
                        return ("NClockVar", "%s -> variable %s" % (what, tgt.get("name", "?")), new)
                return ("NClockOther", "%s used as operand of %s" % (what, op or "an overloaded operator"), False)
            if pk in ("ImplicitCastExpr", "MaterializeTemporaryExpr", "ExprWithCleanups", "CXXBindTemporaryExpr", "ParenExpr",
                      "CXXConstructExpr", "CXXFunctionalCastExpr", "ConstantExpr", "CXXTemporaryObjectExpr", "CXXStaticCastExpr"):
                if pk in ("CXXConstructExpr", "CXXTemporaryObjectExpr", "CXXFunctionalCastExpr", "CXXStaticCastExpr") and "chrono" not in ca.qt(p):
                    return ("NClockOther", "%s converted to %s" % (what, ca.qt(p)[:60]), False)
                x -= 1
                continue
            if pk == "CXXMemberCallExpr":
                # .count() etc. on a duration: still a clock value
                inner = [c for c in p.get("inner", []) if isinstance(c, dict)]
                if inner and inner[0].get("kind") == "MemberExpr" and any(chain[x] is w for w in ca.walk(inner[0])):
                    x -= 1
                    continue
                return ("NClockOther", "%s passed to a member function" % what, False)
            if pk == "MemberExpr":
                x -= 1
                continue
            if pk == "DeclStmt":
                x -= 1
                continue
            return ("NClockOther", "%s used in %s" % (what, pk), False)
        return ("NClockOther", "%s used at top level" % what, False)

    # fixpoint: new tainted variables make further references tainted
    reported = set()
    for _ in range(8):
        grew = [False]

        def rec(n, chain):
            chain.append(n)
            l = lineof(n, state["line"])
            state["line"] = l
            hit = None
            if is_clock_call(n):
                hit = "clock value"
            elif n.get("kind") == "DeclRefExpr" and n.get("referencedDecl", {}).get("id") in tainted:
                hit = "clock-derived variable %s" % tainted[n["referencedDecl"]["id"]]
            if hit:
                kind, detail, new = classify(chain, len(chain) - 1, hit)
                if new:
                    grew[0] = True
                key = (kind, detail, l)
                if key not in reported:
                    reported.add(key)
                    facts.append((fn, kind, detail, l))
            if not (hit and hit == "clock value"):
                for c in n.get("inner", []) or []:
                    if isinstance(c, dict):
                        rec(c, chain)
            chain.pop()
        for c in d.get("inner", []) or []:
            if isinstance(c, dict):
                rec(c, [])
        if not grew[0]:
            break


def engines(objs, facts, srcname):
    """informative: every pseudo-random engine object and every .seed() call (an engine is deterministic unless its
    seed comes from a clock or another NSource, which the other facts report; a static engine is C08 translator
    no. 1's business: tools/effects.py lists it under sm_globals)"""
    def names(n):
        return " ".join(x.get("referencedDecl", {}).get("name", "") or x.get("name", "") for x in ca.walk(n) if x.get("kind") in ("DeclRefExpr", "MemberExpr"))
    for o in objs:
        for w in ca.walk(o):
            if w.get("kind") in ("FieldDecl", "VarDecl") and ENGINE.search(w.get("type", {}).get("qualType", "")):
                facts.append(("engine", "NRng", "engine %s declared (%s)" % (w.get("name", "?"), names(w)[:60]), w.get("loc", {}).get("line", 0)))
            if w.get("kind") == "CXXMemberCallExpr":
                inner = [c for c in w.get("inner", []) if isinstance(c, dict)]
                if inner and inner[0].get("kind") == "MemberExpr" and inner[0].get("name") == "seed":
                    facts.append(("engine", "NRng", "engine seeded: %s" % names(w)[:70], 0))


def token_scan(repo, facts):
    files = sorted(glob.glob(os.path.join(repo, "src", "**", "*.[ch]pp"), recursive=True))
    engine_fields = 0
    for f in files:
        txt = open(f, errors="replace").read()
        txt = re.sub(r"//[^\n]*", "", txt)
        txt = re.sub(r"/\*.*?\*/", lambda m: "\n" * m.group(0).count("\n"), txt, flags=re.S)
        for i, l in enumerate(txt.split("\n"), 1):
            for rx, what in TOKEN_SOURCES:
                if rx.search(l):
                    facts.append((os.path.relpath(f, repo), "NSource", what, i))
            if ENGINE.search(l) and not l.strip().startswith("#"):
                engine_fields += 1
    return len(files), engine_fields


def translate(repo):
    srcs = sorted(glob.glob(os.path.join(repo, "src", "place_global", "*.cpp")) +
                  glob.glob(os.path.join(repo, "src", "place_detailed", "*.cpp")) +
                  glob.glob(os.path.join(repo, "src", "*.cpp")))
    if not srcs:
        raise ca.TranslateError("no sources under %s/src" % repo)
    from concurrent.futures import ThreadPoolExecutor
    with ThreadPoolExecutor(max_workers=8) as ex:
        dumps = list(ex.map(lambda s_: ca.clang_dump(repo, s_), srcs))
    facts, seen, nfun = [], set(), 0
    for src, objs in zip(srcs, dumps):
        local = []
        for name, d in ca.function_defs(objs, src):
            nfun += 1
            scan_function(name, d, local)
        engines(objs, local, os.path.relpath(src, repo))
        for f in local:
            if f not in seen:
                seen.add(f)
                facts.append(f)
    nfiles, engine_mentions = token_scan(repo, facts)
    facts.sort(key=lambda u: (u[0], u[3], u[1], u[2]))
    return facts, nfun, nfiles


def coq_text(facts, nfun, nfiles):
    def s(x):
        return '"%s"' % str(x).replace('"', "'").replace("\n", " ")
    lines = ["(* GENERATED by tools/nondet.py from the C++ sources of the tree under check (clang AST + token scan), on every run of",
             "   ./check C08 and by setup.sh.  Do not edit.  %d function definitions, %d files scanned. *)" % (nfun, nfiles),
             "From Coq Require Import List String.", "Import ListNotations.", "Require Import CV.Determinism.",
             "Local Open Scope string_scope.", "", "Definition nondet_facts : list nfact := ["]
    lines.append(";\n".join("  mkN %s %s %s %d" % (s(a), k, s(b), l) for a, k, b, l in facts))
    lines.append("].")
    return "\n".join(lines) + "\n"


if __name__ == "__main__":
    repo = os.environ.get("VERIF_REPO") or "/repo"
    a = sys.argv[1:]
    if "--repo" in a:
        repo = a[a.index("--repo") + 1]
    try:
        facts, nfun, nfiles = translate(repo)
    except ca.TranslateError as e:
        print("nondet.py: CANNOT TRANSLATE: %s" % e, file=sys.stderr)
        sys.exit(2)
    if "--coq" in a:
        ch = ca.write_gen(a[a.index("--coq") + 1], coq_text(facts, nfun, nfiles))
        print("Nondet_gen.v %s (%d facts)" % ("rewritten" if ch else "unchanged", len(facts)))
    else:
        for f in facts:
            print("%-40s %-13s %-60s %d" % f)
        print("# %d facts, %d functions, %d files" % (len(facts), nfun, nfiles))
