"""C20 translator (route 1): pycoloquinte/module.cpp + the enum/struct declarations of
src/coloquinte.hpp  ->  a table of bindings and a table of C++ declarations.

  python3 tools/bindings.py [--repo /repo] --coq coq/Bindings_gen.v   writes the Coq table
  python3 tools/bindings.py [--repo /repo] --json                      prints the table as JSON

The tables are *text-level*: what the pybind11 source binds to what, and what the header
declares.  Nothing here decides whether a binding is right: that is `binding_okb` of
coq/Ispd.v (theorem c20_bindings_ok over the generated table) and, independently, `rule_ok`
below (used by checks/c20.py to name the failing binding).  The pure-Python stand-in of the
compiled module (tools/pystub/coloquinte_pybind.py) builds its enums from the same table, so
that a wrong binding is observable through the real coloquinte.py."""
import json
import os
import re
import sys


# ------------------------------------------------------------------ lexing helpers

def strip_cpp(text):
    """blank out comments, raw string literals and the contents of ordinary string literals that
    are not the first argument of a binding call is NOT done: ordinary string literals are kept
    (binding names live in them).  Line structure is preserved."""
    out = []
    i, n = 0, len(text)
    while i < n:
        if text.startswith("//", i):
            j = text.find("\n", i)
            j = n if j < 0 else j
            i = j
            continue
        if text.startswith("/*", i):
            j = text.find("*/", i + 2)
            j = n if j < 0 else j + 2
            out.append("".join(ch if ch == "\n" else " " for ch in text[i:j]))
            i = j
            continue
        m = re.match(r'R"([^()\\ ]{0,16})\(', text[i:i + 20])
        if m and (i == 0 or not (text[i - 1].isalnum() or text[i - 1] == "_")):
            end = ")" + m.group(1) + '"'
            j = text.find(end, i)
            j = n if j < 0 else j + len(end)
            out.append('""' + "".join("\n" for ch in text[i:j] if ch == "\n"))
            i = j
            continue
        if text[i] == '"':
            j = i + 1
            while j < n and text[j] != '"':
                j += 2 if text[j] == "\\" else 1
            out.append(text[i:j + 1])
            i = j + 1
            continue
        if text[i] == "'":
            j = i + 1
            while j < n and text[j] != "'":
                j += 2 if text[j] == "\\" else 1
            out.append(text[i:j + 1])
            i = j + 1
            continue
        out.append(text[i])
        i += 1
    return "".join(out)


def match_close(text, i, op="(", cl=")"):
    """index of the bracket closing the one at text[i]; string literals skipped"""
    depth, n = 0, len(text)
    while i < n:
        c = text[i]
        if c == '"':
            i += 1
            while i < n and text[i] != '"':
                i += 2 if text[i] == "\\" else 1
        elif c == op:
            depth += 1
        elif c == cl:
            depth -= 1
            if depth == 0:
                return i
        i += 1
    return -1


def split_args(s):
    """top-level comma split (parentheses, brackets, braces, angle brackets of templates, strings)"""
    args, depth, cur, i, n = [], 0, [], 0, len(s)
    while i < n:
        c = s[i]
        if c == '"':
            j = i + 1
            while j < n and s[j] != '"':
                j += 2 if s[j] == "\\" else 1
            cur.append(s[i:j + 1])
            i = j + 1
            continue
        if c in "([{":
            depth += 1
        elif c in ")]}":
            depth -= 1
        elif c == "<" and re.search(r"[A-Za-z_:]\s*$", "".join(cur)) and ">" in s[i:]:
            # template argument list (py::init<int, int>): treat as a bracket
            j = s.find(">", i)
            cur.append(s[i:j + 1])
            i = j + 1
            continue
        if c == "," and depth == 0:
            args.append("".join(cur).strip())
            cur = []
        else:
            cur.append(c)
        i += 1
    last = "".join(cur).strip()
    if last:
        args.append(last)
    return args


def strlit(a):
    m = re.fullmatch(r'"((?:[^"\\]|\\.)*)"', a.strip())
    return m.group(1) if m else None


def qualified(a):
    """'&Cls::name' or 'Enum::NAME' -> (Cls, name); anything else (lambda, py::init) -> None"""
    m = re.fullmatch(r"&?\s*(?:coloquinte::)?([A-Za-z_]\w*)\s*::\s*([A-Za-z_]\w*)", a.strip())
    return (m.group(1), m.group(2)) if m else None


# ------------------------------------------------------------------ module.cpp

def parse_module(path):
    raw = open(path).read()
    text = strip_cpp(raw)
    binds, classes = [], []
    for m in re.finditer(r"py::(enum_|class_)\s*<([^>]*)>\s*\(", text):
        kind = m.group(1)
        targs = [t.strip() for t in m.group(2).split(",")]
        close = match_close(text, m.end() - 1)
        cargs = split_args(text[m.end():close])
        pyname = strlit(cargs[1]) if len(cargs) > 1 else None
        cls = {"kind": "enum" if kind == "enum_" else "class", "cpp": targs[0], "bases": targs[1:],
               "py": pyname, "line": text.count("\n", 0, m.start()) + 1}
        classes.append(cls)
        # the chain of .name(args) calls up to the terminating ';'
        i = close + 1
        while True:
            mm = re.match(r"\s*\.\s*([A-Za-z_]\w*)\s*\(", text[i:])
            if not mm:
                break
            name = mm.group(1)
            op = i + mm.end() - 1
            cl = match_close(text, op)
            args = split_args(text[op + 1:cl])
            line = text.count("\n", 0, i + mm.start(1)) + 1
            b = None
            base = {"class_py": pyname, "class_cpp": targs[0], "line": line, "set_owner": "", "set": ""}
            if name == "value" and len(args) >= 2:
                q = qualified(args[1])
                b = dict(base, kind="enum", py=strlit(args[0]), owner=q[0] if q else "", cpp=q[1] if q else args[1])
            elif name == "def_readwrite" and len(args) >= 2:
                q = qualified(args[1])
                b = dict(base, kind="readwrite", py=strlit(args[0]), owner=q[0] if q else "", cpp=q[1] if q else args[1])
            elif name == "def_readonly" and len(args) >= 2:
                q = qualified(args[1])
                b = dict(base, kind="readonly_attr", py=strlit(args[0]), owner=q[0] if q else "", cpp=q[1] if q else args[1])
            elif name == "def_property" and len(args) >= 3:
                q, s = qualified(args[1]), qualified(args[2])
                b = dict(base, kind="property", py=strlit(args[0]), owner=q[0] if q else "", cpp=q[1] if q else "<expr>",
                         set_owner=s[0] if s else "", set=s[1] if s else "<expr>")
            elif name == "def_property_readonly" and len(args) >= 2:
                q = qualified(args[1])
                b = dict(base, kind="property_ro", py=strlit(args[0]), owner=q[0] if q else "", cpp=q[1] if q else "<expr>")
            elif name == "def" and len(args) >= 2 and strlit(args[0]) is not None:
                q = qualified(args[1])
                b = dict(base, kind="method", py=strlit(args[0]), owner=q[0] if q else "", cpp=q[1] if q else "<lambda>")
            if b is not None:
                if b["py"] is None:
                    b["py"] = "<expr>"
                binds.append(b)
            i = cl + 1
    return classes, binds


# ------------------------------------------------------------------ coloquinte.hpp

def parse_header(path):
    text = strip_cpp(open(path).read())
    decls = []
    for m in re.finditer(r"\benum\s+class\s+([A-Za-z_]\w*)\s*(?::\s*[\w ]+)?\{", text):
        cl = match_close(text, m.end() - 1, "{", "}")
        body = text[m.end():cl]
        vals, nxt = [], 0
        for item in body.split(","):
            item = item.strip()
            if not item:
                continue
            mm = re.fullmatch(r"([A-Za-z_]\w*)\s*(?:=\s*(-?\d+))?", item)
            if not mm:
                continue
            v = int(mm.group(2)) if mm.group(2) is not None else nxt
            vals.append((mm.group(1), v))
            nxt = v + 1
        decls.append({"kind": "enum", "name": m.group(1), "values": vals})
    for m in re.finditer(r"\b(struct|class)\s+([A-Za-z_]\w*)\s*(?::\s*(?:public\s+)?([A-Za-z_]\w*)\s*)?\{", text):
        if re.search(r"\benum\s+$", text[:m.start()]):
            continue
        cl = match_close(text, m.end() - 1, "{", "}")
        body = text[m.end():cl]
        name = m.group(2)
        fields, methods = [], []
        # statements at depth 0 of the body: terminated by ';' or by a '{...}' function body
        i, n, cur = 0, len(body), []
        stmts = []
        while i < n:
            c = body[i]
            if c == "{":
                j = match_close(body, i, "{", "}")
                stmts.append("".join(cur))
                cur = []
                i = j + 1
                # a trailing ';' after a body (none for functions) is harmless
                continue
            if c == "(":
                j = match_close(body, i)
                cur.append(body[i:j + 1])
                i = j + 1
                continue
            if c == ";":
                stmts.append("".join(cur))
                cur = []
            else:
                cur.append(c)
            i += 1
        for s in stmts:
            s = re.sub(r"\b(public|private|protected)\s*:", " ", s).strip()
            if not s or s.startswith("using ") or s.startswith("friend ") or s.startswith("typedef "):
                continue
            if "(" in s:
                head = s[:s.index("(")]
                # constructor initialiser lists 'Row(...) : Rectangle(a)' are cut at the first '('
                mm = re.search(r"([A-Za-z_]\w*)\s*$", head)
                if mm and mm.group(1) != name and "operator" not in head:
                    methods.append(mm.group(1))
            else:
                head = s.split("=")[0]
                mm = re.search(r"([A-Za-z_]\w*)\s*(?:\[[^\]]*\])?\s*$", head)
                if mm and re.search(r"[\w>&\*]\s+[A-Za-z_]\w*\s*(?:\[[^\]]*\])?\s*$", head):
                    fields.append(mm.group(1))
        decls.append({"kind": "struct", "name": name, "base": m.group(3) or "",
                      "fields": fields, "methods": sorted(set(methods), key=methods.index)})
    return decls


# ------------------------------------------------------------------ the naming rule (independent of Coq)

def camel(s):
    """snake_case -> camelCase: every '_' is dropped and the character after it upper-cased"""
    out, up = [], False
    for ch in s:
        if ch == "_":
            up = True
        else:
            out.append(ch.upper() if up else ch)
            up = False
    return "".join(out)


def cap(s):
    return s[:1].upper() + s[1:]


def owners(decls, cpp):
    """the class itself and its declared bases, transitively"""
    out, seen = [], set()
    while cpp and cpp not in seen:
        seen.add(cpp)
        out.append(cpp)
        d = [x for x in decls if x["kind"] == "struct" and x["name"] == cpp]
        cpp = d[0]["base"] if d else ""
    return out


def rule_ok(decls, b):
    """None when the binding obeys the rule, otherwise the reason.  Same rule as Ispd.binding_okb:
       enum value      py == C++ enumerator, qualifier == the enum bound by this py::enum_, enumerator declared there
       def_readwrite   C++ member == camel(py), a declared data member of the bound class or of a base
       def_property    getter == camel(py), setter == 'set'+Cap(camel(py)), both declared member functions
       def_property_readonly  getter == camel(py) or 'compute'+Cap(camel(py)), declared member function"""
    k = b["kind"]
    if k == "method":
        return None
    if k == "enum":
        d = [x for x in decls if x["kind"] == "enum" and x["name"] == b["class_cpp"]]
        if b["owner"] != b["class_cpp"]:
            return "value of another enum (%s) bound in py::enum_<%s>" % (b["owner"], b["class_cpp"])
        if not d or b["cpp"] not in [v for v, _ in d[0]["values"]]:
            return "%s::%s is not declared in coloquinte.hpp" % (b["owner"], b["cpp"])
        if b["py"] != b["cpp"]:
            return 'Python value "%s" is bound to %s::%s' % (b["py"], b["owner"], b["cpp"])
        return None
    own = owners(decls, b["class_cpp"])
    if b["owner"] not in own:
        return "member of %s bound in py::class_<%s>" % (b["owner"], b["class_cpp"])
    d = [x for x in decls if x["kind"] == "struct" and x["name"] == b["owner"]][0]
    want = camel(b["py"])
    if k in ("readwrite", "readonly_attr"):
        if b["cpp"] not in d["fields"]:
            return "%s::%s is not a declared data member" % (b["owner"], b["cpp"])
        if b["cpp"] != want:
            return 'attribute "%s" is bound to %s::%s (expected %s)' % (b["py"], b["owner"], b["cpp"], want)
        return None
    if b["cpp"] not in d["methods"]:
        return "%s::%s is not a declared member function" % (b["owner"], b["cpp"])
    if k == "property":
        if b["cpp"] != want:
            return 'property "%s": getter %s::%s (expected %s)' % (b["py"], b["owner"], b["cpp"], want)
        if b["set_owner"] not in own:
            return "setter of %s bound in py::class_<%s>" % (b["set_owner"], b["class_cpp"])
        ds = [x for x in decls if x["kind"] == "struct" and x["name"] == b["set_owner"]][0]
        if b["set"] not in ds["methods"]:
            return "%s::%s is not a declared member function" % (b["set_owner"], b["set"])
        if b["set"] != "set" + cap(want):
            return 'property "%s": setter %s::%s (expected set%s)' % (b["py"], b["set_owner"], b["set"], cap(want))
        return None
    if k == "property_ro":
        if b["cpp"] not in (want, "compute" + cap(want)):
            return 'read-only property "%s": getter %s::%s (expected %s or compute%s)' % (
                b["py"], b["owner"], b["cpp"], want, cap(want))
        return None
    return "unknown binding kind " + k


# ------------------------------------------------------------------ output

def table(repo):
    classes, binds = parse_module(os.path.join(repo, "pycoloquinte", "module.cpp"))
    decls = parse_header(os.path.join(repo, "src", "coloquinte.hpp"))
    return {"classes": classes, "bindings": binds, "decls": decls}


KIND_COQ = {"enum": "BEnum", "readwrite": "BReadWrite", "readonly_attr": "BReadWrite", "property": "BProperty",
            "property_ro": "BPropertyRO", "method": "BMethod"}


def coq_str(s):
    return '"' + s.replace('"', '""') + '"'


def coq_list(items, indent="  "):
    if not items:
        return "[]"
    return "[\n" + ";\n".join(indent + it for it in items) + "\n]"


def to_coq(t):
    bs = []
    for b in t["bindings"]:
        bs.append("mkB %s %s %s %s %s %s %s %s %d" % (
            KIND_COQ[b["kind"]], coq_str(b["class_py"] or ""), coq_str(b["class_cpp"]), coq_str(b["py"]),
            coq_str(b["owner"]), coq_str(b["cpp"]), coq_str(b["set_owner"]), coq_str(b["set"]), b["line"]))
    ds = []
    for d in t["decls"]:
        if d["kind"] == "enum":
            ds.append("DEnum %s [%s]" % (coq_str(d["name"]), "; ".join(coq_str(v) for v, _ in d["values"])))
        else:
            ds.append("DStruct %s %s [%s] [%s]" % (coq_str(d["name"]), coq_str(d["base"]),
                                                   "; ".join(coq_str(f) for f in d["fields"]),
                                                   "; ".join(coq_str(f) for f in d["methods"])))
    return ("(* GENERATED by tools/bindings.py from pycoloquinte/module.cpp and src/coloquinte.hpp of the tree under\n"
            "   check, on every run of ./check C20.  Do not edit.  The content depends only on those two files. *)\n"
            "From Coq Require Import List String.\nImport ListNotations.\nRequire Import CV.Ispd.\nLocal Open Scope string_scope.\n\n"
            "Definition bindings : list binding := " + coq_list(bs) + ".\n\n"
            "Definition decls : list decl := " + coq_list(ds) + ".\n")


def write_coq(repo, path):
    """writes the Coq table; the file is touched only when its content changes (no needless rebuild)"""
    txt = to_coq(table(repo))
    try:
        old = open(path).read()
    except OSError:
        old = None
    if old != txt:
        tmp = path + ".tmp%d" % os.getpid()
        with open(tmp, "w") as f:
            f.write(txt)
        os.replace(tmp, path)
    return txt


if __name__ == "__main__":
    repo = "/repo"
    a = sys.argv[1:]
    if "--repo" in a:
        repo = a[a.index("--repo") + 1]
    if "--coq" in a:
        write_coq(repo, a[a.index("--coq") + 1])
    else:
        t = table(repo)
        for b in t["bindings"]:
            b["rule"] = rule_ok(t["decls"], b)
        json.dump(t, sys.stdout, indent=1)
