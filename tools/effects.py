#!/usr/bin/env python3
"""C08 translator (TRUSTED BASE): reads the threaded section of /repo's working tree and writes
coq/Effects_gen.v, a value `effects : ForkJoin.summary`.

Sources of the facts
  1. clang++ -fsyntax-only -Xclang -ast-dump=json -Xclang -ast-dump-filter=runLB on
     src/place_global/place_global.cpp: the body of GlobalPlacer::runLB.  Extracted: the std::async
     calls (exactly two, each the initialiser of a top-level std::future variable), launch policy,
     callee (pointer to member function; const or not), the object it is invoked on, how every other
     argument is handed over (decay-copied value / std::ref / std::cref / pointer), the statements
     between the launches and the joins, the join statements `target = fut.get()`, any other use of
     the future variables.
  2. the same with -ast-dump-filter=<callee's class>: `mutable` fields and pointer/reference fields
     of the callee's class (a const member function can write through those).
  3. a token scan of every file of src/: `static` variables, `thread_local`, `mutable`,
     `const_cast`, namespace-scope non-const variables, and every concurrency primitive
     (std::async/std::thread/pthread/OpenMP/parallel algorithms): the two std::async calls of runLB
     must be the only ones.
  4. (cross-check of 3) the symbol table of the library compiled from the same tree: every OBJECT/TLS
     symbol that lives in a writable section (.data/.bss/.tdata/.tbss) -- this also sees function-local
     statics, inline variables and template statics however they are spelt.
Everything found by 3/4 that is not on EXPLAINED below goes to `sm_globals`, and Coq charges both
tasks with reading and writing it (so Properties_C08's `summary_ok effects = true` stops checking).

Fails loudly (TranslateError) whenever the source does not have the shape this file understands."""
import json
import os
import re
import subprocess
import sys

EXPLAINED = [
    # (regex on the demangled symbol / source finding, reason)
    (r"^std::__ioinit$", "libstdc++ iostream initialiser, one per translation unit that includes <iostream>; "
                         "constructed before main, not touched afterwards"),
    (r"^std::_Sp_make_shared_tag::_S_ti\(\)::__tag$", "libstdc++ type tag of std::make_shared (used by std::async's shared state); "
                                                      "only its address is used, never written"),
    (r"^guard variable for std::_Sp_make_shared_tag::_S_ti\(\)::__tag$", "guard of the above"),
    (r"(?i)verif", "verification hook state, compiled only with -DCOLOQUINTE_VERIF: not part of the library as shipped"),
    (r"^DW\.ref\.", "exception-handling indirection slot (personality routine / typeinfo pointer) emitted by the compiler; "
                   "relocated by the loader, never written by code"),
]

CONCURRENCY = re.compile(r"\b(std\s*::\s*async|std\s*::\s*thread|std\s*::\s*jthread|pthread_create|"
                         r"std\s*::\s*execution|omp_[a-z_]+|packaged_task|std\s*::\s*promise|fork\s*\(|"
                         r"std\s*::\s*atomic|std\s*::\s*mutex|std\s*::\s*condition_variable|__sync_|__atomic_)")


class TranslateError(Exception):
    pass


def _clang_dump(repo, src, flt):
    cmd = ["clang++", "-std=gnu++17", "-DCOLOQUINTE_VERIF", "-I" + os.path.join(repo, "src"), "-I/usr/include/eigen3",
           "-fsyntax-only", "-w", "-Xclang", "-ast-dump=json", "-Xclang", "-ast-dump-filter=" + flt,
           os.path.join(repo, src)]
    try:
        p = subprocess.run(cmd, capture_output=True, text=True, timeout=300)
    except (OSError, subprocess.TimeoutExpired) as e:
        raise TranslateError("clang++ could not be run: %s" % e)
    if p.returncode != 0:
        raise TranslateError("clang++ does not parse %s: %s" % (src, p.stderr[-800:]))
    dec = json.JSONDecoder()
    txt, i, objs = p.stdout, 0, []
    while True:
        while i < len(txt) and txt[i].isspace():
            i += 1
        if i >= len(txt):
            break
        o, i = dec.raw_decode(txt, i)
        objs.append(o)
    return objs


TRANSPARENT = {"ImplicitCastExpr", "MaterializeTemporaryExpr", "ExprWithCleanups", "CXXBindTemporaryExpr",
               "ParenExpr", "CXXConstructExpr", "CXXFunctionalCastExpr", "ConstantExpr"}


def strip(n):
    """skip wrappers that do not change which object is denoted"""
    while n.get("kind") in TRANSPARENT and len(n.get("inner", [])) == 1:
        n = n["inner"][0]
    return n


def walk(n):
    yield n
    for c in n.get("inner", []) or []:
        if isinstance(c, dict):
            yield from walk(c)


def qt(n):
    t = n.get("type", {})
    return t.get("desugaredQualType") or t.get("qualType", "")


def denotes(n):
    """name of the object an lvalue expression denotes: this->m, local:v; None when not understood"""
    n = strip(n)
    k = n.get("kind")
    if k == "MemberExpr":
        base = strip(n["inner"][0]) if n.get("inner") else {}
        if base.get("kind") == "CXXThisExpr":
            return "this->" + n.get("name", "?")
        b = denotes(base)
        return None if b is None else b + "." + n.get("name", "?")
    if k == "DeclRefExpr":
        rd = n.get("referencedDecl", {})
        if rd.get("kind") in ("VarDecl", "ParmVarDecl"):
            return "local:" + rd.get("name", "?")
        return None
    if k == "CXXThisExpr":
        return "this"
    return None


def is_async_call(n):
    if n.get("kind") != "CallExpr" or not n.get("inner"):
        return False
    c = strip(n["inner"][0])
    rd = c.get("referencedDecl", {})
    return c.get("kind") == "DeclRefExpr" and rd.get("name") == "async" and rd.get("kind") in ("FunctionDecl", "FunctionTemplateDecl")


def future_get(n):
    """if the expression contains `F.get()` on a future variable returns (F, node) for the first one"""
    for m in walk(n):
        if m.get("kind") == "CXXMemberCallExpr" and m.get("inner"):
            me = m["inner"][0]
            if me.get("kind") == "MemberExpr" and me.get("name") == "get" and me.get("inner"):
                b = strip(me["inner"][0])
                if b.get("kind") == "DeclRefExpr" and "future" in qt(b):
                    return b["referencedDecl"]["name"]
    return None


def parse_async(call, fut_name):
    args = call["inner"][1:]
    if not args:
        raise TranslateError("std::async call without arguments")
    res = {"future": fut_name}
    a0 = strip(args[0])
    if qt(a0).replace(" ", "") in ("std::launch", "launch"):
        rd = a0.get("referencedDecl", {})
        if a0.get("kind") != "DeclRefExpr" or rd.get("kind") != "EnumConstantDecl":
            raise TranslateError("launch policy of %s is not a plain enumerator" % fut_name)
        res["policy"] = rd.get("name")
        args = args[1:]
    else:
        res["policy"] = "<default>"
    if len(args) < 2:
        raise TranslateError("std::async call %s: expected `&Class::method, &object, args...` but found %d argument(s) of type %s "
                             "(lambdas / function objects are not understood by the translator)" % (fut_name, len(args), qt(strip(args[0]))[:100] if args else "-"))
    callee = strip(args[0])
    ct = qt(callee)
    m = re.search(r"\(([A-Za-z_0-9:]+)::\*\)\s*\((.*)\)\s*(const)?\s*(noexcept)?\s*$", ct)
    inner = strip(callee["inner"][0]) if callee.get("kind") == "UnaryOperator" and callee.get("opcode") == "&" else None
    if m is None or inner is None or inner.get("kind") != "DeclRefExpr" or inner.get("referencedDecl", {}).get("kind") != "CXXMethodDecl":
        raise TranslateError("callee of std::async %s is not `&Class::method` (type %s): lambdas / function objects are not "
                             "understood by the translator" % (fut_name, ct[:120]))
    res["class"] = m.group(1)
    res["callee"] = m.group(1) + "::" + inner["referencedDecl"]["name"]
    res["callee_const"] = m.group(3) == "const"
    res["param_types"] = [x.strip() for x in re.split(r",\s*(?![^<>]*>)", m.group(2))] if m.group(2).strip() else []
    obj = strip(args[1])
    if obj.get("kind") == "UnaryOperator" and obj.get("opcode") == "&":
        o = denotes(obj["inner"][0])
    elif obj.get("kind") == "CXXThisExpr":
        o = "this"
    else:
        o = None
    if o is None:
        raise TranslateError("object argument of std::async %s is not `&member`, `&local` or `this`" % fut_name)
    res["object"] = o
    res["byvalue"], res["byref_const"], res["byref_mut"], res["launch_reads"] = [], [], [], []
    for i, a in enumerate(args[2:]):
        s = strip(a)
        t = qt(s)
        if s.get("kind") == "CallExpr" and s.get("inner"):
            f = strip(s["inner"][0]).get("referencedDecl", {}).get("name")
            if f in ("ref", "cref") and len(s["inner"]) == 2:
                d = denotes(s["inner"][1])
                if d is None:
                    raise TranslateError("std::%s argument %d of %s: cannot name the referenced object" % (f, i, fut_name))
                (res["byref_const"] if f == "cref" else res["byref_mut"]).append(d)
                continue
        if "reference_wrapper" in t:
            raise TranslateError("argument %d of %s is a reference_wrapper the translator cannot resolve" % (i, fut_name))
        if t.rstrip().endswith("*"):
            if s.get("kind") == "UnaryOperator" and s.get("opcode") == "&":
                d = denotes(s["inner"][0])
                if d is not None:
                    (res["byref_const"] if t.lstrip().startswith("const ") else res["byref_mut"]).append(d)
                    continue
            raise TranslateError("argument %d of %s is a pointer the translator cannot resolve (%s)" % (i, fut_name, t[:80]))
        if "lambda" in t or "function<" in t:
            raise TranslateError("argument %d of %s is a callable (%s): not understood" % (i, fut_name, t[:80]))
        d = denotes(s)
        if d is None:
            # a temporary / computed expression: collect every named object it mentions
            srcs = [x for x in (denotes(m) for m in walk(s) if m.get("kind") in ("MemberExpr", "DeclRefExpr")) if x and x != "this"]
        else:
            srcs = [d]
        res["launch_reads"] = res.get("launch_reads", []) + [x for x in srcs if x not in res.get("launch_reads", [])]
        res["byvalue"].append("copy of " + (d if d is not None else "<expression %d>" % i))
    # a by-value argument must bind to a by-value or const& parameter (otherwise it would not compile, but say so)
    for pt in res["param_types"]:
        if pt.endswith("&") and not pt.startswith("const ") and not pt.endswith("&&"):
            if not res["byref_mut"]:
                raise TranslateError("callee %s has a non-const reference parameter %s" % (res["callee"], pt))
    return res


def class_facts(repo, src, cls):
    objs = _clang_dump(repo, src, cls)
    short = cls.split("::")[-1]
    recs = [o for o in objs if o.get("kind") == "CXXRecordDecl" and o.get("name") == short and o.get("completeDefinition")]
    if len(recs) != 1:
        raise TranslateError("definition of class %s not found (or found %d times) in the AST" % (cls, len(recs)))
    writable, fields, statics = [], [], []
    for f in recs[0].get("inner", []):
        if f.get("kind") == "FieldDecl":
            t = f["type"]["qualType"]
            fields.append(f["name"])
            if f.get("mutable"):
                writable.append("mutable " + f["name"])
            if "*" in t or "&" in t or "_ptr" in t or "reference_wrapper" in t or "function<" in t:
                writable.append("indirect " + f["name"] + " : " + t)
        elif f.get("kind") == "VarDecl":   # static data member
            t = f["type"]["qualType"]
            if not (t.startswith("const ") or f.get("constexpr")):
                statics.append(cls + "::" + f["name"])
    return fields, writable, statics


def accesses(n, futures):
    """conservative member/local accesses of a statement executed by the main thread while a task
    may still run: every named object mentioned counts as read and as written; calls to member
    functions of *this cannot be summarised"""
    locs = []
    for m in walk(n):
        if m.get("kind") == "CXXMemberCallExpr" and m.get("inner"):
            me = m["inner"][0]
            if me.get("kind") == "MemberExpr" and me.get("inner") and strip(me["inner"][0]).get("kind") == "CXXThisExpr":
                raise TranslateError("member function %s of *this is called while an asynchronous task may still run: "
                                     "its effects are not summarised by the translator" % me.get("name"))
        if m.get("kind") in ("MemberExpr", "DeclRefExpr"):
            if m.get("kind") == "MemberExpr" and "bound member function" in qt(m):
                continue
            d = denotes(m)
            if d is not None and d != "this" and not (d.startswith("local:") and d[6:] in futures):
                if d not in locs:
                    locs.append(d)
        if m.get("kind") == "LambdaExpr":
            raise TranslateError("lambda between launch and join: not understood")
    return locs


def parse_runlb(repo):
    src = "src/place_global/place_global.cpp"
    objs = _clang_dump(repo, src, "runLB")
    defs = [o for o in objs if o.get("kind") == "CXXMethodDecl" and o.get("name") == "runLB"
            and any(c.get("kind") == "CompoundStmt" for c in o.get("inner", []))]
    if len(defs) != 1:
        raise TranslateError("expected exactly one definition of GlobalPlacer::runLB in %s, found %d" % (src, len(defs)))
    body = [c for c in defs[0]["inner"] if c.get("kind") == "CompoundStmt"][0]
    stmts = body.get("inner", [])
    all_async = [n for n in walk(body) if is_async_call(n)]
    calls, launch_idx = [], []
    for i, s in enumerate(stmts):
        if s.get("kind") == "DeclStmt":
            for v in s.get("inner", []):
                if v.get("kind") == "VarDecl" and v.get("inner"):
                    init = strip(v["inner"][0])
                    if is_async_call(init):
                        if "future" not in v["type"]["qualType"]:
                            raise TranslateError("std::async result stored in a non-future variable " + v["name"])
                        calls.append(parse_async(init, v["name"]))
                        launch_idx.append(i)
    if len(all_async) != 2 or len(calls) != 2:
        raise TranslateError("runLB: expected exactly two std::async calls, each initialising a top-level std::future "
                             "variable; found %d call(s), %d of that shape" % (len(all_async), len(calls)))
    futures = [c["future"] for c in calls]
    if launch_idx[1] != launch_idx[0] + 1 and any(True for _ in stmts[launch_idx[0] + 1:launch_idx[1]]):
        # statements between the two launches run concurrently with the first task
        early_between_launches = stmts[launch_idx[0] + 1:launch_idx[1]]
    else:
        early_between_launches = []
    joined, join_order = set(), []
    early, between = [], []
    joined_before_use = True
    why = []
    last_join_idx = None
    for i in range(launch_idx[1] + 1, len(stmts)):
        s = stmts[i]
        if len(joined) == 2:
            # sequential again; the futures must not be used any more
            for m in walk(s):
                if m.get("kind") == "DeclRefExpr" and m.get("referencedDecl", {}).get("name") in futures and "future" in qt(m):
                    joined_before_use = False
                    why.append("future used after it was consumed")
            continue
        f = future_get(s)
        target = None
        if f is not None:
            e = strip(s)
            if e.get("kind") == "CXXOperatorCallExpr" and len(e.get("inner", [])) == 3 and \
                    strip(e["inner"][0]).get("referencedDecl", {}).get("name") == "operator=" and future_get(e["inner"][2]) == f:
                target = denotes(e["inner"][1])
            elif e.get("kind") == "BinaryOperator" and e.get("opcode") == "=":
                target = denotes(e["inner"][0])
            elif e.get("kind") == "DeclStmt" and len(e.get("inner", [])) == 1 and e["inner"][0].get("kind") == "VarDecl":
                target = "local:" + e["inner"][0]["name"]
            if target is None:
                raise TranslateError("statement %d of runLB uses %s.get() in a shape that is not `target = %s.get();`" % (i, f, f))
            nget = sum(1 for m in walk(s) if m.get("kind") == "MemberExpr" and m.get("name") == "get" and "future" in qt(strip(m["inner"][0])))
            nfut = sum(1 for m in walk(s) if m.get("kind") == "DeclRefExpr" and m.get("referencedDecl", {}).get("name") in futures and "future" in qt(m))
            if nget != 1 or nfut != 1:
                raise TranslateError("statement %d of runLB uses futures more than once" % i)
            if f in joined:
                joined_before_use = False
                why.append("future %s consumed twice" % f)
            joined.add(f)
            join_order.append((f, target))
            last_join_idx = i
            if len(joined) == 1:
                between.append(("w", target))
            continue
        if s.get("kind") in ("ReturnStmt", "IfStmt", "ForStmt", "WhileStmt", "DoStmt", "CXXTryStmt", "SwitchStmt", "CXXForRangeStmt"):
            raise TranslateError("control flow (%s) between the launches and the joins of runLB" % s.get("kind"))
        for m in walk(s):
            if m.get("kind") == "DeclRefExpr" and m.get("referencedDecl", {}).get("name") in futures and "future" in qt(m):
                joined_before_use = False
                why.append("future used other than by a single top-level .get() (wait/wait_for/valid/move ...)")
        acc = accesses(s, futures)
        (early if not joined else between).extend(("rw", a) for a in acc)
    for s in early_between_launches:
        early.extend(("rw", a) for a in accesses(s, futures))
    if len(joined) != 2:
        joined_before_use = False
        why.append("not both futures are consumed by a top-level .get() in runLB")
    # a result target must not be mentioned by the main thread before its join
    targets = dict(join_order)
    for kind, a in early:
        if a in targets.values():
            joined_before_use = False
            why.append("%s accessed before the join" % a)
    for kind, a in between:
        if kind == "rw" and len(join_order) == 2 and a == join_order[1][1]:
            joined_before_use = False
            why.append("%s accessed before its future was joined" % a)
    order = [c for f, _ in join_order for c in calls if c["future"] == f] + [c for c in calls if c["future"] not in [f for f, _ in join_order]]
    for c in order:
        c["result_target"] = targets.get(c["future"], "<never joined>")
    return {"function": "coloquinte::GlobalPlacer::runLB", "calls": order, "launched": calls, "early": early, "between": between,
            "joined_before_use": joined_before_use, "why_not_joined": why,
            "statements_after_last_join": len(stmts) - 1 - (last_join_idx if last_join_idx is not None else len(stmts) - 1)}


# ------------------------------------------------------------------ token scan of src/

def strip_comments_strings(txt):
    out, i, n = [], 0, len(txt)
    while i < n:
        c = txt[i]
        if txt.startswith("//", i):
            j = txt.find("\n", i)
            i = n if j < 0 else j
        elif txt.startswith("/*", i):
            j = txt.find("*/", i + 2)
            seg = txt[i:(n if j < 0 else j + 2)]
            out.append("\n" * seg.count("\n"))
            i = n if j < 0 else j + 2
        elif c == '"':
            if i >= 1 and txt[i - 1] == "R":
                m = re.match(r'"([^(]*)\(', txt[i:])
                end = txt.find(")" + m.group(1) + '"', i) if m else -1
                j = n if end < 0 else end + len(m.group(1)) + 2
                out.append('""' + "\n" * txt[i:j].count("\n"))
                i = j
                continue
            j = i + 1
            while j < n and txt[j] != '"':
                j += 2 if txt[j] == "\\" else 1
            out.append('""')
            i = j + 1
        elif c == "'" and not (i >= 1 and txt[i - 1].isalnum()):
            j = i + 1
            while j < n and txt[j] != "'":
                j += 2 if txt[j] == "\\" else 1
            out.append("'x'")
            i = j + 1
        else:
            out.append(c)
            i += 1
    return "".join(out)


def strip_preprocessor(txt):
    """blanks preprocessor lines, and the code that is compiled only under COLOQUINTE_VERIF (verification
    hooks are not part of the library as shipped; the `#else` branch of such a block is kept)"""
    lines = txt.split("\n")
    out, cont = [], False
    stack = []          # per open #if: "verif" (inside a COLOQUINTE_VERIF-only branch), "verif-else", "other"
    for l in lines:
        st = l.lstrip()
        if cont or st.startswith("#"):
            if not cont:
                d = st[1:].lstrip()
                if re.match(r"(ifdef\s+COLOQUINTE_VERIF\b|if\s+defined\s*\(?\s*COLOQUINTE_VERIF\b)", d):
                    stack.append("verif")
                elif re.match(r"(ifndef\s+COLOQUINTE_VERIF\b|if\s+!\s*defined\s*\(?\s*COLOQUINTE_VERIF\b)", d):
                    stack.append("verif-else")
                elif re.match(r"if", d):
                    stack.append("other")
                elif re.match(r"(else|elif)\b", d) and stack:
                    if stack[-1] == "verif":
                        stack[-1] = "verif-else"
                    elif stack[-1] == "verif-else":
                        stack[-1] = "verif"
                elif re.match(r"endif\b", d) and stack:
                    stack.pop()
            cont = l.rstrip().endswith("\\")
            out.append("")
        elif "verif" in stack:
            out.append("")
        else:
            out.append(l)
    return "\n".join(out)


TOKEN = re.compile(r"[A-Za-z_][A-Za-z_0-9]*|::|->|[{}()\[\];=<>,*&~!+\-/%^|?:.]|\d[\w.]*|\"\"|'x'")


def scan_file(path, rel):
    """returns (findings, concurrency) ; finding = (kind, text, file:line)"""
    raw = open(path, errors="replace").read()
    clean = strip_preprocessor(strip_comments_strings(raw))
    conc = []
    for m in CONCURRENCY.finditer(clean):
        conc.append((re.sub(r"\s+", "", m.group(1)), "%s:%d" % (rel, clean.count("\n", 0, m.start()) + 1)))
    if re.search(r"^\s*#\s*pragma\s+omp", raw, re.M):
        conc.append(("#pragma omp", rel))
    toks = [(m.group(0), m.start()) for m in TOKEN.finditer(clean)]
    line = lambda pos: clean.count("\n", 0, pos) + 1
    finds = []
    # keyword findings
    for k, (t, pos) in enumerate(toks):
        if t in ("thread_local", "const_cast", "volatile"):
            finds.append((t, " ".join(x for x, _ in toks[max(0, k - 3):k + 8]), "%s:%d" % (rel, line(pos))))
        elif t == "mutable":
            finds.append(("mutable", " ".join(x for x, _ in toks[max(0, k - 3):k + 8]), "%s:%d" % (rel, line(pos))))
        elif t == "static":
            # declaration up to the first of ( ; = { [
            j = k + 1
            depth = 0
            decl = []
            while j < len(toks):
                x = toks[j][0]
                if x == "<":
                    depth += 1
                elif x == ">":
                    depth = max(0, depth - 1)
                elif depth == 0 and x in ("(", ";", "=", "{", "["):
                    break
                decl.append(x)
                j += 1
            stop = toks[j][0] if j < len(toks) else ""
            if "operator" in decl:
                continue
            if stop == "(":
                # function, unless the name is followed by a constructor call of a variable: `static T v(args);`
                # (a declaration with a parameter list and a variable with constructor arguments cannot be told
                # apart by tokens in general; literals / `new` inside the parentheses betray the latter)
                close, d2, inside = j, 0, []
                while close < len(toks):
                    if toks[close][0] == "(":
                        d2 += 1
                    elif toks[close][0] == ")":
                        d2 -= 1
                        if d2 == 0:
                            break
                    inside.append(toks[close][0])
                    close += 1
                looks_ctor = any(re.match(r"\d|\"\"|'x'", x) for x in inside[1:]) and not any(x == "=" for x in inside)
                if not looks_ctor:
                    continue
            if "const" in decl or "constexpr" in decl:
                if "*" not in decl or decl[-2:-1] == ["const"]:
                    continue
            finds.append(("static variable", "static " + " ".join(decl) + " " + stop, "%s:%d" % (rel, line(pos))))
    # namespace-scope variables: walk statements at namespace depth
    stack = []   # kinds of the open braces
    k = 0
    stmt = []
    stmt_pos = 0

    def at_ns():
        return all(s == "ns" for s in stack)

    def classify(st):
        """st: tokens of one namespace-scope statement ended by ';' (without it)"""
        if not st:
            return None
        h = st[0]
        if h in ("using", "typedef", "template", "friend", "static_assert", "extern", "namespace", "enum", "public", "private", "protected"):
            if h == "extern" and "(" not in st and '""' not in st[:2]:
                return "extern variable declaration: " + " ".join(st)
            return None
        if h in ("class", "struct", "union") and "(" not in st and "=" not in st and not any(x == "}" for x in st):
            return None
        # function declaration: a '(' before any '=' at angle depth 0
        depth = 0
        for x in st:
            if x == "<":
                depth += 1
            elif x == ">":
                depth = max(0, depth - 1)
            elif depth == 0 and x == "(":
                return None
            elif depth == 0 and x in ("=", "{"):
                break
        if "operator" in st:
            return None
        specs = st
        if "const" in specs or "constexpr" in specs:
            return None
        if "static" in specs:
            return None  # reported by the `static` rule above
        return "namespace-scope variable: " + " ".join(st)

    while k < len(toks):
        t, pos = toks[k]
        if t == "{":
            # what opens this brace?
            head = stmt[:]
            kind = "other"
            if at_ns():
                if head and (head[0] == "namespace" or (head[0] == "inline" and len(head) > 1 and head[1] == "namespace")):
                    kind = "ns"
                elif head[:2] == ["extern", '""'] and len(head) == 2:
                    kind = "ns"
                elif head and head[0] in ("class", "struct", "union", "enum") and "(" not in head:
                    kind = "class"
                elif "(" in head or (head and head[0] in ("template",)):
                    kind = "fn" if "(" in head else "class"
                elif head and head[0] in ("typedef",):
                    kind = "class"
                else:
                    # `T v {init};` / `T v = {..};` at namespace scope
                    kind = "init"
            stack.append(kind)
            if kind == "ns":
                stmt = []
            k += 1
            continue
        if t == "}":
            kind = stack.pop() if stack else "other"
            if at_ns():
                if kind in ("fn",):
                    stmt = []
                elif kind == "ns":
                    stmt = []
                elif kind == "class":
                    stmt.append("}")      # `struct S {...} v;` declares a variable: keep until ';'
                elif kind == "init":
                    stmt.append("{}")
            k += 1
            continue
        if at_ns():
            if t == ";":
                st = stmt
                stmt = []
                if st:
                    if "}" in st:
                        tail = st[st.index("}") + 1:]
                        msg = ("namespace-scope variable of an in-place class type: " + " ".join(tail)) if tail and "const" not in st[:st.index("}")] and st[0] != "typedef" else None
                    else:
                        msg = classify(st)
                    if msg:
                        finds.append(("namespace-scope variable", msg, "%s:%d" % (rel, line(stmt_pos))))
            else:
                if not stmt:
                    stmt_pos = pos
                stmt.append(t)
        k += 1
    return finds, conc


def scan_sources(repo):
    finds, conc = [], []
    files = []
    for d, _, fs in os.walk(os.path.join(repo, "src")):
        for f in sorted(fs):
            if f.endswith((".cpp", ".hpp", ".h", ".cc", ".hh", ".ipp", ".inl")):
                files.append(os.path.join(d, f))
    if len(files) < 10:
        raise TranslateError("source scan found only %d files under %s/src" % (len(files), repo))
    for p in sorted(files):
        f, c = scan_file(p, os.path.relpath(p, repo))
        finds += f
        conc += c
    return finds, conc, len(files)


def scan_objects(lib):
    """writable static-storage objects of the compiled library (nm, sysv format)"""
    p = subprocess.run(["nm", "-C", "-f", "sysv", lib], capture_output=True, text=True, timeout=120)
    if p.returncode != 0:
        raise TranslateError("nm failed on " + lib)
    syms = {}
    for l in p.stdout.split("\n"):
        parts = [x.strip() for x in l.split("|")]
        if len(parts) != 7:
            continue
        name, _, cls, typ, _, _, sec = parts
        if typ not in ("OBJECT", "TLS", "COMMON"):
            continue
        if not re.match(r"\.(data|bss|tdata|tbss|sdata|sbss)", sec) and typ != "COMMON":
            continue
        if sec.startswith(".data.rel.ro"):
            continue
        syms[name] = syms.get(name, 0) + 1
    return syms


def explained(name):
    for rx, why in EXPLAINED:
        if re.search(rx, name):
            return why
    return None


def coq_str(s):
    return '"' + s.replace('"', "'") + '"'


def coq_list(xs):
    return "[" + "; ".join(coq_str(x) for x in xs) + "]"


def translate(repo, lib):
    """returns (facts dict, coq text)"""
    r = parse_runlb(repo)
    src = "src/place_global/place_global.cpp"
    for c in r["calls"]:
        fields, writable, statics = class_facts(repo, src, c["class"])
        c["class_fields"], c["class_writable_in_const"], c["class_static_members"] = fields, writable, statics
    finds, conc, nfiles = scan_sources(repo)
    # the only concurrency primitives allowed: the two std::async of runLB
    other = [c for c in conc if not (c[0] == "std::async" and c[1].startswith("src/place_global/place_global.cpp"))]
    n_async_src = sum(1 for c in conc if c[0] == "std::async")
    if other or n_async_src != 2:
        raise TranslateError("concurrency primitives outside the two std::async calls of runLB (the summary covers only those): %s"
                             % (other or conc))
    objsyms = scan_objects(lib) if lib else {}
    globals_, explained_list = [], []
    for kind, text, where in finds:
        why = explained(text)
        (explained_list if why else globals_).append(("%s [%s] %s" % (kind, where, text), why))
    for name, cnt in sorted(objsyms.items()):
        why = explained(name)
        (explained_list if why else globals_).append(("object symbol %s (x%d)" % (name, cnt), why))
    for c in r["calls"]:
        for s in c["class_static_members"]:
            globals_.append(("static data member " + s, None))
    facts = {"function": r["function"], "calls": r["calls"], "launch_order": [c["future"] for c in r["launched"]], "early": r["early"], "between": r["between"],
             "joined_before_use": r["joined_before_use"], "why_not_joined": r["why_not_joined"],
             "statements_after_last_join": r["statements_after_last_join"],
             "source_files_scanned": nfiles, "concurrency_sites": conc,
             "unexplained_globals": [g for g, _ in globals_],
             "explained_globals": [{"what": g, "why": w} for g, w in explained_list],
             "object_symbols_scanned": bool(lib), "object_writable_symbols": objsyms}

    def call(c):
        return ("{| ac_future := %s; ac_callee := %s; ac_callee_const := %s;\n"
                "     ac_class_mutable := %s;\n     ac_object := %s;\n     ac_byvalue := %s;\n"
                "     ac_byref_const := %s; ac_byref_mut := %s;\n     ac_result_target := %s |}"
                % (coq_str(c["future"]), coq_str(c["callee"]), "true" if c["callee_const"] else "false",
                   coq_list(c["class_writable_in_const"]), coq_str(c["object"]), coq_list(c["byvalue"]),
                   coq_list(c["byref_const"]), coq_list(c["byref_mut"]), coq_str(c["result_target"])))
    # the call launched second in program order (not necessarily the one joined second)
    launched_second = r["launched"][1]
    second_launch = launched_second["launch_reads"]
    if launched_second is not r["calls"][1]:
        raise TranslateError("the future launched second (%s) is joined first: this shape is not covered by the two-thread "
                             "model of ForkJoin.v" % launched_second["future"])
    br = [a for k, a in r["between"] if k == "rw"]
    bw = [a for k, a in r["between"]]
    er = [a for k, a in r["early"]]
    txt = ("(* GENERATED by tools/effects.py from %s -- do not edit; rewritten by every ./check C08.\n"
           "   Effect summary of the fork/join in GlobalPlacer::runLB (see ForkJoin.v for the meaning of the fields). *)\n"
           "From Coq Require Import List String.\nImport ListNotations.\nRequire Import CV.ForkJoin.\nLocal Open Scope string_scope.\n\n"
           "Definition effects : summary :=\n  {| sm_function := %s;\n     sm_policy_async := %s;\n     sm_first :=\n  %s;\n     sm_second :=\n  %s;\n"
           "     sm_second_launch_reads := %s;\n     sm_between_reads := %s;\n     sm_between_writes := %s;\n     sm_early_reads := %s;\n     sm_early_writes := %s;\n"
           "     sm_joined_before_use := %s;\n     sm_globals := %s |}.\n"
           % ("<repo>/src (place_global.cpp, %d files scanned)" % nfiles, coq_str(r["function"]),
              "true" if all(c["policy"] == "async" for c in r["calls"]) else "false",
              call(r["calls"][0]), call(r["calls"][1]), coq_list(second_launch), coq_list(br), coq_list(bw), coq_list(er), coq_list(er),
              "true" if r["joined_before_use"] else "false", coq_list([g for g, _ in globals_])))
    return facts, txt


def write_gen(path, txt):
    try:
        if open(path).read() == txt:
            return False
    except OSError:
        pass
    with open(path + ".tmp", "w") as f:
        f.write(txt)
    os.replace(path + ".tmp", path)
    return True


def main():
    repo = os.environ.get("VERIF_REPO", "/repo")
    root = os.path.dirname(os.path.dirname(os.path.abspath(__file__)))
    lib = sys.argv[1] if len(sys.argv) > 1 else None
    try:
        facts, txt = translate(repo, lib)
    except TranslateError as e:
        print("effects.py: CANNOT TRANSLATE: %s" % e, file=sys.stderr)
        sys.exit(2)
    changed = write_gen(os.path.join(root, "coq", "Effects_gen.v"), txt)
    print(json.dumps(facts, indent=1)[:6000])
    print("Effects_gen.v %s" % ("rewritten" if changed else "unchanged"))


if __name__ == "__main__":
    main()
