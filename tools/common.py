"""Shared machinery of the /verif checks: repo build cache, Coq build, OCaml
driver build, evidence and violation reporting.  Everything is rebuilt from
/repo's *working tree* (hash of the sources), never from /repo/_build."""
import fcntl
import hashlib
import json
import os
import re
import shutil
import subprocess
import sys
import time
from concurrent.futures import ThreadPoolExecutor

ROOT = os.path.dirname(os.path.dirname(os.path.abspath(__file__)))
REPO = os.environ.get("VERIF_REPO", "/repo")
BUILD = os.path.join(ROOT, "build")
CACHE = os.path.join(BUILD, "cache")
TMP = os.path.join(BUILD, "tmp")
COQ = os.path.join(ROOT, "coq")
GUARD = "COLOQUINTE_VERIF"
NCPU = os.cpu_count() or 4

LIB_SOURCES = [
    "src/coloquinte.cpp", "src/parameters.cpp", "src/export.cpp",
    "src/place_global/net_model.cpp", "src/place_global/density_legalizer.cpp",
    "src/place_global/density_grid.cpp", "src/place_global/place_global.cpp",
    "src/place_detailed/legalizer.cpp", "src/place_detailed/abacus_legalizer.cpp",
    "src/place_detailed/tetris_legalizer.cpp", "src/place_detailed/row_legalizer.cpp",
    "src/place_detailed/place_detailed.cpp", "src/place_detailed/detailed_placement.cpp",
    "src/place_detailed/incr_net_model.cpp", "src/place_detailed/row_neighbourhood.cpp",
    "src/place_global/transportation.cpp", "src/place_global/transportation_1d.cpp",
]

# float-divide-by-zero is NOT added: it does not stay quiet on the unchanged tree (1.0f / 0.0f at
# density_grid.cpp:313 `invTotalDemand` of a bin without demand; IEEE inf, result unused): reported to the lead
FLOAT_SAN = ",float-cast-overflow"
VARIANTS = {
    # assertions ON: the README's default CMake configuration
    "plain": ["-O1"],
    "ndebug": ["-O1", "-DNDEBUG"],
    # g++'s -fsanitize=undefined does NOT include float-cast-overflow (float -> int conversions out of
    # range: std::round(...) -> long long / int, (int)(factor * height)): named explicitly (review C07-3)
    "asan": ["-O1", "-g", "-fno-omit-frame-pointer",
             "-fsanitize=address,undefined" + FLOAT_SAN, "-fno-sanitize-recover=all"],
    "asan-ndebug": ["-O1", "-g", "-fno-omit-frame-pointer", "-DNDEBUG",
                    "-fsanitize=address,undefined" + FLOAT_SAN, "-fno-sanitize-recover=all"],
    # bounds / memory only (C14: the LLONG_MIN addition in checkSolutionOptimal is an observation)
    "asan-nosio": ["-O1", "-g", "-fno-omit-frame-pointer",
                   "-fsanitize=address,bounds,pointer-overflow,null,alignment,vla-bound" + FLOAT_SAN,
                   "-fno-sanitize-recover=all"],
    "tsan": ["-O1", "-g", "-fsanitize=thread"],
    # C08's uninitialised-memory oracle: the flags of "plain" + every automatic variable without an initialiser (class objects and
    # their members included) is filled with zeroes / with the byte 0xFE before its constructor runs; a program that never reads an
    # indeterminate value computes the same results in both builds.  -fno-lifetime-dse: g++ 12 at -O1 otherwise deletes the PATTERN
    # fill of an object with a constructor as a dead store (the constructor starts with a clobber of *this); measured on a
    # 4-line example: without the flag the members the constructor leaves alone keep the dead stack content
    "autozero": ["-O1", "-ftrivial-auto-var-init=zero", "-fno-lifetime-dse"],
    "autopattern": ["-O1", "-ftrivial-auto-var-init=pattern", "-fno-lifetime-dse"],
}
# part of the library cache key: bump the tag of a variant whenever its flags change (the key is
# otherwise only the hash of /repo's sources + the variant name, and a stale library would be reused)
FLAGS_REV = {"asan": "f3", "asan-ndebug": "f3", "asan-nosio": "f3"}
BASEFLAGS = ["-std=gnu++17", "-I" + os.path.join(REPO, "src"), "-I/usr/include/eigen3",
             "-D" + GUARD, "-pthread", "-w"]


def sh(cmd, timeout=None, cwd=None, inp=None, env=None):
    """run, return (rc, stdout, stderr); rc=-9 on timeout"""
    try:
        p = subprocess.run(cmd, cwd=cwd, input=inp, capture_output=True, text=True,
                           timeout=timeout, env=env)
        return p.returncode, p.stdout, p.stderr
    except subprocess.TimeoutExpired as e:
        out = e.stdout.decode() if isinstance(e.stdout, bytes) else (e.stdout or "")
        err = e.stderr.decode() if isinstance(e.stderr, bytes) else (e.stderr or "")
        return -9, out, err + "\nTIMEOUT"


def _hash_files(paths, extra=""):
    h = hashlib.sha256()
    h.update(extra.encode())
    for p in sorted(paths):
        h.update(p.encode())
        try:
            with open(p, "rb") as f:
                h.update(f.read())
        except OSError:
            h.update(b"<missing>")
    return h.hexdigest()[:20]


def repo_files():
    out = []
    for top in ("src", "pycoloquinte"):
        for d, _, fs in os.walk(os.path.join(REPO, top)):
            for f in fs:
                if f.endswith((".cpp", ".hpp", ".h", ".py")):
                    out.append(os.path.join(d, f))
    return out


_repo_hash = None


def repo_hash():
    global _repo_hash
    if _repo_hash is None:
        _repo_hash = _hash_files(repo_files())
    return _repo_hash


class Lock:
    def __init__(self, name):
        os.makedirs(BUILD, exist_ok=True)
        self.path = os.path.join(BUILD, name + ".lock")

    def __enter__(self):
        self.f = open(self.path, "w")
        fcntl.flock(self.f, fcntl.LOCK_EX)
        return self

    def __exit__(self, *a):
        fcntl.flock(self.f, fcntl.LOCK_UN)
        self.f.close()


class BuildError(Exception):
    pass


def build_repo(variant="plain"):
    """compile the 17 library sources of /repo's working tree -> static lib; cached by hash"""
    flags = VARIANTS[variant]
    key = repo_hash() + FLAGS_REV.get(variant, "") + "-" + variant
    d = os.path.join(CACHE, key)
    lib = os.path.join(d, "libcoloquinte.a")
    with Lock("repo-" + variant):
        if os.path.exists(lib):
            try:
                os.utime(d, None)
            except OSError:
                pass
            return lib
        # drop stale caches of this variant (disk); entries in recent use are kept (concurrent checks
        # against scratch worktrees via VERIF_REPO)
        if os.path.isdir(CACHE) and "VERIF_REPO" not in os.environ:
            for e in os.listdir(CACHE):
                pe = os.path.join(CACHE, e)
                try:
                    old = time.time() - os.path.getmtime(pe) > 3 * 3600
                except OSError:
                    old = False
                if e.endswith("-" + variant) and e != key and old:
                    shutil.rmtree(pe, ignore_errors=True)
        os.makedirs(d, exist_ok=True)

        def comp(s):
            o = os.path.join(d, s.replace("/", "_") + ".o")
            rc, out, err = sh(["g++"] + BASEFLAGS + flags + ["-c", os.path.join(REPO, s), "-o", o],
                              timeout=900)
            return s, rc, err, o
        with ThreadPoolExecutor(NCPU) as ex:
            res = list(ex.map(comp, LIB_SOURCES))
        bad = [(s, err) for s, rc, err, o in res if rc != 0]
        if bad:
            shutil.rmtree(d, ignore_errors=True)
            raise BuildError("repo does not compile (%s): %s\n%s" % (variant, bad[0][0], bad[0][1][-2000:]))
        rc, out, err = sh(["ar", "rcs", lib + ".tmp"] + [o for _, _, _, o in res])
        if rc != 0:
            raise BuildError("ar failed: " + err)
        os.rename(lib + ".tmp", lib)
    return lib


def build_harness(name, variant="plain", extra_flags=()):
    """compile harness/<name>.cpp against the lib of the given variant; cached"""
    src = os.path.join(ROOT, "harness", name + ".cpp")
    hdrs = [os.path.join(ROOT, "harness", f) for f in os.listdir(os.path.join(ROOT, "harness"))
            if f.endswith((".hpp", ".h"))]
    lib = build_repo(variant)
    key = _hash_files([src] + hdrs, repo_hash() + variant + " ".join(extra_flags))
    d = os.path.dirname(lib)
    exe = os.path.join(d, "h_%s_%s" % (name, key))
    with Lock("harness-%s-%s" % (name, variant)):
        if os.path.exists(exe):
            return exe
        for e in os.listdir(d):
            if e.startswith("h_%s_" % name):
                os.unlink(os.path.join(d, e))
        cmd = (["g++"] + BASEFLAGS + VARIANTS[variant] + list(extra_flags) +
               ["-I" + os.path.join(ROOT, "harness"), src, lib, "-o", exe + ".tmp",
                "-lboost_system", "-lboost_filesystem", "-lboost_iostreams", "-llemon"])
        rc, out, err = sh(cmd, timeout=900)
        if rc != 0:
            raise BuildError("harness %s does not compile against /repo (%s):\n%s" % (name, variant, err[-3000:]))
        os.rename(exe + ".tmp", exe)
    return exe


# ---------------------------------------------------------------- Coq

FORBIDDEN = re.compile(r"\b(Admitted|admit|Axiom|Axioms|Parameter|Parameters|Conjecture|Conjectures|"
                       r"Admit Obligations|Unset Guard Checking|Unset Positivity Checking|"
                       r"Unset Universe Checking|bypass_check|type-in-type|impredicative-set)\b")


def coq_sources():
    return sorted(f for f in os.listdir(COQ) if f.endswith(".v"))


def coq_deps(prop):
    """the .v files Properties_<prop>.v depends on (transitively, through `Require ... CV.X`), itself included"""
    seen, todo = set(), ["Properties_%s.v" % prop]
    while todo:
        f = todo.pop()
        if f in seen:
            continue
        seen.add(f)
        try:
            txt = open(os.path.join(COQ, f)).read()
        except OSError:
            continue
        for m in re.finditer(r"\bCV\.([A-Za-z0-9_]+)", txt):
            todo.append(m.group(1) + ".v")
        for m in re.finditer(r"From\s+CV\s+Require\s+(?:Import|Export)?\s*([^.]*)\.", txt):
            for n in m.group(1).split():
                todo.append(n + ".v")
    return sorted(f for f in seen if os.path.exists(os.path.join(COQ, f)))


def coq_grep_forbidden(prop=None):
    """returns list of (file, line, text) for forbidden vernacular outside comments, in the files the
    property's theorems depend on (every file of the development when prop is None)"""
    hits = []
    for f in (coq_deps(prop) if prop else coq_sources()):
        try:
            txt = open(os.path.join(COQ, f)).read()
        except OSError:
            continue
        # strip comments (nested)
        out, depth, i = [], 0, 0
        while i < len(txt):
            if txt.startswith("(*", i):
                depth += 1; i += 2; continue
            if txt.startswith("*)", i) and depth > 0:
                depth -= 1; i += 2; continue
            if depth == 0:
                out.append(txt[i])
            elif txt[i] == "\n":
                out.append("\n")
            i += 1
        for n, line in enumerate("".join(out).split("\n"), 1):
            if FORBIDDEN.search(line):
                hits.append((f, n, line.strip()))
            if re.match(r"\s*(Variable|Variables|Hypothesis|Hypotheses)\b", line):
                # allowed only inside a Section: checked coarsely below
                pass
    return hits


def coq_project():
    """_CoqProject lists every .v file of coq/ (coq_makefile orders them with coqdep); rewritten only
    when the set of files changed"""
    cp = os.path.join(COQ, "_CoqProject")
    want = "-Q . CV\n" + "".join(f + "\n" for f in coq_sources())
    try:
        have = open(cp).read()
    except OSError:
        have = None
    if have != want:
        with open(cp, "w") as f:
            f.write(want)
    return cp


def coq_make(targets, timeout=1500):
    """full .vo build of the given targets (never -vos). returns (ok, log)"""
    with Lock("coq"):
        mk = os.path.join(COQ, "Makefile")
        cp = coq_project()
        if (not os.path.exists(mk)) or os.path.getmtime(mk) < os.path.getmtime(cp):
            rc, out, err = sh(["coq_makefile", "-f", "_CoqProject", "-o", "Makefile"], cwd=COQ, timeout=120)
            if rc != 0:
                return False, out + err
        rc, out, err = sh(["make", "-k", "-j%d" % NCPU] + list(targets), cwd=COQ, timeout=timeout)
        return rc == 0, out + err


ALLOWED_AXIOMS = {
    # axioms declared by the standard library itself; each would be named in the evidence
    "Coq.Logic.FunctionalExtensionality.functional_extensionality_dep",
    "Coq.Logic.Classical_Prop.classic",
    "Coq.Logic.ProofIrrelevance.proof_irrelevance",
    "Coq.Logic.Eqdep.Eq_rect_eq.eq_rect_eq",
    "Coq.Logic.JMeq.JMeq_eq",
    # the axioms of the standard library's real numbers (Flocq / Reals: C06's binary32 analysis)
    "Coq.Reals.ClassicalDedekindReals.sig_forall_dec",
    "Coq.Reals.ClassicalDedekindReals.sig_not_dec",
}
# Print Assumptions prints the shortest unambiguous name: compare on the last component
ALLOWED_AXIOM_NAMES = {a.rsplit(".", 1)[-1] for a in ALLOWED_AXIOMS}


def coq_assumptions(prop):
    """Re-runs Print Assumptions for every Theorem of Properties_<prop>.v (fresh coqc on a
    generated file).  returns dict: theorem -> list of axioms ([] = closed), or None when the
    property file does not build"""
    pf = os.path.join(COQ, "Properties_%s.v" % prop)
    txt = open(pf).read()
    thms = re.findall(r"^\s*(?:Theorem|Corollary)\s+([A-Za-z0-9_']+)", txt, re.M)
    if not os.path.exists(pf + "o"):
        return thms, None
    os.makedirs(TMP, exist_ok=True)
    name = "Assum_%s_%d" % (prop, os.getpid())
    vf = os.path.join(TMP, name + ".v")
    with open(vf, "w") as f:
        f.write("Require Import CV.Properties_%s.\n" % prop)
        for t in thms:
            f.write('Goal True. idtac "@@@ %s". exact I. Qed.\nPrint Assumptions %s.\n' % (t, t))
    rc, out, err = sh(["coqc", "-Q", COQ, "CV", vf], timeout=300, cwd=TMP)
    for ext in (".v", ".vo", ".vok", ".vos", ".glob"):
        try:
            os.unlink(os.path.join(TMP, name + ext))
        except OSError:
            pass
    try:
        os.unlink(os.path.join(TMP, "." + name + ".aux"))
    except OSError:
        pass
    if rc != 0:
        return thms, None
    res = {}
    parts = out.split("@@@ ")
    for p in parts[1:]:
        lines = p.strip().split("\n")
        t = lines[0].strip()
        body = "\n".join(lines[1:])
        if "Closed under the global context" in body:
            res[t] = []
        else:
            ax = [a for a in re.findall(r"^([A-Za-z0-9_.']+)\s*:", body, re.M) if a != "Axioms"]   # "Axioms:" is the header line
            res[t] = ax or ["<unparsed>"]
    return thms, res


def build_driver(fam=None):
    """Extract.vo (extraction, ExtrOcamlBasic only) -> coq/model.ml(i); + ocaml/driver.ml -> exe.
    With a family name: coq/Extract_<fam>.v -> coq/model_<fam>.ml(i) + ocaml/driver_<fam>.ml."""
    suf = "" if not fam else "_" + fam
    ok, log = coq_make(["Extract%s.vo" % suf])
    ml = os.path.join(COQ, "model%s.ml" % suf)
    if os.path.exists(ml) and os.path.getmtime(ml) < os.path.getmtime(os.path.join(COQ, "Extract%s.v" % suf)):
        ok = False
    if not ok or not os.path.exists(ml):
        # the .vo may be up to date while the .ml was removed: force
        try:
            os.unlink(os.path.join(COQ, "Extract%s.vo" % suf))
        except OSError:
            pass
        ok, log = coq_make(["Extract%s.vo" % suf])
    if not ok or not os.path.exists(ml):
        raise BuildError("extraction failed:\n" + log[-3000:])
    names = ["model%s.mli" % suf, "model%s.ml" % suf, "driver%s.ml" % suf]
    srcs = [os.path.join(COQ, names[0]), os.path.join(COQ, names[1]), os.path.join(ROOT, "ocaml", names[2])]
    key = _hash_files(srcs)
    d = os.path.join(BUILD, "ocaml" + suf)
    exe = os.path.join(d, "driver_" + key)
    with Lock("ocaml" + suf):
        if os.path.exists(exe):
            return exe
        shutil.rmtree(d, ignore_errors=True)
        os.makedirs(d)
        for s in srcs:
            shutil.copy(s, d)
        rc, out, err = sh(["ocamlfind", "ocamlopt", "-O2", "-w", "-a", "-package", "str", "-linkpkg"] + names +
                          ["-o", exe + ".tmp"], cwd=d, timeout=600)
        if rc != 0:
            raise BuildError("ocaml driver does not build:\n" + err[-3000:])
        os.rename(exe + ".tmp", exe)
    return exe


def vm_eval(prop, defs_imports, exprs, timeout=600):
    """evaluate Gallina expressions inside Coq with vm_compute (cross-check of the extracted
    code); returns the list of printed normal forms (whitespace-normalised) or None"""
    os.makedirs(TMP, exist_ok=True)
    name = "Cases_%s_%d" % (prop, os.getpid())
    vf = os.path.join(TMP, name + ".v")
    with open(vf, "w") as f:
        f.write(defs_imports + "\n")
        for i, e in enumerate(exprs):
            f.write('Goal True. idtac "@@@". exact I. Qed.\nEval vm_compute in (%s).\n' % e)
    rc, out, err = sh(["coqc", "-Q", COQ, "CV", vf], timeout=timeout, cwd=TMP)
    for ext in (".v", ".vo", ".vok", ".vos", ".glob"):
        try:
            os.unlink(os.path.join(TMP, name + ext))
        except OSError:
            pass
    try:
        os.unlink(os.path.join(TMP, "." + name + ".aux"))
    except OSError:
        pass
    if rc != 0:
        return None
    res = []
    for p in out.split("@@@")[1:]:
        p = p.strip()
        m = re.match(r"=\s*(.*?)\s*:\s*[^:]*$", p, re.S)
        res.append(re.sub(r"\s+", " ", m.group(1) if m else p))
    return res


# ---------------------------------------------------------------- splitmix64 PRNG

class Rng:
    M = (1 << 64) - 1

    def __init__(self, seed):
        # the state is a HASH of the seed (with s = seed * golden + c, seed+1 would replay seed's stream shifted by one)
        self.s = (seed * 0x9E3779B97F4A7C15 + 0x1234567) & self.M
        h = self.next()
        self.s = h ^ ((seed * 0xD6E8FEB86659FD93) & self.M)

    def next(self):
        self.s = (self.s + 0x9E3779B97F4A7C15) & self.M
        z = self.s
        z = ((z ^ (z >> 30)) * 0xBF58476D1CE4E5B9) & self.M
        z = ((z ^ (z >> 27)) * 0x94D049BB133111EB) & self.M
        return z ^ (z >> 31)

    def uni(self, a, b):
        return a + self.next() % (b - a + 1)

    def coin(self, pct):
        return self.next() % 100 < pct

    def choice(self, xs):
        return xs[self.next() % len(xs)]


# ---------------------------------------------------------------- reporting

class Ctx:
    def __init__(self, prop, tier, seed):
        self.prop, self.tier, self.seed = prop, tier, seed
        self.t0 = time.time()
        self.violations = []      # (what, replay_path)
        self.known_hits = {}      # finding id -> count
        self.coverage = {}
        self.assumptions = []
        self.notes = []
        kf = json.load(open(os.path.join(ROOT, "known_findings.json")))
        self.known = [k for k in kf["findings"] if k["property"] == prop and k["status"] == "known"]
        self.nrep = 0

    @property
    def quick(self):
        return self.tier == "quick"

    def replay_path(self):
        d = os.path.join(ROOT, "replays")
        os.makedirs(d, exist_ok=True)
        self.nrep += 1
        return os.path.join(d, "%s-%d-%d.json" % (self.prop, self.seed, self.nrep))

    def violation(self, what, replay, found_input=True):
        """a violation that known_findings.json does not list"""
        if len(self.violations) >= 5:
            self.violations.append((what, None, found_input))
            return
        p = self.replay_path()
        with open(p, "w") as f:
            json.dump({"property": self.prop, "what": what, "seed": self.seed, "tier": self.tier,
                       "failing_input_found": found_input, "replay": replay}, f, indent=1, default=str)
        self.violations.append((what, p, found_input))

    def known_finding(self, fid, what=None):
        """returns True when fid is a listed known finding (then it is counted, not a violation)"""
        for k in self.known:
            if k["id"] == fid:
                self.known_hits[fid] = self.known_hits.get(fid, 0) + 1
                return True
        return False

    def finish(self, level, coverage, assumptions):
        for k in self.known:
            if self.known_hits.get(k["id"]):
                print("KNOWN-FINDING: property=%s %s [%s; reproduced %d times in this run]" %
                      (self.prop, k["what"], k["id"], self.known_hits[k["id"]]))
        ev = {"property_id": self.prop, "tier": self.tier, "seed": self.seed, "level": level,
              "coverage": coverage, "assumptions": assumptions,
              "wall_s": round(time.time() - self.t0, 2), "violations": len(self.violations)}
        coverage["known_findings_reproduced"] = self.known_hits
        # runs against a scratch worktree (VERIF_REPO: seeded changes, mutation tests) must not overwrite the
        # evidence of the registered checks, which is about /repo itself
        evdir = os.path.join(ROOT, "evidence") if "VERIF_REPO" not in os.environ else os.path.join(BUILD, "evidence-scratch")
        os.makedirs(evdir, exist_ok=True)
        with open(os.path.join(evdir, self.prop + ".json"), "w") as f:
            json.dump(ev, f, indent=1, default=str)
        seen = 0
        for what, p, found in self.violations:
            if p is None:
                continue
            seen += 1
            print("  violation: " + what[:400])
            print("VIOLATION property=%s replay=%s%s" % (self.prop, p, "" if found else " no-failing-input-found"))
        if self.violations:
            return 1
        print("OK property=%s tier=%s seed=%d wall=%.1fs" % (self.prop, self.tier, self.seed, time.time() - self.t0))
        return 0


def proof_status(ctx, prop):
    """builds Properties_<prop>.vo (full build), greps for forbidden vernacular, re-runs Print
    Assumptions; returns dict for the evidence and a bool `ok`"""
    ok, log = coq_make(["Properties_%s.vo" % prop])
    hits = coq_grep_forbidden(prop)
    thms, ass = coq_assumptions(prop)
    discharged = 0
    axioms = set()
    bad = []
    if ass is not None:
        for t in thms:
            a = ass.get(t)
            if a is None:
                bad.append(t + ": not checked")
                continue
            extra = [x for x in a if x.rsplit(".", 1)[-1] not in ALLOWED_AXIOM_NAMES]
            if extra:
                bad.append(t + ": depends on " + ",".join(extra))
            else:
                discharged += 1
                axioms.update(a)
    res = {"obligations": len(thms), "discharged": discharged,
           "theorems": thms, "axioms_used": sorted(axioms),
           "checker_cmd": "cd /verif/coq && coq_makefile -f _CoqProject -o Makefile && make -j16 Properties_%s.vo "
                          "&& coqc -Q . CV <Print Assumptions for each theorem>" % prop,
           "forbidden_vernacular_hits": ["%s:%d: %s" % h for h in hits],
           "coq_files_in_scope": coq_deps(prop)}
    if not ctx.quick and ok:
        # independent re-check of the compiled files (and everything they depend on) with coqchk
        rc, out, err = sh(["coqchk", "-o", "-silent", "-Q", COQ, "CV", "CV.Properties_%s" % prop], timeout=1800, cwd=COQ)
        res["coqchk"] = {"exit": rc, "output_tail": (out + err)[-1500:]}
        if rc != 0:
            ok = False
            bad.append("coqchk rejects Properties_%s.vo" % prop)
    good = ok and ass is not None and discharged == len(thms) and not hits and len(thms) > 0
    if not good:
        res["coq_log_tail"] = log[-3000:]
        res["problems"] = bad
    return good, res


TRUSTED_BASE = [
    "Coq 8.16.1 kernel (coqc; vm_compute used in finite-domain lemmas; no native_compute)",
    "axioms: none (Print Assumptions re-run on every check; see axioms_used)",
    "extraction to OCaml with ExtrOcamlBasic only (no Extract Constant of ours; Z/positive/nat stay Coq datatypes), OCaml 4.13.1, ocaml/driver.ml parsing/printing glue",
    "C++ harness + generators + diff (harness/*.cpp, checks/*.py), g++ 12.2",
    "the hand-written Gallina model is tied to /repo only by the correspondence run of this check",
]


# ---------------------------------------------------------------- generic differential runner


def proof_status_all(ctx, prop, extras=()):
    """proof_status of Properties_<prop>.v merged with further property files (Properties_<e>.v for e in extras):
    every file must build, be free of forbidden vernacular and have all its theorems closed"""
    ok, proof = proof_status(ctx, prop)
    for e in extras:
        e_ok, e_proof = proof_status(ctx, e)
        ok = ok and e_ok
        for k in ("obligations", "discharged"):
            proof[k] = proof.get(k, 0) + e_proof.get(k, 0)
        for k in ("theorems", "axioms_used", "forbidden_vernacular_hits", "coq_files_in_scope", "problems"):
            if e_proof.get(k):
                if k == "theorems":
                    proof[k] = list(proof.get(k, [])) + [t for t in e_proof[k] if t not in proof.get(k, [])]
                else:
                    proof[k] = sorted(set(list(proof.get(k, [])) + list(e_proof[k])))
        proof.setdefault("property_files", ["Properties_%s.v" % prop]).append("Properties_%s.v" % e)
        if "coqchk" in e_proof:
            proof["coqchk_" + e] = e_proof["coqchk"]
        if not e_ok and "coq_log_tail" in e_proof:
            proof["coq_log_tail_" + e] = e_proof["coq_log_tail"]
    return ok, proof

def _summarise_death(rc, err):
    m = re.search(r"(ERROR: AddressSanitizer: [^\n]*|runtime error: [^\n]*|WARNING: ThreadSanitizer: [^\n]*|Assertion [^\n]*failed[^\n]*)", err)
    loc = re.search(r"(/repo/src/[^\s:]+:\d+)", err)
    return "DIED rc=%s %s %s" % (rc, m.group(1)[:200] if m else err.strip()[-200:].replace("\n", " "), loc.group(1) if loc else "")


# once a harness process has hung in this check run (a violation is going to be reported anyway), later attempts and later stages
# wait much less: a tree on which the library does not terminate must not keep a quick check busy for hours
_TIMEOUTS_SEEN = [0]
AFTER_HANG_TIMEOUT = 150


def _run_resilient(cmd, lines, timeout, env=None):
    """runs cmd over the case lines; when the process dies (sanitizer report, abort, timeout) the case it
    died on gets a 'DIED ...' result line and the run resumes after it"""
    out = []
    rest = list(lines)
    guard = 0
    ntimeouts = 0
    while rest and guard < 200 and ntimeouts < 2:
        guard += 1
        eff = timeout if not _TIMEOUTS_SEEN[0] else min(timeout, AFTER_HANG_TIMEOUT)
        try:
            p = subprocess.run(cmd, input="\n".join(rest) + "\n", capture_output=True, text=True, timeout=eff, env=env)
            rc, so, se = p.returncode, p.stdout, p.stderr
        except subprocess.TimeoutExpired as e:
            rc = "timeout"
            ntimeouts += 1
            _TIMEOUTS_SEEN[0] += 1
            so = e.stdout.decode() if isinstance(e.stdout, bytes) else (e.stdout or "")
            se = "TIMEOUT after %ss (the process did not finish this case: non-termination or far too slow)" % eff
        got = so.split("\n")
        if got and got[-1] == "":
            got = got[:-1]
        if len(got) >= len(rest):
            out += got[:len(rest)]
            rest = []
        else:
            # an incomplete last line belongs to the dying case
            if so and not so.endswith("\n") and got:
                got = got[:-1]
            out += got
            out.append(_summarise_death(rc, se))
            rest = rest[len(got) + 1:]
    out += ["SKIPPED (after repeated crashes / timeouts in this chunk)"] * len(rest)
    return out


def _run_pair(args):
    harness_cmd, driver_cmd, text, timeout = args
    lines = text.split("\n")
    if lines and lines[-1] == "":
        lines = lines[:-1]
    impl = _run_resilient(harness_cmd, lines, timeout, env=HARNESS_ENV)
    if driver_cmd is None:
        return impl, None, 0, ""
    pm = subprocess.run(driver_cmd, input=text, capture_output=True, text=True, timeout=timeout)
    return impl, pm.stdout.split("\n"), 0, ""


HARNESS_ENV = dict(os.environ, ASAN_OPTIONS="detect_leaks=0:abort_on_error=0:handle_abort=0:handle_segv=1:allocator_may_return_null=1",
                   UBSAN_OPTIONS="print_stacktrace=0:halt_on_error=1", TSAN_OPTIONS="halt_on_error=1")


def run_both(harness_cmd, driver_cmd, lines, timeout=900, chunk=4000):
    """feeds the same case lines to the C++ harness and to the extracted model, in parallel chunks;
    returns (impl_lines, model_lines) aligned with `lines` ('<missing>' where a process died)"""
    from multiprocessing.pool import ThreadPool
    n = len(lines)
    nchunks = max(1, min(NCPU, n // chunk + 1))
    size = (n + nchunks - 1) // nchunks
    parts = [lines[i:i + size] for i in range(0, n, size)]
    with ThreadPool(nchunks) as p:
        res = p.map(_run_pair, [(harness_cmd, driver_cmd, "\n".join(pt) + "\n", timeout) for pt in parts])
    impl, model, errs = [], [], []
    for pt, (il, ml, rc, err) in zip(parts, res):
        il = il[:len(pt)] + ["<missing>"] * max(0, len(pt) - len(il))
        # a trailing empty string after the final newline is not a result line
        if len(il) >= len(pt) and rc not in (0,):
            errs.append((rc, err))
        impl += [x if x != "" or True else x for x in il[:len(pt)]]
        if ml is not None:
            ml = ml[:len(pt)] + ["<missing>"] * max(0, len(pt) - len(ml))
            model += ml[:len(pt)]
    return impl, (model if driver_cmd is not None else None), errs


def harness_gen(harness, args, timeout=1200):
    r = subprocess.run([harness, "gen"] + [str(a) for a in args], capture_output=True, text=True, timeout=timeout)
    if r.returncode != 0:
        raise BuildError("generator failed: %s %s\n%s" % (harness, args, r.stderr[-1000:]))
    return [l for l in r.stdout.split("\n") if l]


def corpus(prop, prefix):
    p = os.path.join(ROOT, "corpus", prop, "cases.txt")
    if os.path.exists(p):
        return [l.strip() for l in open(p) if l.startswith(prefix)]
    return []
