#!/usr/bin/env python3
"""C07 translator (TRUSTED BASE of the listing tie): every operation of the functions that the machine-integer
listings `coq/*Machine*.v` transcribe which can overflow or trap at a SIGNED integer type, or which converts between
types with a change of value, read from clang's AST (`-Xclang -ast-dump=json`) of /repo's CURRENT tree and written
as a Coq table `coq/MachineOps_gen.v`:

    Definition machine_ops : list mfun :=
      [ mkF "<listing file>" "<qualified function>" [ mkOp <kind> <result type> "<normalised source text>" <occurrence>; ... ]
            [ "<qualified name of a function declared in the repo that the body calls>"; ... ]; ... ].

kinds (coq/MachineOps.v)
  OAdd OSub OMul ODiv ORem OShl       BinaryOperator + - * / % << whose type is int / long / long long
  OAddA OSubA OMulA ODivA ORemA OShlA CompoundAssignOperator += -= *= /= %= <<= whose COMPUTATION type is such a type
  ONeg OPreInc OPostInc OPreDec OPostDec   UnaryOperator - ++ -- on such a type
  OAbs                                a call of abs / std::abs / labs / llabs whose result is such a type
  ONarrow <from>                      ImplicitCastExpr / CStyleCastExpr / CXXStaticCastExpr / CXXFunctionalCastExpr of kind IntegralCast
                                      to a signed type that cannot hold every value of the source type <from>
                                      (long long -> int, size_t -> int, size_t -> long long, unsigned -> int)
  OFloatToInt <from>                  the same of kind FloatingToIntegral (any integer target)
  OUnsigned                           an unsigned + - * / % << (or compound assignment, ++ --) that is the operand of an ONarrow
                                      (unsigned arithmetic wraps without UB: listed only when it is narrowed to a signed type afterwards)
Not listed: comparisons, std::min / std::max (no arithmetic), widening conversions, conversions signed -> unsigned (defined;
what they index is C14's / the sanitizers' subject), float arithmetic, iterator / pointer arithmetic (operator calls of
class types are not integer operations of the function itself; `it - begin()` appears as the ONarrow of its long result).

The text of an operation is the source text of the node's range with whitespace collapsed; `occurrence` numbers identical
(kind, type, text) triples of one function in source order (0, 1, ...).  Absolute line numbers are kept only in comments.
Nothing here decides whether an operation is covered: that is `ops_covered_b` of coq/MachineOps.v, evaluated by theorem
`c07_listings_cover_every_signed_operation` (coq/Properties_C07_listing.v) on the generated table on every run."""
import hashlib
import json
import os
import re
import subprocess
import sys

sys.path.insert(0, os.path.dirname(os.path.dirname(os.path.abspath(__file__))))
from tools import circuit_access as ca   # JSON stream decoding, function_defs, walk, write_gen

TranslateError = ca.TranslateError

# listing file -> source file -> functions whose bodies the listing transcribes (qualified as circuit_access.function_defs
# names them; an overloaded name is followed by its parameter types)
LISTINGS = [
    ("RowLegMachine.v", [
        ("src/place_detailed/row_legalizer.cpp", ["RowLegalizer::getDisplacement", "RowLegalizer::usedSpace", "RowLegalizer::getCost",
                                                  "RowLegalizer::push"]),
    ]),
    ("SubdivMachine.v", [
        ("src/place_global/density_grid.cpp", ["computeSubdivisions"]),
    ]),
    ("MovesMachine.v", [
        ("src/place_detailed/detailed_placement.cpp", [
            "DetailedPlacement::boundaryBefore(int)", "DetailedPlacement::boundaryBefore(int, int)", "DetailedPlacement::boundaryAfter(int)",
            "DetailedPlacement::boundaryAfter(int, int)", "DetailedPlacement::siteBegin",
            "DetailedPlacement::siteEnd", "DetailedPlacement::canPlace", "DetailedPlacement::canInsert",
            "DetailedPlacement::canSwap", "DetailedPlacement::insert", "DetailedPlacement::swap",
            "DetailedPlacement::positionsOnSwap", "DetailedPlacement::positionOnInsert", "DetailedPlacement::place",
            "DetailedPlacement::unplace", "DetailedPlacement::cellPos", "DetailedPlacement::cellX", "DetailedPlacement::cellWidth",
            "DetailedPlacement::cellPred", "DetailedPlacement::cellNext", "DetailedPlacement::cellRow",
            "DetailedPlacement::rowFirstCell", "DetailedPlacement::isPlaced", "DetailedPlacement::rowY", "rowAllowed",
            "DetailedPlacement::nbCells", "DetailedPlacement::nbRows"]),
    ]),
    ("HpwlMachine.v", [
        ("src/coloquinte.cpp", ["Circuit::hpwl", "Circuit::pinXOffset", "Circuit::pinYOffset", "Circuit::nbNets", "Circuit::nbPinsNet",
                                "Circuit::pinCell", "Circuit::x", "Circuit::y", "Circuit::placedWidth", "Circuit::placedHeight",
                                "Circuit::orientation", "Circuit::nbCells"]),
        ("src/place_detailed/incr_net_model.cpp", [
            "IncrNetModel::computeNetMinMaxPos(int)", "IncrNetModel::computeValue", "IncrNetModel::updateCellPos",
            "IncrNetModel::recomputeNet", "IncrNetModel::computeNetMinMaxPos()", "IncrNetModel::nbNetPins", "IncrNetModel::pinCell",
            "IncrNetModel::netPinOffset", "IncrNetModel::nbNets", "IncrNetModel::nbCellPins", "IncrNetModel::pinNet",
            "IncrNetModel::nbCells"]),
    ]),
    ("AbacusMachine.v", [
        ("src/place_detailed/abacus_legalizer.cpp", [
            "AbacusLegalizer::run", "AbacusLegalizer::placeCell", "AbacusLegalizer::evaluatePlacement", "AbacusLegalizer::check",
            "LegalizerBase::nbRows",
            "LegalizerBase::nbCells", "Rectangle::height", "RowLegalizer::remainingSpace",
            "norm(int, int, coloquinte::LegalizationModel)", "computeNorm(long long, long long, coloquinte::LegalizationModel)"]),
        ("src/place_detailed/legalizer.cpp", ["LegalizerBase::closestRow", "LegalizerBase::getOrientation", "LegalizerBase::check"]),
        ("src/place_detailed/row_legalizer.cpp", ["RowLegalizer::getPlacement"]),
    ]),
    ("Transp1dMachine.v", [
        ("src/place_global/transportation_1d.cpp", None),   # filled by transp1d_functions(): every member but the excluded ones
    ]),
    ("SspMachine.v", [
        ("src/place_global/transportation.cpp", [
            "TransportationProblem::totalDemand", "TransportationProblem::totalCapacity",
            "TransportationProblem::increaseCapacity", "TransportationProblem::movingCost", "TransportationProblem::nbSinks",
            "TransportationProblem::nbSources"]),
    ]),
    ("SspMachineRun.v", [
        ("src/place_global/transportation.cpp", [
            "TransportationSuccessiveShortestPath::run", "TransportationSuccessiveShortestPath::sortedSourcesByDemand",
            "TransportationSuccessiveShortestPath::bestSink", "TransportationSuccessiveShortestPath::sendSource(int)",
            "TransportationSuccessiveShortestPath::sendSource(int, int, coloquinte::DemandType)", "TransportationSuccessiveShortestPath::updateTree",
            "TransportationSuccessiveShortestPath::initQueues", "TransportationSuccessiveShortestPath::updateDestQueues",
            "TransportationSuccessiveShortestPath::updateSinkQueues", "TransportationSuccessiveShortestPath::movingCost",
            "TransportationSuccessiveShortestPath::sentQuantity", "TransportationSuccessiveShortestPath::sentSource",
            "TransportationProblem::resetAllocations", "TransportationProblem::demand", "TransportationProblem::cost",
            "TransportationProblem::allocation"]),
    ]),
    ("DensityMachine.v", [
        ("src/place_global/density_grid.cpp", [
            "DensityGrid::DensityGrid(int, const std::vector<Rectangle> &)", "DensityGrid::fromIspdCircuit",
            "DensityGrid::computePlacementArea", "DensityGrid::updateBinsToSize", "DensityGrid::updateBinsToNumber",
            "DensityGrid::updateBinCenters", "DensityGrid::updateBinCapacity()",
            "DensityGrid::updateBinCapacity(const std::vector<Rectangle> &)", "DensityGrid::check", "DensityGrid::totalCapacity",
            "DensityGrid::binCapacity(coloquinte::DensityGrid::BinGroup)", "DensityGrid::region", "DensityGrid::nbBinsX",
            "DensityGrid::nbBinsY", "Rectangle::width", "Rectangle::height", "Rectangle::area", "Rectangle::intersection",
            "Rectangle::intersects", "HierarchicalDensityPlacement::fromIspdCircuit",
            "HierarchicalDensityPlacement::updateCellDemand(const coloquinte::Circuit &)",
            "HierarchicalDensityPlacement::totalDemand", "HierarchicalDensityPlacement::totalOverflow",
            "HierarchicalDensityPlacement::binUsage", "HierarchicalDensityPlacement::binCapacity",
            "HierarchicalDensityPlacement::binCells", "HierarchicalDensityPlacement::cellDemand",
            "HierarchicalDensityPlacement::nbBinsX()", "HierarchicalDensityPlacement::nbBinsX(int)",
            "HierarchicalDensityPlacement::nbBinsY()", "HierarchicalDensityPlacement::nbBinsY(int)",
            "HierarchicalDensityPlacement::nbCells", "HierarchicalDensityPlacement::getGroup", "DensityGrid::binLimitX",
            "DensityGrid::binLimitY", "Circuit::isFixed"]),
        ("src/coloquinte.cpp", ["Circuit::area", "Circuit::computeRowPlacementArea", "Circuit::expandCellsToDensity",
                                "Circuit::expandCellsByFactor"]),
    ]),
]

SIGNED = {"int": "MInt", "long": "MLong", "long long": "MLLong", "short": "MShort", "signed char": "MSChar"}
UNSIGNED = {"unsigned int": "MUInt", "unsigned long": "MULong", "unsigned long long": "MULLong",
            "unsigned short": "MUShort", "unsigned char": "MUChar", "bool": "MBool", "char": "MChar"}
FLOATS = {"float": "MFloat", "double": "MDouble", "long double": "MLDouble"}
BITS = {"MBool": 1, "MChar": 8, "MSChar": 8, "MUChar": 8, "MShort": 16, "MUShort": 16, "MInt": 32, "MUInt": 32,
        "MLong": 64, "MULong": 64, "MLLong": 64, "MULLong": 64}
BIN = {"+": "OAdd", "-": "OSub", "*": "OMul", "/": "ODiv", "%": "ORem", "<<": "OShl"}
CMP = {"+=": "OAddA", "-=": "OSubA", "*=": "OMulA", "/=": "ODivA", "%=": "ORemA", "<<=": "OShlA"}
CASTS = ("ImplicitCastExpr", "CStyleCastExpr", "CXXStaticCastExpr", "CXXFunctionalCastExpr")
# clang's -ast-dump-filter (a substring of the qualified name); the 1-D transportation classes are outside namespace coloquinte
FILTER = {"src/place_global/transportation_1d.cpp": "Transportation1d"}


# ------------------------------------------------------------------ clang
_CACHE = {}


def _dep_hash(repo, src):
    h = hashlib.sha256()
    for root, _, files in sorted(os.walk(os.path.join(repo, "src"))):
        for f in sorted(files):
            if f.endswith((".hpp", ".h")) or os.path.join(root, f) == src:
                h.update(f.encode())
                h.update(open(os.path.join(root, f), "rb").read())
    return h.hexdigest()


def clang_dump(repo, src):
    """the JSON objects of clang's filtered AST dump of one translation unit (cached in memory and, keyed by the hash of
    the .cpp and of every header under src/, in build/cache/machine_ops)"""
    key = (os.path.abspath(repo), src)
    if key in _CACHE:
        return _CACHE[key]
    cdir = os.path.join(os.path.dirname(os.path.dirname(os.path.abspath(__file__))), "build", "cache", "machine_ops")
    cfile = None
    try:
        os.makedirs(cdir, exist_ok=True)
        flt = FILTER.get(os.path.relpath(src, repo), "coloquinte::")
        tag = hashlib.sha256((os.path.abspath(src) + flt + _dep_hash(repo, src)).encode()).hexdigest()[:24]
        cfile = os.path.join(cdir, tag + ".json")
    except OSError:
        cfile = None
    txt = None
    if cfile and os.path.exists(cfile):
        try:
            txt = open(cfile).read()
        except OSError:
            txt = None
    if txt is None:
        cmd = ["clang++", "-std=gnu++17", "-DCOLOQUINTE_VERIF", "-I" + os.path.join(repo, "src"), "-I/usr/include/eigen3",
               "-fsyntax-only", "-w", "-Xclang", "-ast-dump=json", "-Xclang", "-ast-dump-filter=" + FILTER.get(os.path.relpath(src, repo), "coloquinte::"), src]
        try:
            p = subprocess.run(cmd, capture_output=True, text=True, timeout=600)
        except (OSError, subprocess.TimeoutExpired) as e:
            raise TranslateError("clang++ could not be run: %s" % e)
        if p.returncode != 0:
            raise TranslateError("clang++ does not parse %s: %s" % (src, p.stderr[-800:]))
        txt = p.stdout
        if cfile:
            try:
                with open(cfile + ".tmp%d" % os.getpid(), "w") as f:
                    f.write(txt)
                os.replace(cfile + ".tmp%d" % os.getpid(), cfile)
            except OSError:
                pass
    dec = json.JSONDecoder()
    i, objs = 0, []
    while True:
        while i < len(txt) and txt[i].isspace():
            i += 1
        if i >= len(txt):
            break
        o, i = dec.raw_decode(txt, i)
        objs.append(o)
    st = {"file": None, "line": 0}
    for o in objs:
        annotate(o, st)
    _CACHE[key] = objs
    return objs


def _bare(d, st):
    if "file" in d:
        st["file"] = d["file"]
    if "line" in d:
        st["line"] = d["line"]
    if "offset" in d:
        d["_file"], d["_line"] = st["file"], st["line"]


def _loc(d, st):
    """clang prints `file` / `line` of a location only when they differ from the previously PRINTED location: resolve them in
    document order (json keeps the key order)"""
    if not isinstance(d, dict):
        return
    if "spellingLoc" in d or "expansionLoc" in d:
        for k, v in d.items():
            if k in ("spellingLoc", "expansionLoc") and isinstance(v, dict):
                _bare(v, st)
    else:
        _bare(d, st)


def annotate(n, st):
    if isinstance(n, list):
        for c in n:
            annotate(c, st)
        return
    if not isinstance(n, dict):
        return
    for k, v in n.items():
        if k == "loc":
            _loc(v, st)
        elif k == "range" and isinstance(v, dict):
            _loc(v.get("begin"), st)
            _loc(v.get("end"), st)
        elif k == "inner" or isinstance(v, (dict, list)):
            annotate(v, st)


_SRC = {}


def _file_bytes(path):
    if path not in _SRC:
        _SRC[path] = open(path, "rb").read()
    return _SRC[path]


def node_text(n):
    """(normalised source text, line) of the node's source range; macro arguments are read at their spelling"""
    r = n.get("range", {})
    b, e = r.get("begin", {}), r.get("end", {})
    for pick in ("spellingLoc", "expansionLoc"):
        bb = b.get(pick, b) if ("spellingLoc" in b or "expansionLoc" in b) else b
        ee = e.get(pick, e) if ("spellingLoc" in e or "expansionLoc" in e) else e
        if "offset" in bb and "offset" in ee and bb.get("_file") and bb.get("_file") == ee.get("_file") \
                and bb["offset"] <= ee["offset"]:
            raw = _file_bytes(bb["_file"])[bb["offset"]:ee["offset"] + ee.get("tokLen", 1)].decode("utf-8", "replace")
            raw = re.sub(r"//[^\n]*", " ", raw)
            raw = re.sub(r"/\*.*?\*/", " ", raw, flags=re.S)
            return re.sub(r"\s+", " ", raw).strip(), bb.get("_line", 0), bb["_file"], bb["offset"], ee["offset"]
    raise TranslateError("a node of kind %s has no usable source range" % n.get("kind"))


# ------------------------------------------------------------------ types
def ctype(n):
    """('s' | 'u' | 'f' | 'x', coq constructor) of the node's type; 'x' = not an arithmetic scalar (class, pointer, void ...)"""
    t = n.get("type", {})
    return ctype_s(t.get("desugaredQualType") or t.get("qualType", ""))


def ctype_s(s):
    s = re.sub(r"\b(const|volatile)\b", "", s).replace("&", "").strip()
    s = re.sub(r"\s+", " ", s)
    if s in SIGNED:
        return "s", SIGNED[s]
    if s in UNSIGNED:
        return "u", UNSIGNED[s]
    if s in FLOATS:
        return "f", FLOATS[s]
    return "x", s


def kids(n):
    return [c for c in n.get("inner", []) or [] if isinstance(c, dict)]


def strip(n):
    while n.get("kind") in ("ParenExpr", "ExprWithCleanups", "ConstantExpr", "MaterializeTemporaryExpr", "CXXBindTemporaryExpr") \
            or (n.get("kind") == "ImplicitCastExpr" and n.get("castKind") in ("LValueToRValue", "NoOp")):
        k = kids(n)
        if len(k) != 1:
            break
        n = k[0]
    return n


def callee_name(call):
    k = kids(call)
    if not k:
        return ""
    for w in ca.walk(k[0]):
        if w.get("kind") == "DeclRefExpr":
            return w.get("referencedDecl", {}).get("name", "")
        if w.get("kind") == "MemberExpr":
            return ""
    return ""


class Scanner:
    def __init__(self, fn):
        self.fn = fn
        self.ops = {}     # (file, begin, end, kind, type) -> (kind, type, text, line)
        self.odd = []

    def emit(self, n, kind, ty):
        text, line, f, b, e = node_text(n)
        self.ops.setdefault((f, b, e, kind, ty), (kind, ty, text, line, b, e))

    def unsigned_operand(self, n):
        """unsigned arithmetic below a narrowing conversion to a signed type"""
        n = strip(n)
        k = n.get("kind")
        if k in ("BinaryOperator", "CompoundAssignOperator") and (n.get("opcode") in BIN or n.get("opcode") in CMP):
            cls, ty = ctype(n)
            if cls == "u":
                self.emit(n, "OUnsigned", ty)
                for c in kids(n):
                    self.unsigned_operand(c)
        elif k == "UnaryOperator" and n.get("opcode") in ("++", "--", "-"):
            cls, ty = ctype(n)
            if cls == "u":
                self.emit(n, "OUnsigned", ty)
        elif k in CASTS and n.get("castKind") == "IntegralCast":
            cls, _ = ctype(n)
            if cls == "u":
                for c in kids(n):
                    self.unsigned_operand(c)

    def visit(self, n):
        k = n.get("kind")
        if k == "BinaryOperator" and n.get("opcode") in BIN:
            cls, ty = ctype(n)
            if cls == "s":
                self.emit(n, BIN[n["opcode"]], ty)
            elif cls == "u" and n["opcode"] in ("/", "%"):
                self.emit(n, BIN[n["opcode"]], ty)          # an unsigned division still traps on a zero divisor
            elif cls == "x" and "*" not in ty and "dependent" in ty:
                self.odd.append("dependent type in %s" % self.fn)
        elif k == "CompoundAssignOperator" and n.get("opcode") in CMP:
            t = n.get("computeResultType", {}) or n.get("type", {})
            cls, ty = ctype_s(t.get("desugaredQualType") or t.get("qualType", ""))
            if cls == "s" or (cls == "u" and n["opcode"] in ("/=", "%=")):
                self.emit(n, CMP[n["opcode"]], ty)
                # the result is stored in the left operand: a narrower signed target is a narrowing conversion too
                lcls, lty = ctype(n)
                if lcls == "s" and BITS.get(lty, 64) < BITS.get(ty, 64):
                    self.emit(n, "ONarrow " + ty, lty)
            elif cls == "f":
                lcls, lty = ctype(n)
                if lcls in ("s", "u"):
                    self.emit(n, "OFloatToInt " + ty, lty)   # `intvar += floatexpr`: computed in float, converted back
        elif k == "UnaryOperator" and n.get("opcode") in ("-", "++", "--"):
            cls, ty = ctype(n)
            lit = n["opcode"] == "-" and kids(n) and strip(kids(n)[0]).get("kind") == "IntegerLiteral"
            if cls == "s" and not lit:     # `-1`: the negation of a literal is a constant, not an operation
                op = n["opcode"]
                kind = "ONeg" if op == "-" else ("OPost" if n.get("isPostfix") else "OPre") + ("Inc" if op == "++" else "Dec")
                self.emit(n, kind, ty)
        elif k == "CallExpr" and callee_name(n) in ("abs", "labs", "llabs"):
            cls, ty = ctype(n)
            if cls == "s":
                self.emit(n, "OAbs", ty)
        elif k in CASTS:
            # an explicit cast node is either the conversion itself (C-style: castKind IntegralCast) or a NoOp around an
            # ImplicitCastExpr marked isPartOfExplicitCast that carries it (static_cast): report the conversion ONCE, with the
            # text of the outermost cast node
            ck, src, below = n.get("castKind"), None, None
            ch = kids(n)
            if ck in ("IntegralCast", "FloatingToIntegral") and ch:
                src, below = ch[-1], ch[-1]
            elif k != "ImplicitCastExpr" and ck == "NoOp" and ch and ch[-1].get("kind") == "ImplicitCastExpr" \
                    and ch[-1].get("isPartOfExplicitCast") and ch[-1].get("castKind") in ("IntegralCast", "FloatingToIntegral") and kids(ch[-1]):
                ck, src, below = ch[-1]["castKind"], kids(ch[-1])[-1], kids(ch[-1])[-1]
            if src is not None:
                tcls, tty = ctype(n)
                scls, sty = ctype(src)
                if ck == "FloatingToIntegral":
                    if tcls in ("s", "u") and scls == "f":
                        self.emit(n, "OFloatToInt " + sty, tty)
                elif tcls == "s" and scls in ("s", "u"):
                    sb, tb = BITS[sty], BITS[tty]
                    if (scls == "s" and sb > tb) or (scls == "u" and sb >= tb):
                        self.emit(n, "ONarrow " + sty, tty)
                        if scls == "u":
                            self.unsigned_operand(src)
                self.visit(below)
                return
        for c in kids(n):
            self.visit(c)

    def result(self):
        """ops in source order, with the occurrence number of identical (kind, type, text) triples"""
        out, seen = [], {}
        for kind, ty, text, line, b, e in sorted(self.ops.values(), key=lambda o: (o[3], o[4], -o[5], o[0], o[1])):
            occ = seen.get((kind, ty, text), 0)
            seen[(kind, ty, text)] = occ + 1
            out.append((kind, ty, text, occ, line))
        return out


# ------------------------------------------------------------------ functions
def named_defs(objs):
    """qualified name -> FunctionDecl with a body.  An overloaded name is followed by its parameter types as clang prints
    them, e.g. `IncrNetModel::computeNetMinMaxPos(int)`; that form is available for every function"""
    by = {}
    for name, d in ca.function_defs(objs, None):
        if d.get("isImplicit"):
            continue
        qt = d.get("type", {}).get("qualType", "")
        m = re.search(r"\((.*)\)[^()]*$", qt)
        sig = "(%s)" % re.sub(r"\s+", " ", m.group(1)).strip() if m else "(?)"
        by.setdefault(name, {}).setdefault(sig, d)
    out = {}
    for name, defs in by.items():
        if len(defs) == 1:
            out[name] = list(defs.values())[0]
        for sig, d in defs.items():
            out[name + sig] = d
    return out


T1D_EXCLUDED = ("Transportation1d::solve", "Transportation1d::checkSolutionValid", "Transportation1dSolver::checkSolutionOptimal",
                "Transportation1d::read", "Transportation1d::readSolution", "Transportation1d::write",
                "Transportation1d::writeAssignment", "Transportation1d::writeSolution",
                "Transportation1d::cost(const Transportation1d::Solution &)")


def transp1d_functions(defs):
    """every member function of the Transportation1d / Transportation1dSorter / Transportation1dSolver classes defined in the
    translation unit (an overloaded one under its name with parameter types), except solve(), what only it reaches and the
    text I/O (design/C07.md: not called by the library)"""
    names = [n for n in defs if "(" not in n] + [n for n in defs if "(" in n and base_name(n) not in defs]
    return sorted(n for n in names if n.split("::")[0].startswith("Transportation1d") and n not in T1D_EXCLUDED)


def scan_function(name, d):
    sc = Scanner(name)
    for c in kids(d):
        if c.get("kind") != "ParmVarDecl":     # default arguments are evaluated by the caller
            sc.visit(c)
    if sc.odd:
        raise TranslateError("; ".join(sorted(set(sc.odd))))
    return sc.result()


# the listings whose cover table (coq/MachineOpsCover.v) is complete: only these are translated (design/C07.md says which)
TIED = ("RowLegMachine.v", "SubdivMachine.v", "SspMachine.v", "SspMachineRun.v", "AbacusMachine.v", "MovesMachine.v", "HpwlMachine.v", "DensityMachine.v", "Transp1dMachine.v")


def translate(repo, listings=None):
    """[(listing, function, [(kind, type, text, occurrence, line)])] sorted by (listing, function)"""
    out = []
    for listing, parts in (listings or [l for l in LISTINGS if l[0] in TIED]):
        for rel, fns in parts:
            src = os.path.join(repo, rel)
            if not os.path.exists(src):
                raise TranslateError("%s does not exist" % src)
            objs = clang_dump(repo, src)
            defs, idx = named_defs(objs), decl_index(objs)
            if fns is None:
                fns = transp1d_functions(defs)
                if not fns:
                    raise TranslateError("no Transportation1d member function found in %s" % rel)
            for fn in fns:
                if fn not in defs:
                    raise TranslateError("function %s (listing %s) has no definition in %s: the table of tools/machine_ops.py "
                                         "no longer describes the source" % (fn, listing, rel))
                out.append((listing, fn, scan_function(fn, defs[fn]), function_calls(defs[fn], idx)))
    out.sort(key=lambda t: (t[0], t[1]))
    return out


def function_calls(d, idx):
    """sorted qualified names (no parameter list) of the functions DECLARED in the repo's own code that the body refers to
    (calls; also a function whose address is taken).  Not seen: constructors (clang's CXXConstructExpr names no declaration in
    the JSON dump), compiler-generated members, the call operator of a lambda (its body is part of the enclosing function)"""
    out = set()
    for w in ca.walk(d):
        ref = w.get("referencedMemberDecl") if w.get("kind") == "MemberExpr" else \
            w.get("referencedDecl", {}).get("id") if w.get("kind") == "DeclRefExpr" else None
        if ref in idx:
            out.add(idx[ref])
    return sorted(out)


def decl_index(objs):
    """decl id -> qualified name of every function DECLARED in the dumped part of the translation unit (the repo's own code:
    clang's filter drops the standard library)"""
    idx, recname = {}, {}
    for o in objs:
        for w in ca.walk(o):
            if w.get("kind") in ("CXXRecordDecl", "ClassTemplateSpecializationDecl") and "id" in w and w.get("name"):
                recname[w["id"]] = w["name"]

    def rec(n, scope, unnamed=False):
        k = n.get("kind")
        if k in ("CXXRecordDecl", "NamespaceDecl", "ClassTemplateSpecializationDecl") and n.get("name"):
            scope = scope + [n["name"]]
        if k == "CXXRecordDecl":
            unnamed = not n.get("name")        # a lambda's closure type
        if k in ("FunctionDecl", "CXXMethodDecl", "CXXConstructorDecl", "CXXConversionDecl") and "id" in n \
                and not n.get("isImplicit") and not (unnamed and n.get("name") == "operator()"):
            cls = recname.get(n.get("parentDeclContextId"))
            sc = [x for x in scope if x != "coloquinte"]
            if cls and (not sc or sc[-1] != cls):
                sc = sc + [cls]
            idx[n["id"]] = "::".join(sc + [n.get("name", "?")])
        for c in kids(n):
            rec(c, scope, unnamed)
    for o in objs:
        rec(o, [])
    return idx


def base_name(fn):
    return fn.split("(")[0]


def callees_outside(table):
    """callee -> sorted callers, for every callee of a function of the table that is not itself (by its name without parameter
    list) a function of the table: what coq/MachineOpsCover.v must list in [callees_not_inlined]"""
    have = set(base_name(t[1]) for t in table)
    out = {}
    for _, fn, _, calls in table:
        for c in calls:
            if c not in have:
                out.setdefault(c, set()).add(base_name(fn))
    return {c: sorted(by) for c, by in sorted(out.items())}


def coq_string(s):
    return '"%s"' % s.replace('"', '""')


def coq_text(table, note=""):
    nops = sum(len(t[2]) for t in table)
    lines = ["(* GENERATED by tools/machine_ops.py from the C++ sources of the tree under check (clang AST), on every run of",
             "   ./check C07 and by setup.sh.  Do not edit.  %d operations of %d functions.%s *)" % (nops, len(table), note),
             "From Coq Require Import List String.", "Import ListNotations.", "Require Import CV.MachineOps.",
             "Local Open Scope string_scope.", "",
             "Definition machine_ops : list mfun := ["]
    fb = []
    for listing, fn, ops, calls in table:
        ob = ["    mkOp %s %s %s %d (* line %d *)" % (("(%s)" % k) if " " in k else k, ty, coq_string(text), occ, line)
              for k, ty, text, occ, line in ops]
        fb.append("  mkF %s %s [\n%s]\n    [%s]" % (coq_string(listing), coq_string(fn), ";\n".join(ob), "; ".join(coq_string(c) for c in calls)))
    lines.append(";\n".join(fb))
    lines.append("].")
    return "\n".join(lines) + "\n"


def stub_text(err):
    return coq_text([("TRANSLATOR FAILED", "TRANSLATOR FAILED", [("OAdd", "MInt", str(err).replace("*)", "* )")[:400], 0, 0)], [])],
                    "  tools/machine_ops.py could NOT translate the tree under check.")


def counts(table):
    by_kind, by_type = {}, {}
    for _, _, ops, _ in table:
        for k, ty, _, _, _ in ops:
            by_kind[k.split()[0]] = by_kind.get(k.split()[0], 0) + 1
            by_type[ty] = by_type.get(ty, 0) + 1
    return {"functions": len(table), "operations": sum(len(t[2]) for t in table), "by_kind": by_kind, "by_type": by_type}


write_gen = ca.write_gen

if __name__ == "__main__":
    repo = os.environ.get("VERIF_REPO") or "/repo"
    a = sys.argv[1:]
    if "--repo" in a:
        repo = a[a.index("--repo") + 1]
    try:
        table = translate(repo)
    except TranslateError as e:
        print("machine_ops.py: CANNOT TRANSLATE: %s" % e, file=sys.stderr)
        if "--coq" in a:
            write_gen(a[a.index("--coq") + 1], stub_text(e))   # a table that the cover cannot match: the theorem fails, the file exists
        sys.exit(2)
    if "--calls" in a:
        print("== functions of the repo called from the table's functions but not in the table (for callees_not_inlined)")
        for c, by in callees_outside(table).items():
            print("   %-60s called by %s" % (c, ", ".join(by)))
    elif "--skeleton" in a:
        # a cover table with every entry still to be decided (for coq/MachineOpsCover.v)
        for listing, fn, ops, _ in table:
            print("  mkCF %s %s [" % (coq_string(listing), coq_string(fn)))
            print(";\n".join("    mkC %s %s %s %d (Excluded ENotListed \"TODO\")" % (("(%s)" % k) if " " in k else k, ty, coq_string(text), occ)
                             for k, ty, text, occ, line in ops))
            print("  ];")
    elif "--coq" in a:
        ch = write_gen(a[a.index("--coq") + 1], coq_text(table))
        print("MachineOps_gen.v %s (%s)" % ("rewritten" if ch else "unchanged", counts(table)))
    else:
        for listing, fn, ops, calls in table:
            print("== %s  %s   calls: %s" % (listing, fn, ", ".join(calls)))
            for k, ty, text, occ, line in ops:
                print("   %-18s %-8s #%d  %-70s (line %d)" % (k, ty, occ, text, line))
        print("# %s" % counts(table))
