#!/bin/bash
# verifies every seeded/<dir> that has no meta.json yet; several runners may work in parallel
# (usage: tools/seeded_queue.sh <runner-id>), each directory is claimed with an atomic mkdir
cd /verif
id=${1:-0}
exec 9>/verif/build/tmp/svq_$id.lock
flock -n 9 || exit 0
while true; do
  todo=""
  for d in seeded/*/; do
    d=${d%/}
    [ -f $d/patch.diff ] && [ ! -f $d/meta.json ] && [ ! -f $d/.skip ] && mkdir $d/.claim 2>/dev/null && todo=$d && break
  done
  [ -z "$todo" ] && break
  extra=""
  [ -f $todo/checks.txt ] && extra=$(cat $todo/checks.txt)
  timeout 5400 python3 tools/seeded.py verify $todo $extra > build/tmp/sv_$(basename $todo).log 2>&1 || touch $todo/.skip
  rmdir $todo/.claim 2>/dev/null
done
