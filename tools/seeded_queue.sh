#!/bin/bash
# verifies every seeded/<dir> that has no meta.json yet, one at a time (single runner under flock)
cd /verif
exec 9>/verif/build/tmp/svq.lock
flock -n 9 || exit 0
while true; do
  todo=""
  for d in seeded/*/; do d=${d%/}; [ -f $d/patch.diff ] && [ ! -f $d/meta.json ] && [ ! -f $d/.skip ] && todo=$d && break; done
  [ -z "$todo" ] && break
  extra=""
  [ -f $todo/checks.txt ] && extra=$(cat $todo/checks.txt)
  timeout 5400 python3 tools/seeded.py verify $todo $extra > build/tmp/sv_$(basename $todo).log 2>&1 || touch $todo/.skip
done
