#!/usr/bin/env python3
"""C03 translator (route 1, TRUSTED BASE): every use that the placement algorithms make of a MUTABLE
`coloquinte::Circuit` (a `Circuit &` parameter or a `Circuit &circuit_` member), read from clang's AST of
/repo's current tree and written as a Coq table `coq/CircuitAccess_gen.v`:

    Definition circuit_uses : list cuse := [ mkU "<function>" <kind> "<name>" <line>; ... ].

kinds
  UWrite  f   the field `f` of the circuit is the target of an assignment / ++ / -- / operator=
  URead   f   the field is only read (lvalue-to-rvalue, const view, const method of the field's type)
  UOther  f   the field is used in a way this file does not classify (bound to a non-const reference,
              non-const method of the field's type, address taken ...): Coq treats it as a write of anything
  UCallNC m   a NON-const member function `m` of Circuit is called on it
  UPass   g   it is handed as a non-const reference to function / constructor `g`
  UStore  m   it initialises the reference member `m` of the enclosing class (constructor initialiser)
  URaii   f   (member functions of Circuit only) the field `f` is the constructor argument of an automatic variable, declared as a statement
              of the function body, of a class recognised BY ITS SHAPE as a scope guard of a boolean flag (scope_guard_classes: sets the flag,
              gives it its previous value back in the destructor, not copyable); listed as the pseudo-field "@raii:f" of the method table.
              A DIRECT assignment to the flag (isInUse_ = true) stays a UWrite, which the rule of coq/CircuitAccess.v rejects in an entry point
  UParam  p   the function has a parameter `p` of type (non-const) Circuit& (so that the table knows every function that can receive one)
  UUnknown s  anything else (the expression escapes in a way not understood)
Uses through a `const Circuit &` (implicit NoOp cast to const, const member functions) cannot modify the
circuit and are not listed (C++'s type system is trusted for that; `const_cast` and `mutable` anywhere
in src/ are reported as UUnknown).

Scope: every function defined in src/place_global/*.cpp, src/place_detailed/*.cpp and src/*.cpp except the
member functions of Circuit itself (those are the API: modelled in coq/Api.v and tied by execution).
Nothing here decides whether a use is allowed: that is `circuit_uses_okb` of coq/Api.v, and theorem
`c03_algorithms_write_only_through_exports` evaluates it on the generated table on every run."""
import glob
import json
import os
import re
import subprocess
import sys

TRANSPARENT = {"ParenExpr", "ExprWithCleanups", "CXXBindTemporaryExpr", "ConstantExpr"}


class TranslateError(Exception):
    pass


def clang_dump(repo, src):
    cmd = ["clang++", "-std=gnu++17", "-DCOLOQUINTE_VERIF", "-I" + os.path.join(repo, "src"), "-I/usr/include/eigen3",
           "-fsyntax-only", "-w", "-Xclang", "-ast-dump=json", "-Xclang", "-ast-dump-filter=coloquinte::", src]
    try:
        p = subprocess.run(cmd, capture_output=True, text=True, timeout=600)
    except (OSError, subprocess.TimeoutExpired) as e:
        raise TranslateError("clang++ could not be run: %s" % e)
    if p.returncode != 0:
        raise TranslateError("clang++ does not parse %s: %s" % (src, p.stderr[-800:]))
    dec = json.JSONDecoder()
    txt, i, objs = p.stdout, 0, []
    while True:
        while i < len(txt) and txt[i].isspace():
            i += 1
        if i >= len(txt):
            break
        o, i = dec.raw_decode(txt, i)
        objs.append(o)
    return objs


def qt(n):
    t = n.get("type", {})
    return t.get("desugaredQualType") or t.get("qualType", "")


def is_mut_circuit_type(s):
    s = s.strip()
    return bool(re.fullmatch(r"(class\s+)?(coloquinte::)?Circuit(\s*&)?", s))


def is_const_circuit_type(s):
    return bool(re.fullmatch(r"const\s+(class\s+)?(coloquinte::)?Circuit(\s*&)?", s.strip()))


class Analyzer:
    def __init__(self):
        self.methods = {}      # decl id -> (name, is_const, parent record name)
        self.uses = []         # (function, kind, name, line)
        self.records = {}      # record decl id -> name
        self.this_mode = False # True while scanning a member function of Circuit itself
        self.odd_source = None
        self.line = 0
        self.guards = set()    # classes of this translation unit recognised as scope guards of a boolean flag (scope_guard_classes)

    # ---------- declarations
    def index_decls(self, n, rec=None):
        k = n.get("kind")
        if k in ("CXXRecordDecl", "ClassTemplateSpecializationDecl"):
            rec = n.get("name", rec)
            if "id" in n and n.get("name"):
                self.records[n["id"]] = n["name"]
        if k in ("CXXMethodDecl", "CXXConstructorDecl", "CXXConversionDecl", "CXXDestructorDecl") and "id" in n:
            t = n.get("type", {}).get("qualType", "")
            r = rec or self.records.get(n.get("parentDeclContextId"))
            self.methods[n["id"]] = (n.get("name", "?"), bool(re.search(r"\)\s*const\b", t)), r)
        for c in n.get("inner", []) or []:
            if isinstance(c, dict):
                self.index_decls(c, rec)

    # ---------- expression classification
    def lineof(self, n):
        for key in ("loc", "range"):
            v = n.get(key, {})
            if key == "range":
                v = v.get("begin", {})
            for vv in (v, v.get("expansionLoc", {}), v.get("spellingLoc", {})):
                if "line" in vv:
                    self.line = vv["line"]
                    return self.line
        return self.line

    def is_mut_circuit_expr(self, n):
        k = n.get("kind")
        if k == "CXXThisExpr":
            return self.this_mode and bool(re.fullmatch(r"(class\s+)?(coloquinte::)?Circuit\s*\*", qt(n).strip()))
        if n.get("valueCategory") != "lvalue":
            return False
        if k == "DeclRefExpr":
            rd = n.get("referencedDecl", {})
            if rd.get("kind") in ("ParmVarDecl", "VarDecl"):
                return is_mut_circuit_type(rd.get("type", {}).get("qualType", "")) and is_mut_circuit_type(qt(n))
        if k == "MemberExpr":
            return is_mut_circuit_type(qt(n)) and not n.get("type", {}).get("qualType", "").startswith("const")
        # any OTHER lvalue expression of type (non-const) Circuit: a cast, the result of a call (std::ref(c).get(), a getter returning
        # Circuit&), a conditional ... -- fail closed: it is classified like the others AND reported as an unrecognised source
        if k not in ("ParenExpr", "ImplicitCastExpr", "ExprWithCleanups", "MaterializeTemporaryExpr", "CXXBindTemporaryExpr", "ConstantExpr") \
                and is_mut_circuit_type(qt(n)) and not n.get("type", {}).get("qualType", "").lstrip().startswith("const"):
            if k == "UnaryOperator" and n.get("opcode") == "*":
                inner = [c for c in n.get("inner", []) if isinstance(c, dict)]
                if inner and inner[0].get("kind") in ("CXXThisExpr",) or (inner and inner[0].get("kind") == "ImplicitCastExpr" and any(w.get("kind") == "CXXThisExpr" for w in walk(inner[0]))):
                    return False     # *this: handled from the CXXThisExpr below it
            self.odd_source = k
            return True
        return False

    def method_info(self, member_expr):
        mid = member_expr.get("referencedMemberDecl")
        return self.methods.get(mid, (member_expr.get("name", "?"), None, None))

    def add(self, fn, kind, name, n):
        self.uses.append((fn, kind, name, self.lineof(n)))

    def classify_field(self, fn, fieldname, chain, idx):
        """chain[idx] is the field MemberExpr; walk towards the root to find how the field is used"""
        x = idx
        # element access: operator[] / ArraySubscript / .at()
        while True:
            if x == 0:
                return self.add(fn, "UOther", fieldname, chain[idx])
            p = chain[x - 1]
            pk = p.get("kind")
            cur = chain[x]
            if pk in TRANSPARENT or pk == "MaterializeTemporaryExpr":
                x -= 1
                continue
            if pk == "CXXOperatorCallExpr":
                inner = [c for c in p.get("inner", []) if isinstance(c, dict)]
                callee = inner[0] if inner else {}
                opname = ""
                for w in walk(callee):
                    if w.get("kind") == "DeclRefExpr":
                        opname = w.get("referencedDecl", {}).get("name", "")
                        break
                first_arg = inner[1] if len(inner) > 1 else None
                if opname == "operator[]" and first_arg is cur:
                    x -= 1
                    continue
                if opname in ("operator=", "operator+=", "operator-=", "operator*=", "operator/=", "operator|=", "operator&=", "operator^=") and first_arg is cur:
                    return self.add(fn, "UWrite", fieldname, chain[idx])
                if first_arg is not cur:
                    # the field (or an element) is an operand other than the target: passed by const& or value?
                    return self.add(fn, "UOther", fieldname, chain[idx])
                return self.add(fn, "UOther", fieldname, chain[idx])
            if pk == "ArraySubscriptExpr":
                x -= 1
                continue
            if pk == "ImplicitCastExpr":
                ck = p.get("castKind")
                if ck == "LValueToRValue":
                    return self.add(fn, "URead", fieldname, chain[idx])
                if ck == "NoOp" and qt(p).startswith("const"):
                    return self.add(fn, "URead", fieldname, chain[idx])
                if ck in ("UserDefinedConversion",):
                    x -= 1
                    continue
                if ck in ("IntegralCast", "IntegralToBoolean", "IntegralToFloating", "FloatingCast", "FloatingToIntegral"):
                    return self.add(fn, "URead", fieldname, chain[idx])
                return self.add(fn, "UOther", fieldname, chain[idx])
            if pk == "MemberExpr":
                # method of the field's type (vector::size, _Bit_reference::operator bool ...) or a sub-field
                if p.get("type", {}).get("qualType", "") == "<bound member function type>":
                    nm, isconst, _ = self.method_info(p)
                    # reached from a NON-const lvalue (a const view was caught by the NoOp cast above): a method
                    # known to be const (declared in the dump), or one of std's observers that exist only as const
                    if isconst or (isconst is None and nm in ("size", "empty", "capacity", "max_size", "operator bool", "cbegin", "cend")):
                        return self.add(fn, "URead", fieldname, chain[idx])
                    return self.add(fn, "UOther", fieldname, chain[idx])
                x -= 1
                continue
            if pk == "BinaryOperator" or pk == "CompoundAssignOperator":
                op = p.get("opcode", "")
                inner = [c for c in p.get("inner", []) if isinstance(c, dict)]
                if op.endswith("=") and op not in ("==", "!=", "<=", ">=") and inner and inner[0] is cur:
                    return self.add(fn, "UWrite", fieldname, chain[idx])
                return self.add(fn, "UOther", fieldname, chain[idx])
            if pk == "UnaryOperator":
                if p.get("opcode") in ("++", "--"):
                    return self.add(fn, "UWrite", fieldname, chain[idx])
                return self.add(fn, "UOther", fieldname, chain[idx])
            if pk == "VarDecl" and str(p.get("name", "")).startswith("__range"):
                # `for (decl : field)`: a read when the loop variable is a copy or a reference to const
                for a in reversed(chain[:x - 1]):
                    if a.get("kind") == "CXXForRangeStmt":
                        lv = None
                        for c in a.get("inner", []) or []:
                            if isinstance(c, dict) and c.get("kind") == "DeclStmt":
                                for v in c.get("inner", []) or []:
                                    if isinstance(v, dict) and v.get("kind") in ("VarDecl", "DecompositionDecl") and not str(v.get("name", "")).startswith("__"):
                                        lv = v
                        if lv is not None:
                            t = lv.get("type", {}).get("qualType", "")
                            if "&" not in t or t.strip().startswith("const"):
                                return self.add(fn, "URead", fieldname, chain[idx])
                        break
                return self.add(fn, "UOther", fieldname, chain[idx])
            if pk == "CXXConstructExpr" and self.this_mode and x == idx:
                # the field itself is the constructor argument of an object: the in-use flag handed to its scope guard?  Only when the class has
                # the shape scope_guard_classes() recognises AND the object is an automatic variable declared as a statement of the function body
                # (chain = body / DeclStmt / VarDecl / CXXConstructExpr / field): it then lives until the function is left, by return or exception
                cls = re.sub(r"^.*::", "", re.sub(r"^(const\s+)?(struct\s+|class\s+)?", "", qt(p)).strip())
                if (cls in self.guards and idx == 4 and chain[0].get("kind") == "CompoundStmt" and chain[1].get("kind") == "DeclStmt"
                        and chain[2].get("kind") == "VarDecl" and not chain[2].get("storageClass") and len(_kids(p)) == 1):
                    return self.add(fn, "URaii", fieldname, chain[idx])
                return self.add(fn, "UOther", fieldname, chain[idx])
            return self.add(fn, "UOther", fieldname, chain[idx])

    def classify_circuit_use(self, fn, chain, idx):
        """chain[idx] is a mutable-Circuit lvalue expression; chain[:idx] its ancestors (root first)"""
        e = chain[idx]
        x = idx
        while x > 0 and (chain[x - 1].get("kind") in TRANSPARENT or
                         (e.get("kind") == "CXXThisExpr" and chain[x - 1].get("kind") == "UnaryOperator" and chain[x - 1].get("opcode") == "*")):
            x -= 1   # `*this` denotes the same mutable circuit
        if x == 0:
            return self.add(fn, "UUnknown", "circuit expression statement", e)
        p = chain[x - 1]
        cur = chain[x]
        pk = p.get("kind")
        if pk == "ImplicitCastExpr" and p.get("castKind") == "NoOp" and (qt(p).startswith("const") or is_const_circuit_type(qt(p))):
            if self.this_mode and x >= 2 and chain[x - 2].get("kind") == "MemberExpr" and chain[x - 2].get("name") == "checkNotInUse":
                return self.add(fn, "UGuard", "checkNotInUse", chain[x - 2])
            return  # const view: cannot modify
        if pk == "MemberExpr":
            if p.get("type", {}).get("qualType", "") == "<bound member function type>":
                nm, isconst, _ = self.method_info(p)
                if isconst:
                    return
                return self.add(fn, "UCallNC", nm, p)
            return self.classify_field(fn, p.get("name", "?"), chain, x - 1)
        if pk in ("CallExpr", "CXXMemberCallExpr", "CXXConstructExpr", "CXXTemporaryObjectExpr", "CXXOperatorCallExpr"):
            inner = [c for c in p.get("inner", []) if isinstance(c, dict)]
            callee = "?"
            if pk in ("CXXConstructExpr", "CXXTemporaryObjectExpr"):
                cls = re.sub(r"^(const\s+)?(class\s+)?(coloquinte::)?", "", qt(p)).strip()
                callee = cls + "::" + cls
            elif inner:
                for w in walk(inner[0]):
                    if w.get("kind") == "DeclRefExpr":
                        rd = w.get("referencedDecl", {})
                        callee = rd.get("name", "?")
                        rec = self.methods.get(rd.get("id"), (None, None, None))[2]
                        if rec:
                            callee = rec + "::" + callee
                        break
                    if w.get("kind") == "MemberExpr":
                        callee = self.method_info(w)[0]
                        rec = self.method_info(w)[2]
                        if rec:
                            callee = rec + "::" + callee
                        break
            return self.add(fn, "UPass", callee, p)
        if pk == "CXXCtorInitializer":
            return self.add(fn, "UStore", p.get("anyInit", {}).get("name", "?"), e)
        if pk == "InitListExpr" or pk == "VarDecl":
            return self.add(fn, "UUnknown", "bound to " + pk, e)
        return self.add(fn, "UUnknown", "used in " + str(pk), e)

    def scan_body(self, fn, n, chain):
        chain.append(n)
        self.lineof(n)
        self.odd_source = None
        if self.is_mut_circuit_expr(n):
            if self.odd_source:
                self.add(fn, "UUnknown", "mutable Circuit obtained through a " + self.odd_source, n)
            self.classify_circuit_use(fn, chain, len(chain) - 1)
        else:
            for c in n.get("inner", []) or []:
                if isinstance(c, dict):
                    self.scan_body(fn, c, chain)
        chain.pop()


def walk(n):
    yield n
    for c in n.get("inner", []) or []:
        if isinstance(c, dict):
            yield from walk(c)


def _kids(n):
    return [c for c in n.get("inner", []) or [] if isinstance(c, dict) and not c.get("kind", "").endswith("Comment")]


def _unwrap(n):
    while n.get("kind") in TRANSPARENT and len(_kids(n)) == 1:
        n = _kids(n)[0]
    return n


def _is_this_member(n, field):
    n = _unwrap(n)
    k = _kids(n)
    return n.get("kind") == "MemberExpr" and n.get("name") == field and len(k) == 1 and _unwrap(k[0]).get("kind") == "CXXThisExpr"


def scope_guard_classes(objs):
    """names of the classes of this translation unit that are SCOPE GUARDS OF A BOOLEAN FLAG, recognised by their shape only:
         struct G { explicit G(bool &f) : ref_(f), saved_(f) { ref_ = true; }  ~G() { ref_ = saved_; }
                    G(const G &) = delete;  G &operator=(const G &) = delete;  bool &ref_;  bool saved_; };
       exactly two fields (a `bool &` and a `bool`); ONE constructor that is not deleted: one `bool &` parameter bound to the reference field, the
       bool field initialised from it, body = the single statement `ref_ = true`; a destructor whose body is the single statement
       `ref_ = saved_`; the copy constructor and every other member function deleted.  An automatic variable of such a class, declared as a
       statement of a function body, sets the flag for exactly the rest of the function and gives it its previous value back on EVERY exit
       (return or exception): this is what the pseudo-field "@raii:<flag>" of the method table means.  Anything else that touches the flag stays
       an ordinary write / unclassified use."""
    out = set()
    for o in objs:
        for w in walk(o):
            if w.get("kind") != "CXXRecordDecl" or not w.get("completeDefinition") or not w.get("name"):
                continue
            fields = [c for c in _kids(w) if c.get("kind") == "FieldDecl"]
            if len(fields) != 2:
                continue
            ref = [f for f in fields if f.get("type", {}).get("qualType") == "bool &"]
            sav = [f for f in fields if f.get("type", {}).get("qualType") == "bool"]
            if len(ref) != 1 or len(sav) != 1:
                continue
            R, S = ref[0].get("name"), sav[0].get("name")
            ctors = [c for c in _kids(w) if c.get("kind") == "CXXConstructorDecl" and not c.get("isImplicit")]
            live = [c for c in ctors if not c.get("explicitlyDeleted")]
            copy_deleted = any(c.get("explicitlyDeleted") and re.search(r"\(const .*&\)", c.get("type", {}).get("qualType", "")) for c in ctors)
            dtors = [c for c in _kids(w) if c.get("kind") == "CXXDestructorDecl" and not c.get("isImplicit")]
            others = [c for c in _kids(w) if c.get("kind") in ("CXXMethodDecl", "CXXConversionDecl", "FunctionTemplateDecl") and not c.get("isImplicit")]
            if len(live) != 1 or not copy_deleted or len(dtors) != 1 or any(not c.get("explicitlyDeleted") for c in others):
                continue
            ct = live[0]
            params = [c for c in _kids(ct) if c.get("kind") == "ParmVarDecl"]
            inits = [c for c in _kids(ct) if c.get("kind") == "CXXCtorInitializer"]
            body = [c for c in _kids(ct) if c.get("kind") == "CompoundStmt"]
            if len(params) != 1 or params[0].get("type", {}).get("qualType") != "bool &" or len(inits) != 2 or len(body) != 1:
                continue
            P = params[0].get("name")

            def is_param(n):
                n = _unwrap(n)
                return n.get("kind") == "DeclRefExpr" and n.get("referencedDecl", {}).get("name") == P and n.get("referencedDecl", {}).get("kind") == "ParmVarDecl"

            def init_of(name):
                m = [i for i in inits if i.get("anyInit", {}).get("name") == name]
                return _kids(m[0])[0] if len(m) == 1 and len(_kids(m[0])) == 1 else None
            ir, isv = init_of(R), init_of(S)
            if ir is None or isv is None or not is_param(ir):
                continue
            isv = _unwrap(isv)
            if not (isv.get("kind") == "ImplicitCastExpr" and isv.get("castKind") == "LValueToRValue" and len(_kids(isv)) == 1 and
                    (is_param(_kids(isv)[0]) or _is_this_member(_kids(isv)[0], R))):
                continue
            st = _kids(body[0])
            if len(st) != 1 or st[0].get("kind") != "BinaryOperator" or st[0].get("opcode") != "=" or len(_kids(st[0])) != 2:
                continue
            lhs, rhs = _kids(st[0])
            if not _is_this_member(lhs, R) or _unwrap(rhs).get("kind") != "CXXBoolLiteralExpr" or _unwrap(rhs).get("value") is not True:
                continue
            db = [c for c in _kids(dtors[0]) if c.get("kind") == "CompoundStmt"]
            if len(db) != 1 or len(_kids(db[0])) != 1:
                continue
            ds = _kids(db[0])[0]
            if ds.get("kind") != "BinaryOperator" or ds.get("opcode") != "=" or len(_kids(ds)) != 2:
                continue
            dl, dr = _kids(ds)
            dr = _unwrap(dr)
            if not _is_this_member(dl, R) or not (dr.get("kind") == "ImplicitCastExpr" and dr.get("castKind") == "LValueToRValue" and
                                                  len(_kids(dr)) == 1 and _is_this_member(_kids(dr)[0], S)):
                continue
            out.add(w["name"])
    return out


def function_defs(objs, main_file):
    """(qualified name, decl) for every function with a body whose definition is in this translation unit"""
    idname = {}
    for o in objs:
        for w in walk(o):
            if w.get("kind") in ("CXXRecordDecl",) and "id" in w:
                idname[w["id"]] = w.get("name", "?")
    out = []

    def rec(n, scope):
        k = n.get("kind")
        if k in ("CXXRecordDecl", "NamespaceDecl"):
            scope = scope + [n.get("name", "")] if n.get("name") else scope
        if k in ("FunctionDecl", "CXXMethodDecl", "CXXConstructorDecl", "CXXDestructorDecl", "CXXConversionDecl"):
            has_body = any(isinstance(c, dict) and c.get("kind") in ("CompoundStmt", "CXXTryStmt") for c in n.get("inner", []) or [])
            if has_body:
                cls = idname.get(n.get("parentDeclContextId"), None)
                sc = [s for s in scope if s != "coloquinte"]
                if cls and (not sc or sc[-1] != cls):
                    sc = sc + [cls]
                out.append(("::".join(sc + [n.get("name", "?")]), n))
            return
        for c in n.get("inner", []) or []:
            if isinstance(c, dict):
                rec(c, scope)
    for o in objs:
        rec(o, [])
    return out


def circuit_access_specs(objs):
    """decl id and name of every member function declared in class Circuit -> 'public' / 'protected' / 'private'"""
    acc = {}
    for o in objs:
        for w in walk(o):
            if w.get("kind") == "CXXRecordDecl" and w.get("name") == "Circuit" and w.get("completeDefinition"):
                cur = "private" if w.get("tagUsed") == "class" else "public"
                for c in w.get("inner", []) or []:
                    if not isinstance(c, dict):
                        continue
                    if c.get("kind") == "AccessSpecDecl":
                        cur = c.get("access", cur)
                    elif c.get("kind") in ("CXXMethodDecl", "FunctionTemplateDecl"):
                        acc[c.get("id")] = cur
                        # overloads share a name: the most permissive access wins (conservative for the guard rule)
                        if acc.get(c.get("name")) != "public":
                            acc[c.get("name")] = cur
    return acc


def in_main_file(n, src):
    """clang prints 'file' only when it changes; function definitions of the .cpp come last in the dump. We accept a
    definition when its range mentions no other file or the .cpp itself."""
    f = n.get("loc", {}).get("file") or n.get("range", {}).get("begin", {}).get("file")
    return f is None or os.path.abspath(f) == os.path.abspath(src)


def token_scan(repo):
    found = []
    for f in sorted(glob.glob(os.path.join(repo, "src", "**", "*.[ch]pp"), recursive=True)):
        txt = open(f, errors="replace").read()
        txt = re.sub(r"//[^\n]*", "", txt)
        txt = re.sub(r"/\*.*?\*/", lambda m: "\n" * m.group(0).count("\n"), txt, flags=re.S)
        for i, l in enumerate(txt.split("\n"), 1):
            if re.search(r"\bconst_cast\b", l):
                found.append((os.path.relpath(f, repo), "UUnknown", "const_cast", i))
            if re.search(r"\bmutable\b", l) and "]" not in l.split("mutable")[0][-3:]:
                found.append((os.path.relpath(f, repo), "UUnknown", "mutable", i))
            if re.search(r"reinterpret_cast\s*<[^>]*Circuit", l):
                found.append((os.path.relpath(f, repo), "UUnknown", "reinterpret_cast to Circuit", i))
    return found


def translate(repo):
    srcs = sorted(glob.glob(os.path.join(repo, "src", "place_global", "*.cpp")) +
                  glob.glob(os.path.join(repo, "src", "place_detailed", "*.cpp")) +
                  glob.glob(os.path.join(repo, "src", "*.cpp")))
    if not srcs:
        raise TranslateError("no sources under %s/src" % repo)
    uses, nfun = [], 0
    methods = {}
    seen = set()
    from concurrent.futures import ThreadPoolExecutor
    with ThreadPoolExecutor(max_workers=8) as ex:
        dumps = list(ex.map(lambda s_: clang_dump(repo, s_), srcs))
    for src, objs in zip(srcs, dumps):
        an = Analyzer()
        for o in objs:
            an.index_decls(o)
        for o in objs:   # second pass: out-of-line definitions seen before their class id was known
            an.index_decls(o)
        access = circuit_access_specs(objs)
        an.guards = scope_guard_classes(objs)
        for name, d in function_defs(objs, src):
            if name.startswith("Circuit::"):
                # the API itself: second table (which member functions write what, and whether they are guarded)
                if d.get("isImplicit") or d.get("kind") in ("CXXConstructorDecl", "CXXDestructorDecl"):
                    continue
                mname = name[len("Circuit::"):]
                is_const = bool(re.search(r"\)\s*const\b", d.get("type", {}).get("qualType", "")))
                an.this_mode, an.uses = True, []
                for c in d.get("inner", []) or []:
                    if isinstance(c, dict):
                        an.scan_body(name, c, [])
                an.this_mode = False
                key = (mname, d.get("type", {}).get("qualType", ""))
                if key not in methods:
                    methods[key] = {"name": mname, "const": is_const, "public": access.get(d.get("previousDecl") or d.get("id"), access.get(mname, "private")) == "public",
                                    "uses": sorted(set(an.uses), key=lambda u: (u[3], u[1], u[2]))}
                continue
            if name == "Circuit":
                continue
            nfun += 1
            an.uses = []
            for c in d.get("inner", []) or []:
                if isinstance(c, dict) and c.get("kind") == "ParmVarDecl" and is_mut_circuit_type(c.get("type", {}).get("qualType", "")):
                    an.uses.append((name, "UParam", c.get("name", "?") or "?", c.get("loc", {}).get("line", 0) or an.line))
            for c in d.get("inner", []) or []:
                if isinstance(c, dict):
                    an.scan_body(name, c, [])
            for u in an.uses:
                # the same inline/header function appears in several translation units: keep one copy
                hk = (u[0], u[1], u[2], u[3])
                if hk in seen:
                    continue
                seen.add(hk)
                uses.append(u)
    for f, kind, what, line in token_scan(repo):
        uses.append((f, kind, what, line))
    if not any(u[1] == "UWrite" for u in uses):
        raise TranslateError("no write to the circuit found at all: the source does not have the shape this translator understands")
    uses.sort(key=lambda u: (u[0], u[3], u[1], u[2]))
    if not methods:
        raise TranslateError("no member function of Circuit found")
    translate.methods = [methods[k] for k in sorted(methods)]
    return uses, nfun, len(srcs)


def coq_text(uses, nfun, nsrc):
    def s(x):
        return '"%s"' % x.replace('"', "'")
    lines = ["(* GENERATED by tools/circuit_access.py from the C++ sources of the tree under check (clang AST), on every run of",
             "   ./check C03 and by setup.sh.  Do not edit.  %d function definitions of %d translation units scanned. *)" % (nfun, nsrc),
             "From Coq Require Import List String ZArith.", "Import ListNotations.", "Require Import CV.CircuitAccess.",
             "Local Open Scope string_scope.", "",
             "Definition circuit_uses : list cuse := ["]
    body = ["  mkU %s %s %s %d" % (s(fn), kind, s(name), line) for fn, kind, name, line in uses]
    lines.append(";\n".join(body))
    lines.append("].")
    lines += ["", "(* member functions of Circuit itself (constructors excluded): public?, const?, line of the first call of",
              "   checkNotInUse() (0 = none), fields written / used in an unclassified way (with the line), own non-const",
              "   member functions called *)",
              "Definition circuit_methods : list cmethod := ["]
    mb = []
    for m in getattr(translate, "methods", []):
        guard = min([u[3] for u in m["uses"] if u[1] == "UGuard"] or [0])
        wr = [(u[2] if u[1] != "UUnknown" else "?" + u[2], u[3]) for u in m["uses"] if u[1] in ("UWrite", "UOther", "UUnknown")]
        wr += [("@pass:" + u[2], u[3]) for u in m["uses"] if u[1] == "UPass"]   # *this handed on as a non-const reference
        wr += [("@raii:" + u[2], u[3]) for u in m["uses"] if u[1] == "URaii"]   # the field handed to a scope guard living to the end of the function
        wr.sort(key=lambda w: (w[1], w[0]))
        calls = sorted(set(u[2] for u in m["uses"] if u[1] == "UCallNC"))
        mb.append("  mkM %s %s %s %d [%s] [%s]" % (s(m["name"]), "true" if m["public"] else "false", "true" if m["const"] else "false", guard,
                                                   "; ".join("(%s, %d)" % (s(f), l) for f, l in wr), "; ".join(s(c) for c in calls)))
    lines.append(";\n".join(mb))
    lines.append("].")
    return "\n".join(lines) + "\n"


STRUCTURAL = ("netLimits_", "pinCells_", "pinXOffsets_", "pinYOffsets_", "rows_", "cellIsFixed_", "cellIsObstruction_", "cellRowPolarity_")
MODELLED_SETTERS = {"addNet": True, "setNets": True, "setRows": True, "setupRows": True, "setCellIsFixed": True, "setCellIsObstruction": True,
                    "setCellRowPolarity": True, "setCellX": False, "setCellY": False, "setCellOrientation": False, "setCellWidth": False,
                    "setCellHeight": False, "setNetWeights": False, "setSolution": False}


ENTRY_METHODS = ("placeGlobal", "legalize", "placeDetailed", "place")


def offending_methods(methods):
    """independent replica of CircuitAccess.circuit_methods_okb, used only to NAME what the Coq theorem rejects"""
    bad = []
    for m in methods:
        if m["const"]:
            continue
        guard = min([u[3] for u in m["uses"] if u[1] == "UGuard"] or [0])
        wr = [(u[2], u[3]) for u in m["uses"] if u[1] in ("UWrite", "UOther", "UUnknown")]
        passes = [(u[2], u[3]) for u in m["uses"] if u[1] == "UPass"]
        inuse = [u[3] for u in m["uses"] if u[1] == "URaii" and u[2] == "isInUse_"]      # the flag handed to its scope guard ("@raii:isInUse_")
        if m["name"] in ENTRY_METHODS and m["name"] not in MODELLED_SETTERS:
            for f, l in wr:
                if f == "isInUse_":
                    bad.append("Circuit::%s (placement entry point) writes the in-use flag DIRECTLY (line %d) instead of through a scope guard object: "
                               "no exception path restores it" % (m["name"], l))
            for u in m["uses"]:
                if u[1] == "URaii" and u[2] != "isInUse_":
                    bad.append("Circuit::%s hands %s to a scope guard (line %d): only the in-use flag is expected" % (m["name"], u[2], u[3]))
                if u[1] == "UCallNC" and u[2] not in ENTRY_METHODS:
                    bad.append("Circuit::%s (placement entry point) calls %s, which is not a placement entry point" % (m["name"], u[2]))
        elif any(u[1] == "URaii" for u in m["uses"]):
            bad.append("Circuit::%s (not a placement entry point) constructs a scope guard on %s" % (m["name"], sorted(set(u[2] for u in m["uses"] if u[1] == "URaii"))))
        for callee, l in passes:
            if m["name"] in ("placeGlobal", "legalize", "placeDetailed", "place"):
                if not any(g < l for g in inuse):
                    bad.append("Circuit::%s hands the circuit to %s (line %d) before taking the in-use flag" % (m["name"], callee, l))
            else:
                bad.append("Circuit::%s (not a placement entry point) hands the mutable circuit to %s" % (m["name"], callee))
        first = guard != 0 and all(guard < l for _, l in wr)
        if any(f in STRUCTURAL for f, _ in wr) and not first:
            bad.append("Circuit::%s changes %s %s" % (m["name"], sorted(set(f for f, _ in wr if f in STRUCTURAL)),
                                                   "without calling checkNotInUse()" if guard == 0 else "before its call of checkNotInUse() (line %d)" % guard))
        if m["name"] in MODELLED_SETTERS:
            if MODELLED_SETTERS[m["name"]] != (guard != 0):
                bad.append("Circuit::%s: guard in the source = %s, in the model (Api.guarded) = %s" % (m["name"], guard != 0, MODELLED_SETTERS[m["name"]]))
            elif guard != 0 and not first:
                bad.append("Circuit::%s writes before its call of checkNotInUse()" % m["name"])
        else:
            if guard != 0:
                bad.append("Circuit::%s calls checkNotInUse() but is not a setter of the model" % m["name"])
            allowed = () if m["name"] in ENTRY_METHODS else \
                      ("cellWidth_",) if m["name"] in ("expandCellsToDensity", "expandCellsByFactor") else ()
            extra = sorted(set(f for f, _ in wr if f not in allowed and not (f == "isInUse_" and m["name"] in ENTRY_METHODS)))   # reported above
            if extra:
                bad.append("Circuit::%s (not one of the model's setters) writes %s" % (m["name"], extra))
    for n in MODELLED_SETTERS:
        if not any(m["name"] == n and m["public"] and not m["const"] for m in methods):
            bad.append("the model's setter %s is not a public non-const member function of Circuit any more" % n)
    for n in ENTRY_METHODS:
        if not any(m["name"] == n and m["public"] and not m["const"] for m in methods):
            bad.append("the placement entry point %s is not in the table as a public non-const member function of Circuit (inline definitions of "
                       "coloquinte.hpp not scanned?)" % n)
    return bad


def write_gen(path, txt):
    try:
        if open(path).read() == txt:
            return False
    except OSError:
        pass
    with open(path + ".tmp", "w") as f:
        f.write(txt)
    os.replace(path + ".tmp", path)
    return True


if __name__ == "__main__":
    repo = os.environ.get("VERIF_REPO") or "/repo"
    a = sys.argv[1:]
    if "--repo" in a:
        repo = a[a.index("--repo") + 1]
    try:
        uses, nfun, nsrc = translate(repo)
    except TranslateError as e:
        print("circuit_access.py: CANNOT TRANSLATE: %s" % e, file=sys.stderr)
        sys.exit(2)
    if "--coq" in a:
        ch = write_gen(a[a.index("--coq") + 1], coq_text(uses, nfun, nsrc))
        print("CircuitAccess_gen.v %s (%d uses, %d functions)" % ("rewritten" if ch else "unchanged", len(uses), nfun))
    else:
        for u in uses:
            print("%-55s %-8s %-28s %d" % u)
        for m in translate.methods:
            print("METHOD %-28s public=%s const=%s %s" % (m["name"], m["public"], m["const"], [(u[1], u[2], u[3]) for u in m["uses"]]))
        print("# %d uses in %d function definitions of %d translation units" % (len(uses), nfun, nsrc))
