#!/usr/bin/env python3
"""regenerates /verif/MANIFEST.json from checks/manifest/<id>.json (one file per claimed property:
category, design_ref, text, note, technique) and checks/manifest/NA.json (id -> reason for the ones not
claimed).  Run after adding a check."""
import json, os, sys
ROOT = os.path.dirname(os.path.dirname(os.path.abspath(__file__)))
ALL = ["C%02d" % i for i in range(1, 21)]
NOT_YET = "no check built yet (design in DESIGN.md section 4)"


def main():
    md = os.path.join(ROOT, "checks", "manifest")
    CHECKS = {}
    enabled = set(open(os.path.join(md, "ENABLED")).read().split())   # maintained by hand: checks reviewed and quiet on /repo
    for p in ALL:
        f = os.path.join(md, p + ".json")
        if p in enabled and os.path.exists(f) and os.path.exists(os.path.join(ROOT, "checks", p.lower() + ".py")):
            CHECKS[p] = json.load(open(f))
    NA = {}
    if os.path.exists(os.path.join(md, "NA.json")):
        NA = json.load(open(os.path.join(md, "NA.json")))
    m = json.load(open(os.path.join(ROOT, "MANIFEST.json")))
    m["checks"] = []
    for p in ALL:
        if p in CHECKS:
            c = CHECKS[p]
            m["checks"].append({
                "property_id": p,
                "quick_cmd": "./check %s --tier quick" % p,
                "thorough_cmd": "./check %s --tier thorough" % p,
                "evidence_file": "/verif/evidence/%s.json" % p,
                "replay_cmd_template": "./check %s --replay {path}" % p,
                "engine": c.get("engine", "coq+correspondence"),
                "level_claimed": {"category": c["category"], "text": c["text"], "design_ref": c["design_ref"]},
                "level_note": c["note"], "technique": c["technique"]})
    m["not_applicable"] = [{"property_id": p, "reason": NA.get(p, NOT_YET)} for p in ALL if p not in CHECKS]
    for e in m["engines"]:
        e["serves_properties"] = sorted(CHECKS)
    json.dump(m, open(os.path.join(ROOT, "MANIFEST.json"), "w"), indent=1)
    try:
        import jsonschema
        jsonschema.validate(m, json.load(open("/root/.vp/MANIFEST.schema.json")))
        print("MANIFEST valid;", len(m["checks"]), "checks")
    except ImportError:
        print("jsonschema not available; not validated")


if __name__ == "__main__":
    main()
