#!/usr/bin/env python3
"""regenerates /verif/MANIFEST.json from the table below (run after adding a check)"""
import json, os, sys
ROOT = os.path.dirname(os.path.dirname(os.path.abspath(__file__)))
ALL = ["C%02d" % i for i in range(1, 21)]

CHECKS = {
 "C12": dict(
   category="proof", design_ref="DESIGN.md section 4, C12",
   text="Coq theorems over a line-by-line model of RowLegalizer: legality of the placement for every history of fitting pushes and "
        "queries, purity/exactness of the cost query in every reachable state, soundness (all inputs) of a dual-certificate optimality "
        "checker; optimality and cost-sum of the algorithm itself: bounded theorem over three explicit finite domains plus the proved "
        "checker run on every case. Tie: exact diff of the C++ class against the extracted model on exhaustive small-bounds and random "
        "histories up to 2^22, proved checker applied to the C++ positions.",
   note="Trusted: Coq kernel, extraction (ExtrOcamlBasic), OCaml driver glue, C++ harness/generator, g++. Model is hand-written; unbounded "
        "optimality of cascading descent is not proved (bounded + validated).",
   technique="Coq proof (invariant by induction over operation histories, LP-duality certificate) + differential correspondence"),

 "C15": dict(
   category="proof", design_ref="DESIGN.md section 4, C15",
   text="Coq theorems over an interval-subtraction model of Row::freespace / Circuit::computeRows: column-exactness (a column is returned "
        "iff no positive-area obstacle meeting the row's y-range touches it), segments non-empty/sorted/disjoint/inside, full height and "
        "orientation kept, movable and non-obstruction cells ignored, obstacle order irrelevant -- all for every row and obstacle list. Tie: "
        "exact equality of segment lists with the C++ (which delegates to boost::polygon) exhaustively on a small grid and on random "
        "instances incl. Circuit-level flag combinations; the statement is re-checked column-wise on the C++ output.",
   note="Trusted: Coq kernel, extraction, OCaml/C++ glue. boost::polygon is not modelled, the model is its contract; inverted rectangles "
        "are outside the domain.",
   technique="Coq proof (interval-list invariants, exactness by induction over the obstacle list) + exhaustive/random differential correspondence"),

 "C09": dict(
   category="proof", design_ref="DESIGN.md section 4, C09",
   text="Coq theorems: the code's pin offsets and placed sizes equal the DEF rotation/mirror compositions for all eight orientations and "
        "all integers; Circuit::hpwl's sentinel loops compute the bounding-box half-perimeter sum; the incremental model's value and per-net "
        "bounds equal the from-scratch ones after ANY history of position updates (invariant by induction over updates). Tie: exact "
        "equality with the C++ on exhaustive small transforms, random circuits, x/y topologies over all cells and random subsets, update "
        "histories; an independent from-scratch oracle is evaluated on the C++ output.",
   note="Trusted: Coq kernel, extraction, OCaml/C++/python glue. The fixed-pin folding of x/yTopology is modelled and compared exactly but "
        "its exactness is not proved (partial).",
   technique="Coq proof (case analysis + lia for transforms; invariant by induction over update histories) + differential correspondence"),
}
NOT_YET = "no check built yet in this round (design in DESIGN.md section 4)"
NA = {}

def main():
    m = json.load(open(os.path.join(ROOT, "MANIFEST.json")))
    m["checks"] = []
    for p in ALL:
        if p in CHECKS:
            c = CHECKS[p]
            m["checks"].append({
                "property_id": p,
                "quick_cmd": "./check %s --tier quick" % p,
                "thorough_cmd": "./check %s --tier thorough" % p,
                "evidence_file": "/verif/evidence/%s.json" % p,
                "replay_cmd_template": "./check %s --replay {path}" % p,
                "engine": "coq+correspondence",
                "level_claimed": {"category": c["category"], "text": c["text"], "design_ref": c["design_ref"]},
                "level_note": c["note"], "technique": c["technique"]})
    m["not_applicable"] = [{"property_id": p, "reason": NA.get(p, NOT_YET)} for p in ALL if p not in CHECKS]
    for e in m["engines"]:
        e["serves_properties"] = sorted(CHECKS)
    json.dump(m, open(os.path.join(ROOT, "MANIFEST.json"), "w"), indent=1)
    try:
        import jsonschema
        jsonschema.validate(m, json.load(open("/root/.vp/MANIFEST.schema.json")))
        print("MANIFEST valid;", len(m["checks"]), "checks")
    except ImportError:
        print("jsonschema not available; not validated")

if __name__ == "__main__":
    main()
