#!/usr/bin/env python3
"""Confirms a seeded change and runs the checks against it.

  tools/seeded.py import <prop> <srcdir> <name>   copy patch.diff/demo*/build_demo.sh/notes.md of a sub-agent into seeded/<prop>-<name>/
  tools/seeded.py verify <seeded-dir> [checks...]   in a scratch worktree of /repo HEAD: demo passes without the patch; with the patch the
                                                     library builds, the 68 tests pass, the demo fails; then runs `./check <P> --tier quick` for the
                                                     given checks (default: the property it breaks) with VERIF_REPO pointing at the patched worktree;
                                                     writes meta.json; removes the worktree.
Nothing is ever applied to /repo itself."""
import json
import os
import re
import shutil
import subprocess
import sys
import time

ROOT = os.path.dirname(os.path.dirname(os.path.abspath(__file__)))


def sh(cmd, cwd=None, timeout=3600, env=None):
    p = subprocess.run(cmd, shell=isinstance(cmd, str), cwd=cwd, capture_output=True, text=True, timeout=timeout, env=env)
    return p.returncode, (p.stdout + p.stderr)


def do_import(prop, src, name):
    d = os.path.join(ROOT, "seeded", "%s-%s" % (prop, name))
    os.makedirs(d, exist_ok=True)
    for f in os.listdir(src):
        if f.endswith((".diff", ".cpp", ".sh", ".md", ".py", ".hpp")):
            shutil.copy(os.path.join(src, f), d)
    print(d)


def run_demo(d, wt, tag):
    """build and run the demonstration against worktree wt; returns (rc, tail of output)"""
    work = os.path.join(wt, "_demo_" + tag)
    shutil.rmtree(work, ignore_errors=True)
    os.makedirs(work)
    for f in os.listdir(d):
        if f.endswith((".cpp", ".sh", ".py", ".hpp")):
            txt = open(os.path.join(d, f)).read()
            txt = re.sub(r"/tmp/mut\d*_C\d\d", wt, txt)
            open(os.path.join(work, f), "w").write(txt)
    if os.path.exists(os.path.join(work, "build_demo.sh")):
        rc, out = sh("bash build_demo.sh", cwd=work, timeout=1800)
        if rc != 0:
            return None, "demo build failed: " + out[-800:]
    if os.path.exists(os.path.join(work, "demo")):
        rc, out = sh("./demo", cwd=work, timeout=1800)
    elif os.path.exists(os.path.join(work, "demo.py")):
        rc, out = sh("python3 demo.py", cwd=work, timeout=1800)
    else:
        return None, "no demo binary / script"
    shutil.rmtree(work, ignore_errors=True)
    return rc, out[-600:]


def do_verify(d, checks):
    d = os.path.abspath(d)
    name = os.path.basename(d)
    prop = name.split("-")[0]
    checks = [prop] + [c for c in (checks or []) if c != prop]
    wt = "/tmp/sv_" + name.replace("/", "_")
    sh("git -C /repo worktree remove --force %s" % wt)
    shutil.rmtree(wt, ignore_errors=True)
    sh("git -C /repo worktree prune")
    rc, out = sh("git -C /repo worktree add --detach %s HEAD" % wt)
    if rc != 0:
        raise SystemExit("cannot create scratch worktree: " + out)
    meta = {"breaks_property": prop, "name": name, "repo_head": sh("git -C /repo rev-parse --short HEAD")[1].strip(),
            "verified_at": time.strftime("%Y-%m-%d %H:%M:%S")}
    notes = os.path.join(d, "notes.md")
    if os.path.exists(notes):
        meta["needs_to_manifest"] = open(notes).read()[:1500]
    try:
        rc0, out0 = run_demo(d, wt, "clean")
        meta["demo_without_patch"] = {"rc": rc0, "output_tail": out0[-300:]}
        rc, out = sh("git apply %s" % os.path.join(d, "patch.diff"), cwd=wt)
        meta["patch_applies"] = rc == 0
        if rc != 0:
            meta["error"] = out[-500:]
            return meta
        bt = os.environ.get("SEEDED_BUILD_TYPE", "")   # "" = the README's default configuration (assertions on); the pinned build is RelWithDebInfo
        meta["baseline_build_type"] = bt or "default (assertions enabled)"
        rc, out = sh("cmake -S . -B _build -G Ninja -DCMAKE_BUILD_TYPE=" + bt + " >/dev/null 2>&1 && cmake --build _build 2>&1 | tail -3 && ctest --test-dir _build -j8 2>&1 | tail -5", cwd=wt, timeout=3600)
        m = re.search(r"(\d+)% tests passed, (\d+) tests failed out of (\d+)", out)
        meta["baseline_tests_with_patch"] = m.group(0) if m else out[-300:]
        meta["baseline_passes"] = bool(m and m.group(2) == "0")
        shutil.rmtree(os.path.join(wt, "_build"), ignore_errors=True)
        rc1, out1 = run_demo(d, wt, "patched")
        meta["demo_with_patch"] = {"rc": rc1, "output_tail": out1[-300:]}
        meta["confirmed"] = bool(meta["baseline_passes"] and rc0 == 0 and rc1 not in (0, None))
        meta["checks"] = {}
        for c in checks:
            env = dict(os.environ, VERIF_REPO=wt)
            t = time.time()
            rc, out = sh("./check %s --tier quick" % c, cwd=ROOT, timeout=3600, env=env)
            lines = [l for l in out.split("\n") if l.startswith(("VIOLATION", "  violation", "OK ", "KNOWN"))]
            meta["checks"][c] = {"exit": rc, "wall_s": round(time.time() - t, 1), "caught": rc == 1 and any(l.startswith("VIOLATION") for l in lines),
                                 "with_failing_input": any(l.startswith("VIOLATION") and "no-failing-input-found" not in l for l in lines),
                                 "output": [l[:300] for l in lines[:6]]}
            # keep the first replay of a catch next to the seeded change
            for l in lines:
                mm = re.match(r"VIOLATION property=\S+ replay=(\S+)", l)
                if mm and os.path.exists(mm.group(1)):
                    shutil.copy(mm.group(1), os.path.join(d, "replay_%s.json" % c))
                    break
    finally:
        sh("git -C /repo worktree remove --force %s" % wt)
        shutil.rmtree(wt, ignore_errors=True)
        # the checks rewrite the translator outputs from the tree under check: put back the
        # committed ones (= /repo's), so that a scratch run can never end up in a commit
        sh("git -C %s checkout -- coq/Effects_gen.v coq/Bindings_gen.v coq/ParamsDefaults_gen.v coq/CircuitAccess_gen.v coq/Nondet_gen.v coq/MachineOps_gen.v" % ROOT)
        json.dump(meta, open(os.path.join(d, "meta.json"), "w"), indent=1)
    return meta


if __name__ == "__main__":
    if sys.argv[1] == "import":
        do_import(sys.argv[2], sys.argv[3], sys.argv[4])
    else:
        m = do_verify(sys.argv[2], sys.argv[3:])
        print(json.dumps({k: m.get(k) for k in ("name", "confirmed", "baseline_tests_with_patch", "checks")}, indent=1)[:3000])
