#!/usr/bin/env python3
"""prints the status table of DESIGN.md section 10.1 from MANIFEST.json and evidence/*.json"""
import json, os
ROOT = os.path.dirname(os.path.dirname(os.path.abspath(__file__)))
m = json.load(open(os.path.join(ROOT, "MANIFEST.json")))
print("| id | level | theorems (all Qed, closed under the global context) | Coq files in scope | correspondence cases (quick) | quick wall s |")
print("|---|---|---|---|---|---|")
for c in m["checks"]:
    p = c["property_id"]
    try:
        e = json.load(open(os.path.join(ROOT, "evidence", p + ".json")))
    except OSError:
        e = {"coverage": {}}
    cov = e.get("coverage", {})
    files = [f for f in cov.get("coq_files_in_scope", []) if not f.startswith("Properties_")]
    print("| %s | %s | %s/%s | %s | %s (%s non-trivial) | %s |" % (
        p, c["level_claimed"]["category"], cov.get("discharged", "?"), cov.get("obligations", "?"),
        ", ".join(f[:-2] for f in files) or "-", cov.get("evaluations", "?"), cov.get("distinct_nontrivial", "?"), e.get("wall_s", "?")))
for n in m.get("not_applicable", []):
    print("| %s | not claimed | - | - | - | - |  (%s)" % (n["property_id"], n["reason"]))
