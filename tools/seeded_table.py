#!/usr/bin/env python3
"""prints the markdown table of seeded changes (DESIGN.md section 10.5) from seeded/*/meta.json"""
import json, os, re
ROOT = os.path.dirname(os.path.dirname(os.path.abspath(__file__)))
rows = []
for d in sorted(os.listdir(os.path.join(ROOT, "seeded"))):
    mf = os.path.join(ROOT, "seeded", d, "meta.json")
    if not os.path.exists(mf):
        continue
    m = json.load(open(mf))
    what = ""
    n = m.get("needs_to_manifest", "")
    for line in n.split("\n"):
        line = line.strip("# ").strip()
        if line and not line.lower().startswith(("change", "notes", "seeded")):
            what = line
            break
    if not what and n:
        what = n.split("\n")[0].strip("# ")
    checks = []
    for c, r in (m.get("checks") or {}).items():
        if r.get("caught"):
            checks.append("%s: caught%s" % (c, " (concrete input)" if r.get("with_failing_input") else " (no-failing-input-found)"))
        else:
            checks.append("%s: MISSED" % c)
    if m.get("lead_note"):
        checks.append("NOTE: " + m["lead_note"])
    rows.append("| %s | %s | %s | %s | %s |" % (d, m.get("breaks_property"), what[:150].replace("|", "/"), "yes" if m.get("confirmed") else "NO (%s)" % str(m.get("baseline_tests_with_patch"))[:30], "; ".join(checks)))
print("| seeded change | property | what (first line of the author's notes) | confirmed (tests pass, demo fails with / passes without) | checks run against it |")
print("|---|---|---|---|---|")
print("\n".join(rows))
