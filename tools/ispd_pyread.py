"""C20: runs the REAL pycoloquinte/coloquinte.py (of VERIF_REPO, default /repo) on exported ISPD files.

  VERIF_REPO=... python3 tools/ispd_pyread.py DIR < ids      one result line per id

For each id the files DIR/c<id>.{aux,nodes,pl,nets,scl} (written by the real Circuit::exportIspd in
harness/ispd.cpp) are read with coloquinte.Circuit.read_ispd -- the package's own reader -- over the
pure-Python stand-in of the compiled module (tools/pystub/coloquinte_pybind.py).  The circuit it
returns is printed in the <circuit> format of harness/ispd.cpp:
  R ncells (w h fixed obstruction polarity x y orient)* nnets (npins (cell xo yo)*)* nrows (minX maxX minY maxY orient)*
or  ERR <exception type>: <message>  when the reader raises."""
import os
import sys

here = os.path.dirname(os.path.abspath(__file__))
repo = os.environ.get("VERIF_REPO", "/repo")
sys.path.insert(0, os.path.join(here, "pystub"))
sys.path.insert(0, os.path.join(repo, "pycoloquinte"))
sys.dont_write_bytecode = True

import coloquinte  # noqa: E402  (the real one)


def dump(c):
    out = [c.nb_cells]
    w, h, fx, ob, pol = c.cell_width, c.cell_height, c.cell_is_fixed, c.cell_is_obstruction, c.cell_row_polarity
    x, y, o = c.cell_x, c.cell_y, c.cell_orientation
    for i in range(c.nb_cells):
        out += [w[i], h[i], int(fx[i]), int(ob[i]), pol[i].value, x[i], y[i], o[i].value]
    # nets are not visible through the bindings (nb_nets/nb_pins only): read the C++-side members
    lim, pc, px, py = c.netLimits_, c.pinCells_, c.pinXOffsets_, c.pinYOffsets_
    assert c.nb_nets == len(lim) - 1 and c.nb_pins == lim[-1]
    out.append(c.nb_nets)
    for n in range(c.nb_nets):
        out.append(lim[n + 1] - lim[n])
        for p in range(lim[n], lim[n + 1]):
            out += [pc[p], px[p], py[p]]
    rows = c.rows
    out.append(c.nb_rows)
    for r in rows:
        out += [r.min_x, r.max_x, r.min_y, r.max_y, r.orientation.value]
    return "R " + " ".join(str(int(v)) for v in out)


def main():
    d = sys.argv[1]
    for line in sys.stdin:
        cid = line.strip()
        if not cid:
            continue
        try:
            c = coloquinte.Circuit.read_ispd(os.path.join(d, "c" + cid + ".aux"))
            print(dump(c))
        except BaseException as e:  # AssertionError, ZeroDivisionError, RuntimeError, TypeError ...
            print("ERR %s: %s" % (type(e).__name__, str(e).replace("\n", " ")[:200]))
        sys.stdout.flush()


if __name__ == "__main__":
    main()
