"""Pure-Python stand-in for the compiled module `coloquinte_pybind` (pybind11 is not installed here,
pycoloquinte/module.cpp cannot be built).  TRUSTED GLUE of ./check C20.

It is a miniature pybind: the *Python-visible* names are not written here, they are taken from the
binding table that tools/bindings.py extracts from module.cpp of the tree under check
(VERIF_REPO, default /repo).  Each Python attribute is wired to the C++ entity that module.cpp names:

  .value("NW", CellRowPolarity::ANY)      -> Python CellRowPolarity.NW has the numeric value that
                                             coloquinte.hpp gives to CellRowPolarity::ANY
  .def_readwrite("min_x", &Rectangle::minX)             -> attribute min_x reads/writes field minX
  .def_property("cell_x", &Circuit::cellX, &Circuit::setCellX)  -> property calling those two
  .def("add_net", &Circuit::addNet)                     -> method calling addNet

The classes below (_Rectangle, _Row, _Circuit, ...) are the *C++ side*: hand-written equivalents of
the entities of src/coloquinte.hpp / coloquinte.cpp that the Python reader touches, under their C++
names (data members are instance attributes with the C++ name).  Argument conversion follows
pybind11 (ints only for int vectors, enum instances for enum vectors, size checks of the setters).
Anything module.cpp binds to an entity that is not modelled here raises NotImplementedError on use."""
import enum
import importlib.util
import os

_here = os.path.dirname(os.path.abspath(__file__))
_spec = importlib.util.spec_from_file_location("verif_bindings", os.path.join(_here, "..", "bindings.py"))
_bindings = importlib.util.module_from_spec(_spec)
_spec.loader.exec_module(_bindings)

REPO = os.environ.get("VERIF_REPO", "/repo")
TABLE = _bindings.table(REPO)


# ------------------------------------------------------------------ conversions (pybind11 casters)

def _int(v):
    if isinstance(v, int):
        return int(v)
    raise TypeError("incompatible function arguments: expected int, got %r" % (v,))


def _ints(v):
    return [_int(x) for x in list(v)]


def _bools(v):
    out = []
    for x in list(v):
        if not isinstance(x, (bool, int)):
            raise TypeError("incompatible function arguments: expected bool, got %r" % (x,))
        out.append(bool(x))
    return out


def _enums(v, cls):
    out = []
    for x in list(v):
        if not isinstance(x, cls):
            raise TypeError("incompatible function arguments: expected %s, got %r" % (cls.__name__, x))
        out.append(x)
    return out


# ------------------------------------------------------------------ enums, from the two tables

def _cpp_enum_values(name):
    for d in TABLE["decls"]:
        if d["kind"] == "enum" and d["name"] == name:
            return dict(d["values"])
    return {}


_py_enums = {}      # C++ enum type -> Python class


def _make_enum(cls):
    vals = []
    for b in TABLE["bindings"]:
        if b["kind"] == "enum" and b["class_py"] == cls["py"]:
            cv = _cpp_enum_values(b["owner"])
            if b["cpp"] not in cv:
                raise ImportError("module.cpp binds undeclared enumerator %s::%s" % (b["owner"], b["cpp"]))
            # same numeric value => alias of the first one, as with pybind11 (name() finds the first entry)
            vals.append((b["py"], cv[b["cpp"]]))
    e = enum.Enum(cls["py"], vals)
    _py_enums[cls["cpp"]] = e
    return e


# ------------------------------------------------------------------ the C++ side

class _Rectangle:
    def __init__(self, min_x=0, max_x=0, min_y=0, max_y=0):
        self.minX, self.maxX, self.minY, self.maxY = _int(min_x), _int(max_x), _int(min_y), _int(max_y)

    def width(self):
        return self.__dict__["maxX"] - self.__dict__["minX"]

    def height(self):
        return self.__dict__["maxY"] - self.__dict__["minY"]

    def toString(self):
        d = self.__dict__
        return "Rectangle %d..%d x %d..%d" % (d["minX"], d["maxX"], d["minY"], d["maxY"])


class _Row(_Rectangle):
    def __init__(self, area, orientation):
        if not isinstance(area, _Rectangle):
            raise TypeError("incompatible constructor arguments: Rectangle expected")
        d = area.__dict__
        _Rectangle.__init__(self, d["minX"], d["maxX"], d["minY"], d["maxY"])
        (self.__dict__["orientation"],) = _enums([orientation], _py_enums["CellOrientation"])


class _Params:
    def __init__(self, effort=3, seed=-1):
        self.__dict__["effort"] = effort

    def check(self):
        pass

    def toString(self):
        return type(self).__name__


class _Circuit:
    """Circuit of coloquinte.hpp / coloquinte.cpp (the parts a reader can reach)"""

    def __init__(self, nb_cells):
        n = _int(nb_cells)
        d = self.__dict__
        d["cellWidth_"] = [0] * n
        d["cellHeight_"] = [0] * n
        d["cellIsFixed_"] = [False] * n
        d["cellIsObstruction_"] = [True] * n
        d["cellRowPolarity_"] = [_py_enums["CellRowPolarity"](_cpp_enum_values("CellRowPolarity")["ANY"])] * n
        d["cellX_"] = [0] * n
        d["cellY_"] = [0] * n
        d["cellOrientation_"] = [_py_enums["CellOrientation"](0)] * n
        d["netLimits_"] = [0]
        d["netWeights_"] = []
        d["pinCells_"] = []
        d["pinXOffsets_"] = []
        d["pinYOffsets_"] = []
        d["rows_"] = []

    def _sized(self, v):
        if len(v) != self.nbCells():
            raise RuntimeError("Number of elements is not the same as the number of cells of the circuit")
        return v

    def nbCells(self): return len(self.__dict__["cellWidth_"])
    def nbNets(self): return len(self.__dict__["netLimits_"]) - 1
    def nbRows(self): return len(self.__dict__["rows_"])
    def nbPins(self): return self.__dict__["netLimits_"][-1]
    def cellX(self): return list(self.__dict__["cellX_"])
    def setCellX(self, v): self.__dict__["cellX_"] = self._sized(_ints(v))
    def cellY(self): return list(self.__dict__["cellY_"])
    def setCellY(self, v): self.__dict__["cellY_"] = self._sized(_ints(v))
    def cellWidth(self): return list(self.__dict__["cellWidth_"])
    def setCellWidth(self, v): self.__dict__["cellWidth_"] = self._sized(_ints(v))
    def cellHeight(self): return list(self.__dict__["cellHeight_"])
    def setCellHeight(self, v): self.__dict__["cellHeight_"] = self._sized(_ints(v))
    def cellIsFixed(self): return list(self.__dict__["cellIsFixed_"])
    def setCellIsFixed(self, v): self.__dict__["cellIsFixed_"] = self._sized(_bools(v))
    def cellIsObstruction(self): return list(self.__dict__["cellIsObstruction_"])
    def setCellIsObstruction(self, v): self.__dict__["cellIsObstruction_"] = self._sized(_bools(v))
    def cellRowPolarity(self): return list(self.__dict__["cellRowPolarity_"])
    def setCellRowPolarity(self, v): self.__dict__["cellRowPolarity_"] = self._sized(_enums(v, _py_enums["CellRowPolarity"]))
    def cellOrientation(self): return list(self.__dict__["cellOrientation_"])
    def setCellOrientation(self, v): self.__dict__["cellOrientation_"] = self._sized(_enums(v, _py_enums["CellOrientation"]))
    def rows(self): return list(self.__dict__["rows_"])

    def setRows(self, v):
        v = list(v)
        for r in v:
            if not isinstance(r, _Row):
                raise TypeError("incompatible function arguments: Row expected")
        self.__dict__["rows_"] = v

    def addNet(self, cells, x_offsets, y_offsets, weight=1.0):
        cells, xo, yo = _ints(cells), _ints(x_offsets), _ints(y_offsets)
        if len(cells) != len(xo) or len(cells) != len(yo):
            raise RuntimeError("Inconsistent number of pins for the net")
        if not cells:
            return
        d = self.__dict__
        d["netLimits_"].append(d["netLimits_"][-1] + len(cells))
        d["netWeights_"].append(float(weight))
        d["pinCells_"] += cells
        d["pinXOffsets_"] += xo
        d["pinYOffsets_"] += yo

    def rowHeight(self):
        rows = self.__dict__["rows_"]
        if not rows:
            raise RuntimeError("Cannot compute row height as no row has been defined")
        ret = _Rectangle.height(rows[0])
        for r in rows:
            if _Rectangle.height(r) != ret:
                raise RuntimeError("The circuit contains rows of different heights")
        return ret

    def check(self):
        d = self.__dict__
        n = self.nbCells()
        for k in ("cellHeight_", "cellIsFixed_", "cellIsObstruction_", "cellX_", "cellY_", "cellOrientation_"):
            if len(d[k]) != n:
                raise RuntimeError("Size mismatch")
        if len(d["netWeights_"]) != self.nbNets() or len(d["pinCells_"]) != self.nbPins():
            raise RuntimeError("Size mismatch")

    def toString(self):
        return "Circuit with %d cells, %d nets and %d pins" % (self.nbCells(), self.nbNets(), self.nbPins())


_CPP = {"Rectangle": _Rectangle, "Row": _Row, "Circuit": _Circuit}


def _not_modelled(what):
    def f(self, *a, **k):
        raise NotImplementedError("stand-in: %s is not modelled" % what)
    return f


def _field(cpp):
    def get(self):
        return self.__dict__[cpp]

    def set_(self, v):
        self.__dict__[cpp] = v
    return property(get, set_)


def _make_class(cls):
    base = _CPP.get(cls["cpp"]) or type("_" + cls["cpp"], (_Params,), {})
    parents = [base]
    ns = {}
    for b in TABLE["bindings"]:
        if b["class_py"] != cls["py"] or b["kind"] == "enum":
            continue
        owner = _CPP.get(b["owner"], base)
        k, cpp = b["kind"], b["cpp"]
        if k in ("readwrite", "readonly_attr"):
            ns[b["py"]] = _field(cpp)
        elif k in ("property", "property_ro"):
            g = getattr(owner, cpp, None) or _not_modelled("%s::%s" % (b["owner"], cpp))
            s = None
            if k == "property":
                s = getattr(_CPP.get(b["set_owner"], base), b["set"], None) or _not_modelled("%s::%s" % (b["set_owner"], b["set"]))
            ns[b["py"]] = property(g, s)
        elif k == "method":
            ns[b["py"]] = getattr(owner, cpp, None) or _not_modelled("%s::%s" % (b["owner"], cpp))
    # py::class_<Row, Rectangle>: the Python class derives from the Python class bound for the base
    for bb in cls["bases"]:
        if bb in _py_classes:
            parents.insert(0, _py_classes[bb])
    c = type(cls["py"], tuple(parents), ns)
    _py_classes[cls["cpp"]] = c
    return c


_py_classes = {}
for _c in TABLE["classes"]:
    globals()[_c["py"]] = _make_enum(_c) if _c["kind"] == "enum" else _make_class(_c)
    if _c["kind"] == "enum":
        # .export_values()
        for _n, _m in globals()[_c["py"]].__members__.items():
            globals().setdefault(_n, _m)
