#!/usr/bin/env python3
"""(re)generates section 10 of DESIGN.md from design/SECTION10_body.md + the two generated tables"""
import os, subprocess, sys
ROOT = os.path.dirname(os.path.dirname(os.path.abspath(__file__)))
body = open(os.path.join(ROOT, "design", "SECTION10_body.md")).read()
st = subprocess.run([sys.executable, os.path.join(ROOT, "tools", "status_table.py")], capture_output=True, text=True).stdout
sd = subprocess.run([sys.executable, os.path.join(ROOT, "tools", "seeded_table.py")], capture_output=True, text=True).stdout
body = body.replace("@@STATUS_TABLE@@", st.strip()).replace("@@SEEDED_TABLE@@", sd.strip())
p = os.path.join(ROOT, "DESIGN.md")
s = open(p).read()
marker = "\n## 10. Build log"
if marker in s:
    s = s[:s.index(marker)]
s = s.rstrip("\n") + "\n\n---------------------------------------------------------------------------\n\n" + body
open(p, "w").write(s)
print("DESIGN.md section 10 written (%d chars)" % len(body))
