(* C07, tie of the machine-integer listings to the source (property statements only).
   [machine_ops] (MachineOps_gen.v) is regenerated from the C++ sources of the tree under check by tools/machine_ops.py on every
   run of ./check C07; [cover] (MachineOpsCover.v) is written by hand.  The first theorem is the obligation that breaks when a
   transcribed function gains, loses or retypes an operation, or when the text of one changes.
   What is NOT proved here: that value number [pos] of a listing function IS the mathematical value of the C++ expression it
   is said to cover (read off the comments of the listing files), that the translator reports every operation (python over
   clang's AST: trusted), and that the table of functions in tools/machine_ops.py names every function a listing inlines.
   Labels: [F] closed, by evaluation on the generated table; [F-rule] for all tables. *)
From Coq Require Import List String Bool ZArith.
Import ListNotations.
Require Import CV.RowLeg CV.RowLegProofs CV.RowLegMachine CV.RowLegPlacementMachine CV.RowLegPlacementMachineProofs.
Require Import CV.MachineOps CV.MachineOpsProofs CV.MachineOps_gen CV.MachineOpsCover.

(* [F] every signed-integer operation / value-changing conversion that the translator finds in the transcribed functions is
   matched, position for position, by exactly one cover entry with the same function, operator, result type, text and
   occurrence; a covering listing value has the listing type of the generated C type, and the listing function named really
   produces that type at that position of its sample evaluation; no cover entry is left over *)
Theorem c07_listings_cover_every_signed_operation : ops_covered_b machine_ops cover = true.
Proof. vm_compute. reflexivity. Qed.

(* [F-rule] soundness of the rule against its Prop-level reading, for ALL tables and covers *)
Theorem c07_cover_rule_sound : forall t c, ops_covered_b t c = true -> ops_covered t c.
Proof. exact ops_covered_b_sound. Qed.

Theorem c07_cover_rule_every_op : forall t c, ops_covered_b t c = true ->
  forall f, In f t -> forall o, In o (f_ops f) ->
  exists g e, In g (cv_funs c) /\ In e (cf_entries g) /\
              f_listing f = cf_listing g /\ f_name f = cf_name g /\ op_matches o e /\ cov_ok c o e.
Proof. exact ops_covered_every_op. Qed.

Theorem c07_cover_rule_no_stale_entry : forall t c, ops_covered_b t c = true ->
  forall g, In g (cv_funs c) -> forall e, In e (cf_entries g) ->
  exists f o, In f t /\ In o (f_ops f) /\ f_name f = cf_name g /\ op_matches o e.
Proof. exact ops_covered_no_stale. Qed.

(* [F-rule] callee closure: every function of the repo that a function of the table calls is a function of the table or is named (with a
   reason) in the cover's callees_not_inlined; and every name listed there is called and is not in the table *)
Theorem c07_cover_rule_callees : forall t c, ops_covered_b t c = true -> calls_ok t c.
Proof. exact ops_covered_calls. Qed.

(* [F] for the tables of this tree *)
Theorem c07_callees_in_table_or_listed : calls_ok machine_ops cover.
Proof. exact (ops_covered_calls _ _ c07_listings_cover_every_signed_operation). Qed.

(* the two specialised to the tables of this tree *)
Theorem c07_every_operation_covered_or_excluded :
  forall f, In f machine_ops -> forall o, In o (f_ops f) ->
  exists g e, In g (cv_funs cover) /\ In e (cf_entries g) /\
              f_listing f = cf_listing g /\ f_name f = cf_name g /\ op_matches o e /\ cov_ok cover o e.
Proof. exact (ops_covered_every_op _ _ c07_listings_cover_every_signed_operation). Qed.

(* ---------- the rule discriminates (on the REAL tables; mutators in MachineOps.v) *)
(* (a) the source gains an operation / loses one *)
Example c07_cover_rejects_added_operation : ops_covered_b (mut_add_op machine_ops) cover = false.
Proof. vm_compute. reflexivity. Qed.
Example c07_cover_rejects_removed_operation : ops_covered_b (mut_drop_op machine_ops) cover = false.
Proof. vm_compute. reflexivity. Qed.
(* (b) an operation changes its type int -> long long *)
Example c07_cover_rejects_retyped_operation : ops_covered_b (mut_retype machine_ops) cover = false.
Proof. vm_compute. reflexivity. Qed.
(* (c) the text of an expression changes *)
Example c07_cover_rejects_changed_text : ops_covered_b (mut_retext machine_ops) cover = false.
Proof. vm_compute. reflexivity. Qed.
(* a function appears in / disappears from the table *)
Example c07_cover_rejects_added_function : ops_covered_b (mut_add_fun machine_ops) cover = false.
Proof. vm_compute. reflexivity. Qed.
Example c07_cover_rejects_removed_function : ops_covered_b (mut_drop_fun machine_ops) cover = false.
Proof. vm_compute. reflexivity. Qed.
(* a function of the table calls a new helper of the repo that is neither in the table nor in callees_not_inlined; an entry of
   callees_not_inlined is dropped although the callee is still called; an entry that nothing calls; an entry naming a table function *)
Example c07_cover_rejects_new_callee : ops_covered_b (mut_add_call machine_ops) cover = false.
Proof. vm_compute. reflexivity. Qed.
Example c07_cover_rejects_dropped_callee_entry : ops_covered_b machine_ops (mut_cover_drop_callee cover) = false.
Proof. vm_compute. reflexivity. Qed.
Example c07_cover_rejects_stale_callee_entry : ops_covered_b machine_ops (mut_cover_stale_callee cover) = false.
Proof. vm_compute. reflexivity. Qed.
Example c07_cover_rejects_callee_entry_of_table_function :
  ops_covered_b machine_ops (mut_cover_callee_in_table machine_ops cover) = false.
Proof. vm_compute. reflexivity. Qed.
(* a cover entry that is left over, that claims the wrong listing type, a position the listing function does not have, or a
   listing function that does not exist *)
Example c07_cover_rejects_stale_entry : ops_covered_b machine_ops (mut_cover_stale cover) = false.
Proof. vm_compute. reflexivity. Qed.
Example c07_cover_rejects_wrong_listing_type : ops_covered_b machine_ops (mut_cover_type cover) = false.
Proof. vm_compute. reflexivity. Qed.
Example c07_cover_rejects_missing_position : ops_covered_b machine_ops (mut_cover_pos_end cover) = false.
Proof. vm_compute. reflexivity. Qed.
Example c07_cover_rejects_unknown_listing_function : ops_covered_b machine_ops (mut_cover_fn cover) = false.
Proof. vm_compute. reflexivity. Qed.
(* non-vacuity: the tables are not empty, and most entries are covered by a listing value, not excluded *)
Example c07_cover_nonvacuous :
  (Nat.ltb 0 (count_listed cover) && Nat.leb (count_listed cover) (count_entries cover)
   && Nat.ltb 0 (List.length machine_ops))%bool = true.
Proof. vm_compute. reflexivity. Qed.

(* ---------- listing added by the tie: RowLegalizer::getPlacement (RowLegPlacementMachine.v) *)
Local Open Scope Z_scope.
(* [F] every value of getPlacement (ret[i] = finalAbsPos[i] + cumWidth_[i] and the assert's finalAbsPos[i] + cumWidth_[i + 1]) fits int,
   for every state satisfying the raw-state invariant of C12 (RowLegProofs.Inv: kept by every push / query from rl_init) on a segment
   inside [-2^22, 2^22] *)
Theorem c07_row_legalizer_placement_no_overflow : forall s,
  Inv s -> -4194304 <= rbegin s -> rend s <= 4194304 -> Forall fits (gp_vals s).
Proof. exact gp_no_overflow. Qed.
(* [F] the listed sums are the model's placement x (first of each pair) and x + width (second) *)
Theorem c07_row_legalizer_placement_vals_are_the_placement : forall cp ws u m,
  map snd (gp_aux_vals cp ws u m) =
  flat_map (fun xw => [fst xw; fst xw + snd xw])
           (combine (placement_aux cp ws u m) (firstn (List.length (placement_aux cp ws u m)) ws)).
Proof. exact gp_aux_placement. Qed.
Example c07_row_legalizer_placement_nonvacuous :
  let s := fst (push (fst (push (rl_init (-4194304) 4194304) 3 5)) 4194304 (-4194304)) in
  Inv s /\ gp_vals s = [(I32, -4194301); (I32, 3); (I32, -4194304); (I32, -4194301)].
Proof. split; [apply push_inv; [apply push_inv; [apply init_inv|..]|..]; vm_compute; try reflexivity; try discriminate | vm_compute; reflexivity]. Qed.

Print Assumptions c07_listings_cover_every_signed_operation.
Print Assumptions c07_cover_rule_callees.
Print Assumptions c07_callees_in_table_or_listed.
Print Assumptions c07_row_legalizer_placement_no_overflow.
Print Assumptions c07_row_legalizer_placement_vals_are_the_placement.
Print Assumptions c07_cover_rule_sound.
Print Assumptions c07_cover_rule_every_op.
Print Assumptions c07_cover_rule_no_stale_entry.
Print Assumptions c07_every_operation_covered_or_excluded.
