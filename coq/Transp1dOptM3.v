(* C14 optimality, part M3: the best-window lemma.  For a source i of a sorted problem the cost j |-> |u_i - v_j| is
   quasi-convex; any way of putting its s_i units into the cells y' .. y-1 costs at least as much as some contiguous
   window S_i+x .. S_{i+1}+x-1 inside y' .. y-1. *)
From Coq Require Import List ZArith Lia Bool Arith.
Import ListNotations.
Require Import CV.LpCert CV.Transp1d CV.Transp1dProofs CV.Transp1dTerm CV.Transp1dCert CV.Transp1dOpt
               CV.Transp1dOptA1 CV.Transp1dOptA2 CV.Transp1dOptM2.
Local Open Scope Z_scope.

Lemma zsum_eq_pointwise (r a : nat -> Z) l : (forall j, In j l -> r j <= a j) -> zsum r l = zsum a l ->
  forall j, In j l -> r j = a j.
Proof.
  induction l as [|x t IH]; intros Hle He j Hj; [contradiction|]. cbn [zsum] in He.
  assert (zsum r t <= zsum a t) by (apply zsum_le; intros k Hk; apply Hle; right; exact Hk).
  assert (r x <= a x) by (apply Hle; left; reflexivity).
  destruct Hj as [->|Hj]; [lia|]. apply IH; [intros k Hk; apply Hle; right; exact Hk|lia|exact Hj].
Qed.

Lemma zsum_lt_exists (r a : nat -> Z) l : zsum r l < zsum a l -> exists j, In j l /\ r j < a j.
Proof.
  induction l as [|x t IH]; intros H; cbn [zsum] in H; [lia|].
  destruct (Z.lt_ge_cases (r x) (a x)) as [Hx|Hx]; [exists x; split; [left; reflexivity|exact Hx]|].
  destruct IH as (j & Hj & Hlt); [lia|]. exists j. split; [right; exact Hj|exact Hlt].
Qed.

Lemma zsum_ind (f : nat -> Z) j0 N : (j0 < N)%nat ->
  zsum (fun j => f j * (if Nat.eqb j j0 then 1 else 0)) (seq 0 N) = f j0.
Proof.
  intros H. rewrite (zsum_single _ (seq 0 N) j0); [rewrite Nat.eqb_refl; lia|apply seq_NoDup|apply in_seq; lia|].
  intros j _ Hne. destruct (Nat.eqb_spec j j0); [congruence|lia].
Qed.

Section Window.
Variable P : sprob.
Hypothesis W : wf_sprob P.
Hypothesis So : sorted_sprob P.
Notation m := (n_snk P).
Notation D := (Dx P).
Notation c := (cost P).

Definition avail (y' y : Z) (j : nat) : Z := Z.max 0 (Z.min y (D (j + 1)) - Z.max y' (D j)).

Lemma D_mono2 : forall j k, (j <= k)%nat -> (k <= m)%nat -> D j <= D k.
Proof. apply D_le. exact W. Qed.

Lemma avail_sum y' y : 0 <= y' -> y' <= y -> y <= D m -> zsum (avail y' y) (seq 0 m) = y - y'.
Proof.
  intros H0 H1 H2. unfold avail. rewrite (ovl_tele D y' y m D_mono2). rewrite (Dx_0 P W). lia.
Qed.

Lemma avail_nonneg y' y j : 0 <= avail y' y j.
Proof. unfold avail. lia. Qed.

Lemma fc_as_sum i x : 0 <= Sx P i + x -> Sx P i <= Sx P (i + 1) -> Sx P (i + 1) + x <= D m ->
  fc P i x = zsum (fun j => c i j * avail (Sx P i + x) (Sx P (i + 1) + x) j) (seq 0 m).
Proof.
  intros H0 H1 H2. unfold fc, Gh. rewrite !Z.max_l by lia.
  match goal with |- ?a + _ - (?b + _) = _ => enough (E : a - b = zsum (fun j => c i j * avail (Sx P i + x) (Sx P (i + 1) + x) j) (seq 0 m)) by lia end.
  rewrite <- zsum_minus. apply zsum_ext. intros j Hj. apply in_seq in Hj.
  rewrite <- Z.mul_sub_distr_l. f_equal. unfold avail.
  pose proof (D_mono2 j (j + 1)%nat ltac:(lia) ltac:(lia)). lia.
Qed.

Lemma avail_shrink_left y' y jl j : (jl < m)%nat -> (j < m)%nat -> D jl <= y' < D (jl + 1) -> y' < y ->
  avail (y' + 1) y j = avail y' y j - (if Nat.eqb j jl then 1 else 0).
Proof.
  intros Hjl Hj Hy Hlt. unfold avail. destruct (Nat.eqb_spec j jl) as [->|Hne]; [lia|].
  pose proof (D_mono2 j (j + 1)%nat ltac:(lia) ltac:(lia)).
  destruct (Nat.lt_ge_cases j jl).
  - pose proof (D_mono2 (j + 1)%nat jl ltac:(lia) ltac:(lia)). lia.
  - pose proof (D_mono2 (jl + 1)%nat j ltac:(lia) ltac:(lia)). lia.
Qed.

Lemma avail_shrink_right y' y jr j : (jr < m)%nat -> (j < m)%nat -> D jr <= y - 1 < D (jr + 1) -> y' < y ->
  avail y' (y - 1) j = avail y' y j - (if Nat.eqb j jr then 1 else 0).
Proof.
  intros Hjr Hj Hy Hlt. unfold avail. destruct (Nat.eqb_spec j jr) as [->|Hne]; [lia|].
  pose proof (D_mono2 j (j + 1)%nat ltac:(lia) ltac:(lia)).
  destruct (Nat.lt_ge_cases j jr).
  - pose proof (D_mono2 (j + 1)%nat jr ltac:(lia) ltac:(lia)). lia.
  - pose proof (D_mono2 (jr + 1)%nat j ltac:(lia) ltac:(lia)). lia.
Qed.

Lemma avail_pos_range y' y jl jr j : (jl < m)%nat -> (jr < m)%nat -> (j < m)%nat ->
  D jl <= y' < D (jl + 1) -> D jr <= y - 1 < D (jr + 1) -> 0 < avail y' y j -> (jl <= j <= jr)%nat.
Proof.
  intros Hjl Hjr Hj Hl Hr Hp. unfold avail in Hp. split.
  - destruct (Nat.lt_ge_cases j jl) as [H|H]; [|exact H]. pose proof (D_mono2 (j + 1)%nat jl ltac:(lia) ltac:(lia)). lia.
  - destruct (Nat.lt_ge_cases jr j) as [H|H]; [|lia]. pose proof (D_mono2 (jr + 1)%nat j ltac:(lia) ltac:(lia)). lia.
Qed.

Lemma zsum_lin3 (f r a b : nat -> Z) l :
  zsum (fun j => f j * (r j + a j - b j)) l
  = zsum (fun j => f j * r j) l + zsum (fun j => f j * a j) l - zsum (fun j => f j * b j) l.
Proof. induction l as [|x t IH]; cbn [zsum]; [lia|]. rewrite IH. ring. Qed.

Definition bump (r : nat -> Z) (j0 ja : nat) (j : nat) : Z :=
  r j + (if Nat.eqb j j0 then 1 else 0) - (if Nat.eqb j ja then 1 else 0).

Lemma bump_sums i r j0 ja : (j0 < m)%nat -> (ja < m)%nat ->
  zsum (bump r j0 ja) (seq 0 m) = zsum r (seq 0 m) /\
  zsum (fun j => c i j * bump r j0 ja j) (seq 0 m) = zsum (fun j => c i j * r j) (seq 0 m) + c i j0 - c i ja.
Proof.
  intros H0 Ha. split.
  - pose proof (zsum_lin3 (fun _ => 1) r (fun j => if Nat.eqb j j0 then 1 else 0) (fun j => if Nat.eqb j ja then 1 else 0) (seq 0 m)) as Q.
    cbv beta in Q.
    rewrite (zsum_ext (bump r j0 ja) (fun j => 1 * (r j + (if Nat.eqb j j0 then 1 else 0) - (if Nat.eqb j ja then 1 else 0))))
      by (intros j _; unfold bump; lia).
    rewrite Q. rewrite (zsum_ind (fun _ => 1) j0 m H0), (zsum_ind (fun _ => 1) ja m Ha).
    rewrite (zsum_ext (fun j => 1 * r j) r) by (intros; lia). lia.
  - unfold bump. rewrite zsum_lin3. rewrite (zsum_ind (c i) j0 m H0), (zsum_ind (c i) ja m Ha). lia.
Qed.

Lemma best_window i : (i < n_src P)%nat -> forall L y' y r,
  0 <= y' -> y <= D m -> y - y' = Sx P (i + 1) - Sx P i + Z.of_nat L ->
  (forall j, (j < m)%nat -> 0 <= r j <= avail y' y j) ->
  zsum r (seq 0 m) = Sx P (i + 1) - Sx P i ->
  exists x, y' <= Sx P i + x /\ Sx P (i + 1) + x <= y /\ fc P i x <= zsum (fun j => c i j * r j) (seq 0 m).
Proof.
  intros Hi. pose proof (Sx_step P W i Hi) as Hs.
  induction L as [|L IH]; intros y' y r H0 Hy Hlen Hr Hsum.
  - (* the window is forced *)
    exists (y' - Sx P i). split; [lia|]. split; [lia|].
    rewrite fc_as_sum by lia.
    replace (Sx P i + (y' - Sx P i)) with y' by lia. replace (Sx P (i + 1) + (y' - Sx P i)) with y by lia.
    assert (E : forall j, In j (seq 0 m) -> r j = avail y' y j).
    { apply zsum_eq_pointwise; [intros j Hj; apply in_seq in Hj; apply Hr; lia|].
      rewrite avail_sum by lia. lia. }
    rewrite (zsum_ext _ (fun j => c i j * r j)); [lia|]. intros j Hj. rewrite (E j Hj). reflexivity.
  - assert (Hlt : y' < y) by lia.
    destruct (sink_of_cell P W y' ltac:(lia)) as (jl & Hjl & Bl).
    destruct (sink_of_cell P W (y - 1) ltac:(lia)) as (jr & Hjr & Br).
    assert (Hsa : zsum r (seq 0 m) < zsum (avail y' y) (seq 0 m)) by (rewrite avail_sum by lia; lia).
    destruct (zsum_lt_exists _ _ _ Hsa) as (j0 & Hj0 & Hlt0). apply in_seq in Hj0.
    assert (Hp0 : 0 < avail y' y j0) by (specialize (Hr j0 ltac:(lia)); lia).
    pose proof (avail_pos_range y' y jl jr j0 Hjl Hjr ltac:(lia) Bl Br Hp0) as Hrg.
    destruct (Z.le_gt_cases (c i jr) (c i jl)) as [Hc|Hc].
    + (* drop the first cell y' *)
      destruct (Z.lt_ge_cases (r jl) (avail y' y jl)) as [Hfit|Hfull].
      * destruct (IH (y' + 1) y r ltac:(lia) Hy ltac:(lia)) as (x & X1 & X2 & X3); [|exact Hsum|].
        -- intros j Hj. rewrite (avail_shrink_left y' y jl j Hjl Hj Bl Hlt). specialize (Hr j Hj).
           destruct (Nat.eqb_spec j jl) as [->|Hne]; lia.
        -- exists x. split; [lia|]. split; [exact X2|exact X3].
      * assert (Hal : 1 <= avail y' y jl) by (unfold avail; lia).
        assert (Hne : j0 <> jl) by (intros ->; specialize (Hr jl Hjl); lia).
        destruct (bump_sums i r j0 jl ltac:(lia) Hjl) as [B1 B2].
        destruct (IH (y' + 1) y (bump r j0 jl) ltac:(lia) Hy ltac:(lia)) as (x & X1 & X2 & X3); [|lia|].
        -- intros j Hj. rewrite (avail_shrink_left y' y jl j Hjl Hj Bl Hlt). specialize (Hr j Hj). unfold bump.
           destruct (Nat.eqb_spec j jl) as [E1|Hn1]; destruct (Nat.eqb_spec j j0) as [E0|Hn0]; try subst j; lia.
        -- exists x. split; [lia|]. split; [exact X2|].
           pose proof (cost_qc P So i jl j0 jr ltac:(lia) ltac:(lia) Hjr). lia.
    + (* drop the last cell y-1 *)
      destruct (Z.lt_ge_cases (r jr) (avail y' y jr)) as [Hfit|Hfull].
      * destruct (IH y' (y - 1) r H0 ltac:(lia) ltac:(lia)) as (x & X1 & X2 & X3); [|exact Hsum|].
        -- intros j Hj. rewrite (avail_shrink_right y' y jr j Hjr Hj Br Hlt). specialize (Hr j Hj).
           destruct (Nat.eqb_spec j jr) as [->|Hne]; lia.
        -- exists x. split; [exact X1|]. split; [lia|exact X3].
      * assert (Hal : 1 <= avail y' y jr) by (unfold avail; lia).
        assert (Hne : j0 <> jr) by (intros ->; specialize (Hr jr Hjr); lia).
        destruct (bump_sums i r j0 jr ltac:(lia) Hjr) as [B1 B2].
        destruct (IH y' (y - 1) (bump r j0 jr) H0 ltac:(lia) ltac:(lia)) as (x & X1 & X2 & X3); [|lia|].
        -- intros j Hj. rewrite (avail_shrink_right y' y jr j Hjr Hj Br Hlt). specialize (Hr j Hj). unfold bump.
           destruct (Nat.eqb_spec j jr) as [E1|Hn1]; destruct (Nat.eqb_spec j j0) as [E0|Hn0]; try subst j; lia.
        -- exists x. split; [exact X1|]. split; [lia|].
           pose proof (cost_qc P So i jl j0 jr ltac:(lia) ltac:(lia) Hjr). lia.
Qed.
End Window.
