(* C01 -- "or fails loudly": the exceptions of Circuit::legalize OTHER than "No row present" / "Not all cells have been placed".
   Models: InternalChecks.v (LegalizerBase::check, AbacusLegalizer::check, the size test of Legalizer::exportPlacement,
   computeNorm's default case, line by line; Legalizer::run and DetailedPlacer::legalize WITH these tests), InternalChecksEntry.v
   (params.check() in front).  Proofs: InternalChecksProofs.v.  Tie: checks/internal_checks.py (the model's check functions against
   the C++ check() on the states AbacusLegalizer::run reaches and on corrupted copies of them).
   Labels: [F] = all inputs of the stated domain, no size bound. *)
From Coq Require Import List ZArith QArith Lia Bool.
Import ListNotations.
Require Import CV.Params CV.CellOrder.
Require Import CV.Orient CV.FreeSpace CV.RowLeg CV.Circuit CV.Legalizer CV.LegalizerProofs CV.LegalizerAbacusProofs CV.LegalizerSoundProofs.
Require Import CV.InternalChecks CV.InternalChecksEntry CV.InternalChecksProofs.
Local Open Scope Z_scope.

(* [F] AbacusLegalizer::check() passes at the point AbacusLegalizer::run calls it (abacus_legalizer.cpp:37), for EVERY list of
   row segments of one height (sorted or not, overlapping or not, any rh) and every list of cells of positive width, whatever
   their heights, targets, polarities and orientations: the eight size tests and "Rows have different heights" of
   LegalizerBase::check, "Cell placed before / after the row" for every cell of every rowToCells_[i], "Cell overlap detected"
   for every two consecutive cells of a rowToCells_[i]; no vector is read out of bounds (CUB) *)
Theorem c01_abacus_check_passes : forall rows0 cells rh,
  widths_positive cells -> (forall r, In r rows0 -> row_h r = rh) ->
  abacus_check (ab_final rows0 cells) = CPass.
Proof. exact abacus_check_passes. Qed.

(* [F] legalizer_check_passes: Legalizer::run with the test (legalize_chk: KCheck e / KUB when check() throws / reads out of
   bounds) IS Legalizer.legalize, for every cell order (duplicates, out-of-range entries allowed), every list of row
   segments of one height and every list of cells of positive width *)
Theorem c01_legalizer_check_passes : forall rows0 cells order rh,
  (forall r, In r rows0 -> row_h r = rh) -> widths_positive cells ->
  legalize_chk rows0 cells order = outcome_inj (legalize rows0 cells order).
Proof. exact legalize_chk_eq. Qed.

(* [F] "Circuit does not match legalizer for export" cannot be thrown by DetailedPlacer::legalize: the circuit has as many
   non-fixed cells as the legalizer built from it has cells (every circuit) *)
Theorem c01_export_never_mismatches : forall c, export_chk (cells c) 0 (length (leg_cells c)) = CPass.
Proof. exact export_chk_circuit. Qed.

(* [F] the test itself is not vacuous: with fewer legalizer cells than non-fixed circuit cells it fires *)
Theorem c01_export_mismatch_fires : forall cs n, (n < length (filter (fun k => negb (c_fixed k)) cs))%nat ->
  export_chk cs 0 n = CFail EExportMismatch.
Proof. exact export_chk_fires0. Qed.

(* [F] DetailedPlacer::legalize after params.check() with ALL its tests = Legalizer.legalize_circuit, on the domain
   checks_domain c rh: rows of one height (any rh) and movable cells of positive placed width (wider than C01's std_design:
   nothing on heights, polarities, turned cells, overlapping rows), costModel one of the six enumerators *)
Theorem c01_legalize_circuit_with_checks : forall costModel c order rh,
  checks_domain c rh -> 0 <= costModel <= 5 ->
  legalize_circuit_chk costModel c order = leg_result_inj (legalize_circuit c order).
Proof. exact legalize_circuit_chk_eq. Qed.

Theorem c01_std_design_in_checks_domain : forall c rh, std_design c rh -> checks_domain c rh.
Proof. exact std_design_checks_domain. Qed.

(* [F] parameters accepted by ColoquinteParameters::check have costModel = L1: computeNorm's "Unknown legalization model"
   is unreachable from meanDistance(params.legalization.costModel) *)
Theorem c01_accepted_params_have_L1 : forall P, check_coloquinte P = None -> lg_costModel (cp_legalization P) = 0.
Proof. exact params_ok_cost_model. Qed.

(* [F] THE clause: on the domain, the entry point (params.check(); fromIspdCircuit; run; meanDistance; exportPlacement) with every
   test modelled is: the parameter error when params.check() throws (C19's subject), otherwise the CLOSED model legalize_real
   of Properties_C01.v -- whose only failures are NoRow / NotAllPlaced *)
Theorem c01_only_exceptions : forall P c rh, checks_domain c rh ->
  legalize_entry P c = match check_coloquinte P with
                       | Some m => EnParams m
                       | None => EnRes (leg_result_inj (legalize_real (order_params_of P) c))
                       end.
Proof. exact legalize_entry_eq. Qed.

(* [F on std_design] every outcome of the entry point: a parameter error; a LEGAL circuit with the frame; NoRow; NotAllPlaced;
   never a failed internal test, never an out-of-bounds read of the tests *)
Theorem c01_entry_outcomes : forall P c rh, std_design c rh ->
  match legalize_entry P c with
  | EnParams m => check_coloquinte P = Some m
  | EnRes (LcOk c') => check_coloquinte P = None /\ legalize_real (order_params_of P) c = LegOk c' /\ legal c' /\
                       rows c' = rows c /\ Forall2 same_frame (cells c) (cells c')
  | EnRes LcNoRow => check_coloquinte P = None /\ legalize_real (order_params_of P) c = LegNoRow
  | EnRes LcNotAllPlaced => check_coloquinte P = None /\ legalize_real (order_params_of P) c = LegNotAllPlaced
  | EnRes (LcCheck _) => False
  | EnRes LcUB => False
  end.
Proof. exact legalize_entry_outcomes. Qed.

(* ---------- non-vacuity ---------- *)
(* three segments (two on one row, given unsorted), six cells of which one is too high (Properties_C01.ex_segments): the state
   AbacusLegalizer::run ends with, check() passes on it; and check() is not vacuous: overwriting one entry makes it throw *)
Definition exk_segments : list row :=
  [ {| rr := {| minX := 6; maxX := 12; minY := 2; maxY := 4 |}; ro := oFS |};
    {| rr := {| minX := 0; maxX := 5; minY := 0; maxY := 2 |}; ro := oN |};
    {| rr := {| minX := 0; maxX := 4; minY := 2; maxY := 4 |}; ro := oFS |} ].
Definition exk_cells : list cell :=
  [ {| cw := 3; ch := 2; cpol := pSAME; ctx := 1; cty := 0; cor := oN |};
    {| cw := 3; ch := 2; cpol := pANY; ctx := 1; cty := 0; cor := oS |};
    {| cw := 2; ch := 2; cpol := pNW; ctx := 7; cty := 3; cor := oN |};
    {| cw := 4; ch := 2; cpol := pOPPOSITE; ctx := 8; cty := 2; cor := oN |};
    {| cw := 2; ch := 4; cpol := pANY; ctx := 8; cty := 2; cor := oN |};
    {| cw := 2; ch := 2; cpol := pSAME; ctx := 9; cty := 2; cor := oN |} ].
Example c01_abacus_check_nonvacuous :
  widths_positive exk_cells /\ (forall r, In r exk_segments -> row_h r = 2) /\
  ab_rtc (ab_final exk_segments exk_cells) = [[0%nat; 2%nat]; [1%nat]; [3%nat; 5%nat]] /\
  lg_x (ab_base (ab_final exk_segments exk_cells)) = [0; 1; 3; 6; 8; 10] /\
  lg_placed (ab_base (ab_final exk_segments exk_cells)) = [true; true; true; true; false; true] /\
  abacus_check (ab_final exk_segments exk_cells) = CPass /\
  (* cellToX_[2] = 2: cell 2 overlaps its predecessor (cell 0 at 0, width 3) *)
  abacus_check (ab_perturb (ab_final exk_segments exk_cells) 0 2 0 2) = CFail EAbOverlap /\
  (* cellToX_[0] = -1 *)
  abacus_check (ab_perturb (ab_final exk_segments exk_cells) 0 0 0 (-1)) = CFail EAbBefore /\
  (* cellWidth_[5] = 3: cell 5 at 10 ends after the segment [6, 12) *)
  abacus_check (ab_perturb (ab_final exk_segments exk_cells) 1 5 0 3) = CFail EAbAfter /\
  (* rows_[1].maxY = 5 *)
  abacus_check (ab_perturb (ab_final exk_segments exk_cells) 5 1 0 5) = CFail ELbRowHeights /\
  (* cellToY_.push_back(0) *)
  abacus_check (ab_perturb (ab_final exk_segments exk_cells) 6 5 0 0) = CFail ELbY /\
  (* rowToCells_[1][0] = 7: not a cell *)
  abacus_check (ab_perturb (ab_final exk_segments exk_cells) 2 1 0 7) = CUB.
Proof.
  split; [repeat constructor|]. split; [intros r [<-|[<-|[<-|[]]]]; reflexivity|].
  repeat split; vm_compute; reflexivity.
Qed.

(* the hypothesis "rows of one height" of c01_legalize_circuit_with_checks is needed: with rows of heights 2 and 3 the model
   WITHOUT the tests returns a placement, the C++ (and the model with the tests) throws "Rows have different heights" -- a loud
   failure outside the domain of C01 *)
Definition exk_mixed : circuit :=
  {| rows := [ {| rr := {| minX := 0; maxX := 10; minY := 0; maxY := 2 |}; ro := oN |};
               {| rr := {| minX := 0; maxX := 10; minY := 2; maxY := 5 |}; ro := oFS |} ];
     cells := [ {| c_x := 3; c_y := 1; c_w := 2; c_h := 2; c_o := oN; c_pol := pANY; c_fixed := false; c_obs := true |} ] |}.
Example c01_mixed_row_heights_fail_loudly :
  (exists c', legalize_circuit exk_mixed [0%nat] = LegOk c') /\
  legalize_circuit_chk 0 exk_mixed [0%nat] = LcCheck ELbRowHeights.
Proof. split; [eexists|]; vm_compute; reflexivity. Qed.

(* the entry point on Properties_C01.ex_circuit (std_design: c01_legalize_circuit_nonvacuous) with the parameters of effort 3
   (a literal copy of ColoquinteParameters(3), accepted by check()): a legal circuit; with costModel = 1 the parameter check
   throws and nothing else happens *)
Definition exk_circuit : circuit :=
  {| rows := [ {| rr := {| minX := 0; maxX := 10; minY := 0; maxY := 2 |}; ro := oN |};
               {| rr := {| minX := 0; maxX := 10; minY := 2; maxY := 4 |}; ro := oFS |} ];
     cells := [ {| c_x := 4; c_y := 0; c_w := 2; c_h := 4; c_o := oN; c_pol := pANY; c_fixed := true; c_obs := true |};
                {| c_x := 3; c_y := 1; c_w := 2; c_h := 4; c_o := oN; c_pol := pANY; c_fixed := false; c_obs := true |};
                {| c_x := 5; c_y := 0; c_w := 3; c_h := 2; c_o := oN; c_pol := pSAME; c_fixed := false; c_obs := true |};
                {| c_x := 5; c_y := 3; c_w := 2; c_h := 3; c_o := oW; c_pol := pANY; c_fixed := false; c_obs := true |} ] |}.
Definition exk_params (costModel : Z) : ColoquinteParams := effort3_params costModel effort3_detailed.
Local Open Scope Z_scope.

Example c01_entry_nonvacuous :
  check_coloquinte (exk_params 0) = None /\
  (exists c', legalize_entry (exk_params 0) exk_circuit = EnRes (LcOk c') /\ c' <> exk_circuit /\ legalb c' = true /\ legalb exk_circuit = false) /\
  legalize_entry (exk_params 1) exk_circuit = EnParams MLgModel.
Proof.
  split; [vm_compute; reflexivity|]. split.
  - eexists. split; [vm_compute; reflexivity|]. split; [discriminate|]. split; vm_compute; reflexivity.
  - vm_compute. reflexivity.
Qed.

Print Assumptions c01_abacus_check_passes.
Print Assumptions c01_legalizer_check_passes.
Print Assumptions c01_export_never_mismatches.
Print Assumptions c01_export_mismatch_fires.
Print Assumptions c01_legalize_circuit_with_checks.
Print Assumptions c01_std_design_in_checks_domain.
Print Assumptions c01_accepted_params_have_L1.
Print Assumptions c01_only_exceptions.
Print Assumptions c01_entry_outcomes.
Print Assumptions c01_abacus_check_nonvacuous.
Print Assumptions c01_mixed_row_heights_fail_loudly.
Print Assumptions c01_entry_nonvacuous.
