(* C18, floating-point analysis, part 7: when no cap binds, the movable area reached by expandCellsToDensity in
   binary64 is within one cell height (plus rounding) of target * available:
     area' > target * available * (1 - 2^-50) - H - nproc * 2^-20        (H = a bound of the heights).
   Proofs only. *)
From Coq Require Import ZArith Reals Psatz Lra Lia List Bool.
From Flocq Require Import Core BinarySingleNaN.
Require Import CV.Orient CV.FreeSpace CV.Expand CV.ExpandProofs CV.SpreadFloat CV.SpreadFloatProofs.
Require Import CV.ExpandFloat CV.ExpandFloatBase CV.ExpandFloatProofs CV.ExpandFloatCarry CV.ExpandFloatArea.
Import ListNotations.
Local Open Scope R_scope.

(* F * ca * (1+u)^2 >= t * ra * (1-u)^2 *)
Lemma factor_f_lower : forall (t : f64) (ca ra : Z), (0 < ca < 2 ^ 63)%Z -> (0 < ra < 2 ^ 63)%Z ->
  is_finite t = true -> B2R t <= 1 -> B2R (density_f ca ra) < B2R t ->
  B2R t * IZR ra * ((1 - u53) * (1 - u53)) <= B2R (ddiv t (density_f ca ra)) * IZR ca * ((1 + u53) * (1 + u53)).
Proof.
  intros t ca ra Hca Hra Ft Ht Hlt.
  assert (Pu : 0 < u53 < / 2).
  { split; [apply bpow_gt_0|]. change (/ 2) with (bpow radix2 (-1)). apply bpow_lt. lia. }
  destruct (d_of_Z_correct ca) as [X1 X2].
  { apply Z.lt_le_incl. apply Z.abs_lt. split; [lia|]. eapply Z.lt_le_trans; [apply Hca|]. apply Z.pow_le_mono_r; lia. }
  destruct (d_of_Z_correct ra) as [Y1 Y2].
  { apply Z.lt_le_incl. apply Z.abs_lt. split; [lia|]. eapply Z.lt_le_trans; [apply Hra|]. apply Z.pow_le_mono_r; lia. }
  destruct (d_of_Z_pos_range ca Hca) as [_ [Lx Ux]]. destruct (d_of_Z_pos_range ra Hra) as [_ [Ly Uy]].
  destruct (density_f_range ca ra Hca Hra) as [Fd [Ld Ud]].
  set (X := B2R (d_of_Z ca)) in *. set (Y := B2R (d_of_Z ra)) in *. set (Dn := B2R (density_f ca ra)) in *.
  assert (Pca : 1 <= IZR ca) by (apply (IZR_le 1); lia). assert (Pra : 1 <= IZR ra) by (apply (IZR_le 1); lia).
  pose proof (rnd64_rel_1 _ Pca) as Rx. rewrite <- X1 in Rx. pose proof (rnd64_rel_1 _ Pra) as Ry. rewrite <- Y1 in Ry.
  assert (Pm : 0 < bpow radix2 (-63)) by apply bpow_gt_0.
  assert (DD : Dn = rnd64 (X / Y)).
  { unfold Dn, density_f. apply ddiv_correct; [exact X2|fold Y; lra|]. fold X Y.
    assert (Q : 0 <= X / Y <= X). { split; [apply Rmult_le_pos; [lra|apply Rlt_le, Rinv_0_lt_compat; lra]|].
      unfold Rdiv. rewrite <- (Rmult_1_r X) at 2. apply Rmult_le_compat_l; [lra|]. rewrite <- Rinv_1. apply Rinv_le_contravar; lra. }
    rewrite Rabs_pos_eq by lra. apply Rle_trans with (bpow radix2 63); [lra|apply bpow_le; lia]. }
  set (Q := X / Y) in *. assert (QY : Q * Y = X) by (unfold Q; field; lra).
  assert (LQ : bpow radix2 (-1022) <= Q).
  { apply Rle_trans with (bpow radix2 (-63)); [apply bpow_le; lia|].
    unfold Q, Rdiv. assert (E63 : / bpow radix2 63 = bpow radix2 (-63)) by (rewrite <- bpow_opp; reflexivity).
    rewrite <- E63. pose proof (bpow_gt_0 radix2 63).
    assert (/ bpow radix2 63 <= / Y) by (apply Rinv_le_contravar; lra).
    assert (0 < / bpow radix2 63) by (apply Rinv_0_lt_compat; lra).
    apply Rle_trans with (1 * / Y); [lra|apply Rmult_le_compat_r; lra]. }
  pose proof (rnd64_rel Q LQ) as RD. rewrite <- DD in RD. apply abs_le_inv in RD.
  assert (PQ : 0 < Q) by (pose proof (bpow_gt_0 radix2 (-1022)); lra).
  set (T := B2R t / Dn). assert (PD : 0 < Dn) by lra. assert (TD : T * Dn = B2R t) by (unfold T; field; lra).
  assert (LT : 1 <= T).
  { unfold T. apply Rmult_le_reg_r with Dn; [exact PD|]. unfold Rdiv. rewrite Rmult_assoc, Rinv_l by lra. lra. }
  assert (FF : B2R (ddiv t (density_f ca ra)) = rnd64 T).
  { apply ddiv_correct; [exact Ft|fold Dn; lra|]. fold Dn. fold T. rewrite Rabs_pos_eq by lra.
    apply Rle_trans with (bpow radix2 63); [|apply bpow_le; lia].
    unfold T, Rdiv. assert (E63 : / bpow radix2 (-63) = bpow radix2 63) by (rewrite <- bpow_opp; reflexivity).
    rewrite <- E63. assert (/ Dn <= / bpow radix2 (-63)) by (apply Rinv_le_contravar; lra).
    assert (0 < / Dn) by (apply Rinv_0_lt_compat; lra).
    apply Rle_trans with (1 * / Dn); [apply Rmult_le_compat_r; lra|lra]. }
  pose proof (rnd64_rel_1 T LT) as RF. rewrite <- FF in RF.
  set (Fv := B2R (ddiv t (density_f ca ra))) in *.
  (* Dn * Y <= (1+u) X <= (1+u)^2 ca;  Y >= (1-u) ra;  Fv * Dn >= (1-u) t *)
  assert (S1 : Dn * Y <= (1 + u53) * X).
  { rewrite <- QY, <- Rmult_assoc. apply Rmult_le_compat_r; lra. }
  assert (S2 : Dn * ((1 - u53) * IZR ra) <= (1 + u53) * ((1 + u53) * IZR ca)).
  { apply Rle_trans with (Dn * Y); [apply Rmult_le_compat_l; lra|].
    apply Rle_trans with ((1 + u53) * X); [exact S1|]. apply Rmult_le_compat_l; lra. }
  assert (S3 : (1 - u53) * B2R t <= Fv * Dn).
  { rewrite <- TD. apply Rle_trans with (T * (1 - u53) * Dn); [right; ring|apply Rmult_le_compat_r; lra]. }
  assert (PF : 0 <= Fv).
  { apply Rle_trans with (T * (1 - u53)); [apply Rmult_le_pos; lra|lra]. }
  assert (S4 : Fv * (Dn * ((1 - u53) * IZR ra)) <= Fv * ((1 + u53) * ((1 + u53) * IZR ca))).
  { apply Rmult_le_compat_l; assumption. }
  assert (S5 : (1 - u53) * B2R t * ((1 - u53) * IZR ra) <= Fv * Dn * ((1 - u53) * IZR ra)).
  { apply Rmult_le_compat_r; [apply Rmult_le_pos; lra|exact S3]. }
  replace (B2R t * IZR ra * ((1 - u53) * (1 - u53))) with ((1 - u53) * B2R t * ((1 - u53) * IZR ra)) by ring.
  eapply Rle_trans; [exact S5|].
  replace (Fv * Dn * ((1 - u53) * IZR ra)) with (Fv * (Dn * ((1 - u53) * IZR ra))) by ring.
  eapply Rle_trans; [exact S4|]. right; ring.
Qed.

(* no cap binds: fracW > maxCellWidth is false for every processed cell *)
Definition no_cap_binds_f (f cap : f64) (cells : list ecell) : Prop :=
  Forall (fun k => processed k = true -> Bltb cap (dmul (d_of_Z (e_w k)) f) = false) cells.

Lemma frac_area_f_ge : forall (f cap : f64) k, is_finite f = true -> 1 <= B2R f <= bpow radix2 63 ->
  (0 <= e_w k < 2 ^ 31)%Z -> (0 <= e_h k < 2 ^ 31)%Z ->
  (processed k = true -> Bltb cap (dmul (d_of_Z (e_w k)) f) = false) ->
  (1 - u53) * B2R f * IZR (marea1 k) <= frac_area_f f cap k.
Proof.
  intros f cap k Ff Hf Hw Hh Nc. unfold frac_area_f.
  assert (Pu : 0 < u53 < / 2).
  { split; [apply bpow_gt_0|]. change (/ 2) with (bpow radix2 (-1)). apply bpow_lt. lia. }
  destruct (processed k) eqn:P.
  - destruct (processed_spec k P) as [Nf [Ph Pw]].
    destruct (d_of_Z_exact (e_w k) (abs31 _ Hw)) as [W1 W2]. pose proof (IZR31 (e_w k) Hw) as W0.
    assert (W1' : 1 <= IZR (e_w k)) by (apply (IZR_le 1); lia).
    pose proof (bpow_gt_0 radix2 63) as P63.
    destruct (dmul_correct (d_of_Z (e_w k)) f W2 Ff) as [M1 M2].
    { rewrite W1, Rabs_pos_eq by nra. apply Rle_trans with (bpow radix2 31 * bpow radix2 63); [nra|].
      rewrite <- bpow_plus. apply bpow_le. lia. }
    rewrite W1 in M1. unfold frac_width_f. rewrite (Nc eq_refl). rewrite M1.
    assert (WF : 1 <= IZR (e_w k) * B2R f).
    { apply Rle_trans with (1 * 1); [lra|apply Rmult_le_compat; lra]. }
    pose proof (rnd64_rel_1 _ WF) as R.
    unfold marea1, cell_area. rewrite Nf, mult_IZR.
    assert (Hp : 0 < IZR (e_h k)) by (apply (IZR_lt 0); lia).
    apply Rle_trans with (IZR (e_h k) * (IZR (e_w k) * B2R f * (1 - u53))); [right; ring|].
    apply Rmult_le_compat_l; lra.
  - destruct (e_fixed k) eqn:Fx.
    + unfold marea1. rewrite Fx. simpl. lra.
    + unfold marea1. rewrite Fx. rewrite (unprocessed_area0 k P Fx) by lia. simpl. lra.
Qed.

Lemma rsum_frac_area_ge : forall (f cap : f64) cells, is_finite f = true -> 1 <= B2R f <= bpow radix2 63 ->
  int_sizes cells -> no_cap_binds_f f cap cells ->
  (1 - u53) * B2R f * IZR (movable_area cells) <= rsum (map (frac_area_f f cap) cells).
Proof.
  intros f cap cells Ff Hf. induction cells as [|k r IH]; intros Hs Nc.
  - cbn. lra.
  - inversion Hs as [|? ? [Hw Hh] Hs']; subst. inversion Nc; subst. cbn [map rsum].
    rewrite movable_area_cons, plus_IZR, Rmult_plus_distr_l.
    pose proof (frac_area_f_ge f cap k Ff Hf Hw Hh ltac:(assumption)). specialize (IH Hs' ltac:(assumption)). lra.
Qed.

Lemma u53_numeric_lower :
  (1 - bpow radix2 (-50)) * ((1 + u53) * (1 + u53)) <= (1 - u53) * ((1 - u53) * (1 - u53)).
Proof. rewrite bpow_m53. replace (bpow radix2 (-50)) with (/ 1125899906842624) by reflexivity. lra. Qed.

(* C18 clause 4 for the binary64 computation: no cap binds => the movable area after the expansion is above
   target * available * (1 - 2^-50) - H - 2^-20 per processed cell, H any bound of the heights *)
Theorem to_density_f_area_lower : forall (t m mew : f64) c c' (H : Z),
  is_finite t = true -> B2R t <= 1 -> int_sizes (e_cells c) ->
  (movable_area (e_cells c) < 2 ^ 63)%Z -> (row_placement_area_f m c < 2 ^ 63)%Z ->
  is_finite (cap_f mew c) = true -> 0 <= B2R (cap_f mew c) < bpow radix2 31 ->
  (1 <= H <= 2 ^ 31)%Z -> Forall (fun k => (e_h k <= H)%Z) (e_cells c) ->
  expand_to_density_f_br t m mew c = Some (c', BrExpand) ->
  no_cap_binds_f (ddiv t (density_f (movable_area (e_cells c)) (row_placement_area_f m c))) (cap_f mew c) (e_cells c) ->
  B2R t * IZR (row_placement_area_f m c) * (1 - bpow radix2 (-50)) - IZR H
    - INR (nproc (e_cells c)) * bpow radix2 (-20) < IZR (movable_area (e_cells c')).
Proof.
  intros t m mew c c' H Ft Ht Hs Hca Hra Fc Hc HH Hb E0 Nc.
  destruct (to_density_f_cases _ _ _ _ _ _ E0) as [[Hn _]|[_ [Nca [Nra [D [cs [mm [E ->]]]]]]]]; [congruence|].
  cbn [e_cells].
  pose proof (movable_area_nonneg _ (int_sizes_nonneg _ Hs)) as Pca. pose proof (row_area_f_nonneg m c) as Pra.
  destruct (to_density_f_factor t m c Ft Ht Hs Hca Hra Nca Nra D) as [Ff Hf]. cbv zeta in Ff, Hf.
  set (ca := movable_area (e_cells c)) in *. set (ra := row_placement_area_f m c) in *.
  set (f := ddiv t (density_f ca ra)) in *.
  destruct (density_f_range ca ra ltac:(lia) ltac:(lia)) as [Fd [Ld _]].
  pose proof (dleb_false_gt t _ Ft Fd D) as Lt.
  assert (Ok : Forall (fw_ok f (cap_f mew c)) (e_cells c)).
  { eapply Forall_impl; [|exact Hs]. cbv beta. intros k [Hw _]. apply fw_ok_of_cap; assumption. }
  destruct (expand_cells_f_inv f (cap_f mew c) H ltac:(lia) (e_cells c) (B754_zero false) cs mm Hs Ok Hb)
    as [Fm [Rm A]].
  { reflexivity. }
  { cbn [B2R]. split; [lra|]. apply (IZR_lt 0). lia. }
  { exact E. }
  cbn [B2R] in A. apply abs_le_inv in A.
  pose proof (rsum_frac_area_ge f (cap_f mew c) (e_cells c) Ff Hf Hs Nc) as S. fold ca in S.
  pose proof (factor_f_lower t ca ra ltac:(lia) ltac:(lia) Ft Ht Lt) as U. fold f in U.
  assert (Pu : 0 < u53 < / 2).
  { split; [apply bpow_gt_0|]. change (/ 2) with (bpow radix2 (-1)). apply bpow_lt. lia. }
  assert (Pt : 0 <= B2R t * IZR ra).
  { pose proof (bpow_gt_0 radix2 (-63)). apply Rmult_le_pos; [lra|apply (IZR_le 0); lia]. }
  assert (K : B2R t * IZR ra * (1 - bpow radix2 (-50)) <= (1 - u53) * B2R f * IZR ca).
  { apply Rmult_le_reg_r with ((1 + u53) * (1 + u53)); [apply Rmult_lt_0_compat; lra|]. pose proof u53_numeric_lower as Nn.
    apply Rle_trans with (B2R t * IZR ra * ((1 - u53) * ((1 - u53) * (1 - u53)))).
    { replace (B2R t * IZR ra * (1 - bpow radix2 (-50)) * ((1 + u53) * (1 + u53)))
        with (B2R t * IZR ra * ((1 - bpow radix2 (-50)) * ((1 + u53) * (1 + u53)))) by ring.
      apply Rmult_le_compat_l; [exact Pt|exact Nn]. }
    replace (B2R t * IZR ra * ((1 - u53) * ((1 - u53) * (1 - u53))))
      with ((1 - u53) * (B2R t * IZR ra * ((1 - u53) * (1 - u53)))) by ring.
    replace ((1 - u53) * B2R f * IZR ca * ((1 + u53) * (1 + u53)))
      with ((1 - u53) * (B2R f * IZR ca * ((1 + u53) * (1 + u53)))) by ring.
    apply Rmult_le_compat_l; [lra|exact U]. }
  lra.
Qed.
