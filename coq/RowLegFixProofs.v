(* C11: the single-row legalizer leaves an already legal row alone.
   Inserting, left to right, cells whose targets are ordered, non-overlapping and inside the
   segment costs 0 for every insertion and returns the targets as positions. *)
From Coq Require Import List ZArith Lia Bool.
Import ListNotations.
Require Import CV.RowLeg.
Local Open Scope Z_scope.

(* cells (width, target), oldest (leftmost) first, forming a legal row inside [lo, hi] *)
Fixpoint legal_targets (lo hi : Z) (cells : list (Z * Z)) : Prop :=
  match cells with
  | [] => lo <= hi
  | c :: r => 0 < fst c /\ lo <= snd c /\ legal_targets (snd c + fst c) hi r
  end.

Lemma legal_targets_le lo hi cells : legal_targets lo hi cells -> lo <= hi.
Proof.
  revert lo. induction cells as [|[w t] r IH]; intros lo; cbn [legal_targets fst snd]; [tauto|].
  intros (Hw & Hl & H). specialize (IH _ H). lia.
Qed.

(* state invariant between insertions: T is the last absolute target (target minus used width);
   every bound and every constraining position is at most T *)
Definition J (s : rl) (T : Z) : Prop :=
  rbegin s <= T /\ Forall (fun b => bpos b <= T) (bounds s) /\ Forall (fun c => c <= T) (cpos s).

Lemma pq_insert_Forall (P : bound -> Prop) b q : P b -> Forall P q -> Forall P (pq_insert b q).
Proof.
  intros Hb. induction q as [|x q IH]; intros Hq; cbn [pq_insert]; [constructor; [exact Hb|constructor]|].
  inversion Hq as [|? ? Hx Hq']; subst.
  destruct (bound_lt x b); [constructor; [exact Hb|exact Hq]|constructor; [exact Hx|apply IH; exact Hq']].
Qed.

Lemma pop_loop_none q ta lim w cur :
  0 < w -> ta <= lim -> Forall (fun b => bpos b <= ta) q ->
  pop_loop q ta lim w [] (- w) cur 0 = (q, [], - w, cur, 0).
Proof.
  intros Hw Hl Hq. destruct q as [|t q']; cbn [pop_loop]; [reflexivity|].
  inversion Hq as [|? ? Ht _]; subst.
  replace (ta <? bpos t) with false by (symmetry; apply Z.ltb_ge; lia).
  replace (lim <? bpos t) with false by (symmetry; apply Z.ltb_ge; lia).
  rewrite andb_false_r. reflexivity.
Qed.

Lemma Forall_weaken (l : list Z) a b : a <= b -> Forall (fun c => c <= a) l -> Forall (fun c => c <= b) l.
Proof. intros H. apply Forall_impl. intros c Hc. lia. Qed.
Lemma Forall_weaken_b (l : list bound) a b : a <= b -> Forall (fun c => bpos c <= a) l -> Forall (fun c => bpos c <= b) l.
Proof. intros H. apply Forall_impl. intros c Hc. lia. Qed.

(* one insertion at a conflict-free target *)
Lemma push_fix s T w t :
  J s T -> 0 < w -> T <= t - used s -> t + w <= rend s ->
  let r := push s w t in
  snd r = 0 /\ cpos (fst r) = (t - used s) :: cpos s /\ widths (fst r) = w :: widths s /\
  used (fst r) = used s + w /\ rbegin (fst r) = rbegin s /\ rend (fst r) = rend s /\ J (fst r) (t - used s).
Proof.
  intros (Hb & Hq & Hc) Hw HT He. cbn zeta. unfold push, get_displacement.
  set (ta := t - used s). set (lim := rend s - used s - w).
  assert (Hl : ta <= lim) by (unfold ta, lim; lia).
  rewrite (pop_loop_none (bounds s) ta lim w (rend s) Hw Hl (Forall_weaken_b _ _ _ HT Hq)).
  replace (0 <=? - w) with false by (symmetry; apply Z.leb_gt; lia).
  replace (0 <? - w) with false by (symmetry; apply Z.ltb_ge; lia).
  assert (F : Z.min lim (Z.max (rbegin s) ta) = ta) by lia. rewrite F.
  cbn [fst snd cpos widths used rbegin rend bounds].
  split; [replace (ta - ta) with 0 by lia; cbn; lia|].
  split; [reflexivity|]. split; [reflexivity|]. split; [reflexivity|]. split; [reflexivity|]. split; [reflexivity|].
  unfold J. cbn [rbegin bounds cpos]. split; [lia|]. split.
  - destruct (rbegin s <? ta).
    + apply pq_insert_Forall; [cbn; lia|]. apply (Forall_weaken_b _ _ _ HT Hq).
    + apply (Forall_weaken_b _ _ _ HT Hq).
  - constructor; [lia|]. apply (Forall_weaken _ _ _ HT Hc).
Qed.

Fixpoint dec_list (l : list Z) : Prop := match l with [] => True | a :: l' => Forall (fun c => c <= a) l' /\ dec_list l' end.
Fixpoint pos_explicit (cp ws : list Z) (u : Z) : list Z :=
  match cp, ws with c :: cp', w :: ws' => (c + (u - w)) :: pos_explicit cp' ws' (u - w) | _, _ => [] end.

(* the positions: with constraining positions non-increasing towards the older cells, the running
   minimum is the cell's own constraining position *)
Lemma placement_aux_fix cp : forall ws u m,
  (match m with Some mv => Forall (fun c => c <= mv) cp | None => True end) ->
  dec_list cp ->
  length cp = length ws ->
  placement_aux cp ws u m =
  pos_explicit cp ws u.
Proof.
  induction cp as [|c cp IH]; intros [|w ws] u m Hm Hd Hl; cbn [placement_aux pos_explicit dec_list length] in *; try reflexivity; try discriminate.
  destruct Hd as [Hd1 Hd2].
  assert (E : match m with None => c | Some m0 => Z.min m0 c end = c).
  { destruct m as [mv|]; [|reflexivity]. inversion Hm; subst. lia. }
  rewrite E. f_equal. apply IH; [exact Hd1|exact Hd2|lia].
Qed.

(* state reached by pushing a legal prefix, described explicitly *)
Record reach (b e : Z) (s : rl) (done_ : list (Z * Z)) : Prop := {
  r_b : rbegin s = b; r_e : rend s = e;
  r_w : widths s = rev (map fst done_);
  r_u : used s = fold_right Z.add 0 (map fst done_);
  r_len : length (cpos s) = length done_;
  r_pl : placement s = map snd done_;
  r_dec : dec_list (cpos s) }.

Lemma sum_app l1 l2 : fold_right Z.add 0 (l1 ++ l2) = fold_right Z.add 0 l1 + fold_right Z.add 0 l2.
Proof. induction l1 as [|a l IH]; cbn; [reflexivity|]. rewrite IH. lia. Qed.

Definition push_all (s : rl) (cells : list (Z * Z)) : rl * list Z :=
  fold_left (fun (acc : rl * list Z) c => let r := push (fst acc) (fst c) (snd c) in (fst r, snd acc ++ [snd r])) cells (s, []).

Lemma pos_explicit_snoc cp ws u c w :
  length cp = length ws ->
  rev (pos_explicit (c :: cp) (w :: ws) (u + w))
  = rev (pos_explicit cp ws u) ++ [c + u].
Proof. intros _. cbn [pos_explicit rev]. replace (u + w - w) with u by lia. reflexivity. Qed.

Lemma push_all_fix cells : forall b e lo s done_ T costs0,
  reach b e s done_ -> J s T ->
  (match cells with [] => True | c :: _ => T <= snd c - used s end) ->
  legal_targets lo e cells ->
  let r := fold_left (fun (acc : rl * list Z) c => let r := push (fst acc) (fst c) (snd c) in (fst r, snd acc ++ [snd r]))
                     cells (s, costs0) in
  reach b e (fst r) (done_ ++ cells) /\ snd r = costs0 ++ map (fun _ => 0) cells.
Proof.
  induction cells as [|[w t] cells IH]; intros b e lo s done_ T costs0 HR HJ HT HL; cbn [fold_left].
  - cbn zeta. cbn [fst snd map]. rewrite !app_nil_r. split; [exact HR|reflexivity].
  - cbn [fst snd] in *. destruct HL as (Hw & _ & HL).
    assert (He : t + w <= e) by (apply legal_targets_le in HL; exact HL).
    destruct HR as [Rb Re Rw Ru Rlen Rpl Rdec].
    assert (He' : t + w <= rend s) by (rewrite Re; exact He).
    destruct (push_fix s T w t HJ Hw HT He') as (C0 & Ccp & Cw & Cu & Cb & Ce & CJ). cbn zeta in *.
    set (s1 := fst (push s w t)) in *.
    assert (HR1 : reach b e s1 (done_ ++ [(w, t)])).
    { constructor.
      - congruence.
      - congruence.
      - rewrite Cw, Rw, map_app, rev_app_distr. reflexivity.
      - rewrite Cu, Ru, map_app, sum_app. cbn. lia.
      - rewrite Ccp, app_length. cbn. lia.
      - unfold placement in *. rewrite Ccp, Cw, Cu.
        destruct HJ as (_ & _ & HJc).
        assert (Hlen : length (cpos s) = length (widths s)) by (rewrite Rw, rev_length, map_length; exact Rlen).
        rewrite (placement_aux_fix ((t - used s) :: cpos s) (w :: widths s) (used s + w) None I).
        + rewrite pos_explicit_snoc by exact Hlen.
          rewrite <- (placement_aux_fix (cpos s) (widths s) (used s) None I Rdec Hlen).
          rewrite Rpl, map_app. cbn. f_equal. f_equal. lia.
        + split; [|exact Rdec]. eapply Forall_impl; [|exact HJc]. cbn. intros c Hc. lia.
        + cbn. lia.
      - rewrite Ccp. destruct HJ as (_ & _ & HJc). split; [|exact Rdec].
        eapply Forall_impl; [|exact HJc]. cbn. intros c Hc. lia. }
    assert (HT1 : match cells with [] => True | c :: _ => t - used s <= snd c - used s1 end).
    { destruct cells as [|[w2 t2] cells']; [exact I|]. cbn [legal_targets fst snd] in HL. rewrite Cu. cbn. lia. }
    specialize (IH b e (t + w) s1 (done_ ++ [(w, t)]) (t - used s) (costs0 ++ [snd (push s w t)]) HR1 CJ HT1 HL).
    cbn zeta in IH. destruct IH as [IH1 IH2]. rewrite <- app_assoc in IH1. cbn [app] in IH1.
    split; [exact IH1|]. rewrite IH2, C0, <- app_assoc. reflexivity.
Qed.

Lemma run_ops_as_push_all cells : forall s cs,
  fold_left (fun '(s, cs) o => let '(s', c) := step s o in (s', c :: cs)) (map (fun c => Push (fst c) (snd c)) cells) (s, cs)
  = (fst (fold_left (fun (acc : rl * list Z) c => let r := push (fst acc) (fst c) (snd c) in (fst r, snd acc ++ [snd r])) cells (s, rev cs)),
     rev (snd (fold_left (fun (acc : rl * list Z) c => let r := push (fst acc) (fst c) (snd c) in (fst r, snd acc ++ [snd r])) cells (s, rev cs)))).
Proof.
  induction cells as [|[w t] cells IH]; intros s cs; cbn [map fold_left fst snd].
  - rewrite rev_involutive. reflexivity.
  - cbn [step]. destruct (push s w t) as [s' c] eqn:E. cbn [fst snd]. rewrite IH. cbn [rev]. reflexivity.
Qed.

Theorem rowleg_fixpoint b e cells :
  legal_targets b e cells ->
  run b e (map (fun c => Push (fst c) (snd c)) cells) = (map snd cells, map (fun _ => 0) cells).
Proof.
  intros HL. unfold run, run_ops. rewrite run_ops_as_push_all. cbn [rev].
  assert (HR : reach b e (rl_init b e) []) by (constructor; reflexivity || exact I).
  assert (HJ : J (rl_init b e) b) by (unfold J, rl_init; cbn; split; [lia|split; constructor]).
  assert (HT : match cells with [] => True | c :: _ => b <= snd c - used (rl_init b e) end).
  { destruct cells as [|[w t] r]; [exact I|]. cbn in *. lia. }
  destruct (push_all_fix cells b e b (rl_init b e) [] b [] HR HJ HT HL) as [[_ _ _ _ _ Rpl _] Hc]. cbn zeta in *.
  cbn [app] in *. rewrite Rpl, Hc. cbn [app]. rewrite rev_involutive. reflexivity.
Qed.

(* ---------- the ordering key of Legalizer::computeCellOrder on a legal row ----------
   key = x + ow * width (+ oy * y + oh * height, equal for two row-high cells of one row);
   ow = p / q with 0 <= p <= q: scaled by q the key is q * x + p * w.  For two cells of a row,
   the left one (x_i + w_i <= x_j) has the strictly smaller key. *)
Theorem order_key_preserved p q xi wi xj wj :
  0 < q -> 0 <= p <= q -> 0 < wi -> 0 < wj -> xi + wi <= xj ->
  q * xi + p * wi < q * xj + p * wj.
Proof. intros Hq Hp Hwi Hwj Hx. nia. Qed.

(* ... and outside [0,1] the order can be inverted (known finding F10): ow = -1/2, a narrow cell
   followed by a wide one; ow = 3/2, a wide cell followed by a narrow one *)
Theorem order_key_inverted_outside :
  (exists xi wi xj wj, 0 < wi /\ 0 < wj /\ xi + wi <= xj /\ 2 * xj + (-1) * wj < 2 * xi + (-1) * wi) /\
  (exists xi wi xj wj, 0 < wi /\ 0 < wj /\ xi + wi <= xj /\ 2 * xj + 3 * wj < 2 * xi + 3 * wi).
Proof. split; [exists 0, 1, 1, 4|exists 0, 4, 4, 1]; lia. Qed.
