(* Model of LegalizerBase::computeCellOrder (src/place_detailed/legalizer.cpp:123-142) and of its
   call in Legalizer::run (legalizer.cpp:290-294): the order in which the legalizer handles its cells.

     for i in 0..nbCells-1:
       val = weightX * cellTargetX_[i] + weightWidth * cellWidth_[i]
           + weightY * cellTargetY_[i] + weightHeight * cellHeight_[i];     (* float *)
       sortedCells.emplace_back(val, i);
     std::stable_sort(sortedCells.begin(), sortedCells.end());              (* std::pair's operator< *)
     return the second components

   The key is modelled over Q (exact rationals, the weights are rational parameters): regime (b) of
   DESIGN.md section 3.  The C++ evaluates the same expression in binary32; the two agree whenever
   every intermediate is representable (see checks/c11_order.py for the exactness condition the tie
   uses).  The legalizer's cells are the movable cells of the circuit in circuit order with their
   PLACED width / height (Legalizer::fromIspdCircuit = Legalizer.leg_cells).

   std::stable_sort under std::pair<float,int>::operator< : the second components are the distinct
   indices 0..n-1, so the relation is a strict TOTAL order on the elements to sort (over Q; with
   floats: as long as no key is NaN), the sorted sequence is unique and any correct sorting
   algorithm returns it.  The insertion sort below is stable as well (an element is put before the
   first element that is not smaller than it, elements being inserted from the last to the first),
   i.e. it is an exact model of std::stable_sort for every strict weak order, not only this one. *)
From Coq Require Import List ZArith QArith Bool.
Import ListNotations.
Require Import CV.Orient CV.FreeSpace CV.RowLeg CV.Circuit CV.Legalizer.

(* a < b on Q, as a boolean (Qlt a b is Qnum a * QDen b < Qnum b * QDen a) *)
Definition Qltb (a b : Q) : bool := (Qnum a * QDen b <? Qnum b * QDen a)%Z.

(* the sort key of one legalizer cell (left-associated sum, as written in the C++) *)
Definition cell_key (wx ww wy wh : Q) (c : cell) : Q :=
  wx * inject_Z (ctx c) + ww * inject_Z (cw c) + wy * inject_Z (cty c) + wh * inject_Z (ch c).

(* std::pair<float,int>::operator<  :  a.first < b.first || (!(b.first < a.first) && a.second < b.second) *)
Definition pair_ltb (a b : Q * nat) : bool :=
  Qltb (fst a) (fst b) || (negb (Qltb (fst b) (fst a)) && (snd a <? snd b)%nat).

(* stable insertion: p goes before the first element that is not smaller than p *)
Fixpoint insert_pair (p : Q * nat) (l : list (Q * nat)) : list (Q * nat) :=
  match l with
  | [] => [p]
  | q :: l' => if pair_ltb q p then q :: insert_pair p l' else p :: l
  end.
Definition sort_pairs (l : list (Q * nat)) : list (Q * nat) := fold_right insert_pair [] l.

(* sortedCells before the sort: (val_i, i) for i = 0..nbCells-1 *)
Definition keyed (wx ww wy wh : Q) (cells : list cell) : list (Q * nat) :=
  combine (map (cell_key wx ww wy wh) cells) (seq 0 (length cells)).

(* LegalizerBase::computeCellOrder *)
Definition compute_cell_order (wx ww wy wh : Q) (cells : list cell) : list nat :=
  map snd (sort_pairs (keyed wx ww wy wh cells)).

(* LegalizationParameters: orderingWidth, orderingY, orderingHeight *)
Record order_params := { op_w : Q; op_y : Q; op_h : Q }.

(* the order Legalizer::run computes: computeCellOrder(1.0, orderingWidth, orderingY, orderingHeight)
   on the legalizer built by Legalizer::fromIspdCircuit *)
Definition cell_order (p : order_params) (c : circuit) : list nat :=
  compute_cell_order 1 (op_w p) (op_y p) (op_h p) (leg_cells c).

(* DetailedPlacer::legalize with nothing left open: the CLOSED model of Circuit::legalize *)
Definition legalize_real (p : order_params) (c : circuit) : leg_result :=
  legalize_circuit c (cell_order p c).
