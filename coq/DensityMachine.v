(* C07: the C++-typed intermediate values of the integer side of the density grid
   (src/place_global/density_grid.cpp, Rectangle in src/coloquinte.hpp) and of the area sums of
   src/coloquinte.cpp (Circuit::area, computeRowPlacementArea, expandCellsToDensity/ByFactor), over the ideal models
   Density.v / Expand.v.  `int` = I32, `long long` = I64.  Line numbers: /repo main (da3fc07).
   The types are transcribed BY HAND from the C++ text (modelled, not verified).  Definitions only.
   Float computations (bin centres *0.5f, margins, expansion factors) are outside: where a float is converted to an
   integer the RESULT of the conversion is an input of the listing (margin, binSize) with a stated range. *)
From Coq Require Import List ZArith Lia Bool.
Import ListNotations.
Require Import CV.FreeSpace CV.Density CV.RowLegMachine CV.Transp1dMachine.
Local Open Scope Z_scope.

(* Rectangle::width(), height() (int), area() = (long long)width() * (long long)height()   coloquinte.hpp:35-37 *)
Definition area_vals (r : rect) : list (cty * Z) :=
  [(I32, maxX r - minX r); (I32, maxY r - minY r); (I64, maxX r - minX r); (I64, maxY r - minY r);
   (I64, (maxX r - minX r) * (maxY r - minY r))].

(* DensityGrid::fromIspdCircuit density_grid.cpp:37-44; margin = (int)(sideMargin * minCellHeight) is an input *)
Definition clip_vals (margin : Z) (rows : list rect) : list (cty * Z) :=
  flat_map (fun r => [(I32, maxX r - minX r); (I32, 2 * margin)]                    (* 38 row.width() <= 2 * margin *)
                     ++ (if rwidth r <=? 2 * margin then []
                         else [(I32, minX r + margin); (I32, maxX r - margin)]))     (* 41 *)
           rows.

(* updateBinsToSize density_grid.cpp:113-117: std::max(1, placementArea_.width() / maxSize) *)
Definition nb_bins_vals (a : rect) (maxSize : Z) : list (cty * Z) :=
  [(I32, maxX a - minX a); (I32, Z.quot (maxX a - minX a) maxSize);
   (I32, maxY a - minY a); (I32, Z.quot (maxY a - minY a) maxSize)].

(* updateBinCenters density_grid.cpp:56-67: 0.5f * (binLimitX_[i] + binLimitX_[i + 1]) -- the sum is an int *)
Definition centers_vals (lims : list Z) : list (cty * Z) :=
  (I32, zi (length lims) - 1)                                                         (* 59 size() - 1 -> int *)
  :: map (fun pq => (I32, fst pq + snd pq)) (pairs lims)                              (* 61 *)
  ++ map (fun i => (I32, zi i + 1)) (seq 0 (length lims)).                            (* i + 1, ++i *)

(* updateBinCapacity() density_grid.cpp:69-82 *)
Definition cap0_vals (lx ly : list Z) : list (cty * Z) :=
  flat_map (fun px => flat_map (fun py =>
     [(I32, snd px - fst px); (I64, snd px - fst px);                                 (* 75 long long w = int - int *)
      (I32, snd py - fst py); (I64, snd py - fst py);                                 (* 76 *)
      (I64, (snd px - fst px) * (snd py - fst py))])                                  (* 79 w * h *)
     (pairs ly)) (pairs lx).

(* updateBinCapacity(regions) density_grid.cpp:84-102, one bin: the running value of binCapacity_[i][j] *)
Fixpoint bin_acc_vals (b : rect) (regs : list rect) (acc : Z) : list (cty * Z) :=
  match regs with
  | [] => []
  | reg :: r =>
    (if rintersects reg b
     then area_vals (rintersection reg b) ++ [(I64, acc + rarea (rintersection reg b))]   (* 97 += ...area() *)
     else [])
    ++ bin_acc_vals b r (acc + contrib reg b)
  end.
Definition capacity_vals (lx ly : list Z) (regs : list rect) : list (cty * Z) :=
  flat_map (fun px => flat_map (fun py => bin_acc_vals (bin_region px py) regs 0) (pairs ly)) (pairs lx).

(* sums of long long (or int promoted to long long) entries into a long long accumulator:
   totalCapacity 136-144 (entries: concat binCapacity_), binCapacity(BinGroup) 146-154, totalDemand 246-252
   (entries: cellDemand_), binUsage (entries: cellDemand of the bin's cells) *)
Definition sum_vals (l : list Z) : list (cty * Z) := acc_vals 0 l.

(* totalOverflow density_grid.cpp:256-264: ret += std::max(binUsage - binCapacity, 0LL) over the (usage, capacity) pairs *)
Definition overflow_vals (uc : list (Z * Z)) : list (cty * Z) :=
  map (fun p => (I64, fst p - snd p)) uc ++ acc_vals 0 (map (fun p => Z.max (fst p - snd p) 0) uc).

(* HierarchicalDensityPlacement::fromIspdCircuit 208-216 / updateCellDemand 221-229:
   demands.push_back(circuit.area(i)) into std::vector<int>:  area (long long product) narrowed to int *)
Definition demand_vals (wh : list (Z * Z)) : list (cty * Z) :=
  flat_map (fun p => [(I64, fst p); (I64, snd p); (I64, fst p * snd p); (I32, fst p * snd p)]) wh.

(* ---------------------------------------------------------------- coloquinte.cpp *)
(* Circuit::area(i) hpp:919-923 and `cellArea += area(i)` over the non-fixed cells, coloquinte.cpp:672-677, 744-751 *)
Definition cell_area_vals (wh : list (Z * Z)) : list (cty * Z) :=
  flat_map (fun p => [(I64, fst p); (I64, snd p); (I64, fst p * snd p)]) wh
  ++ acc_vals 0 (map (fun p => fst p * snd p) wh).

(* computeRowPlacementArea coloquinte.cpp:654-667 with the margin already removed:
   h = r.height(), w = r.width() (int -> long long); wm = the value of w after `w -= 2 * rowSideMargin * h`
   (a double -> long long conversion: input, 0 <= w - wm is NOT assumed, only wm <= w);  rowArea += w * h when w > 0 *)
Definition row_area_vals (rows : list (rect * Z)) : list (cty * Z) :=
  flat_map (fun rw => [(I32, maxY (fst rw) - minY (fst rw)); (I32, maxX (fst rw) - minX (fst rw));
                       (I64, snd rw * (maxY (fst rw) - minY (fst rw)))]) rows
  ++ acc_vals 0 (map (fun rw => if 0 <? snd rw then snd rw * (maxY (fst rw) - minY (fst rw)) else 0) rows).

(* ---------------------------------------------------------------- domains *)
Definition COORD : Z := 4194304.                 (* 2^22 *)
Definition SUMB : Z := 4611686018427387904.      (* 2^62 *)
Definition rbox (r : rect) : Prop :=
  - COORD <= minX r /\ minX r <= maxX r /\ maxX r <= COORD /\ - COORD <= minY r /\ minY r <= maxY r /\ maxY r <= COORD.
Definition inbox (x : Z) : Prop := - COORD <= x <= COORD.

(* ---------------------------------------------------------------- the constructor DensityGrid(binSize, regions)
   density_grid.cpp:18-23: computePlacementArea (min/max only), updateBinsToSize -> updateBinsToNumber
   (computeSubdivisions twice, updateBinCenters, updateBinCapacity()), updateBinCapacity(regions) *)
Require Import CV.SubdivMachine.
Definition grid_vals (binSize : Z) (regions : list rect) : list (cty * Z) :=
  let a := placement_area regions in
  let nx := nb_bins (rwidth a) binSize in
  let ny := nb_bins (rheight a) binSize in
  let lx := subdivisions (minX a) (maxX a) nx in
  let ly := subdivisions (minY a) (maxY a) ny in
  nb_bins_vals a binSize
  ++ subdiv_vals (minX a) (maxX a) nx ++ subdiv_vals (minY a) (maxY a) ny
  ++ centers_vals lx ++ centers_vals ly
  ++ cap0_vals lx ly
  ++ capacity_vals lx ly regions.
