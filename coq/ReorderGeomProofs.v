(* C05 / C02 -- the write-back of the reordering pass cannot be refused: geometry of the row lists.
   Part 1: list facts (sites, decompositions), unplacing every window cell = filtering the rows. *)
From Coq Require Import List ZArith Lia Bool Permutation.
Import ListNotations.
Require Import CV.Orient CV.Hpwl CV.Moves CV.MovesProofs CV.MovesOrientProofs CV.Optimiser CV.ShiftLp.
Require Import CV.DetailedValue CV.DetailedValueProofs CV.DetailedValueStepProofs CV.Reorder.
Local Open Scope Z_scope.

(* ---------- sites ---------- *)
Lemma pred_of_last a m : pred_of (a ++ [m]) = Some (p_id m).
Proof. unfold pred_of. rewrite rev_app_distr. reflexivity. Qed.

Lemma pred_of_none a : pred_of a = None -> a = [].
Proof.
  destruct a as [|x t] using rev_ind; [reflexivity|]. rewrite pred_of_last. discriminate.
Qed.

Lemma site_begin_last a : forall lo m, site_begin lo (a ++ [m]) = p_x m + p_w m.
Proof. induction a as [|c t IH]; intros lo m; cbn [app site_begin]; [reflexivity|apply IH]. Qed.

Lemma site_begin_app a b : forall lo, site_begin lo (a ++ b) = site_begin (site_begin lo a) b.
Proof. induction a as [|c t IH]; intros lo; cbn [app site_begin]; [reflexivity|apply IH]. Qed.

Lemma split_at_unique id a m b : ~ In id (map p_id a) -> p_id m = id -> split_at id (a ++ m :: b) = Some (a, m, b).
Proof.
  induction a as [|c t IH]; intros Hn Hm; cbn [app split_at].
  - rewrite <- Hm, Nat.eqb_refl. reflexivity.
  - destruct (Nat.eqb_spec (p_id c) id) as [E|_]; [exfalso; apply Hn; left; exact E|].
    rewrite IH; [reflexivity| |exact Hm]. intros H. apply Hn. right. exact H.
Qed.

Lemma split_site_decomp a b : NoDup (map p_id (a ++ b)) -> split_site (pred_of a) (a ++ b) = Some (a, b).
Proof.
  destruct a as [|m a0] using rev_ind; intros ND; [reflexivity|]. clear IHa0.
  rewrite pred_of_last. cbn [split_site]. rewrite <- app_assoc. cbn [app].
  rewrite split_at_unique; [reflexivity| |reflexivity].
  rewrite <- app_assoc, map_app in ND. cbn [app map] in ND. apply NoDup_remove_2 in ND.
  intros H. apply ND. apply in_or_app. left. exact H.
Qed.

Lemma decomp_unique a1 t1 a2 t2 : NoDup (map p_id (a1 ++ t1)) -> a1 ++ t1 = a2 ++ t2 -> pred_of a1 = pred_of a2 ->
  a1 = a2 /\ t1 = t2.
Proof.
  intros ND E P. pose proof (split_site_decomp a1 t1 ND) as S1.
  rewrite E in ND. pose proof (split_site_decomp a2 t2 ND) as S2. rewrite <- E, <- P, S1 in S2.
  injection S2 as <- <-. split; reflexivity.
Qed.

(* ---------- unique ids across rows ---------- *)
Lemma rows_ids_disjoint rows : NoDup (map p_id (flat_map dr_cells rows)) ->
  forall i k ri rk p q, nth_error rows i = Some ri -> nth_error rows k = Some rk -> i <> k ->
    In p (dr_cells ri) -> In q (dr_cells rk) -> p_id p <> p_id q.
Proof.
  induction rows as [|r0 t IH]; intros ND i k ri rk p q Hi Hk Hne Hp Hq; [destruct i; discriminate|].
  cbn [flat_map] in ND. rewrite map_app in ND. apply NoDup_app_elim in ND as (_ & ND2 & D).
  destruct i as [|i], k as [|k]; cbn [nth_error] in Hi, Hk; [congruence| | |].
  - injection Hi as <-. intros E. apply (D (p_id p)); [apply in_map; exact Hp|].
    rewrite E. apply in_map. apply in_flat_map. exists rk. split; [exact (nth_error_In _ _ Hk)|exact Hq].
  - injection Hk as <-. intros E. apply (D (p_id q)); [apply in_map; exact Hq|].
    rewrite <- E. apply in_map. apply in_flat_map. exists ri. split; [exact (nth_error_In _ _ Hi)|exact Hp].
  - apply (IH ND2 i k ri rk); try assumption. congruence.
Qed.

Lemma row_ids_nodup rows i r : NoDup (map p_id (flat_map dr_cells rows)) -> nth_error rows i = Some r ->
  NoDup (map p_id (dr_cells r)).
Proof.
  revert i. induction rows as [|r0 t IH]; intros i ND Hi; [destruct i; discriminate|].
  cbn [flat_map] in ND. rewrite map_app in ND. apply NoDup_app_elim in ND as (ND1 & ND2 & _).
  destruct i as [|i]; cbn [nth_error] in Hi; [injection Hi as <-; exact ND1|exact (IH i ND2 Hi)].
Qed.

Lemma placed_nodup d : NoDup (map p_id (cells_of d)) -> NoDup (map p_id (flat_map dr_cells (d_rows d))).
Proof. unfold cells_of. rewrite map_app. intros H. apply NoDup_app_elim in H. tauto. Qed.

(* ---------- unplacing = filtering ---------- *)
Definition keep (cs : list nat) (c : pcell) : bool := negb (mem (p_id c) cs).
Definition strip (cs : list nat) (l : list pcell) : list pcell := filter (keep cs) l.
Definition strip_row (cs : list nat) (r : drow) : drow := set_cells r (strip cs (dr_cells r)).

Lemma set_cells_same r : set_cells r (dr_cells r) = r.
Proof. destruct r as [lo hi y o l]; reflexivity. Qed.

Lemma strip_none cs l : (forall p, In p l -> ~ In (p_id p) cs) -> strip cs l = l.
Proof.
  induction l as [|c t IH]; intros H; cbn [strip filter]; [reflexivity|]. unfold keep at 1.
  destruct (mem (p_id c) cs) eqn:M; cbn [negb].
  - exfalso. apply (H c); [left; reflexivity|]. apply mem_in. exact M.
  - f_equal. apply IH. intros p Hp. apply H. right. exact Hp.
Qed.

Lemma strip_app cs a b : strip cs (a ++ b) = strip cs a ++ strip cs b.
Proof. apply filter_app. Qed.

Lemma upd_row_map (f : drow -> drow) rows : forall i r x, nth_error rows i = Some r -> f r = x ->
  (forall k r', k <> i -> nth_error rows k = Some r' -> f r' = r') -> upd_row rows i x = map f rows.
Proof.
  induction rows as [|r0 t IH]; intros i r x Hi Hx Ho; [destruct i; discriminate|].
  destruct i as [|i]; cbn [nth_error upd_row map] in *.
  - injection Hi as <-. rewrite Hx. f_equal. clear IH Hx.
    assert (H : forall k r', nth_error t k = Some r' -> f r' = r') by (intros k r' Hk; apply (Ho (S k)); [discriminate|exact Hk]).
    clear Ho. induction t as [|r1 t IHt]; [reflexivity|]. cbn [map]. rewrite (H O r1 eq_refl). f_equal.
    apply IHt. intros k r' Hk. exact (H (S k) r' Hk).
  - rewrite (Ho O r0); [|discriminate|reflexivity]. f_equal. apply (IH i r x Hi Hx).
    intros k r' Hk Hn. apply (Ho (S k)); [congruence|exact Hn].
Qed.

Lemma mem_cons x c cs : mem x (c :: cs) = Nat.eqb c x || mem x cs.
Proof. reflexivity. Qed.

Lemma strip_strip c cs l : strip cs (strip [c] l) = strip (c :: cs) l.
Proof.
  unfold strip. induction l as [|p t IH]; [reflexivity|]. cbn [filter].
  assert (K1 : keep [c] p = negb (Nat.eqb c (p_id p))) by (unfold keep; cbn [mem existsb]; rewrite orb_false_r; reflexivity).
  assert (K2 : keep (c :: cs) p = negb (Nat.eqb c (p_id p)) && keep cs p) by (unfold keep; rewrite mem_cons, negb_orb; reflexivity).
  rewrite K1, K2. destruct (Nat.eqb c (p_id p)); cbn [negb andb]; [exact IH|].
  cbn [filter]. destruct (keep cs p); [f_equal; exact IH|exact IH].
Qed.

Lemma unplace_strips d c d' : NoDup (map p_id (cells_of d)) -> unplace d c = Some d' ->
  d_rows d' = map (strip_row [c]) (d_rows d) /\
  exists m, cell_of d c = Some m /\ p_id m = c /\ d_loose d' = m :: d_loose d.
Proof.
  intros ND U. apply unplace_spec in U as (i & r & a & m & b & F & Hn & Hc & Hid & Hr & Hl).
  pose proof (placed_nodup d ND) as NDp.
  split; [|exists m; unfold cell_of; rewrite F; tauto].
  rewrite Hr. apply (upd_row_map (strip_row [c]) (d_rows d) i r _ Hn).
  - unfold strip_row. f_equal. rewrite Hc. pose proof (row_ids_nodup _ i r NDp Hn) as NDr. rewrite Hc, map_app in NDr. cbn [map] in NDr.
    apply NoDup_remove_2 in NDr. rewrite <- map_app in NDr.
    assert (Hm : forall p, In p (a ++ b) -> ~ In (p_id p) [c]).
    { intros p Hp [E|[]]. apply NDr. rewrite Hid, E. apply in_map. exact Hp. }
    rewrite strip_app. change (m :: b) with ([m] ++ b). rewrite strip_app.
    assert (E1 : strip [c] [m] = []).
    { cbn [strip filter]. unfold keep. cbn [mem existsb]. rewrite Hid, Nat.eqb_refl. reflexivity. }
    rewrite E1. cbn [app]. rewrite <- strip_app. apply strip_none. exact Hm.
  - intros k r' Hk Hn'. unfold strip_row. rewrite strip_none; [apply set_cells_same|].
    intros p Hp [E|[]]. apply (rows_ids_disjoint _ NDp i k r r' m p Hn Hn'); [congruence| |exact Hp|congruence].
    rewrite Hc. apply in_or_app. right. left. reflexivity.
Qed.

Lemma strip_row_strip c cs r : strip_row cs (strip_row [c] r) = strip_row (c :: cs) r.
Proof. destruct r as [lo hi y o l]. unfold strip_row, set_cells. cbv [dr_min dr_max dr_y dr_o dr_cells]. rewrite strip_strip. reflexivity. Qed.

Lemma held_pos d c : held d c = true -> pos_in d c <> None.
Proof. unfold held. destruct (pos_in d c); [discriminate|discriminate]. Qed.

Lemma held_unplace d c : held d c = true -> exists d', unplace d c = Some d'.
Proof.
  unfold held, pos_in, unplace. destruct (find_row (d_rows d) c 0) as [[[[[i r] a] m] b]|]; [|discriminate].
  intros _. eexists. reflexivity.
Qed.

Lemma nodup_id_inj (l : list pcell) x y : NoDup (map p_id l) -> In x l -> In y l -> p_id x = p_id y -> x = y.
Proof.
  induction l as [|c t IH]; intros ND Hx Hy E; [destruct Hx|]. cbn [map] in ND. inversion ND as [|? ? Hn ND']; subst.
  destruct Hx as [<-|Hx], Hy as [<-|Hy]; [reflexivity| | |exact (IH ND' Hx Hy E)].
  - exfalso. apply Hn. rewrite E. apply in_map. exact Hy.
  - exfalso. apply Hn. rewrite <- E. apply in_map. exact Hx.
Qed.

Definition in_rows (d : dstate) (m : pcell) : Prop := exists r, In r (d_rows d) /\ In m (dr_cells r).

Lemma cell_of_in d m : NoDup (map p_id (cells_of d)) -> in_rows d m -> cell_of d (p_id m) = Some m.
Proof.
  intros ND (r & Hr & Hm). pose proof (entry_pos d r m ND Hr Hm) as P. unfold pos_in in P. unfold cell_of.
  destruct (find_row (d_rows d) (p_id m) 0) as [[[[[i r'] a] m'] b]|] eqn:F; [|discriminate].
  apply find_row_spec in F as (k & _ & Hn & Hc & Hid). f_equal.
  apply (nodup_id_inj (flat_map dr_cells (d_rows d))); [exact (placed_nodup d ND)| | |exact Hid].
  - apply in_flat_map. exists r'. split; [exact (nth_error_In _ _ Hn)|rewrite Hc; apply in_or_app; right; left; reflexivity].
  - apply in_flat_map. exists r. split; assumption.
Qed.

(* unplacing every cell of a window of distinct placed cells *)
Lemma unplace_all cs : forall d, NoDup (map p_id (cells_of d)) -> NoDup cs -> (forall c, In c cs -> held d c = true) ->
  exists d1, apply_all d (map MUnplace cs) = Some d1 /\
    d_rows d1 = map (strip_row cs) (d_rows d) /\
    NoDup (map p_id (cells_of d1)) /\
    length (d_loose d1) = (length cs + length (d_loose d))%nat /\
    (forall c, In c cs -> exists m, p_id m = c /\ In m (d_loose d1)) /\
    (forall m, In m (d_loose d1) -> In m (d_loose d) \/ (In (p_id m) cs /\ in_rows d m)).
Proof.
  induction cs as [|c cs IH]; intros d ND NDc Hh; cbn [map apply_all apply_mop].
  - exists d. split; [reflexivity|]. split.
    { rewrite <- (map_id (d_rows d)) at 1. apply map_ext. intros r. unfold strip_row.
      rewrite strip_none; [symmetry; apply set_cells_same|intros p _ []]. }
    split; [exact ND|]. split; [reflexivity|]. split; [intros c []|intros m Hm; left; exact Hm].
  - destruct (held_unplace d c (Hh c (or_introl eq_refl))) as [d' U]. rewrite U.
    destruct (unplace_strips d c d' ND U) as (Hr & m & Cm & Hid & Hl).
    assert (ND' : NoDup (map p_id (cells_of d'))) by (apply (apply_mop_nodup d (MUnplace c)); [exact U|exact ND]).
    inversion NDc as [|? ? Hnc NDcs]; subst.
    assert (Hh' : forall c0, In c0 cs -> held d' c0 = true).
    { intros c0 Hc0. unfold held. destruct (unplace_pos d (p_id m) d' U) as [Hp _]. rewrite Hp; [apply (Hh c0); right; exact Hc0|].
      intros ->. exact (Hnc Hc0). }
    assert (Hm : in_rows d m).
    { unfold cell_of in Cm. destruct (find_row (d_rows d) (p_id m) 0) as [[[[[i r] a] m'] b]|] eqn:F; [|discriminate].
      injection Cm as ->. apply find_row_spec in F as (k & _ & Hn & Hc & _). exists r. split; [exact (nth_error_In _ _ Hn)|].
      rewrite Hc. apply in_or_app. right. left. reflexivity. }
    destruct (IH d' ND' NDcs Hh') as (d1 & A & R1 & ND1 & L1 & C1 & M1). exists d1.
    split; [exact A|]. split.
    { rewrite R1, Hr, map_map. apply map_ext. intros r. apply strip_row_strip. }
    split; [exact ND1|]. split; [rewrite L1, Hl; cbn [length]; lia|]. split.
    + intros c0 [<-|Hc0]; [|exact (C1 c0 Hc0)]. exists m. split; [reflexivity|].
      clear - A Hl. assert (G : forall ops d2 d3, apply_all d2 (map MUnplace ops) = Some d3 -> forall x, In x (d_loose d2) -> In x (d_loose d3)).
      { induction ops as [|o ops IHo]; intros d2 d3; cbn [map apply_all apply_mop]; [intros [= <-] x Hx; exact Hx|].
        destruct (unplace d2 o) as [d4|] eqn:U4; [|discriminate]. intros A4 x Hx. apply (IHo d4 d3 A4).
        apply unplace_spec in U4 as (? & ? & ? & ? & ? & _ & _ & _ & _ & _ & L4). rewrite L4. right. exact Hx. }
      apply (G cs d' d1 A). rewrite Hl. left. reflexivity.
    + intros m0 Hm0. destruct (M1 m0 Hm0) as [H|[H1 H2]].
      * rewrite Hl in H. destruct H as [<-|H]; [right; split; [left; reflexivity|exact Hm]|left; exact H].
      * right. split; [right; exact H1|]. destruct H2 as (r & Hr0 & Hin). rewrite Hr in Hr0. apply in_map_iff in Hr0 as (r0 & <- & Hr0).
        exists r0. split; [exact Hr0|]. destruct r0 as [lo hi y o l]. unfold strip_row, set_cells in Hin. cbv [dr_min dr_max dr_y dr_o dr_cells] in Hin |- *.
        apply filter_In in Hin. tauto.
Qed.

(* ------------------------------------------------------------------ *)
(* Part 2: slots.  The slot of a region in a row list: the cells before it (ending with the predecessor of the region),
   the cells after it, and the room between them *)
Definition slot (l : list pcell) (pred : option nat) (lo hi xmin xmax : Z) : Prop :=
  exists a b, l = a ++ b /\ pred_of a = pred /\ site_begin lo a <= xmin /\ xmax <= site_end hi b.

Lemma pred_of_app_nonnil a b : b <> [] -> pred_of (a ++ b) = pred_of b.
Proof.
  intros H. destruct b as [|x t] using rev_ind; [congruence|]. rewrite app_assoc, !pred_of_last. reflexivity.
Qed.

Lemma site_begin_app_nonnil a b lo : b <> [] -> site_begin lo (a ++ b) = site_begin 0 b.
Proof.
  intros H. destruct b as [|x t] using rev_ind; [congruence|]. rewrite app_assoc, !site_begin_last. reflexivity.
Qed.

Lemma site_end_app_nonnil a b hi : a <> [] -> site_end hi (a ++ b) = site_end 0 a.
Proof. destruct a as [|x t]; [congruence|]. reflexivity. Qed.

(* a cell inserted after another predecessor leaves the slot as it is *)
Lemma slot_insert a2 b2 c' pred lo hi xmin xmax :
  pred_of a2 <> pred -> slot (a2 ++ b2) pred lo hi xmin xmax -> slot (a2 ++ c' :: b2) pred lo hi xmin xmax.
Proof.
  intros Hq (a & b & E & P & L & U). apply app_eq_app in E as [mid [[E1 E2]|[E1 E2]]].
  - (* a2 = a ++ mid, b = mid ++ b2 *)
    destruct mid as [|x mid]; [rewrite app_nil_r in E1; subst a2; congruence|].
    exists a, ((x :: mid) ++ c' :: b2). split; [rewrite E1, <- app_assoc; reflexivity|]. split; [exact P|]. split; [exact L|].
    rewrite E2 in U. rewrite site_end_app_nonnil in U by discriminate. rewrite site_end_app_nonnil by discriminate. exact U.
  - (* a = a2 ++ mid, b2 = mid ++ b *)
    destruct mid as [|x mid]; [rewrite app_nil_r in E1; subst a; congruence|].
    exists (a2 ++ c' :: x :: mid), b. split; [rewrite E2, <- app_assoc; reflexivity|].
    change (a2 ++ c' :: x :: mid) with (a2 ++ [c'] ++ (x :: mid)). rewrite app_assoc.
    split; [rewrite pred_of_app_nonnil by discriminate; rewrite <- P, E1; symmetry; apply pred_of_app_nonnil; discriminate|].
    split; [|exact U]. rewrite site_begin_app_nonnil by discriminate. rewrite E1, site_begin_app_nonnil in L by discriminate. exact L.
Qed.

Lemma nth_error_upd_row_same rows : forall i r x, nth_error rows i = Some r -> nth_error (upd_row rows i x) i = Some x.
Proof. induction rows as [|r0 t IH]; intros [|i] r x; cbn [nth_error upd_row]; try discriminate; [reflexivity|apply IH]. Qed.

Lemma nth_error_upd_row_other rows : forall i k x, i <> k -> nth_error (upd_row rows i x) k = nth_error rows k.
Proof.
  induction rows as [|r0 t IH]; intros [|i] [|k] x Hne; cbn [nth_error upd_row]; try reflexivity; [congruence|].
  apply IH. congruence.
Qed.

Lemma take_loose_in id l : (exists m, In m l /\ p_id m = id) ->
  exists m' l', take_loose id l = Some (m', l') /\ In m' l /\ p_id m' = id /\ length l = S (length l') /\
    (forall y, In y l' -> In y l) /\ (forall y, In y l -> p_id y <> id -> In y l').
Proof.
  induction l as [|x t IH]; intros (m & Hm & Hid); [destruct Hm|]. cbn [take_loose].
  destruct (Nat.eqb_spec (p_id x) id) as [E|Hne].
  - exists x, t. split; [reflexivity|]. split; [left; reflexivity|]. split; [exact E|]. split; [reflexivity|].
    split; [intros y Hy; right; exact Hy|]. intros y [<-|Hy] Hn; [congruence|exact Hy].
  - destruct Hm as [<-|Hm]; [congruence|]. destruct (IH (ex_intro _ m (conj Hm Hid))) as (m' & l' & T & I1 & I2 & I3 & I4 & I5).
    rewrite T. exists m', (x :: l'). split; [reflexivity|]. split; [right; exact I1|]. split; [exact I2|].
    split; [cbn [length]; rewrite I3; reflexivity|]. split.
    + intros y [<-|Hy]; [left; reflexivity|right; apply I4; exact Hy].
    + intros y [<-|Hy] Hn; [left; reflexivity|right; apply I5; assumption].
Qed.

(* one place() into a slot whose room suffices *)
Lemma place_in_slot d c rowi r a b x m :
  nth_error (d_rows d) rowi = Some r -> dr_cells r = a ++ b -> NoDup (map p_id (cells_of d)) ->
  In m (d_loose d) -> p_id m = c ->
  site_begin (dr_min r) a <= x -> x + p_w m <= site_end (dr_max r) b ->
  exists d' c', place d c rowi (pred_of a) x = Some d' /\ p_id c' = c /\ p_x c' = x /\ p_w c' = p_w m /\
    d_rows d' = upd_row (d_rows d) rowi (set_cells r (a ++ c' :: b)) /\
    length (d_loose d) = S (length (d_loose d')) /\
    (forall y, In y (d_loose d') -> In y (d_loose d)) /\ (forall y, In y (d_loose d) -> p_id y <> c -> In y (d_loose d')).
Proof.
  intros Hn Hc ND Hm Hid L U.
  destruct (take_loose_in c (d_loose d) (ex_intro _ m (conj Hm Hid))) as (m' & l' & T & I1 & I2 & I3 & I4 & I5).
  assert (m' = m).
  { unfold cells_of in ND. rewrite map_app in ND. apply NoDup_app_elim in ND as (_ & NDl & _).
    apply (nodup_id_inj (d_loose d)); [exact NDl|exact I1|exact Hm|congruence]. }
  subst m'. unfold place. rewrite T, Hn, Hc.
  assert (NDr : NoDup (map p_id (a ++ b))) by (rewrite <- Hc; exact (row_ids_nodup _ rowi r (placed_nodup d ND) Hn)).
  rewrite (split_site_decomp a b NDr).
  assert (G : (site_begin (dr_min r) a <=? x) && (x + p_w m <=? site_end (dr_max r) b) = true).
  { apply andb_true_iff. split; apply Z.leb_le; assumption. }
  rewrite G.
  set (o := cell_orientation_in_row (p_pol m) (dr_o r)).
  set (c' := {| p_id := p_id m; p_x := x; p_w := p_w m; p_pol := p_pol m; p_o := if orient_eqb o oUNKNOWN then p_o m else o |}).
  eexists. exists c'. split; [reflexivity|]. cbn [p_id p_x p_w d_rows d_loose].
  split; [exact Hid|]. split; [reflexivity|]. split; [reflexivity|]. split; [reflexivity|]. split; [exact I3|]. split; [exact I4|exact I5].
Qed.

(* ------------------------------------------------------------------ *)
(* Part 3: filling the regions.  A region is READY in a state when its row has a slot after its predecessor that
   contains [rg_min, rg_max] *)
Definition Ready (d : dstate) (g : region) : Prop :=
  exists r, nth_error (d_rows d) (rg_row g) = Some r /\
            slot (dr_cells r) (rg_pred g) (dr_min r) (dr_max r) (rg_min g) (rg_max g).
Definition loose_ok (w : nat -> Z) (d : dstate) : Prop := forall m, In m (d_loose d) -> p_w m = w (p_id m) /\ 0 <= p_w m.

Lemma alloc_nonneg w l : (forall c, In c l -> 0 <= w c) -> 0 <= alloc_width w l.
Proof.
  induction l as [|c t IH]; intros H; cbn [alloc_width fold_right]; [lia|].
  assert (0 <= w c) by (apply H; left; reflexivity).
  assert (0 <= alloc_width w t) by (apply IH; intros c0 Hc0; apply H; right; exact Hc0). unfold alloc_width in *. lia.
Qed.

Lemma fill_region w others : forall p d rowi r a b x xmax,
  nth_error (d_rows d) rowi = Some r -> dr_cells r = a ++ b -> NoDup (map p_id (cells_of d)) ->
  site_begin (dr_min r) a <= x -> x + alloc_width w p <= xmax -> xmax <= site_end (dr_max r) b ->
  NoDup p -> (forall c, In c p -> exists m, In m (d_loose d) /\ p_id m = c) -> loose_ok w d ->
  (forall g, In g others -> rg_row g = rowi -> rg_pred g <> pred_of a /\ forall c, In c p -> rg_pred g <> Some c) ->
  (forall g, In g others -> Ready d g) ->
  exists d', apply_all d (map pl_mop (chain_places rowi (pred_of a) (pack w x p))) = Some d' /\
    NoDup (map p_id (cells_of d')) /\ (length (d_loose d) = length p + length (d_loose d'))%nat /\
    (forall y, In y (d_loose d') -> In y (d_loose d)) /\
    (forall y, In y (d_loose d) -> ~ In (p_id y) p -> In y (d_loose d')) /\
    (forall g, In g others -> Ready d' g).
Proof.
  induction p as [|c t IH]; intros d rowi r a b x xmax Hn Hc ND L W U NDp Hl LO Ho HR.
  - exists d. cbn [pack chain_places map apply_all length Nat.add]. repeat split; auto.
  - cbn [pack chain_places map pl_mop apply_all apply_mop].
    destruct (Hl c (or_introl eq_refl)) as (m & Hm & Hid). destruct (LO m Hm) as [Wm Pm]. rewrite Hid in Wm.
    inversion NDp as [|? ? Hnc NDt]; subst.
    assert (Wt : 0 <= alloc_width w t).
    { apply alloc_nonneg. intros c0 Hc0. destruct (Hl c0 (or_intror Hc0)) as (m0 & Hm0 & Hid0). destruct (LO m0 Hm0) as [A B]. rewrite Hid0 in A. lia. }
    assert (Wc : alloc_width w (p_id m :: t) = w (p_id m) + alloc_width w t) by reflexivity.
    assert (U1 : x + p_w m <= site_end (dr_max r) b) by lia.
    destruct (place_in_slot d (p_id m) rowi r a b x m Hn Hc ND Hm eq_refl L U1) as (d1 & c' & P & Ic & Xc & Wc' & Hr1 & I3 & I4 & I5).
    rewrite P.
    assert (ND1 : NoDup (map p_id (cells_of d1))) by (apply (apply_mop_nodup d (MPlace (p_id m) rowi (pred_of a) x)); [exact P|exact ND]).
    set (r' := set_cells r (a ++ c' :: b)).
    assert (Hn1 : nth_error (d_rows d1) rowi = Some r') by (rewrite Hr1; apply (nth_error_upd_row_same _ _ r); exact Hn).
    assert (Hc1 : dr_cells r' = (a ++ [c']) ++ b) by (unfold r'; cbn [set_cells dr_cells]; rewrite <- app_assoc; reflexivity).
    assert (L1 : site_begin (dr_min r') (a ++ [c']) <= x + w (p_id m)) by (rewrite site_begin_last; lia).
    assert (Hl1 : forall c0, In c0 t -> exists m0, In m0 (d_loose d1) /\ p_id m0 = c0).
    { intros c0 Hc0. destruct (Hl c0 (or_intror Hc0)) as (m0 & Hm0 & Hid0). exists m0. split; [|exact Hid0].
      apply I5; [exact Hm0|]. intros E. apply Hnc. rewrite <- E, Hid0. exact Hc0. }
    assert (LO1 : loose_ok w d1) by (intros y Hy; apply LO; apply I4; exact Hy).
    assert (Ho1 : forall g, In g others -> rg_row g = rowi ->
                   rg_pred g <> pred_of (a ++ [c']) /\ forall c0, In c0 t -> rg_pred g <> Some c0).
    { intros g Hg Hrow. destruct (Ho g Hg Hrow) as [_ H2]. rewrite pred_of_last, Ic. split; [apply H2; left; reflexivity|].
      intros c0 Hc0. apply H2. right. exact Hc0. }
    assert (HR1 : forall g, In g others -> Ready d1 g).
    { intros g Hg. destruct (HR g Hg) as (r0 & Hn0 & S0). destruct (Nat.eq_dec (rg_row g) rowi) as [E|Hne].
      - rewrite E in Hn0. rewrite Hn in Hn0. injection Hn0 as <-. exists r'. split; [rewrite E; exact Hn1|].
        unfold r'. cbn [set_cells dr_cells dr_min dr_max]. rewrite Hc in S0. apply slot_insert; [|exact S0].
        intros Q. destruct (Ho g Hg E) as [H1 _]. congruence.
      - exists r0. split; [|exact S0]. rewrite Hr1, nth_error_upd_row_other by congruence. exact Hn0. }
    destruct (IH d1 rowi r' (a ++ [c']) b (x + w (p_id m)) xmax Hn1 Hc1 ND1 L1 ltac:(lia) U NDt Hl1 LO1 Ho1 HR1)
      as (d2 & A & ND2 & Ln & J4 & J5 & HR2).
    rewrite pred_of_last, Ic in A. exists d2. split; [exact A|]. split; [exact ND2|].
    split; [cbn [length]; lia|]. split; [intros y Hy; apply I4; apply J4; exact Hy|]. split; [|exact HR2].
    intros y Hy Hny. apply J5; [apply I5; [exact Hy|]|]; intros E; apply Hny; [left; symmetry; exact E|right; exact E].
Qed.

(* the regions with their arrangements, as writeback() goes through them *)
Definition chosen_of (w : nat -> Z) (gps : list (region * list nat)) : list (region * list (nat * Z)) :=
  map (fun gp => (fst gp, pack w (rg_min (fst gp)) (snd gp))) gps.
Definition rkey (g : region) : nat * option nat := (rg_row g, rg_pred g).

Lemma leaf_of_cons g ps rest : leaf_of ((g, ps) :: rest) = chain_places (rg_row g) (rg_pred g) ps ++ leaf_of rest.
Proof. reflexivity. Qed.

Lemma length_pack w l : forall x, length (pack w x l) = length l.
Proof. induction l as [|c t IH]; intros x; cbn [pack length]; [reflexivity|rewrite IH; reflexivity]. Qed.
Lemma length_chain_places rowi ps : forall pred, length (chain_places rowi pred ps) = length ps.
Proof. induction ps as [|[c x] t IH]; intros pred; cbn [chain_places length]; [reflexivity|rewrite IH; reflexivity]. Qed.

Lemma fill_all w window : forall gps d,
  NoDup (map p_id (cells_of d)) -> loose_ok w d ->
  NoDup (concat (map snd gps)) ->
  (forall c, In c (concat (map snd gps)) -> In c window /\ exists m, In m (d_loose d) /\ p_id m = c) ->
  Forall (fun gp => snd gp = [] \/ alloc_width w (snd gp) <= rg_width (fst gp)) gps ->
  (forall g, In g (map fst gps) -> Ready d g) ->
  NoDup (map rkey (map fst gps)) ->
  (forall g c, In g (map fst gps) -> In c window -> rg_pred g <> Some c) ->
  exists d', apply_all d (map pl_mop (leaf_of (chosen_of w gps))) = Some d' /\
    (length (d_loose d) = length (concat (map snd gps)) + length (d_loose d'))%nat.
Proof.
  induction gps as [|[g p] rest IH]; intros d ND LO NDc Hl HW HR NDk Hp.
  - exists d. split; reflexivity.
  - cbn [chosen_of map fst snd concat] in *. rewrite leaf_of_cons, map_app, apply_all_app.
    apply NoDup_app_elim in NDc as (NDp & NDr & Dis).
    inversion HW as [|? ? HW1 HW2]; subst. cbn [fst snd] in HW1.
    inversion NDk as [|? ? Hk NDk']; subst.
    destruct (HR g (or_introl eq_refl)) as (r & Hn & a & b & Hc & Pa & L & U).
    assert (Ho : forall g', In g' (map fst rest) -> rg_row g' = rg_row g ->
                   rg_pred g' <> pred_of a /\ forall c, In c p -> rg_pred g' <> Some c).
    { intros g' Hg' Hrow. split.
      - intros E. apply Hk. apply in_map_iff. exists g'. split; [|exact Hg']. unfold rkey. rewrite Hrow, E, Pa. reflexivity.
      - intros c Hc0. apply (Hp g' c); [right; exact Hg'|]. apply (Hl c). apply in_or_app. left. exact Hc0. }
    assert (W : rg_min g + alloc_width w p <= rg_max g \/ p = []).
    { destruct HW1 as [->|H]; [right; reflexivity|left; unfold rg_width in H; lia]. }
    assert (F : exists d1, apply_all d (map pl_mop (chain_places (rg_row g) (rg_pred g) (pack w (rg_min g) p))) = Some d1 /\
              NoDup (map p_id (cells_of d1)) /\ (length (d_loose d) = length p + length (d_loose d1))%nat /\
              (forall y, In y (d_loose d1) -> In y (d_loose d)) /\
              (forall y, In y (d_loose d) -> ~ In (p_id y) p -> In y (d_loose d1)) /\
              (forall g', In g' (map fst rest) -> Ready d1 g')).
    { destruct W as [W|Ep]; [|subst p].
      - rewrite <- Pa. apply (fill_region w (map fst rest) p d (rg_row g) r a b (rg_min g) (rg_max g)); try assumption.
        + intros c Hc0. apply (Hl c). apply in_or_app. left. exact Hc0.
        + intros g' Hg'. apply HR. right. exact Hg'.
      - exists d. cbn [pack chain_places map apply_all length Nat.add]. repeat split; auto. intros g' Hg'. apply HR. right. exact Hg'. }
    destruct F as (d1 & A1 & ND1 & Ln1 & I4 & I5 & HR1). rewrite A1.
    destruct (IH d1 ND1) as (d2 & A2 & Ln2); try assumption.
    + intros y Hy. apply LO. apply I4. exact Hy.
    + intros c Hc0. destruct (Hl c (in_or_app _ _ _ (or_intror Hc0))) as [Hw (m & Hm & Hid)]. split; [exact Hw|].
      exists m. split; [|exact Hid]. apply I5; [exact Hm|]. rewrite Hid. intros Hcp. exact (Dis c Hcp Hc0).
    + intros g' c Hg' Hc0. apply Hp; [right; exact Hg'|exact Hc0].
    + exists d2. split; [exact A2|]. rewrite app_length. lia.
Qed.

(* ------------------------------------------------------------------ *)
(* Part 4: what addCells / addRow register *)
Lemma run_of_spec cs l :
  l = fst (run_of cs l) ++ snd (run_of cs l) /\
  (forall c, In c (fst (run_of cs l)) -> mem (p_id c) cs = true) /\
  match snd (run_of cs l) with [] => True | n :: _ => mem (p_id n) cs = false end.
Proof.
  induction l as [|c t IH]; cbn [run_of]; [repeat split; intros c []|].
  destruct (mem (p_id c) cs) eqn:M; cbn [fst snd].
  - destruct IH as (E & A & B). split; [cbn [app]; f_equal; exact E|]. split; [|exact B].
    intros c0 [<-|H]; [exact M|exact (A c0 H)].
  - split; [reflexivity|]. split; [intros c0 []|exact M].
Qed.

Definition first_id (e : region * list pcell) : option nat := head_id (snd e).

Definition region_ok (d : dstate) (cs : list nat) (e : region * list pcell) : Prop :=
  exists r a m run' rest,
    nth_error (d_rows d) (rg_row (fst e)) = Some r /\ dr_cells r = a ++ snd e ++ rest /\ snd e = m :: run' /\
    pred_of a = rg_pred (fst e) /\ opt_mem (rg_pred (fst e)) cs = false /\
    (forall c, In c (snd e) -> mem (p_id c) cs = true) /\
    match rest with [] => True | n :: _ => mem (p_id n) cs = false end /\
    rg_min (fst e) = match a with [] => dr_min r | _ :: _ => p_x m end /\
    rg_max (fst e) = match rest with [] => dr_max r | _ :: _ => site_begin (p_x m) (snd e) end.

Lemma add_cell_spec d cs c es : mem c cs = true -> add_cell d cs c = Some es ->
  Forall (region_ok d cs) es /\ (forall e, In e es -> first_id e = Some c).
Proof.
  intros Mc. unfold add_cell. destruct (find_row (d_rows d) c 0) as [[[[[i r] a] m] b]|] eqn:F; [|discriminate].
  apply find_row_spec in F as (k & -> & Hn & Hc & Hid). cbn [Nat.add] in *.
  destruct (opt_mem (pred_of a) cs) eqn:P; intros [= <-]; [split; [constructor|intros e []]|]. cbv zeta.
  destruct (run_of_spec cs (m :: b)) as (E & A & B).
  assert (R : fst (run_of cs (m :: b)) = m :: fst (run_of cs b)) by (cbn [run_of]; rewrite Hid, Mc; reflexivity).
  split; [|intros e [<-|[]]; unfold first_id; change (head_id (fst (run_of cs (m :: b))) = Some c); rewrite R; cbn [head_id]; rewrite Hid; reflexivity].
  constructor; [|constructor]. exists r, a, m, (fst (run_of cs b)), (snd (run_of cs (m :: b))). cbn [fst snd rg_row rg_pred rg_min rg_max].
  split; [exact Hn|]. split; [rewrite Hc; f_equal; exact E|]. split; [exact R|]. split; [reflexivity|]. split; [exact P|].
  split; [exact A|]. split; [exact B|]. split; reflexivity.
Qed.

Lemma regions_of_spec d cs : forall todo rgs, (forall c, In c todo -> mem c cs = true) -> NoDup todo ->
  regions_of d cs todo = Some rgs ->
  Forall (region_ok d cs) rgs /\ NoDup (map first_id rgs) /\ (forall e, In e rgs -> exists c, first_id e = Some c /\ In c todo).
Proof.
  induction todo as [|c t IH]; intros rgs Hm ND; cbn [regions_of].
  - intros [= <-]. split; [constructor|]. split; [constructor|intros e []].
  - destruct (add_cell d cs c) as [es|] eqn:A; [|discriminate]. destruct (regions_of d cs t) as [rs|] eqn:R; [|discriminate].
    intros [= <-]. inversion ND as [|? ? Hnc NDt]; subst.
    destruct (add_cell_spec d cs c es (Hm c (or_introl eq_refl)) A) as [F1 H1].
    destruct (IH rs (fun c0 H => Hm c0 (or_intror H)) NDt eq_refl) as (F2 & N2 & H2).
    split; [apply Forall_app; split; assumption|]. split.
    + rewrite map_app. apply NoDup_app_intro; [| exact N2 |].
      * assert (L : (length es <= 1)%nat).
        { unfold add_cell in A. destruct (find_row (d_rows d) c 0) as [[[[[i r] a] m] b]|]; [|discriminate].
          destruct (opt_mem (pred_of a) cs); injection A as <-; cbn [length]; lia. }
        destruct es as [|e1 [|e2 es']]; cbn [map]; [constructor|constructor; [intros []|constructor]|cbn [length] in L; lia].
      * intros k Hk1 Hk2. apply in_map_iff in Hk1 as (e1 & <- & He1). apply in_map_iff in Hk2 as (e2 & E & He2).
        rewrite (H1 e1 He1) in E. destruct (H2 e2 He2) as (c2 & E2 & Hc2). rewrite E2 in E. injection E as ->. exact (Hnc Hc2).
    + intros e He. apply in_app_or in He as [He|He].
      * exists c. split; [exact (H1 e He)|left; reflexivity].
      * destruct (H2 e He) as (c2 & E2 & Hc2). exists c2. split; [exact E2|right; exact Hc2].
Qed.

Lemma prefix_unique (l : list pcell) pre1 z1 post1 pre2 z2 post2 : NoDup (map p_id l) ->
  l = pre1 ++ z1 :: post1 -> l = pre2 ++ z2 :: post2 -> p_id z1 = p_id z2 -> pre1 = pre2 /\ z1 = z2 /\ post1 = post2.
Proof.
  intros ND E1 E2 Hid.
  assert (S1 : split_at (p_id z1) l = Some (pre1, z1, post1)).
  { rewrite E1. apply split_at_unique; [|reflexivity]. rewrite E1, map_app in ND. cbn [map] in ND. apply NoDup_remove_2 in ND.
    intros H. apply ND. apply in_or_app. left. exact H. }
  assert (S2 : split_at (p_id z1) l = Some (pre2, z2, post2)).
  { rewrite E2. apply split_at_unique; [|symmetry; exact Hid]. rewrite E2, map_app in ND. cbn [map] in ND. apply NoDup_remove_2 in ND.
    intros H. apply ND. apply in_or_app. left. rewrite <- Hid. exact H. }
  rewrite S1 in S2. injection S2 as <- <- <-. repeat split.
Qed.

Lemma pred_of_in (l : list pcell) : l <> [] -> exists x, In x l /\ pred_of l = Some (p_id x).
Proof.
  intros H. destruct l as [|x t] using rev_ind; [congruence|]. exists x. split; [apply in_or_app; right; left; reflexivity|apply pred_of_last].
Qed.

Lemma in_row_of d cs e z : region_ok d cs e -> In z (snd e) ->
  exists r, nth_error (d_rows d) (rg_row (fst e)) = Some r /\ In z (dr_cells r).
Proof.
  intros (r & a & m & run' & rest & Hn & Hc & _) Hz. exists r. split; [exact Hn|]. rewrite Hc. apply in_or_app. right. apply in_or_app. left. exact Hz.
Qed.

(* two registered runs that share a cell start at the same cell *)
Lemma same_start d cs e1 e2 z1 z2 : NoDup (map p_id (cells_of d)) -> region_ok d cs e1 -> region_ok d cs e2 ->
  In z1 (snd e1) -> In z2 (snd e2) -> p_id z1 = p_id z2 -> first_id e1 = first_id e2.
Proof.
  intros ND R1 R2 Hz1 Hz2 Hid. pose proof (placed_nodup d ND) as NDp.
  destruct (in_row_of d cs e1 z1 R1 Hz1) as (r1' & Hn1' & Hr1). destruct (in_row_of d cs e2 z2 R2 Hz2) as (r2' & Hn2' & Hr2).
  destruct R1 as (r1 & a1 & m1 & run1 & rest1 & Hn1 & Hc1 & E1 & P1 & O1 & M1 & _).
  destruct R2 as (r2 & a2 & m2 & run2 & rest2 & Hn2 & Hc2 & E2 & P2 & O2 & M2 & _).
  rewrite Hn1 in Hn1'. injection Hn1' as <-. rewrite Hn2 in Hn2'. injection Hn2' as <-.
  destruct (Nat.eq_dec (rg_row (fst e1)) (rg_row (fst e2))) as [Er|Hne];
    [|exfalso; exact (rows_ids_disjoint _ NDp _ _ r1 r2 z1 z2 Hn1 Hn2 Hne Hr1 Hr2 Hid)].
  rewrite Er, Hn2 in Hn1. injection Hn1 as <-.
  apply in_split in Hz1 as (u1 & v1 & Eu1). apply in_split in Hz2 as (u2 & v2 & Eu2).
  pose proof (row_ids_nodup _ _ r2 NDp Hn2) as NDr.
  assert (D1 : dr_cells r2 = (a1 ++ u1) ++ z1 :: (v1 ++ rest1)) by (rewrite Hc1, Eu1, <- !app_assoc; reflexivity).
  assert (D2 : dr_cells r2 = (a2 ++ u2) ++ z2 :: (v2 ++ rest2)) by (rewrite Hc2, Eu2, <- !app_assoc; reflexivity).
  destruct (prefix_unique _ _ _ _ _ _ _ NDr D1 D2 Hid) as (Ep & Ez & _).
  assert (Key : forall (aa ab ua ub l : list pcell), opt_mem (pred_of aa) cs = false ->
            (forall c, In c ub -> mem (p_id c) cs = true) -> aa = ab ++ l -> ub = l ++ ua -> l = []).
  { intros aa ab ua ub l Oa Mb -> ->. destruct l as [|x l]; [reflexivity|exfalso].
    destruct (pred_of_in (x :: l)) as (y & Hy & Py); [discriminate|]. rewrite pred_of_app_nonnil in Oa by discriminate.
    rewrite Py in Oa. cbn [opt_mem] in Oa. rewrite Mb in Oa; [discriminate|]. apply in_or_app. left. exact Hy. }
  assert (Ea : a1 = a2 /\ u1 = u2).
  { apply app_eq_app in Ep as [l [[A B]|[A B]]].
    - assert (l = []).
      { apply (Key a1 a2 u1 u2 l); try assumption.
        + rewrite P1. exact O1.
        + intros c Hc. apply M2. rewrite Eu2. apply in_or_app. left. exact Hc. }
      subst l. rewrite app_nil_r in A. cbn [app] in B. split; congruence.
    - assert (l = []).
      { apply (Key a2 a1 u2 u1 l); try assumption.
        + rewrite P2. exact O2.
        + intros c Hc. apply M1. rewrite Eu1. apply in_or_app. left. exact Hc. }
      subst l. rewrite app_nil_r in A. cbn [app] in B. split; congruence. }
  destruct Ea as [_ Eu]. unfold first_id. rewrite E1, E2. cbn [head_id]. f_equal.
  rewrite E1 in Eu1. rewrite E2 in Eu2. subst u2.
  destruct u1 as [|x u1]; cbn [app] in Eu1, Eu2; [injection Eu1 as -> _; injection Eu2 as -> _; exact Hid|].
  injection Eu1 as -> _. injection Eu2 as -> _. reflexivity.
Qed.

Lemma run_ids_nodup d cs e : NoDup (map p_id (cells_of d)) -> region_ok d cs e -> NoDup (map p_id (snd e)).
Proof.
  intros ND (r & a & m & run' & rest & Hn & Hc & _). pose proof (row_ids_nodup _ _ r (placed_nodup d ND) Hn) as NDr.
  rewrite Hc, !map_app in NDr. apply NoDup_app_elim in NDr as (_ & NDr & _). apply NoDup_app_elim in NDr. tauto.
Qed.

Lemma registered_nodup d cs : forall rgs, NoDup (map p_id (cells_of d)) -> Forall (region_ok d cs) rgs ->
  NoDup (map first_id rgs) -> NoDup (map p_id (registered rgs)).
Proof.
  induction rgs as [|e rest IH]; intros ND F NF; [constructor|]. unfold registered in *. cbn [flat_map map] in *. rewrite map_app.
  inversion F as [|? ? Fe Fr]; subst. inversion NF as [|? ? Hn NF']; subst.
  apply NoDup_app_intro; [exact (run_ids_nodup d cs e ND Fe)|exact (IH ND Fr NF')|].
  intros x H1 H2. apply in_map_iff in H1 as (z1 & <- & Hz1). apply in_map_iff in H2 as (z2 & E & Hz2).
  apply in_flat_map in Hz2 as (e2 & He2 & Hz2). apply Hn.
  rewrite (same_start d cs e e2 z1 z2 ND Fe (proj1 (Forall_forall _ _) Fr e2 He2) Hz1 Hz2 (eq_sym E)).
  apply in_map. exact He2.
Qed.

Lemma registered_mem d cs rgs z : Forall (region_ok d cs) rgs -> In z (registered rgs) -> mem (p_id z) cs = true.
Proof.
  intros F Hz. apply in_flat_map in Hz as (e & He & Hz). rewrite Forall_forall in F.
  destruct (F e He) as (r & a & m & run' & rest & _ & _ & _ & _ & _ & M & _). exact (M z Hz).
Qed.

Lemma registered_in_rows d cs rgs z : Forall (region_ok d cs) rgs -> In z (registered rgs) -> in_rows d z.
Proof.
  intros F Hz. apply in_flat_map in Hz as (e & He & Hz). rewrite Forall_forall in F.
  destruct (in_row_of d cs e z (F e He) Hz) as (r & Hn & Hr). exists r. split; [exact (nth_error_In _ _ Hn)|exact Hr].
Qed.

Lemma keys_nodup d cs : forall rgs, NoDup (map p_id (cells_of d)) -> Forall (region_ok d cs) rgs ->
  NoDup (map first_id rgs) -> NoDup (map rkey (map fst rgs)).
Proof.
  induction rgs as [|e rest IH]; intros ND F NF; [constructor|]. cbn [map].
  inversion F as [|? ? Fe Fr]; subst. inversion NF as [|? ? Hn NF']; subst.
  constructor; [|exact (IH ND Fr NF')]. intros H. apply in_map_iff in H as (g2 & K & Hg2). apply in_map_iff in Hg2 as (e2 & <- & He2).
  apply Hn. apply in_map_iff. exists e2. split; [|exact He2].
  rewrite Forall_forall in Fr. destruct (Fr e2 He2) as (r2 & a2 & m2 & run2 & rest2 & Hn2 & Hc2 & E2 & P2 & _).
  destruct Fe as (r1 & a1 & m1 & run1 & rest1 & Hn1 & Hc1 & E1 & P1 & _).
  unfold rkey in K. injection K as Kr Kp. rewrite Kr, Hn1 in Hn2. injection Hn2 as <-.
  pose proof (row_ids_nodup _ _ r1 (placed_nodup d ND) Hn1) as NDr. rewrite Hc1 in NDr.
  destruct (decomp_unique a1 (snd e ++ rest1) a2 (snd e2 ++ rest2) NDr) as [_ Et]; [rewrite <- Hc1; exact Hc2|congruence|].
  unfold first_id. rewrite E1, E2 in *. cbn [app] in Et. injection Et as -> _. reflexivity.
Qed.

Lemma chain_adjacent pre : forall lo hi x y post, chain lo hi (pre ++ x :: y :: post) -> p_x x + p_w x <= p_x y.
Proof.
  induction pre as [|c t IH]; intros lo hi x y post; cbn [app chain].
  - intros (_ & _ & H & _). exact H.
  - intros (_ & _ & H). exact (IH _ _ _ _ _ H).
Qed.

Lemma strip_all cl l : (forall z, In z l -> In (p_id z) cl) -> strip cl l = [].
Proof.
  induction l as [|c t IH]; intros H; [reflexivity|]. cbn [strip filter]. unfold keep at 1.
  assert (M : mem (p_id c) cl = true) by (apply mem_in; apply H; left; reflexivity). rewrite M. cbn [negb].
  apply IH. intros z Hz. apply H. right. exact Hz.
Qed.

Lemma strip_keep_one cl x : mem (p_id x) cl = false -> strip cl [x] = [x].
Proof. intros M. cbn [strip filter]. unfold keep. rewrite M. reflexivity. Qed.

Lemma mem_sub_false cl cs x : (forall c, In c cl -> mem c cs = true) -> mem x cs = false -> mem x cl = false.
Proof.
  intros H M. destruct (mem x cl) eqn:E; [|reflexivity]. apply mem_in in E. rewrite (H x E) in M. discriminate.
Qed.

(* after unplacing the cells cl (all registered cells, all in the window) every region is ready *)
Lemma ready_after d cs cl e d1 : Inv d -> NoDup (map p_id (cells_of d)) -> region_ok d cs e ->
  d_rows d1 = map (strip_row cl) (d_rows d) -> (forall z, In z (snd e) -> In (p_id z) cl) ->
  (forall c, In c cl -> mem c cs = true) -> Ready d1 (fst e).
Proof.
  intros [HI _] ND (r & a & m & run' & rest & Hn & Hc & E & P & O & M & B & Emin & Emax) Hr Hin Hsub.
  pose proof (Forall_nth _ _ _ _ HI Hn) as CH. unfold row_ok in CH. rewrite Hc in CH.
  exists (strip_row cl r). split; [rewrite Hr; apply map_nth_error; exact Hn|].
  destruct r as [lo hi y o l]. unfold strip_row, set_cells. cbv [dr_cells dr_min dr_max dr_y dr_o] in *. subst l.
  exists (strip cl a), (strip cl rest). split; [rewrite !strip_app, (strip_all cl (snd e) Hin); reflexivity|].
  split; [|split].
  - rewrite <- P. destruct a as [|x a0] using rev_ind; [reflexivity|]. clear IHa0.
    rewrite <- P, pred_of_last in O. cbn [opt_mem] in O.
    rewrite strip_app, (strip_keep_one cl x (mem_sub_false cl cs _ Hsub O)), !pred_of_last. reflexivity.
  - rewrite Emin. destruct a as [|x a0] using rev_ind; [cbn [strip filter site_begin]; lia|]. clear IHa0.
    rewrite <- P, pred_of_last in O. cbn [opt_mem] in O.
    rewrite strip_app, (strip_keep_one cl x (mem_sub_false cl cs _ Hsub O)), site_begin_last.
    rewrite E, <- app_assoc in CH. cbn [app] in CH. apply chain_adjacent in CH.
    destruct (a0 ++ [x]) eqn:Ea; [destruct a0; discriminate|]. exact CH.
  - rewrite Emax. destruct rest as [|n rest']; [cbn [strip filter site_end]; lia|].
    change (n :: rest') with ([n] ++ rest'). rewrite strip_app, (strip_keep_one cl n (mem_sub_false cl cs _ Hsub B)). cbn [app site_end].
    assert (Hne : snd e <> []) by (rewrite E; discriminate).
    destruct (snd e) as [|z run0] using rev_ind; [congruence|]. clear IHrun0.
    rewrite site_begin_last.
    replace (a ++ (run0 ++ [z]) ++ n :: rest') with ((a ++ run0) ++ z :: n :: rest') in CH by (rewrite <- !app_assoc; reflexivity).
    exact (chain_adjacent _ _ _ _ _ _ CH).
Qed.

(* ------------------------------------------------------------------ *)
(* std::sort gives a permutation *)
Lemma insert_asc_perm c l : Permutation (c :: l) (insert_asc c l).
Proof.
  induction l as [|a t IH]; cbn [insert_asc]; [apply Permutation_refl|].
  destruct (a <? c)%nat; [|apply Permutation_refl]. eapply perm_trans; [apply perm_swap|]. apply perm_skip. exact IH.
Qed.
Lemma sort_asc_perm l : Permutation l (sort_asc l).
Proof.
  induction l as [|c t IH]; cbn [sort_asc fold_right]; [constructor|].
  eapply perm_trans; [apply perm_skip; exact IH|apply insert_asc_perm].
Qed.

(* the write-back of ANY arrangement of the registered cells over the regions that respects the widths is accepted:
   DetailedPlacement::place never throws, and no cell is left unplaced *)
Theorem wb_accepts d cs rgs gps :
  Inv d -> NoDup (map p_id (cells_of d)) -> d_loose d = [] -> NoDup cs ->
  regions_of d cs cs = Some rgs ->
  map fst gps = map fst rgs ->
  Permutation (concat (map snd gps)) (map p_id (registered rgs)) ->
  Forall (fun gp => snd gp = [] \/ alloc_width (width_of d) (snd gp) <= rg_width (fst gp)) gps ->
  exists d', wb d (rev (sort_asc (map p_id (registered rgs)))) (leaf_of (chosen_of (width_of d) gps)) = Some d' /\ d_loose d' = [].
Proof.
  intros HI ND Hl0 NDc HR Eg Pm HW.
  assert (Hcs : forall c, In c cs -> mem c cs = true) by (intros c Hc; apply mem_in; exact Hc).
  destruct (regions_of_spec d cs cs rgs Hcs NDc HR) as (F & NF & _).
  set (W := map p_id (registered rgs)) in *. set (cl := rev (sort_asc W)).
  assert (PW : Permutation W cl) by (unfold cl; eapply perm_trans; [apply sort_asc_perm|apply Permutation_rev]).
  pose proof (registered_nodup d cs rgs ND F NF) as NDW. fold W in NDW.
  assert (NDcl : NoDup cl) by (eapply Permutation_NoDup; eassumption).
  assert (Hreg : forall c, In c cl -> exists z, In z (registered rgs) /\ p_id z = c).
  { intros c Hc. apply (Permutation_in _ (Permutation_sym PW)) in Hc. apply in_map_iff in Hc as (z & E & Hz). exists z. tauto. }
  assert (Hheld : forall c, In c cl -> held d c = true).
  { intros c Hc. destruct (Hreg c Hc) as (z & Hz & <-). destruct (registered_in_rows d cs rgs z F Hz) as (r & Hr & Hin).
    unfold held. rewrite (entry_pos d r z ND Hr Hin). reflexivity. }
  assert (Hsub : forall c, In c cl -> mem c cs = true).
  { intros c Hc. destruct (Hreg c Hc) as (z & Hz & <-). exact (registered_mem d cs rgs z F Hz). }
  destruct (unplace_all cl d ND NDcl Hheld) as (d1 & A1 & R1 & ND1 & L1 & C1 & M1).
  assert (LO : loose_ok (width_of d) d1).
  { intros m Hm. destruct (M1 m Hm) as [H|[_ H]]; [rewrite Hl0 in H; destruct H|].
    unfold width_of. rewrite (cell_of_in d m ND H). split; [reflexivity|]. destruct H as (r & Hr & Hin).
    destruct HI as [HI _]. rewrite Forall_forall in HI. exact (proj2 (proj2 (chain_In _ _ _ m (HI r Hr) Hin))). }
  destruct (fill_all (width_of d) cl gps d1 ND1 LO) as (d2 & A2 & L2).
  - eapply Permutation_NoDup; [apply Permutation_sym; exact Pm|exact NDW].
  - intros c Hc. apply (Permutation_in _ Pm) in Hc. apply (Permutation_in _ PW) in Hc. split; [exact Hc|].
    destruct (C1 c Hc) as (m & Hid & Hm). exists m. tauto.
  - exact HW.
  - intros g Hg. rewrite Eg in Hg. apply in_map_iff in Hg as (e & <- & He). rewrite Forall_forall in F.
    apply (ready_after d cs cl e d1 HI ND (F e He) R1); [|exact Hsub].
    intros z Hz. apply (Permutation_in _ PW). apply in_map. apply in_flat_map. exists e. tauto.
  - rewrite Eg. exact (keys_nodup d cs rgs ND F NF).
  - intros g c Hg Hc E. rewrite Eg in Hg. apply in_map_iff in Hg as (e & <- & He). rewrite Forall_forall in F.
    destruct (F e He) as (_ & _ & _ & _ & _ & _ & _ & _ & _ & O & _). rewrite E in O. cbn [opt_mem] in O. rewrite (Hsub c Hc) in O. discriminate.
  - exists d2. unfold wb, wb_ops.
    change (map (fun p : placement => match p with (c0, rowi, pred, x) => MPlace c0 rowi pred x end)) with (map pl_mop).
    rewrite apply_all_app. fold cl. rewrite A1. split; [exact A2|].
    assert (length (d_loose d2) = 0%nat); [|destruct (d_loose d2); [reflexivity|discriminate]].
    rewrite Hl0 in L1. cbn [length] in L1. rewrite (Permutation_length Pm), (Permutation_length PW) in L2. lia.
Qed.

(* ------------------------------------------------------------------ *)
(* every window cell is registered (cells_ is a permutation of the window) *)
Lemma regions_of_incl d cs : forall todo rgs c es, regions_of d cs todo = Some rgs -> In c todo -> add_cell d cs c = Some es ->
  forall e, In e es -> In e rgs.
Proof.
  induction todo as [|c0 t IH]; intros rgs c es R Hc A e He; [destruct Hc|]. cbn [regions_of] in R.
  destruct (add_cell d cs c0) as [es0|] eqn:A0; [|discriminate]. destruct (regions_of d cs t) as [rs|] eqn:R0; [|discriminate].
  injection R as <-. apply in_or_app. destruct Hc as [->|Hc]; [left; rewrite A in A0; injection A0 as <-; exact He|right; exact (IH rs c es eq_refl Hc A e He)].
Qed.

Lemma find_row_at d i r a m b : NoDup (map p_id (cells_of d)) -> nth_error (d_rows d) i = Some r -> dr_cells r = a ++ m :: b ->
  find_row (d_rows d) (p_id m) 0 = Some (i, r, a, m, b).
Proof.
  intros ND Hn Hc. pose proof (placed_nodup d ND) as NDp.
  assert (Hin : In m (dr_cells r)) by (rewrite Hc; apply in_or_app; right; left; reflexivity).
  pose proof (entry_pos d r m ND (nth_error_In _ _ Hn) Hin) as P. unfold pos_in in P.
  destruct (find_row (d_rows d) (p_id m) 0) as [[[[[i' r'] a'] m'] b']|] eqn:Fd; [|discriminate].
  pose proof Fd as Fs. apply find_row_spec in Fs as (k & -> & Hn' & Hc' & Hid'). cbn [Nat.add] in *.
  destruct (Nat.eq_dec k i) as [->|Hne];
    [|exfalso; apply (rows_ids_disjoint _ NDp k i r' r m' m Hn' Hn Hne); [rewrite Hc'; apply in_or_app; right; left; reflexivity|exact Hin|exact Hid']].
  rewrite Hn in Hn'. injection Hn' as <-. pose proof (row_ids_nodup _ _ _ NDp Hn) as NDr.
  destruct (prefix_unique _ _ _ _ _ _ _ NDr Hc' Hc Hid') as (-> & -> & ->). reflexivity.
Qed.

Lemma regions_of_found d cs : forall todo rgs, regions_of d cs todo = Some rgs -> forall c, In c todo ->
  exists i r a m b, nth_error (d_rows d) i = Some r /\ dr_cells r = a ++ m :: b /\ p_id m = c.
Proof.
  induction todo as [|c0 t IH]; intros rgs R c Hc; [destruct Hc|]. cbn [regions_of] in R.
  destruct (add_cell d cs c0) as [es0|] eqn:A0; [|discriminate]. destruct (regions_of d cs t) as [rs|] eqn:R0; [|discriminate].
  destruct Hc as [->|Hc]; [|exact (IH rs eq_refl c Hc)]. unfold add_cell in A0.
  destruct (find_row (d_rows d) c 0) as [[[[[i r] a] m] b]|] eqn:Fd; [|discriminate].
  apply find_row_spec in Fd as (k & -> & Hn & Hcr & Hid). exists (0 + k)%nat, r, a, m, b. tauto.
Qed.

Lemma registered_covers d cs rgs : NoDup (map p_id (cells_of d)) -> NoDup cs -> regions_of d cs cs = Some rgs ->
  forall c, In c cs -> In c (map p_id (registered rgs)).
Proof.
  intros ND NDc R. pose proof (placed_nodup d ND) as NDp.
  assert (Hcs : forall x, In x cs -> mem x cs = true) by (intros x Hx; apply mem_in; exact Hx).
  destruct (regions_of_spec d cs cs rgs Hcs NDc R) as (F & _ & _). rewrite Forall_forall in F.
  assert (Start : forall a i r m b, nth_error (d_rows d) i = Some r -> dr_cells r = a ++ m :: b -> In (p_id m) cs ->
            opt_mem (pred_of a) cs = false -> exists e, In e rgs /\ In m (snd e)).
  { intros a i r m b Hn Hc Hm Op. pose proof (find_row_at d i r a m b ND Hn Hc) as Fd.
    assert (A : exists g, add_cell d cs (p_id m) = Some [(g, fst (run_of cs (m :: b)))]) by (unfold add_cell; rewrite Fd, Op; eexists; reflexivity).
    destruct A as [g A]. exists (g, fst (run_of cs (m :: b))). split.
    - apply (regions_of_incl d cs cs rgs (p_id m) _ R Hm A). left. reflexivity.
    - cbn [snd fst run_of]. rewrite (Hcs _ Hm). left. reflexivity. }
  assert (G : forall a i r m b, nth_error (d_rows d) i = Some r -> dr_cells r = a ++ m :: b -> In (p_id m) cs ->
            exists e, In e rgs /\ In m (snd e)).
  { induction a as [|x a0 IHa0] using rev_ind; intros i r m b Hn Hc Hm; [apply (Start [] i r m b Hn Hc Hm); reflexivity|].
    destruct (mem (p_id x) cs) eqn:Mx; [|apply (Start _ i r m b Hn Hc Hm); rewrite pred_of_last; exact Mx].
    assert (Hx : In (p_id x) cs) by (apply mem_in; exact Mx).
    rewrite <- app_assoc in Hc. cbn [app] in Hc.
    destruct (IHa0 i r x (m :: b) Hn Hc Hx) as (e & He & Hxe). exists e. split; [exact He|].
    destruct (F e He) as (r1 & a1 & m1 & run1 & rest1 & Hn1 & Hc1 & E1 & _ & _ & M1 & B1 & _).
    destruct (in_row_of d cs e x (F e He) Hxe) as (r2 & Hn2 & Hr2). rewrite Hn1 in Hn2. injection Hn2 as <-.
    destruct (Nat.eq_dec (rg_row (fst e)) i) as [Ei|Hne];
      [|exfalso; apply (rows_ids_disjoint _ NDp _ _ r1 r x x Hn1 Hn Hne Hr2); [rewrite Hc; apply in_or_app; right; left; reflexivity|reflexivity]].
    rewrite Ei, Hn in Hn1. injection Hn1 as <-. apply in_split in Hxe as (u & v & Eu).
    pose proof (row_ids_nodup _ _ _ NDp Hn) as NDr.
    assert (D1 : dr_cells r = (a1 ++ u) ++ x :: (v ++ rest1)) by (rewrite Hc1, Eu, <- !app_assoc; reflexivity).
    destruct (prefix_unique _ _ _ _ _ _ _ NDr Hc D1 eq_refl) as (_ & _ & Et).
    destruct v as [|y v']; cbn [app] in Et.
    - exfalso. rewrite <- Et in B1. rewrite (Hcs _ Hm) in B1. discriminate.
    - injection Et as <- _. rewrite Eu. apply in_or_app. right. right. left. reflexivity. }
  intros c Hc. destruct (regions_of_found d cs cs rgs R c Hc) as (i & r & a & m & b & Hn & Hcr & Hid).
  destruct (G a i r m b Hn Hcr) as (e & He & Hme); [rewrite Hid; exact Hc|].
  apply in_map_iff. exists m. split; [exact Hid|]. apply in_flat_map. exists e. tauto.
Qed.

(* cells_ (sorted with std::greater) is a permutation of the window *)
Theorem cells_perm_window d cs rgs : NoDup (map p_id (cells_of d)) -> NoDup cs -> regions_of d cs cs = Some rgs ->
  Permutation cs (rev (sort_asc (map p_id (registered rgs)))).
Proof.
  intros ND NDc R. assert (Hcs : forall x, In x cs -> mem x cs = true) by (intros x Hx; apply mem_in; exact Hx).
  destruct (regions_of_spec d cs cs rgs Hcs NDc R) as (F & NF & _).
  eapply perm_trans; [|eapply perm_trans; [apply sort_asc_perm|apply Permutation_rev]].
  apply NoDup_Permutation; [exact NDc|exact (registered_nodup d cs rgs ND F NF)|]. intros x. split.
  - exact (registered_covers d cs rgs ND NDc R x).
  - intros Hx. apply in_map_iff in Hx as (z & <- & Hz). apply mem_in. exact (registered_mem d cs rgs z F Hz).
Qed.
