(* C14 optimality, part A3: invariant of the loop of push(i).
   Wf x = Vp x + fc i x is the cost of the best placement of sources 0..i whose source i sits at x
   (Vp = value function of sources 0..i-1).  The loop keeps
     T1: left of lastPosition, the differences of Wf are given by the event slopes (minus the cost of the last cell of
         source i relative to the last occupied sink),
     T2: right of lastPosition Wf is non-decreasing,
     conv: the slope function of the queue is non-increasing. *)
From Coq Require Import List ZArith Lia Bool Arith.
Import ListNotations.
Require Import CV.LpCert CV.Transp1d CV.Transp1dProofs CV.Transp1dTerm CV.Transp1dCert CV.Transp1dOpt
               CV.Transp1dOptA1 CV.Transp1dOptA2.
Local Open Scope Z_scope.

Section Loop.
Variable P : sprob.
Hypothesis W : wf_sprob P.
Hypothesis So : sorted_sprob P.
Variable i : nat.
Hypothesis Hi : (i < n_src P)%nat.
Variable Vp : Z -> Z.
Notation m := (n_snk P).
Notation D := (Dx P).
Notation c := (cost P).
Definition Wf (x : Z) : Z := Vp x + fc P i x.

Record Linv (s : st) : Prop := {
  l_lp : 0 <= lp s;
  l_ev : EvOK (lp s) (ev s);
  l_lo : (lo s < m)%nat;
  l_os : OS P i (os s);
  l_oslo : (os s <= lo s)%nat;
  l_end : D (lo s) < Sx P (i + 1) + lp s;
  l_beg : Sx P i + lp s <= D (lo s + 1);
  l_conv : conv (ev s);
  l_T1 : forall x, 0 <= x < lp s -> Wf x - Wf (x + 1) = sl (ev s) x - (gc P i (Sx P (i + 1) + x) - c i (lo s));
  l_T2 : forall x, lp s <= x -> x + 1 <= topx P i -> Wf x <= Wf (x + 1) }.

Lemma Hfe : Sx P (i + 1) <= D m.
Proof.
  assert (Sx P (i + 1) <= Sx P (n_src P)) by (apply Sx_mono; [exact W|lia|lia]).
  rewrite Sx_n in H by exact W. rewrite Dx_m by exact W. pose proof (w_tot _ W). lia.
Qed.

(* getSlope: the returned slope is the slope function just left of lastPosition *)
Lemma get_slope_spec pop s : EvOK (lp s) (ev s) -> 0 < lp s ->
  let sl0 := fst (get_slope pop s) in
  let s1 := snd (get_slope pop s) in
  sl0 = sl (ev s) (lp s - 1) /\ lp s1 = lp s /\ lo s1 = lo s /\ os s1 = os s /\
  (pop = false -> EvOK (lp s) (ev s1) /\ forall x, sl (ev s1) x = sl (ev s) x) /\
  (pop = true -> ev_sorted (ev s1) /\ (forall e, In e (ev s1) -> 0 < fst e < lp s) /\
                 forall x, sl (ev s) x = (if x <? lp s then sl0 else 0) + sl (ev s1) x).
Proof.
  intros OK Hlp. unfold get_slope. destruct (pop_at (lp s) (ev s)) as [s0 r] eqn:E. cbn [fst snd lp lo os ev].
  destruct (pop_at_spec _ _ _ _ OK E) as (Q1 & Q2 & _).
  pose proof (pop_at_sl _ _ _ _ E) as Q3.
  assert (Z0 : sl r (lp s - 1) = 0) by (apply sl_above; intros e He; specialize (Q2 e He); lia).
  assert (E0 : s0 = sl (ev s) (lp s - 1)).
  { rewrite Q3, Z0. destruct (Z.ltb_spec (lp s - 1) (lp s)); lia. }
  split; [exact E0|]. split; [reflexivity|]. split; [reflexivity|]. split; [reflexivity|]. split.
  - intros ->. cbn [negb andb]. destruct (Z.eqb_spec s0 0) as [Es|Es]; cbn [negb].
    + split; [split; [exact Q1|intros e He; specialize (Q2 e He); lia]|].
      intros x. rewrite Q3, Es. destruct (x <? lp s); lia.
    + split.
      * apply EvOK_insert; [|cbn; lia]. split; [exact Q1|]. intros e He. specialize (Q2 e He). lia.
      * intros x. rewrite sl_insert, Q3. cbn [fst snd]. lia.
  - intros ->. cbn [negb andb]. split; [exact Q1|]. split; [exact Q2|]. intros x. rewrite Q3. reflexivity.
Qed.

(* costs right of the optimal sink *)
Lemma gc_right s y : Linv s -> D (lo s + 1) <= y -> y < D m -> (lo s + 1 < m)%nat /\ c i (lo s + 1) <= gc P i y.
Proof.
  intros I Hy1 Hy2. pose proof (l_lo _ I) as Hlo.
  assert (Hlo1 : (lo s + 1 < m)%nat).
  { destruct (Nat.eq_dec (lo s + 1) m) as [E|E]; [rewrite E in Hy1; lia|lia]. }
  split; [exact Hlo1|].
  pose proof (Dx_0 P W) as D0.
  assert (D 0 <= D (lo s + 1)) by (apply D_le; [exact W|lia|lia]).
  destruct (sink_of_cell P W y ltac:(lia)) as (j & Hj & Hb).
  rewrite (gc_in_sink P W i j y Hj Hb).
  assert ((lo s + 1 <= j)%nat).
  { destruct (Nat.lt_ge_cases j (lo s + 1)) as [Hlt|Hge]; [|exact Hge].
    assert (D (j + 1) <= D (lo s + 1)) by (apply D_le; [exact W|lia|lia]). lia. }
  apply (OS_right P So i (os s) (l_os _ I)); try lia. pose proof (l_oslo _ I). lia.
Qed.

Lemma sl_at_lp s : EvOK (lp s) (ev s) -> forall x, lp s <= x -> sl (ev s) x = 0.
Proof. intros [_ H] x Hx. apply sl_above. intros e He. specialize (H e He). lia. Qed.

(* pushToNewSink *)
Lemma ptns_linv s : Linv s -> D (lo s + 1) - Sx P (i + 1) < lp s -> (lo s + 1 < m)%nat ->
  (0 < lp s -> c i (lo s + 1) <= sl (ev s) (lp s - 1) + c i (lo s)) ->
  Linv (push_to_new_sink P i s).
Proof.
  intros I Hc Hlo1 Hdec. unfold push_to_new_sink, push_new_sink_events.
  destruct (Nat.leb_spec (lo s + 1) (lo s)); [lia|].
  replace (lo s + 1 - lo s)%nat with 1%nat by lia. cbn [seq fold_left].
  pose proof (l_beg _ I) as Hb. pose proof (l_lp _ I) as Hlp.
  replace (Z.min (D (lo s + 1) - Sx P i) (lp s)) with (lp s) by lia.
  set (d := c i (lo s) - c i (lo s + 1)).
  assert (Hd : d <= 0).
  { subst d. pose proof (OS_right P So i (os s) (l_os _ I) (lo s) (lo s + 1)%nat (l_oslo _ I) ltac:(lia) Hlo1). lia. }
  assert (HD : D (lo s + 1) <= D (lo s + 1 + 1)) by (apply D_le; [exact W|lia|lia]).
  assert (Hsl : forall x, sl (if 0 <? lp s then ev_insert (lp s, d) (ev s) else ev s) x
                        = (if (0 <? lp s) && (x <? lp s) then d else 0) + sl (ev s) x).
  { intros x. destruct (0 <? lp s); cbn [andb]; [rewrite sl_insert; reflexivity|lia]. }
  constructor; cbn [lp ev lo os pp].
  - exact Hlp.
  - destruct (Z.ltb_spec 0 (lp s)); [apply EvOK_insert; [apply I|cbn; lia]|apply I].
  - exact Hlo1.
  - apply I.
  - pose proof (l_oslo _ I). lia.
  - lia.
  - lia.
  - intros x. rewrite !Hsl. pose proof (l_conv _ I x) as Cx.
    destruct (Z.ltb_spec 0 (lp s)) as [H0|H0]; cbn [andb]; [|lia].
    destruct (Z.ltb_spec (x + 1) (lp s)); destruct (Z.ltb_spec x (lp s)); try lia.
    assert (x = lp s - 1) by lia. subst x. replace (lp s - 1 + 1) with (lp s) in * by lia.
    rewrite (sl_at_lp s (l_ev _ I) (lp s)) by lia. specialize (Hdec H0). subst d. lia.
  - intros x Hx. rewrite Hsl, (l_T1 _ I x Hx).
    destruct (Z.ltb_spec 0 (lp s)); [|lia]. destruct (Z.ltb_spec x (lp s)); [|lia]. cbn [andb]. subst d. lia.
  - apply I.
Qed.

(* pushToLastSink *)
Lemma ptls_linv s : Linv s -> 0 < lp s -> D (lo s + 1) - Sx P (i + 1) < lp s ->
  ((lo s + 1 < m)%nat -> sl (ev s) (lp s - 1) + c i (lo s) < c i (lo s + 1)) ->
  Linv (push_to_last_sink P i s).
Proof.
  intros I Hlp Hc Hdec. unfold push_to_last_sink.
  pose proof (get_slope_spec true s (l_ev _ I) Hlp) as G. cbv zeta in G.
  destruct (get_slope true s) as [sl0 s1]. cbn [fst snd] in G.
  destruct G as (G0 & G1 & G2 & G3 & _ & G4). destruct (G4 eq_refl) as (Q1 & Q2 & Q3). clear G4.
  set (minPos := Z.max (D (lo s + 1) - Sx P (i + 1)) 0).
  set (lp' := match ev s1 with [] => minPos | (p, _) :: _ => Z.max minPos p end).
  assert (A1 : minPos <= lp' < lp s).
  { subst lp'. destruct (ev s1) as [|[p d0] t]; [lia|]. specialize (Q2 (p, d0) (or_introl eq_refl)). cbn in Q2. lia. }
  assert (A2 : forall e, In e (ev s1) -> fst e <= lp').
  { subst lp'. destruct (ev s1) as [|[p d0] t]; [intros e []|].
    intros e [<-|He]; [cbn; lia|]. pose proof (sorted_head_max _ _ Q1 e He) as Q. cbn in Q. lia. }
  clearbody lp'.
  assert (Hsl : forall x, sl (if 0 <? lp' then ev_insert (lp', sl0) (ev s1) else ev s1) x
                        = if (0 <? lp') && (x <? lp') then sl (ev s) x else 0).
  { intros x. destruct (Z.ltb_spec 0 lp') as [H0|H0]; cbn [andb].
    - rewrite sl_insert. cbn [fst snd]. destruct (Z.ltb_spec x lp') as [Hx|Hx].
      + rewrite Q3. destruct (Z.ltb_spec x (lp s)); lia.
      + rewrite sl_above; [lia|]. intros e He. specialize (A2 e He). lia.
    - assert (E : ev s1 = []).
      { destruct (ev s1) as [|e t]; [reflexivity|]. specialize (A2 e (or_introl eq_refl)).
        specialize (Q2 e (or_introl eq_refl)). lia. }
      rewrite E. reflexivity. }
  pose proof (l_lo _ I) as Hlo.
  assert (HD : D (lo s) < D (lo s + 1)) by (apply Dx_step; [exact W|lia]).
  constructor; cbn [lp ev lo os pp]; rewrite ?G2, ?G3.
  - subst minPos. lia.
  - destruct (Z.ltb_spec 0 lp') as [H0|H0].
    + apply EvOK_insert; [|cbn; lia]. split; [exact Q1|]. intros e He. specialize (Q2 e He). specialize (A2 e He). lia.
    + split; [exact Q1|]. intros e He. specialize (Q2 e He). specialize (A2 e He). lia.
  - exact Hlo.
  - apply I.
  - apply I.
  - subst minPos. lia.
  - pose proof (l_beg _ I). lia.
  - intros x. rewrite !Hsl. pose proof (l_conv _ I x) as Cx.
    destruct (Z.ltb_spec 0 lp'); cbn [andb]; [|lia].
    destruct (Z.ltb_spec (x + 1) lp'); destruct (Z.ltb_spec x lp'); try lia.
    pose proof (conv_mono _ (l_conv _ I) x (lp s) ltac:(lia)) as Cm.
    rewrite (sl_at_lp s (l_ev _ I) (lp s)) in Cm by lia. lia.
  - intros x Hx. rewrite Hsl. destruct (Z.ltb_spec 0 lp'); [|lia]. destruct (Z.ltb_spec x lp'); [|lia]. cbn [andb]. apply (l_T1 _ I). lia.
  - intros x Hx Ht. destruct (Z.le_gt_cases (lp s) x) as [Hge|Hlt]; [apply (l_T2 _ I); assumption|].
    pose proof (l_T1 _ I x ltac:(subst minPos; lia)) as T1.
    assert (E : sl (ev s) x = sl0).
    { rewrite Q3. destruct (Z.ltb_spec x (lp s)); [|lia]. rewrite sl_above; [lia|].
      intros e He. specialize (A2 e He). lia. }
    unfold topx in Ht.
    destruct (gc_right s (Sx P (i + 1) + x) I ltac:(subst minPos; lia) ltac:(lia)) as [Hlo1 Hg].
    specialize (Hdec Hlo1). rewrite <- G0 in Hdec. lia.
Qed.

Lemma Linv_ext s s1 : Linv s -> lp s1 = lp s -> lo s1 = lo s -> os s1 = os s -> EvOK (lp s) (ev s1) ->
  (forall x, sl (ev s1) x = sl (ev s) x) -> Linv s1.
Proof.
  intros I E1 E2 E3 OK Hsl. constructor; rewrite ?E1, ?E2, ?E3; try apply I.
  - exact OK.
  - intros x. rewrite !Hsl. apply (l_conv _ I).
  - intros x Hx. rewrite Hsl. apply (l_T1 _ I). exact Hx.
Qed.

Lemma push_once_linv s : Linv s -> D (lo s + 1) - Sx P (i + 1) < lp s -> Linv (push_once P i s).
Proof.
  intros I Hc. unfold push_once. pose proof (l_lo _ I) as Hlo. pose proof (l_lp _ I) as Hlp0. pose proof Hfe as Hfe.
  destruct (Nat.eqb_spec (lo s) (m - 1)) as [Elo|Elo].
  - assert (Hlp : 0 < lp s). { replace (lo s + 1)%nat with m in Hc by lia. lia. }
    apply ptls_linv; try assumption. intros; lia.
  - destruct (Z.eqb_spec (lp s) 0) as [E0|E0].
    + apply ptns_linv; try assumption; [lia|intros; lia].
    + assert (Hlp : 0 < lp s) by lia.
      pose proof (get_slope_spec false s (l_ev _ I) Hlp) as G. cbv zeta in G.
      destruct (get_slope false s) as [sl0 s1]. cbn [fst snd] in G.
      destruct G as (G0 & G1 & G2 & G3 & G4 & _). destruct (G4 eq_refl) as [Q1 Q2]. clear G4.
      pose proof (Linv_ext s s1 I G1 G2 G3 Q1 Q2) as I1.
      destruct (Z.leb_spec (c i (lo s + 1)) (sl0 + c i (lo s))) as [Hd|Hd].
      * apply ptns_linv; rewrite ?G1, ?G2, ?Q2; try assumption; [lia|]. intros _. lia.
      * apply ptls_linv; rewrite ?G1, ?G2, ?Q2; try assumption. intros _. lia.
Qed.

Lemma push_loop_linv : forall fuel s s', Linv s -> push_loop P i fuel s = Some s' ->
  Linv s' /\ lp s' <= D (lo s' + 1) - Sx P (i + 1).
Proof.
  induction fuel as [|f IH]; intros s s' I H; cbn [push_loop] in H.
  - destruct (Z.ltb_spec (D (lo s + 1) - Sx P (i + 1)) (lp s)); [discriminate|]. inversion H; subst. auto.
  - destruct (Z.ltb_spec (D (lo s + 1) - Sx P (i + 1)) (lp s)) as [Hc|Hc].
    + apply (IH _ _ (push_once_linv s I Hc) H).
    + inversion H; subst. auto.
Qed.

(* cells on one side of the optimal sink *)
Lemma gc_mono_right o b y : OS P i o -> D o <= b -> b <= y -> y < D m -> gc P i b <= gc P i y.
Proof.
  intros Ho Hb Hby Hy. pose proof (Dx_0 P W) as D0. destruct Ho as (Hom & Ho').
  assert (D 0 <= D o) by (apply D_le; [exact W|lia|lia]).
  destruct (sink_of_cell P W b ltac:(lia)) as (jb & Hjb & Bb).
  destruct (sink_of_cell P W y ltac:(lia)) as (jy & Hjy & By).
  rewrite (gc_in_sink P W i jb b Hjb Bb), (gc_in_sink P W i jy y Hjy By).
  assert ((o <= jb)%nat).
  { destruct (Nat.lt_ge_cases jb o) as [Hlt|Hge]; [|exact Hge].
    assert (D (jb + 1) <= D o) by (apply D_le; [exact W|lia|lia]). lia. }
  assert ((jb <= jy)%nat).
  { destruct (Nat.lt_ge_cases jy jb) as [Hlt|Hge]; [|exact Hge].
    assert (D (jy + 1) <= D jb) by (apply D_le; [exact W|lia|lia]). lia. }
  apply (OS_right P So i o (conj Hom Ho')); lia.
Qed.

Lemma gc_mono_left o b y : OS P i o -> 0 <= b -> b <= y -> y < D (o + 1) -> gc P i y <= gc P i b.
Proof.
  intros Ho Hb Hby Hy. destruct Ho as (Hom & Ho').
  assert (D (o + 1) <= D m) by (apply D_le; [exact W|lia|lia]).
  destruct (sink_of_cell P W b ltac:(lia)) as (jb & Hjb & Bb).
  destruct (sink_of_cell P W y ltac:(lia)) as (jy & Hjy & By).
  rewrite (gc_in_sink P W i jb b Hjb Bb), (gc_in_sink P W i jy y Hjy By).
  assert ((jy <= o)%nat).
  { destruct (Nat.lt_ge_cases o jy) as [Hlt|Hge]; [|exact Hge].
    assert (D (o + 1) <= D jy) by (apply D_le; [exact W|lia|lia]). lia. }
  assert ((jb <= jy)%nat).
  { destruct (Nat.lt_ge_cases jy jb) as [Hlt|Hge]; [|exact Hge].
    assert (D (jy + 1) <= D jb) by (apply D_le; [exact W|lia|lia]). lia. }
  apply (OS_left P i o (conj Hom Ho')); lia.
Qed.

Lemma Sx_nonneg k : (k <= n_src P)%nat -> 0 <= Sx P k.
Proof. intros Hk. pose proof (Sx_mono P W 0 k ltac:(lia) Hk). rewrite Sx_0 in H by exact W. exact H. Qed.

(* at the exit of the loop: Wf is non-increasing left of lastPosition *)
Lemma exit_T3 s : Linv s -> lp s <= D (lo s + 1) - Sx P (i + 1) ->
  (forall x, 0 <= x -> x + 1 <= D m - Sx P i -> Vp (x + 1) <= Vp x) ->
  forall x, 0 <= x < lp s -> Wf (x + 1) <= Wf x.
Proof.
  intros I He Hmono x Hx. pose proof (l_lo _ I) as Hlo.
  pose proof (Sx_nonneg i ltac:(lia)) as S0. pose proof (Sx_step P W i Hi) as S1.
  assert (HDm : D (lo s + 1) <= D m) by (apply D_le; [exact W|lia|lia]).
  set (y := Sx P (i + 1) + x).
  destruct (Z.lt_ge_cases y (D (os s + 1))) as [Hl|Hr].
  - (* the last cell is left of the end of the optimal sink: both ends prefer the right *)
    unfold Wf. pose proof (fc_step P i x) as F.
    pose proof (gc_mono_left (os s) (Sx P i + x) y (l_os _ I) ltac:(lia) ltac:(subst y; lia) Hl) as G.
    fold y in F. specialize (Hmono x ltac:(lia) ltac:(lia)). lia.
  - pose proof (l_T1 _ I x Hx) as T1. fold y in T1.
    assert (Hos1 : (os s + 1 <= lo s)%nat).
    { destruct (Nat.lt_ge_cases (lo s) (os s + 1)) as [Hlt|Hge]; [|exact Hge].
      assert (D (lo s + 1) <= D (os s + 1)) by (apply D_le; [exact W|lia|pose proof (l_oslo _ I); lia]). subst y. lia. }
    assert (G : gc P i y <= c i (lo s)).
    { assert (D 0 <= D (os s + 1)) by (apply D_le; [exact W|lia|lia]). pose proof (Dx_0 P W).
      destruct (sink_of_cell P W y ltac:(subst y; lia)) as (jy & Hjy & By).
      rewrite (gc_in_sink P W i jy y Hjy By).
      assert ((jy <= lo s)%nat).
      { destruct (Nat.lt_ge_cases (lo s) jy) as [Hlt|Hge]; [|exact Hge].
        assert (D (lo s + 1) <= D jy) by (apply D_le; [exact W|lia|lia]). subst y. lia. }
      assert ((os s <= jy)%nat).
      { destruct (Nat.lt_ge_cases jy (os s)) as [Hlt|Hge]; [|exact Hge].
        assert (D (jy + 1) <= D (os s + 1)) by (apply D_le; [exact W|lia|lia]). lia. }
      apply (OS_right P So i (os s) (l_os _ I)); lia. }
    pose proof (conv_mono _ (l_conv _ I) x (lp s) ltac:(lia)) as Cm.
    rewrite (sl_at_lp s (l_ev _ I) (lp s)) in Cm by lia. lia.
Qed.
End Loop.
