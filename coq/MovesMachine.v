(* C07: the C++-typed intermediate values of the position arithmetic of DetailedPlacement
   (src/place_detailed/detailed_placement.cpp: boundaryBefore/After 268-284, siteBegin/End 300-307,
   canPlace 316-321, canInsert 323-341, canSwap 343-366, insert 414-421, swap 423-446,
   positionsOnSwap 448-464, positionOnInsert 466-470) over the ideal model Moves.v.  Every value is an
   `int` (I32 of RowLegMachine.v); cellX_/cellWidth_/rows_ are vectors of int.
   The type annotations are transcribed BY HAND from the C++ text (modelled, not verified).
   Where the C++ short-circuits (`a && b`) the list contains both operands' values: a superset of what
   is evaluated, so "every listed value fits" is the stronger statement.
   site_begin lo a is, in the C++, rows_[row].minX when pred == -1 and the single sum
   cellX(pred) + cellWidth(pred) otherwise (the model folds over the cells before the site; the value is
   the same: site_begin_last in MovesMachineProofs.v). *)
From Coq Require Import List ZArith Lia Bool.
Import ListNotations.
Require Import CV.Orient CV.Moves CV.RowLegMachine.
Local Open Scope Z_scope.

(* place(c, row, pred, x) -> canPlace: x >= siteBegin(row, pred) && x + cellWidth(c) <= siteEnd(row, pred) *)
Definition place_vals (s : dstate) (id rowi : nat) (pred : option nat) (x : Z) : list (cty * Z) :=
  match take_loose id (d_loose s), nth_error (d_rows s) rowi with
  | Some (c, _), Some r =>
    match split_site pred (dr_cells r) with
    | Some (a, b) => [(I32, x);                                   (* the int argument x *)
                      (I32, site_begin (dr_min r) a);             (* siteBegin: cellX(pred) + cellWidth(pred) *)
                      (I32, x + p_w c);                           (* x + cellWidth(c) *)
                      (I32, site_end (dr_max r) b)]               (* siteEnd *)
    | None => [] end
  | _, _ => []
  end.

(* canInsert(c, row, pred): siteEnd(row, pred) - siteBegin(row, pred) >= cellWidth(c) *)
Definition can_insert_vals (s : dstate) (id rowi : nat) (pred : option nat) : list (cty * Z) :=
  match find_row (d_rows s) id 0, nth_error (d_rows s) rowi with
  | Some (ri, _, a, c, _), Some r =>
    if opt_nat_eqb (Some id) pred then []
    else if Nat.eqb ri rowi && opt_nat_eqb (pred_of a) pred then []
    else if negb (row_allowed (p_pol c) r) then []
    else match split_site pred (dr_cells r) with
         | Some (sa, sb) => [(I32, site_end (dr_max r) sb); (I32, site_begin (dr_min r) sa);
                             (I32, site_end (dr_max r) sb - site_begin (dr_min r) sa)]
         | None => [] end
  | _, _ => []
  end.

(* insert(c, row, pred) = canInsert; positionOnInsert: int x = (siteEnd - cellWidth(c) + siteBegin) / 2;
   unplace(c); place(c, row, pred, pos.x) *)
Definition insert_vals (s : dstate) (id rowi : nat) (pred : option nat) : list (cty * Z) :=
  can_insert_vals s id rowi pred ++
  match can_insert s id rowi pred with
  | Some true =>
    match find_row (d_rows s) id 0, nth_error (d_rows s) rowi with
    | Some (_, _, _, c, _), Some r =>
      match split_site pred (dr_cells r) with
      | Some (sa, sb) =>
        let se := site_end (dr_max r) sb in let sb' := site_begin (dr_min r) sa in
        let x := Z.quot (se - p_w c + sb') 2 in
        [(I32, se); (I32, se - p_w c); (I32, sb'); (I32, se - p_w c + sb'); (I32, x)] ++
        match unplace s id with Some s1 => place_vals s1 id rowi pred x | None => [] end
      | None => [] end
    | _, _ => [] end
  | _ => []
  end.

(* canSwap(c1, c2): b = boundaryBefore, e = boundaryAfter; e2 - b2 >= cellWidth(c1) && e1 - b1 >= cellWidth(c2) *)
Definition can_swap_vals (s : dstate) (c1 c2 : nat) : list (cty * Z) :=
  match find_row (d_rows s) c1 0, find_row (d_rows s) c2 0 with
  | Some (_, r1, a1, m1, b1), Some (_, r2, a2, m2, b2) =>
    if Nat.eqb c1 c2 then []
    else if negb (row_allowed (p_pol m1) r2) || negb (row_allowed (p_pol m2) r1) then []
    else if opt_nat_eqb (pred_of a1) (Some c2) || opt_nat_eqb (pred_of a2) (Some c1) then []
    else let '(bb1, ba1) := bounds_of r1 a1 b1 in
         let '(bb2, ba2) := bounds_of r2 a2 b2 in
         [(I32, bb1); (I32, bb2); (I32, ba1); (I32, ba2); (I32, ba2 - bb2); (I32, ba1 - bb1)]
  | _, _ => []
  end.

(* swap(c1, c2) = canSwap; positionsOnSwap; unplace x2; place x2 (three orders) *)
Definition swap_vals (s : dstate) (c1 c2 : nat) : list (cty * Z) :=
  can_swap_vals s c1 c2 ++
  match can_swap s c1 c2 with
  | Some true =>
    match find_row (d_rows s) c1 0, find_row (d_rows s) c2 0 with
    | Some (i1, r1, a1, m1, b1), Some (i2, r2, a2, m2, b2) =>
      let p1 := pred_of a1 in let p2 := pred_of a2 in
      let '(bb1, ba1) := bounds_of r1 a1 b1 in
      let '(bb2, ba2) := bounds_of r2 a2 b2 in
      let x1 := if opt_nat_eqb p1 (Some c2) then p_x m2
                else if opt_nat_eqb p2 (Some c1) then p_x m1 + p_w m2
                else Z.quot (bb2 + ba2 - p_w m1) 2 in
      let x2 := if opt_nat_eqb p1 (Some c2) then p_x m2 + p_w m1
                else if opt_nat_eqb p2 (Some c1) then p_x m1
                else Z.quot (bb1 + ba1 - p_w m2) 2 in
      (if opt_nat_eqb p1 (Some c2) then [(I32, p_x m2); (I32, p_x m2 + p_w m1)]             (* x1 = p2.x; x2 = p2.x + cellWidth(c1) *)
       else if opt_nat_eqb p2 (Some c1) then [(I32, p_x m1); (I32, p_x m1 + p_w m2)]        (* x2 = p1.x; x1 = p1.x + cellWidth(c2) *)
       else [(I32, bb2); (I32, ba2); (I32, bb2 + ba2); (I32, bb2 + ba2 - p_w m1); (I32, x1);    (* (before(c2) + after(c2) - w(c1)) / 2 *)
             (I32, bb1); (I32, ba1); (I32, bb1 + ba1); (I32, bb1 + ba1 - p_w m2); (I32, x2)]) ++
      match unplace s c1 with
      | Some s1 =>
        match unplace s1 c2 with
        | Some s2 =>
          if opt_nat_eqb p1 (Some c2) then
            place_vals s2 c1 i2 p2 x1 ++
            match place s2 c1 i2 p2 x1 with Some s3 => place_vals s3 c2 i1 (Some c1) x2 | None => [] end
          else if opt_nat_eqb p2 (Some c1) then
            place_vals s2 c2 i1 p1 x2 ++
            match place s2 c2 i1 p1 x2 with Some s3 => place_vals s3 c1 i2 (Some c2) x1 | None => [] end
          else
            place_vals s2 c1 i2 p2 x1 ++
            match place s2 c1 i2 p2 x1 with Some s3 => place_vals s3 c2 i1 p1 x2 | None => [] end
        | None => [] end
      | None => [] end
    | _, _ => [] end
  | _ => []
  end.

(* histories *)
Definition mop_vals (s : dstate) (o : mop) : list (cty * Z) :=
  match o with
  | MSwap c1 c2 => swap_vals s c1 c2
  | MInsert c r p => insert_vals s c r p
  | MUnplace _ => []                                              (* unplace: index updates only *)
  | MPlace c r p x => place_vals s c r p x
  end.

Fixpoint run_mops_vals (s : dstate) (ops : list mop) : list (cty * Z) :=
  match ops with
  | [] => []
  | o :: r => mop_vals s o ++ run_mops_vals (step_mop s o) r
  end.

(* ---------- the domain ---------- *)
(* rows inside [-2^22, 2^22]; unplaced cells not wider than 2^23 *)
Definition row_mag (r : drow) : Prop := -4194304 <= dr_min r /\ dr_max r <= 4194304.
Definition mag (s : dstate) : Prop :=
  Forall row_mag (d_rows s) /\ Forall (fun c => p_w c <= 8388608) (d_loose s).
(* a caller-supplied x of place() within [-2^24, 2^24] *)
Definition mop_ok (o : mop) : Prop :=
  match o with MPlace _ _ _ x => -16777216 <= x <= 16777216 | _ => True end.
