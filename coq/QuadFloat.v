(* C17 -- binary32 (Flocq, IEEE-754 round-to-nearest-even) model of the matrix assembly of the continuous model:
   MatrixCreator::addFixedPin / addMovingPin / addPin / addCell / addPenalty / addBipoint / addClique / addStar /
   addLightStar / addB2B / create* / finalize and NetModel::pinPosition / minPin / maxPin of
   /repo/src/place_global/net_model.{hpp,cpp}.  The exact model over Q is CV.Quad; this file follows the same lines with
   every C++ `float` operator replaced by the correctly rounded operation of Flocq's BinarySingleNaN (prec 24, emax 128),
   in the operation order of the C++ (every literal of these functions is a `float` literal: 0.0f, 0.5f, 2.0f, 1.0e-8f;
   the `int` operands nb, nb - 1, nb * (nb - 1) are converted to float by the usual arithmetic conversions).
   The harness and the library are compiled for x86-64 with -O1, without -ffast-math and without -mfma (SSE scalar
   arithmetic, FLT_EVAL_METHOD = 0, no contraction of `rhs += w * d`): one C++ operator = one rounding.
   NaN payloads are not modelled (BinarySingleNaN has a single NaN).

   Besides the values, every function computes a boolean flag (`fp_ok` of a call of addPin, `fs_ok` of the system):
   the SIDE CONDITION of the power-of-two scaling theorem (QuadFloatProofs.v): it is true when every rounded operation
   whose operand depends on a net weight or on a penalty strength (the quantities that are scaled) returned a finite
   value that is either an exact zero or of magnitude > 2^-126 = FLT_MIN (no overflow, no result in the subnormal
   range, no underflow to zero).  The flags do not influence the values.
   Definitions only; the proofs are in QuadFloatProofs.v. *)
From Coq Require Import ZArith List Bool Reals.
From Flocq Require Import Core BinarySingleNaN.
Require Import CV.Quad.
Import ListNotations.
Local Open Scope Z_scope.

(* ------------------------------------------------------------------ binary32 *)
Definition f32 := binary_float 24 128.
Definition q24 : Prec_gt_0 24 := eq_refl.
Definition q24_128 : Prec_lt_emax 24 128 := eq_refl.

Definition fadd : f32 -> f32 -> f32 := @Bplus 24 128 q24 q24_128 mode_NE.
Definition fsub : f32 -> f32 -> f32 := @Bminus 24 128 q24 q24_128 mode_NE.
Definition fmul : f32 -> f32 -> f32 := @Bmult 24 128 q24 q24_128 mode_NE.
Definition fdiv : f32 -> f32 -> f32 := @Bdiv 24 128 q24 q24_128 mode_NE.
Definition fopp : f32 -> f32 := @Bopp 24 128.          (* unary minus *)
Definition fabs : f32 -> f32 := @Babs 24 128.          (* std::abs *)
Definition fltb : f32 -> f32 -> bool := @Bltb 24 128.  (* operator< (false when an operand is NaN) *)

(* (float)z for an int z: correctly rounded conversion;  m * 2^e rounded to binary32 (literals, test vectors) *)
Definition f_of_Z (z : Z) : f32 := @binary_normalize 24 128 q24 q24_128 mode_NE z 0 false.
Definition f_of_me (m e : Z) : f32 := @binary_normalize 24 128 q24 q24_128 mode_NE m e false.

Definition fzero : f32 := B754_zero false.                          (* 0.0f *)
Definition fhalf : f32 := @B754_finite 24 128 false 8388608 (-24) eq_refl.   (* 0.5f *)
Definition ftwo : f32 := @B754_finite 24 128 false 8388608 (-22) eq_refl.    (* 2.0f *)
Definition freg : f32 := @B754_finite 24 128 false 11258999 (-50) eq_refl.   (* 1.0e-8f = 11258999 * 2^-50 *)
Definition fpinf : f32 := B754_infinity false.                       (* +infinity *)
Definition fninf : f32 := B754_infinity true.                        (* -infinity *)
Definition flt_min : f32 := @B754_finite 24 128 false 8388608 (-149) eq_refl. (* FLT_MIN = 2^-126 *)

(* std::min(a,b) = (b < a) ? b : a      std::max(a,b) = (a < b) ? b : a *)
Definition fmin_std (a b : f32) : f32 := if fltb b a then b else a.
Definition fmax_std (a b : f32) : f32 := if fltb a b then b else a.

(* the rounding operator the binary32 operations implement on finite, non-overflowing values *)
Definition rnd32 (x : R) : R := round radix2 (FLT_exp (-149) 24) ZnearestE x.
Definition fmt32 (x : R) : Prop := generic_format radix2 (FLT_exp (-149) 24) x.

(* ------------------------------------------------------------------ side condition of the scaling theorem *)
Definition fis_zero (x : f32) : bool := match x with B754_zero _ => true | _ => false end.
(* FLT_MIN < |v|  (false for NaN) *)
Definition fnormal (v : f32) : bool := fltb flt_min (fabs v).
(* v = a * d (either order), a scaled, d not scaled: finite, and exact zero (a zero operand) or above FLT_MIN *)
Definition ok_mul (a d v : f32) : bool := is_finite v && (fis_zero a || fis_zero d || fnormal v).
(* v = a / d, a scaled, d not scaled *)
Definition ok_div (a d v : f32) : bool := is_finite v && is_finite d && (fis_zero a || fnormal v).
(* v = a + b, both scaled: a zero result of a binary32 addition is always exact *)
Definition ok_add (v : f32) : bool := is_finite v && (fis_zero v || fnormal v).

(* ------------------------------------------------------------------ NetModel *)
(* netWeight_[n] and the slice of netCells_/netPinOffsets_ of net n *)
Record fnet := mkFNet { fn_weight : f32; fn_pins : list (Z * f32) }.
Record fnetmodel := mkFNM { fnm_cells : nat; fnm_nets : list fnet }.

(* pinPosition(net, pin, pl), net_model.hpp:94-100: (c == -1 ? 0.0f : pl[c]) + offset *)
Definition fpin_position (p : Z * f32) (pl : list f32) : f32 :=
  fadd (if fst p =? -1 then fzero else nth (Z.to_nat (fst p)) pl fzero) (snd p).

(* NetModel::minPin, net_model.cpp:208-224: state (bestI, bestC, bestO, bestPos), initially (0, -1, +inf, +inf);
   `pos < bestPos` is false for NaN *)
Definition fextreme := (nat * Z * f32 * f32)%type.
Definition fmin_pin_step (pl : list f32) (best : fextreme) (ip : nat * (Z * f32)) : fextreme :=
  let pos := fpin_position (snd ip) pl in
  let '(_, _, _, bp) := best in
  if fltb pos bp then (fst ip, fst (snd ip), snd (snd ip), pos) else best.
Definition fmax_pin_step (pl : list f32) (best : fextreme) (ip : nat * (Z * f32)) : fextreme :=
  let pos := fpin_position (snd ip) pl in
  let '(_, _, _, bp) := best in
  if fltb bp pos then (fst ip, fst (snd ip), snd (snd ip), pos) else best.
Definition fmin_pin (pins : list (Z * f32)) (pl : list f32) : fextreme :=
  fold_left (fmin_pin_step pl) (indexed pins) (O, -1, fpinf, fpinf).
Definition fmax_pin (pins : list (Z * f32)) (pl : list f32) : fextreme :=
  fold_left (fmax_pin_step pl) (indexed pins) (O, -1, fninf, fninf).

(* ------------------------------------------------------------------ MatrixCreator *)
(* Eigen::Triplet<float>(row, col, value) *)
Record ftrip := mkFT { ft_row : Z; ft_col : Z; ft_val : f32 }.
(* mat_, rhs_, initial_, hasNonZero_, and the side-condition flag *)
Record fsys := mkFSys { fs_mat : list ftrip; fs_rhs : list f32; fs_init : list f32; fs_nz : list bool; fs_ok : bool }.

(* MatrixCreator(topo), net_model.cpp:249-257: value-initialised vectors (0.0f) *)
Definition fsys_empty (n : nat) : fsys := mkFSys [] (repeat fzero n) (repeat fzero n) (repeat false n) true.
Definition fmat_size (s : fsys) : nat := length (fs_rhs s).

(* one call addPin(c1, c2, offs1, offs2, weight); fp_ok: the operations that computed `weight` from the net weight
   (or penalty strength) satisfied the side condition *)
Record fpinop := mkFOp { fp_c1 : Z; fp_c2 : Z; fp_o1 : f32; fp_o2 : f32; fp_w : f32; fp_ok : bool }.

(* rhs_[c] += w * d : one product, one sum (no contraction) *)
Definition frhs_add (c : Z) (w d : f32) (rhs : list f32) : list f32 * bool :=
  let m := fmul w d in
  let v := fadd (nth (Z.to_nat c) rhs fzero) m in
  (upd (Z.to_nat c) (fun r => fadd r m) rhs, ok_mul w d m && ok_add v).

(* addFixedPin(c1, offs1, pos, weight), net_model.cpp:344-349 *)
Definition fadd_fixed_pin (c1 : Z) (offs1 pos w : f32) (wok : bool) (s : fsys) : fsys :=
  let '(rhs, ok) := frhs_add c1 w (fsub pos offs1) (fs_rhs s) in              (* :347 *)
  mkFSys (fs_mat s ++ [mkFT c1 c1 w]) rhs (fs_init s)
         (upd (Z.to_nat c1) (fun _ => true) (fs_nz s)) (fs_ok s && wok && ok).

(* addMovingPin(c1, c2, offs1, offs2, weight), net_model.cpp:327-342 *)
Definition fadd_moving_pin (c1 c2 : Z) (offs1 offs2 w : f32) (wok : bool) (s : fsys) : fsys :=
  if c1 =? c2 then s else
  let '(rhs1, ok1) := frhs_add c1 w (fsub offs2 offs1) (fs_rhs s) in          (* :337 *)
  let '(rhs2, ok2) := frhs_add c2 w (fsub offs1 offs2) rhs1 in                (* :338 *)
  mkFSys (fs_mat s ++ [mkFT c1 c2 (fopp w); mkFT c2 c1 (fopp w); mkFT c1 c1 w; mkFT c2 c2 w])
         rhs2 (fs_init s)
         (upd (Z.to_nat c2) (fun _ => true) (upd (Z.to_nat c1) (fun _ => true) (fs_nz s)))
         (fs_ok s && wok && ok1 && ok2).

(* addPin(c1, c2, offs1, offs2, weight), net_model.cpp:351-365 *)
Definition fadd_pin (o : fpinop) (s : fsys) : fsys :=
  if fp_c1 o =? fp_c2 o then s
  else if fp_c1 o =? -1 then fadd_fixed_pin (fp_c2 o) (fp_o2 o) (fp_o1 o) (fp_w o) (fp_ok o) s
  else if fp_c2 o =? -1 then fadd_fixed_pin (fp_c1 o) (fp_o1 o) (fp_o2 o) (fp_w o) (fp_ok o) s
  else fadd_moving_pin (fp_c1 o) (fp_c2 o) (fp_o1 o) (fp_o2 o) (fp_w o) (fp_ok o) s.

(* a sequence of addPin calls, in program order *)
Definition fapply_ops (ops : list fpinop) (s : fsys) : fsys := fold_left (fun s o => fadd_pin o s) ops s.

(* addCell(initialPos), net_model.cpp:381-388 *)
Definition fadd_cell (initialPos : f32) (s : fsys) : Z * fsys :=
  (Z.of_nat (fmat_size s),
   mkFSys (fs_mat s) (fs_rhs s ++ [fzero]) (fs_init s ++ [initialPos]) (fs_nz s ++ [false]) (fs_ok s)).

(* addPenalty(netPlacement, placementTarget, penaltyStrength, cutoffDistance), net_model.cpp:367-379 *)
Fixpoint fpenalty_ops (i : Z) (pl tg st : list f32) (cutoff : f32) : list fpinop :=
  match pl, tg, st with
  | p :: pl', t :: tg', k :: st' =>
    let dist := fabs (fsub p t) in                                             (* :375 *)
    let d := fmax_std dist cutoff in
    let strength := fdiv k d in                                                (* :376 *)
    (* addFixedPin(i, 0.0f, target, strength) = addPin(i, -1, 0.0f, target, strength) for i >= 0 *)
    mkFOp i (-1) fzero t strength (ok_div k d strength) :: fpenalty_ops (i + 1) pl' tg' st' cutoff
  | _, _, _ => []
  end.
Definition fadd_penalty (pl tg st : list f32) (cutoff : f32) (s : fsys) : fsys :=
  fapply_ops (fpenalty_ops 0 pl tg st cutoff) s.

(* (float)nb for the int nbPins(net) *)
Definition fnat (n : nat) : f32 := f_of_Z (Z.of_nat n).

(* ---- models without placement *)

(* addBipoint(net), net_model.cpp:454-457 *)
Definition fbipoint_ops (w : f32) (pins : list (Z * f32)) : list fpinop :=
  match pins with
  | p0 :: p1 :: _ => [mkFOp (fst p0) (fst p1) (snd p0) (snd p1) w true]
  | _ => []
  end.

(* all pairs i < j in the order of the two nested loops *)
Fixpoint fpair_ops (f : Z * f32 -> Z * f32 -> fpinop) (pins : list (Z * f32)) : list fpinop :=
  match pins with
  | [] => []
  | p :: r => map (f p) r ++ fpair_ops f r
  end.

(* float w = 2.0f * netWeight / (nb * (nb - 1)), net_model.cpp:461 and :495: (2.0f * w) / (float)(int product).
   The int product is modelled in Z (it overflows `int` for nets of more than 46341 pins: outside the model). *)
Definition fclique_w (wn : f32) (n : nat) : f32 * bool :=
  let nb := Z.of_nat n in
  let w2 := fmul ftwo wn in
  let d := f_of_Z (nb * (nb - 1)) in
  let w := fdiv w2 d in
  (w, ok_mul wn ftwo w2 && ok_div w2 d w).

(* addClique(net), net_model.cpp:459-468 *)
Definition fclique_ops (wn : f32) (pins : list (Z * f32)) : list fpinop :=
  let '(w, ok) := fclique_w wn (length pins) in
  fpair_ops (fun pi pj => mkFOp (fst pi) (fst pj) (snd pi) (snd pj) w ok) pins.

(* MatrixCreator::singleCellNet(net) (repair of finding F25) and the condition `nb <= 2 || singleCellNet(net)` *)
Definition fsingle_cell (pins : list (Z * f32)) : bool :=
  match pins with
  | [] => true
  | p :: r => forallb (fun q : Z * f32 => fst q =? fst p) r
  end.
Definition fbip_like (pins : list (Z * f32)) : bool := (length pins <=? 2)%nat || fsingle_cell pins.

(* addStar(net), net_model.cpp:470-481 *)
Definition fstar_ops (wn : f32) (pins : list (Z * f32)) (c : Z) : list fpinop :=
  let d := fnat (length pins) in
  let w := fdiv wn d in                                                        (* :475 *)
  map (fun p => mkFOp (fst p) c (snd p) fzero w (ok_div wn d w)) pins.         (* :477-479 *)

(* ---- models built around a placement *)

(* std::max(epsilon, X) of the distance clamps *)
Definition fclamp (eps x : f32) : f32 := fmax_std eps x.

(* addBipoint(net, pl, epsilon), net_model.cpp:483-490 *)
Definition fbipoint_pl_ops (wn : f32) (pins : list (Z * f32)) (pl : list f32) (eps : f32) : list fpinop :=
  match pins with
  | p0 :: p1 :: _ =>
    let d := fclamp eps (fabs (fsub (fpin_position p0 pl) (fpin_position p1 pl))) in
    let w := fdiv wn d in
    [mkFOp (fst p0) (fst p1) (snd p0) (snd p1) w (ok_div wn d w)]
  | _ => []
  end.

(* addClique(net, pl, epsilon), net_model.cpp:492-505 *)
Definition fclique_pl_ops (wn : f32) (pins : list (Z * f32)) (pl : list f32) (eps : f32) : list fpinop :=
  let '(w, ok) := fclique_w wn (length pins) in                                (* :495 *)
  fpair_ops (fun pi pj =>
               let d := fclamp eps (fabs (fsub (fpin_position pi pl) (fpin_position pj pl))) in
               let distW := fdiv w d in                                        (* :498-500 *)
               mkFOp (fst pi) (fst pj) (snd pi) (snd pj) distW (ok && ok_div w d distW)) pins.

(* float starPos = 0.5f * (minPos + maxPos), net_model.cpp:514 and :542 *)
Definition fstar_pos (pins : list (Z * f32)) (pl : list f32) : f32 :=
  let '(_, _, _, minPos) := fmin_pin pins pl in
  let '(_, _, _, maxPos) := fmax_pin pins pl in
  fmul fhalf (fadd minPos maxPos).

(* loop body of addStar(net, pl, epsilon), net_model.cpp:516-531 *)
Definition fstar_pl_ops (wn : f32) (pins : list (Z * f32)) (pl : list f32) (eps : f32) (starC : Z) : list fpinop :=
  let '(minI, _, _, minPos) := fmin_pin pins pl in
  let '(maxI, _, _, maxPos) := fmax_pin pins pl in
  let starPos := fmul fhalf (fadd minPos maxPos) in
  map (fun ip : nat * (Z * f32) =>
         let i := fst ip in let p := snd ip in
         let pos := fpin_position p pl in
         if (i =? minI)%nat || (i =? maxI)%nat then
           let d := fclamp eps (fabs (fsub pos starPos)) in
           let w := fdiv wn d in                                               (* :521-522 *)
           mkFOp (fst p) starC (snd p) fzero w (ok_div wn d w)
         else
           let dist := fmin_std (fsub maxPos pos) (fsub pos minPos) in         (* :527 *)
           let d := fclamp eps dist in
           let w := fdiv wn d in                                               (* :528 *)
           mkFOp (fst p) starC (snd p) (fsub pos starPos) w (ok_div wn d w))
      (indexed pins).

(* loop body of addLightStar(net, pl, epsilon), net_model.cpp:544-559 *)
Definition flightstar_ops (wn : f32) (pins : list (Z * f32)) (pl : list f32) (eps : f32) (starC : Z) : list fpinop :=
  let '(minI, _, _, minPos) := fmin_pin pins pl in
  let '(maxI, _, _, maxPos) := fmax_pin pins pl in
  let starPos := fmul fhalf (fadd minPos maxPos) in
  map (fun ip : nat * (Z * f32) =>
         let i := fst ip in let p := snd ip in
         let pos := fpin_position p pl in
         if (i =? minI)%nat || (i =? maxI)%nat then
           let d := fclamp eps (fabs (fsub pos starPos)) in
           let w := fdiv wn d in                                               (* :549-550 *)
           mkFOp (fst p) starC (snd p) fzero w (ok_div wn d w)
         else
           let nb1 := f_of_Z (Z.of_nat (length pins) - 1) in
           let w := fdiv wn nb1 in                                             (* :554 *)
           let d1 := fclamp eps (fsub maxPos pos) in
           let w1 := fdiv w d1 in                                              (* :555 *)
           let d2 := fclamp eps (fsub pos minPos) in
           let w2 := fdiv w d2 in                                              (* :556 *)
           let ww := fadd w1 w2 in                                             (* :557 *)
           mkFOp (fst p) starC (snd p) (fsub pos starPos) ww
                 (ok_div wn nb1 w && ok_div w d1 w1 && ok_div w d2 w2 && ok_add ww))
      (indexed pins).

(* addB2B(net, pl, epsilon), net_model.cpp:563-582 *)
Definition fb2b_ops (wn : f32) (pins : list (Z * f32)) (pl : list f32) (eps : f32) : list fpinop :=
  let '(minI, minCell, minOffset, minPos) := fmin_pin pins pl in
  let '(maxI, maxCell, maxOffset, maxPos) := fmax_pin pins pl in
  let nb1 := f_of_Z (Z.of_nat (length pins) - 1) in
  let w := fdiv wn nb1 in                                                      (* :567 *)
  let okw := ok_div wn nb1 w in
  flat_map (fun ip : nat * (Z * f32) =>
              let i := fst ip in let p := snd ip in
              let pos := fpin_position p pl in
              if (i =? minI)%nat then []                                       (* :571 *)
              else
                let dmin := fclamp eps (fabs (fsub pos minPos)) in
                let distMin := fdiv w dmin in                                  (* :574 *)
                mkFOp (fst p) minCell (snd p) minOffset distMin (okw && ok_div w dmin distMin) ::   (* :575 *)
                (if (i =? maxI)%nat then []                                    (* :576 *)
                 else
                   let dmax := fclamp eps (fabs (fsub pos maxPos)) in
                   let distMax := fdiv w dmax in                               (* :579 *)
                   [mkFOp (fst p) maxCell (snd p) maxOffset distMax (okw && ok_div w dmax distMax)]))  (* :580 *)
           (indexed pins).

(* ---- whole systems *)

(* addStar(net), net_model.cpp:470-481 *)
Definition fadd_star (n : fnet) (s : fsys) : fsys :=
  if fbip_like (fn_pins n) then fapply_ops (fbipoint_ops (fn_weight n) (fn_pins n)) s                 (* :472 *)
  else let (c, s1) := fadd_cell fzero s in fapply_ops (fstar_ops (fn_weight n) (fn_pins n) c) s1.
Definition fadd_bipoint (n : fnet) (s : fsys) : fsys := fapply_ops (fbipoint_ops (fn_weight n) (fn_pins n)) s.
Definition fadd_clique (n : fnet) (s : fsys) : fsys := fapply_ops (fclique_ops (fn_weight n) (fn_pins n)) s.

(* one iteration of the loops of createB2B/createStar/createClique/createLightStar, net_model.cpp:414-452 *)
Definition fadd_net_model (m : model) (pl : list f32) (eps : f32) (s : fsys) (n : fnet) : fsys :=
  let wn := fn_weight n in let pins := fn_pins n in
  match m with
  | B2B => fapply_ops (fb2b_ops wn pins pl eps) s
  | Clique => fapply_ops (fclique_pl_ops wn pins pl eps) s
  | Star =>
    if fbip_like pins then fapply_ops (fbipoint_pl_ops wn pins pl eps) s                   (* :509 *)
    else let (c, s1) := fadd_cell (fstar_pos pins pl) s in                                 (* :515 *)
         fapply_ops (fstar_pl_ops wn pins pl eps c) s1
  | LightStar =>
    if fbip_like pins then fapply_ops (fbipoint_pl_ops wn pins pl eps) s                   (* :537 *)
    else let (c, s1) := fadd_cell (fstar_pos pins pl) s in                                 (* :543 *)
         fapply_ops (flightstar_ops wn pins pl eps c) s1
  end.

(* MatrixCreator::create(topo, pl, epsilon, netModel), net_model.cpp:390-404 *)
Definition fcreate (m : model) (nm : fnetmodel) (pl : list f32) (eps : f32) : fsys :=
  fold_left (fadd_net_model m pl eps) (fnm_nets nm) (fsys_empty (fnm_cells nm)).
(* MatrixCreator::createStar(topo), net_model.cpp:406-412 *)
Definition fcreate_star0 (nm : fnetmodel) : fsys :=
  fold_left (fun s n => fadd_star n s) (fnm_nets nm) (fsys_empty (fnm_cells nm)).
(* addBipoint(net) / addClique(net) applied to every net *)
Definition fcreate_bipoint0 (nm : fnetmodel) : fsys :=
  fold_left (fun s n => fadd_bipoint n s) (fnm_nets nm) (fsys_empty (fnm_cells nm)).
Definition fcreate_clique0 (nm : fnetmodel) : fsys :=
  fold_left (fun s n => fadd_clique n s) (fnm_nets nm) (fsys_empty (fnm_cells nm)).

(* finalize(), net_model.cpp:584-594: 1.0e-8f on every diagonal entry that no addPin touched (NOT scaled) *)
Definition freg_trips (nz : list bool) : list ftrip :=
  flat_map (fun ib : nat * bool => if snd ib then [] else [mkFT (Z.of_nat (fst ib)) (Z.of_nat (fst ib)) freg])
           (indexed nz).
Definition ffinalize (s : fsys) : fsys :=
  mkFSys (fs_mat s ++ freg_trips (fs_nz s)) (fs_rhs s) (fs_init s) (map (fun _ => true) (fs_nz s)) (fs_ok s).

(* ------------------------------------------------------------------ "multiplied by 2^k, exactly" *)

(* y is x multiplied by 2^k with no rounding: both finite, value 2^k times, same sign (also of a zero): for finite
   binary32 numbers the value and the sign determine the bit pattern (B2R_Bsign_inj) *)
Definition sc (k : Z) (x y : f32) : Prop :=
  is_finite x = true /\ is_finite y = true /\ B2R y = (bpow radix2 k * B2R x)%R /\ Bsign y = Bsign x.

Definition ftrip_sc (k : Z) (t t' : ftrip) : Prop :=
  ft_row t' = ft_row t /\ ft_col t' = ft_col t /\ sc k (ft_val t) (ft_val t').
(* same rows, columns and order of the triplets, same initial guess, same hasNonZero_ flags; every triplet value and every
   right-hand-side entry multiplied by 2^k exactly *)
Definition fsys_sc (k : Z) (s s' : fsys) : Prop :=
  Forall2 (ftrip_sc k) (fs_mat s) (fs_mat s') /\ Forall2 (sc k) (fs_rhs s) (fs_rhs s') /\
  fs_init s' = fs_init s /\ fs_nz s' = fs_nz s.
(* the same net with the weight multiplied by 2^k; the same nets *)
Definition fnet_sc (k : Z) (n n' : fnet) : Prop := fn_pins n' = fn_pins n /\ sc k (fn_weight n) (fn_weight n').
Definition fnm_sc (k : Z) (nm nm' : fnetmodel) : Prop :=
  fnm_cells nm' = fnm_cells nm /\ Forall2 (fnet_sc k) (fnm_nets nm) (fnm_nets nm').
(* two addPin calls that differ by the scaling of the weight (when both weights were computed safely) *)
Definition fop_sc (k : Z) (o o' : fpinop) : Prop :=
  fp_c1 o' = fp_c1 o /\ fp_c2 o' = fp_c2 o /\ fp_o1 o' = fp_o1 o /\ fp_o2 o' = fp_o2 o /\
  (fp_ok o = true -> fp_ok o' = true -> sc k (fp_w o) (fp_w o')).

(* ------------------------------------------------------------------ for the tie (checks/c17.py) and the examples *)
(* rows and columns (interleaved), triplet values, right-hand side, initial guess as printable values, and the flag *)
Definition fsys_dump (s : fsys)
  : list Z * list SpecFloat.spec_float * list SpecFloat.spec_float * list SpecFloat.spec_float * bool :=
  (flat_map (fun t => [ft_row t; ft_col t]) (fs_mat s), map (fun t => B2SF (ft_val t)) (fs_mat s),
   map (@B2SF 24 128) (fs_rhs s), map (@B2SF 24 128) (fs_init s), fs_ok s).
Definition fbuild_nm (n : nat) (nets : list (f32 * list (Z * f32))) : fnetmodel :=
  mkFNM n (map (fun e => mkFNet (fst e) (snd e)) nets).

(* std::ldexp(v, k): v * 2^k, correctly rounded (exact when no underflow/overflow occurs) *)
Definition fldexp (v : f32) (k : Z) : f32 := @Bldexp 24 128 q24 q24_128 mode_NE v k.
(* the bit pattern of the scaled system: every triplet value and right-hand-side entry is ldexp(., k) of the original *)
Definition fsys_ldexp (k : Z) (s s' : fsys) : Prop :=
  fs_mat s' = map (fun t => mkFT (ft_row t) (ft_col t) (fldexp (ft_val t) k)) (fs_mat s) /\
  fs_rhs s' = map (fun v => fldexp v k) (fs_rhs s) /\ fs_init s' = fs_init s /\ fs_nz s' = fs_nz s.

(* ------------------------------------------------------------------ MatrixCreator::normalize() (repair of finding F22) *)
(* std::ilogb(v) for a finite non-zero v (also subnormal): position of the leading bit *)
Definition filogb (v : f32) : Z :=
  match v with B754_finite _ m e _ => Zdigits radix2 (Zpos m) + e - 1 | _ => 0 end.
(* float m = 0.0f; for (v : l) m = std::max(m, std::abs(v))   (a NaN entry is ignored: m < NaN is false) *)
Definition fmaxabs (l : list f32) : f32 := fold_left (fun m v => fmax_std m (fabs v)) l fzero.
(* the exponent e of the scaling by 2^-e, None when normalize() returns without scaling *)
Definition fnorm_exp (s : fsys) : option Z :=
  let maxRhs := fmaxabs (fs_rhs s) in
  let maxMat := fmaxabs (map ft_val (fs_mat s)) in
  if negb (fltb fzero maxRhs) || negb (is_finite maxRhs) || negb (is_finite maxMat) then None
  else
    let e := filogb maxRhs in
    let e := if fltb fzero maxMat then Z.max e (filogb maxMat - 64) else e in
    if e =? 0 then None else Some e.
(* every triplet value and right-hand-side entry becomes std::ldexp(v, -e) *)
Definition fscale_sys (e : Z) (s : fsys) : fsys :=
  mkFSys (map (fun t => mkFT (ft_row t) (ft_col t) (fldexp (ft_val t) (- e))) (fs_mat s))
         (map (fun v => fldexp v (- e)) (fs_rhs s)) (fs_init s) (fs_nz s) (fs_ok s).
Definition fnormalize (s : fsys) : fsys :=
  match fnorm_exp s with None => s | Some e => fscale_sys e s end.
(* what MatrixCreator::solve hands to Eigen: check(); normalize(); finalize() *)
Definition fsolver_input (s : fsys) : fsys := ffinalize (fnormalize s).

(* ------------------------------------------------------------------ Eigen::SparseMatrix::setFromTriplets in binary32 (finding F30) *)
(* the value stored at (r, c): the duplicate triplets are summed in binary32, in triplet order (collapseDuplicates) *)
Definition fentry (r c : Z) (m : list ftrip) : f32 :=
  fold_left (fun acc t => if (ft_row t =? r) && (ft_col t =? c) then fadd acc (ft_val t) else acc) m fzero.
