(* Proofs about the shift-pass linear programme of ShiftLp.v:
     1. generic weak duality for a network with node potentials and a complementary flow (cert_weak_duality);
     2. dual feasibility of the positional arcs <-> Moves.shift_ok (pos_arcs_feasible_iff);
     3. a certified vector of potentials minimises the x wirelength among ALL positions of the selected cells
        that satisfy the positional constraints (shift_cert_optimal);
     4. the current positions satisfy them when the row invariant holds, hence a certified shift does not
        increase the optimised value (shift_cert_monotone). *)
From Coq Require Import List ZArith Lia Bool Arith.
Import ListNotations.
Require Import CV.Orient CV.Hpwl CV.HpwlProofs CV.HpwlFoldProofs CV.Moves CV.MovesProofs CV.Optimiser CV.OptimiserProofs CV.ShiftLp.
Local Open Scope Z_scope.

(* ---------- finite sums ---------- *)
Fixpoint lsum {A} (f : A -> Z) (l : list A) : Z := match l with [] => 0 | a :: r => f a + lsum f r end.

Lemma lsum_ext {A} (f g : A -> Z) l : (forall a, In a l -> f a = g a) -> lsum f l = lsum g l.
Proof.
  induction l as [|a l IH]; cbn [lsum]; intros H; [reflexivity|].
  rewrite (H a (or_introl eq_refl)), IH; [reflexivity|]. intros b Hb. apply H. right. exact Hb.
Qed.
Lemma lsum_le {A} (f g : A -> Z) l : (forall a, In a l -> f a <= g a) -> lsum f l <= lsum g l.
Proof.
  induction l as [|a l IH]; cbn [lsum]; intros H; [lia|].
  pose proof (H a (or_introl eq_refl)). assert (lsum f l <= lsum g l) by (apply IH; intros b Hb; apply H; right; exact Hb). lia.
Qed.
Lemma lsum_plus {A} (f g : A -> Z) l : lsum (fun a => f a + g a) l = lsum f l + lsum g l.
Proof. induction l as [|a l IH]; cbn [lsum]; [reflexivity|]. rewrite IH. lia. Qed.
Lemma lsum_minus {A} (f g : A -> Z) l : lsum (fun a => f a - g a) l = lsum f l - lsum g l.
Proof. induction l as [|a l IH]; cbn [lsum]; [reflexivity|]. rewrite IH. lia. Qed.
Lemma lsum_scal {A} k (f : A -> Z) l : lsum (fun a => k * f a) l = k * lsum f l.
Proof. induction l as [|a l IH]; cbn [lsum]; [lia|]. rewrite IH. lia. Qed.
Lemma lsum_zero {A} (l : list A) : lsum (fun _ => 0) l = 0.
Proof. induction l as [|a l IH]; cbn [lsum]; lia. Qed.
Lemma lsum_app {A} (f : A -> Z) l1 l2 : lsum f (l1 ++ l2) = lsum f l1 + lsum f l2.
Proof. induction l1 as [|a l IH]; cbn [lsum app]; [reflexivity|]. rewrite IH. lia. Qed.
Lemma lsum_swap {A B} (f : A -> B -> Z) l1 l2 :
  lsum (fun a => lsum (fun b => f a b) l2) l1 = lsum (fun b => lsum (fun a => f a b) l1) l2.
Proof.
  induction l1 as [|a l1 IH]; cbn [lsum].
  - symmetry. apply lsum_zero.
  - rewrite IH, <- lsum_plus. reflexivity.
Qed.
Lemma lsum_flat_map {A B} (g : B -> Z) (h : A -> list B) l : lsum g (flat_map h l) = lsum (fun a => lsum g (h a)) l.
Proof. induction l as [|a l IH]; cbn [lsum flat_map]; [reflexivity|]. rewrite lsum_app, IH. reflexivity. Qed.
Lemma lsum_filter_split {A} (f : A -> Z) (p : A -> bool) l :
  lsum f l = lsum f (filter p l) + lsum f (filter (fun a => negb (p a)) l).
Proof. induction l as [|a l IH]; cbn [lsum filter]; [reflexivity|]. destruct (p a); cbn [negb lsum]; lia. Qed.
Lemma lsum_nonneg {A} (f : A -> Z) l : (forall a, In a l -> 0 <= f a) -> 0 <= lsum f l.
Proof. intros H. rewrite <- (lsum_zero l). apply lsum_le. exact H. Qed.
Lemma fold_right_lsum {A} (g : A -> Z) l : fold_right (fun a acc => g a + acc) 0 l = lsum g l.
Proof. induction l as [|a l IH]; cbn [fold_right lsum]; [reflexivity|]. rewrite IH. reflexivity. Qed.

(* ---------- nodes ---------- *)
Lemma snode_eqb_eq a b : snode_eqb a b = true <-> a = b.
Proof.
  destruct a, b; cbn [snode_eqb]; try (split; [discriminate|intros H; discriminate H]); try tauto;
    rewrite Nat.eqb_eq; split; intros H; try (inversion H; reflexivity); subst; reflexivity.
Qed.
Lemma snode_eqb_refl a : snode_eqb a a = true.
Proof. apply snode_eqb_eq. reflexivity. Qed.

Lemma node_in_In n l : node_in n l = true <-> In n l.
Proof.
  induction l as [|m l IH]; cbn [node_in In]; [split; [discriminate|tauto]|].
  rewrite orb_true_iff, snode_eqb_eq, IH. tauto.
Qed.

Lemma dedup_In n l : In n (dedup l) <-> In n l.
Proof.
  induction l as [|m l IH]; cbn [dedup In]; [tauto|].
  destruct (node_in m l) eqn:E.
  - rewrite IH. apply node_in_In in E. split; [tauto|]. intros [<-|H]; assumption.
  - cbn [In]. rewrite IH. tauto.
Qed.

Lemma dedup_NoDup l : NoDup (dedup l).
Proof.
  induction l as [|m l IH]; cbn [dedup]; [constructor|].
  destruct (node_in m l) eqn:E; [exact IH|]. constructor; [|exact IH].
  rewrite dedup_In. intros H. apply node_in_In in H. congruence.
Qed.

(* the sum of an indicator over a duplicate-free list *)
Lemma lsum_indicator (v : snode -> Z) a l :
  NoDup l -> lsum (fun n => if snode_eqb a n then v n else 0) l = if node_in a l then v a else 0.
Proof.
  induction l as [|m l IH]; intros ND; cbn [lsum node_in]; [reflexivity|].
  inversion ND as [|? ? Hm ND']; subst. rewrite (IH ND').
  destruct (snode_eqb a m) eqn:E.
  - apply snode_eqb_eq in E. subst m. rewrite snode_eqb_refl. cbn [orb].
    destruct (node_in a l) eqn:F; [apply node_in_In in F; contradiction|lia].
  - assert (snode_eqb m a = false).
    { destruct (snode_eqb m a) eqn:F; [|reflexivity]. apply snode_eqb_eq in F. subst m. rewrite snode_eqb_refl in E. discriminate. }
    rewrite H. cbn [orb]. lia.
Qed.

(* ---------- generic weak duality ---------- *)
Definition wobj (sup : list (snode * Z)) (pi : snode -> Z) : Z := lsum (fun sb => pi (fst sb) * snd sb) sup.

Lemma excess_lsum afs n :
  excess afs n = lsum (fun af => (if snode_eqb (a_src (fst af)) n then snd af else 0)
                                 - (if snode_eqb (a_tgt (fst af)) n then snd af else 0)) afs.
Proof. unfold excess. apply fold_right_lsum. Qed.
Lemma supply_lsum sup n : supply sup n = lsum (fun sb => if snode_eqb (fst sb) n then snd sb else 0) sup.
Proof. unfold supply. apply fold_right_lsum. Qed.

Lemma flow_potential_sum (pi : snode -> Z) afs ns :
  NoDup ns -> (forall af, In af afs -> In (a_src (fst af)) ns /\ In (a_tgt (fst af)) ns) ->
  lsum (fun af => (pi (a_src (fst af)) - pi (a_tgt (fst af))) * snd af) afs = lsum (fun n => pi n * excess afs n) ns.
Proof.
  intros ND Hin.
  transitivity (lsum (fun n => lsum (fun af => (if snode_eqb (a_src (fst af)) n then pi n * snd af else 0)
                                               - (if snode_eqb (a_tgt (fst af)) n then pi n * snd af else 0)) afs) ns).
  - rewrite lsum_swap. apply lsum_ext. intros af Haf. destruct (Hin af Haf) as [Hs Ht].
    rewrite lsum_minus.
    rewrite (lsum_indicator (fun n => pi n * snd af) (a_src (fst af)) ns ND).
    rewrite (lsum_indicator (fun n => pi n * snd af) (a_tgt (fst af)) ns ND).
    apply node_in_In in Hs, Ht. rewrite Hs, Ht. lia.
  - apply lsum_ext. intros n _. rewrite excess_lsum, <- lsum_scal. apply lsum_ext. intros af _.
    destruct (snode_eqb (a_src (fst af)) n), (snode_eqb (a_tgt (fst af)) n); lia.
Qed.

Lemma supply_potential_sum (pi : snode -> Z) sup ns :
  NoDup ns -> (forall sb, In sb sup -> In (fst sb) ns) ->
  wobj sup pi = lsum (fun n => pi n * supply sup n) ns.
Proof.
  intros ND Hin. unfold wobj.
  transitivity (lsum (fun n => lsum (fun sb => if snode_eqb (fst sb) n then pi n * snd sb else 0) sup) ns).
  - rewrite lsum_swap. apply lsum_ext. intros sb Hsb.
    rewrite (lsum_indicator (fun n => pi n * snd sb) (fst sb) ns ND).
    pose proof (Hin sb Hsb) as H. apply node_in_In in H. rewrite H. reflexivity.
  - apply lsum_ext. intros n _. rewrite supply_lsum, <- lsum_scal. apply lsum_ext. intros sb _.
    destruct (snode_eqb (fst sb) n); lia.
Qed.

Lemma nodes_cover arcs sup :
  NoDup (nodes arcs sup) /\
  (forall a, In a arcs -> In (a_src a) (nodes arcs sup) /\ In (a_tgt a) (nodes arcs sup)) /\
  (forall sb, In sb sup -> In (fst sb) (nodes arcs sup)).
Proof.
  unfold nodes. split; [apply dedup_NoDup|]. split.
  - intros a Ha. rewrite !dedup_In, !in_app_iff. split; [left|right; left]; apply in_map; exact Ha.
  - intros sb Hsb. rewrite dedup_In, !in_app_iff. right; right. apply in_map. exact Hsb.
Qed.

(* the value  sum (pi(src) - pi(tgt)) * flow  of a conserving flow is the supply-weighted potential sum,
   for EVERY vector of potentials *)
Lemma conserve_value arcs sup f (pi : snode -> Z) :
  conserve arcs sup f = true ->
  lsum (fun af => (pi (a_src (fst af)) - pi (a_tgt (fst af))) * snd af) (combine arcs f) = wobj sup pi.
Proof.
  intros Hc. destruct (nodes_cover arcs sup) as (ND & Ha & Hs).
  rewrite (flow_potential_sum pi (combine arcs f) (nodes arcs sup) ND).
  - rewrite (supply_potential_sum pi sup (nodes arcs sup) ND Hs).
    apply lsum_ext. intros n Hn. unfold conserve in Hc. rewrite forallb_forall in Hc.
    specialize (Hc n Hn). apply Z.eqb_eq in Hc. rewrite Hc. reflexivity.
  - intros [a fl] Haf. apply in_combine_l in Haf. exact (Ha a Haf).
Qed.

Theorem cert_weak_duality arcs sup pi f pi' :
  flow_ok arcs pi f = true -> conserve arcs sup f = true -> dual_feasible arcs pi' = true ->
  wobj sup pi <= wobj sup pi'.
Proof.
  intros Hf Hc Hd.
  set (afs := combine arcs f).
  set (C := lsum (fun af => a_cost (fst af) * snd af) afs).
  assert (E : forall p : snode -> Z, C = lsum (fun af => redcost p (fst af) * snd af) afs - wobj sup p).
  { intros p. rewrite <- (conserve_value arcs sup f p Hc). fold afs. rewrite <- lsum_minus. unfold C.
    apply lsum_ext. intros af _. unfold redcost. lia. }
  assert (Z1 : lsum (fun af => redcost pi (fst af) * snd af) afs = 0).
  { rewrite <- (lsum_zero afs). apply lsum_ext. intros af Haf.
    unfold flow_ok in Hf. rewrite forallb_forall in Hf. specialize (Hf af Haf).
    apply andb_true_iff in Hf as [_ Hf]. apply orb_true_iff in Hf as [Hf|Hf]; apply Z.eqb_eq in Hf; rewrite Hf; lia. }
  assert (Z2 : 0 <= lsum (fun af => redcost pi' (fst af) * snd af) afs).
  { apply lsum_nonneg. intros af Haf.
    unfold flow_ok in Hf. rewrite forallb_forall in Hf. specialize (Hf af Haf).
    apply andb_true_iff in Hf as [Hf _]. apply Z.leb_le in Hf.
    unfold dual_feasible in Hd. rewrite forallb_forall in Hd.
    destruct af as [a fl]. pose proof (in_combine_l _ _ _ _ Haf) as Ha. specialize (Hd a Ha). apply Z.leb_le in Hd.
    cbn [fst snd] in *. apply Z.mul_nonneg_nonneg; assumption. }
  pose proof (E pi) as E1. pose proof (E pi') as E2. lia.
Qed.

(* ---------- positional arcs <-> Moves.shift_ok ---------- *)
Lemma in_shift_assign sel x c : in_shift (assign sel x) c = mem (p_id c) sel.
Proof. unfold in_shift, assign, mem. induction sel as [|s sel IH]; cbn [map existsb fst]; [reflexivity|]. rewrite IH. reflexivity. Qed.

Lemma new_x_assign sel x c : new_x (assign sel x) c = if mem (p_id c) sel then x (p_id c) else p_x c.
Proof.
  unfold new_x, assign, mem. induction sel as [|s sel IH]; cbn [map existsb find fst snd]; [reflexivity|].
  destruct (Nat.eqb_spec s (p_id c)) as [->|]; cbn [orb snd]; [reflexivity|exact IH].
Qed.

Lemma dual_feasible_app a b pi : dual_feasible (a ++ b) pi = dual_feasible a pi && dual_feasible b pi.
Proof. unfold dual_feasible. apply forallb_app. Qed.

Lemma row_pos_iff sel pi hi l : forall prev_sel old_end new_end,
  row_shift_ok (positions_of sel pi) prev_sel old_end new_end hi l = true <->
  (dual_feasible (row_pos_arcs sel prev_sel old_end hi l) pi = true /\
   (prev_sel = true -> match l with c :: _ => mem (p_id c) sel = true -> new_end <= x_of pi (p_id c) | [] => True end)).
Proof.
  unfold positions_of.
  induction l as [|c r IH]; intros prev_sel old_end new_end.
  - cbn. tauto.
  - cbn [row_shift_ok row_pos_arcs]. rewrite !andb_true_iff, IH, dual_feasible_app, andb_true_iff.
    rewrite in_shift_assign, !new_x_assign.
    remember (dual_feasible (row_pos_arcs sel (mem (p_id c) sel) (p_x c + p_w c) hi r) pi) as R.
    clear HeqR IH.
    destruct (mem (p_id c) sel) eqn:Sc.
    + destruct r as [|n r'].
      * unfold cell_pos_arcs. cbn [site_end app].
        destruct prev_sel; cbn [app dual_feasible forallb andb]; unfold redcost, a_cost, a_src, a_tgt; cbn [fst snd];
          rewrite ?andb_true_iff, ?Z.leb_le; unfold x_of; intuition (try discriminate; try lia).
      * unfold cell_pos_arcs. cbn [site_end]. rewrite in_shift_assign.
        destruct (mem (p_id n) sel) eqn:Sn;
        destruct prev_sel; cbn [app dual_feasible forallb andb]; unfold redcost, a_cost, a_src, a_tgt; cbn [fst snd];
          rewrite ?andb_true_iff, ?Z.leb_le; unfold x_of; intuition (try discriminate; try lia).
    + cbn [dual_feasible forallb andb].
      destruct r as [|n r']; destruct prev_sel; intuition (try discriminate; try lia).
Qed.

(* ---------- feasibility of the whole network; the objective ---------- *)
Lemma dual_feasible_flat_map {A} (h : A -> list arc) l pi :
  dual_feasible (flat_map h l) pi = true <-> forall a, In a l -> dual_feasible (h a) pi = true.
Proof.
  induction l as [|a l IH]; cbn [flat_map]; [split; [intros _ a []|reflexivity]|].
  rewrite dual_feasible_app, andb_true_iff, IH. split.
  - intros [H1 H2] b [<-|Hb]; [exact H1|apply H2; exact Hb].
  - intros H. split; [apply H; left; reflexivity|intros b Hb; apply H; right; exact Hb].
Qed.

Theorem pos_arcs_feasible_iff d sel pi :
  dual_feasible (pos_arcs d sel) pi = true <-> shift_ok d (positions_of sel pi) = true.
Proof.
  unfold pos_arcs, shift_ok. rewrite dual_feasible_flat_map, forallb_forall.
  split; intros H r Hr; specialize (H r Hr).
  - apply row_pos_iff. split; [exact H|discriminate].
  - apply row_pos_iff in H. exact (proj1 H).
Qed.

(* ---------- net arcs ---------- *)
Definition pin_at (sel : list nat) (pos : list Z) (x : nat -> Z) (p : ipin) : Z :=
  (if mem (fst p) sel then x (fst p) else nth (fst p) pos 0) + snd p.

Lemma pin_arcs_feasible sel pos i p pi :
  dual_feasible (pin_arcs sel pos i p) pi = true <->
  pi (NL i) - pi NFixed <= pin_at sel pos (x_of pi) p <= pi (NU i) - pi NFixed.
Proof.
  unfold pin_arcs, pin_at. destruct (mem (fst p) sel); cbn [dual_feasible forallb];
    unfold redcost, a_cost, a_src, a_tgt, x_of; cbn [fst snd]; rewrite !andb_true_iff, !Z.leb_le; lia.
Qed.

Lemma net_arcs_feasible sel pos nets pi :
  dual_feasible (net_arcs sel pos nets) pi = true <->
  forall nx, In nx (touched_nets sel nets) -> forall p, In p (snd nx) ->
    pi (NL (fst nx)) - pi NFixed <= pin_at sel pos (x_of pi) p <= pi (NU (fst nx)) - pi NFixed.
Proof.
  unfold net_arcs. rewrite dual_feasible_flat_map. split; intros H nx Hnx.
  - intros p Hp. specialize (H nx Hnx). rewrite dual_feasible_flat_map in H. apply pin_arcs_feasible. apply H. exact Hp.
  - rewrite dual_feasible_flat_map. intros p Hp. apply pin_arcs_feasible. apply H; assumption.
Qed.

(* ---------- the objective as a sum over the indexed nets ---------- *)
Lemma mem_In c sel : mem c sel = true <-> In c sel.
Proof.
  unfold mem. rewrite existsb_exists. split.
  - intros (s & Hs & E). apply Nat.eqb_eq in E. subst. exact Hs.
  - intros H. exists c. split; [exact H|apply Nat.eqb_refl].
Qed.

Lemma write_pos_eq : write_pos = pos_after. Proof. reflexivity. Qed.

Lemma nth_nth_error (l : list Z) j : nth j l 0 = match nth_error l j with Some v => v | None => 0 end.
Proof. revert j. induction l as [|a l IH]; intros [|j]; cbn; try reflexivity. apply IH. Qed.

Lemma fst_assign sel x : map fst (assign sel x) = sel.
Proof. unfold assign. rewrite map_map. cbn [fst]. apply map_id. Qed.

Lemma ipin_pos_written sel pos x p :
  Forall (fun c => (c < length pos)%nat) sel ->
  ipin_pos (write_pos pos (assign sel x)) p = pin_at sel pos x p.
Proof.
  intros Hr. unfold ipin_pos, pin_at. f_equal. rewrite write_pos_eq, nth_nth_error, nth_error_pos_after.
  destruct (mem (fst p) sel) eqn:M.
  - apply mem_In in M. rewrite Forall_forall in Hr. specialize (Hr _ M).
    destruct (last_assign (assign sel x) (fst p)) as [v|] eqn:L.
    + apply last_assign_map in L. subst v.
      destruct (nth_error pos (fst p)) eqn:E; [reflexivity|]. apply nth_error_None in E. lia.
    + apply last_assign_none in L. rewrite fst_assign in L. contradiction.
  - assert (N : ~ In (fst p) sel) by (intros H; apply mem_In in H; congruence).
    rewrite <- (fst_assign sel x) in N. apply last_assign_none in N. rewrite N.
    rewrite <- nth_nth_error. reflexivity.
Qed.

Lemma lsum_indexed (g : list ipin -> Z) nets : forall k,
  fold_right (fun net a => g net + a) 0 nets = lsum (fun nx => g (snd nx)) (combine (seq k (length nets)) nets).
Proof. induction nets as [|n nets IH]; intros k; cbn [fold_right length seq combine lsum snd]; [reflexivity|]. rewrite (IH (S k)). reflexivity. Qed.

Definition net_ext (sel : list nat) (pos : list Z) (x : nat -> Z) (net : list ipin) : Z := extent (map (pin_at sel pos x) net).

Lemma xvalue_sum xm sel x :
  Forall (fun c => (c < length (ipos xm))%nat) sel ->
  xvalue xm (assign sel x) = lsum (fun nx => net_ext sel (ipos xm) x (snd nx)) (indexed (inets xm)).
Proof.
  intros Hr. unfold xvalue, incr_build. cbn [ivalue]. rewrite sum_widths_map.
  unfold indexed. rewrite (lsum_indexed (fun net => extent (map (ipin_pos (write_pos (ipos xm) (assign sel x))) net)) (inets xm) 0).
  apply lsum_ext. intros nx _. unfold net_ext. f_equal. apply map_ext. intros p. apply ipin_pos_written. exact Hr.
Qed.

Lemma untouched_ext sel pos x x' net : touches sel net = false -> net_ext sel pos x net = net_ext sel pos x' net.
Proof.
  intros H. unfold net_ext. f_equal. apply map_ext_in. intros p Hp. unfold pin_at.
  destruct (mem (fst p) sel) eqn:M; [|reflexivity]. exfalso.
  assert (touches sel net = true) by (unfold touches; apply existsb_exists; exists p; split; assumption). congruence.
Qed.

Lemma xvalue_split xm sel x :
  Forall (fun c => (c < length (ipos xm))%nat) sel ->
  xvalue xm (assign sel x) =
  lsum (fun nx => net_ext sel (ipos xm) x (snd nx)) (touched_nets sel (inets xm)) +
  lsum (fun nx => net_ext sel (ipos xm) x (snd nx)) (filter (fun nx => negb (touches sel (snd nx))) (indexed (inets xm))).
Proof. intros Hr. rewrite (xvalue_sum xm sel x Hr). apply (lsum_filter_split _ (fun nx => touches sel (snd nx))). Qed.

Lemma rest_indep xm sel x x' :
  lsum (fun nx => net_ext sel (ipos xm) x (snd nx)) (filter (fun nx => negb (touches sel (snd nx))) (indexed (inets xm))) =
  lsum (fun nx => net_ext sel (ipos xm) x' (snd nx)) (filter (fun nx => negb (touches sel (snd nx))) (indexed (inets xm))).
Proof.
  apply lsum_ext. intros nx H. apply filter_In in H as [_ H]. apply negb_true_iff in H. apply untouched_ext. exact H.
Qed.

(* ---------- supplies ---------- *)
Lemma wobj_supplies sel nets pi :
  wobj (supplies sel nets) pi = lsum (fun nx => pi (NU (fst nx)) - pi (NL (fst nx))) (touched_nets sel nets).
Proof.
  unfold wobj, supplies. rewrite lsum_flat_map. apply lsum_ext. intros nx _. cbn [lsum fst snd]. lia.
Qed.

Lemma range_supplies sel nets pi : range_ok (supplies sel nets) pi = true ->
  forall nx, In nx (touched_nets sel nets) -> INT_MIN <= pi (NU (fst nx)) - pi NFixed /\ pi (NL (fst nx)) - pi NFixed <= INT_MAX.
Proof.
  unfold range_ok, supplies. rewrite forallb_forall. intros H nx Hnx.
  split.
  - specialize (H (NU (fst nx), 1)). cbn [fst] in H. apply Z.leb_le. apply H. apply in_flat_map. exists nx. split; [exact Hnx|left; reflexivity].
  - specialize (H (NL (fst nx), -1)). cbn [fst] in H. apply Z.leb_le. apply H. apply in_flat_map. exists nx. split; [exact Hnx|right; left; reflexivity].
Qed.

Lemma extent_le_bounds l lo hi :
  (forall v, In v l -> lo <= v <= hi) -> INT_MIN <= hi -> lo <= INT_MAX -> extent l <= hi - lo.
Proof.
  intros H Hh Hl. unfold extent, fmax, fmin.
  destruct (fold_max_ge l INT_MIN) as (_ & _ & [E|E]); destruct (fold_min_le l INT_MAX) as (_ & _ & [F|F]).
  - rewrite E, F. lia.
  - rewrite E. specialize (H _ F). lia.
  - rewrite F. specialize (H _ E). lia.
  - pose proof (H _ E). pose proof (H _ F). lia.
Qed.

Lemma indexed_nth (nets : list (list ipin)) : forall k i net,
  In (i, net) (combine (seq k (length nets)) nets) -> (k <= i)%nat /\ nth (i - k) nets [] = net.
Proof.
  induction nets as [|n nets IH]; intros k i net; cbn [length seq combine In]; [tauto|].
  intros [E|H].
  - inversion E; subst. rewrite Nat.sub_diag. split; [lia|reflexivity].
  - apply IH in H as [H1 H2]. split; [lia|]. replace (i - k)%nat with (S (i - S k)) by lia. exact H2.
Qed.

(* the potentials read off a vector of positions: net bounds = sentinel min / max of the pin positions *)
Definition pi_of (sel : list nat) (pos : list Z) (nets : list (list ipin)) (x : nat -> Z) (n : snode) : Z :=
  match n with
  | NCell c => x c
  | NL i => fmin (map (pin_at sel pos x) (nth i nets []))
  | NU i => fmax (map (pin_at sel pos x) (nth i nets []))
  | NFixed => 0
  end.

Lemma x_of_pi_of sel pos nets x c : x_of (pi_of sel pos nets x) c = x c.
Proof. unfold x_of, pi_of. lia. Qed.

Lemma pin_at_ext sel pos x x' p : (forall c, x c = x' c) -> pin_at sel pos x p = pin_at sel pos x' p.
Proof. intros H. unfold pin_at. rewrite H. reflexivity. Qed.

Lemma pi_of_feasible d xm sel x :
  shift_ok d (assign sel x) = true -> dual_feasible (n_arcs (shift_net d xm sel)) (pi_of sel (ipos xm) (inets xm) x) = true.
Proof.
  intros H. unfold shift_net. cbn [n_arcs]. rewrite dual_feasible_app, andb_true_iff. split.
  - apply pos_arcs_feasible_iff. unfold positions_of.
    assert (E : assign sel (x_of (pi_of sel (ipos xm) (inets xm) x)) = assign sel x).
    { unfold assign. apply map_ext. intros c. rewrite x_of_pi_of. reflexivity. }
    rewrite E. exact H.
  - apply net_arcs_feasible. intros [i net] Hnx p Hp. cbn [fst snd] in *.
    unfold touched_nets in Hnx. apply filter_In in Hnx as [Hnx _]. unfold indexed in Hnx.
    apply indexed_nth in Hnx as [_ Hn]. rewrite Nat.sub_0_r in Hn.
    rewrite (pin_at_ext sel (ipos xm) _ x p (x_of_pi_of sel (ipos xm) (inets xm) x)).
    cbn [pi_of]. rewrite Hn, !Z.sub_0_r.
    assert (Hin : In (pin_at sel (ipos xm) x p) (map (pin_at sel (ipos xm) x) net)) by (apply in_map; exact Hp).
    unfold fmin, fmax. split.
    + apply (proj1 (proj2 (fold_min_le _ INT_MAX))). exact Hin.
    + apply (proj1 (proj2 (fold_max_ge _ INT_MIN))). exact Hin.
Qed.

Lemma wobj_pi_of xm sel x :
  wobj (supplies sel (inets xm)) (pi_of sel (ipos xm) (inets xm) x) =
  lsum (fun nx => net_ext sel (ipos xm) x (snd nx)) (touched_nets sel (inets xm)).
Proof.
  rewrite wobj_supplies. apply lsum_ext. intros [i net] Hnx. cbn [fst snd pi_of].
  unfold touched_nets in Hnx. apply filter_In in Hnx as [Hnx _]. apply indexed_nth in Hnx as [_ Hn].
  rewrite Nat.sub_0_r in Hn. rewrite Hn. reflexivity.
Qed.

Lemma touched_le_wobj xm sel pi :
  dual_feasible (net_arcs sel (ipos xm) (inets xm)) pi = true -> range_ok (supplies sel (inets xm)) pi = true ->
  lsum (fun nx => net_ext sel (ipos xm) (x_of pi) (snd nx)) (touched_nets sel (inets xm)) <= wobj (supplies sel (inets xm)) pi.
Proof.
  intros Hd Hr. rewrite wobj_supplies. apply lsum_le. intros nx Hnx.
  destruct (range_supplies _ _ _ Hr nx Hnx) as [R1 R2].
  rewrite net_arcs_feasible in Hd. specialize (Hd nx Hnx).
  replace (pi (NU (fst nx)) - pi (NL (fst nx))) with ((pi (NU (fst nx)) - pi NFixed) - (pi (NL (fst nx)) - pi NFixed)) by lia.
  unfold net_ext. apply extent_le_bounds; [|exact R1|exact R2].
  intros v Hv. apply in_map_iff in Hv as (p & <- & Hp). apply Hd. exact Hp.
Qed.

(* ---------- main theorems ---------- *)
Theorem shift_dual_feasible_legal d xm sel pi :
  dual_feasible (n_arcs (shift_net d xm sel)) pi = true -> shift_ok d (positions_of sel pi) = true.
Proof.
  unfold shift_net. cbn [n_arcs]. rewrite dual_feasible_app, andb_true_iff. intros [H _].
  apply pos_arcs_feasible_iff. exact H.
Qed.

Theorem shift_cert_optimal d xm sel pi f x' :
  Forall (fun c => (c < length (ipos xm))%nat) sel ->
  shift_cert_ok (shift_net d xm sel) pi f = true ->
  shift_ok d (assign sel x') = true ->
  xvalue xm (positions_of sel pi) <= xvalue xm (assign sel x').
Proof.
  intros Hr Hc Hx'. unfold shift_cert_ok in Hc. rewrite !andb_true_iff in Hc. destruct Hc as [[[Hd Hf] Hcons] Hrange].
  unfold positions_of. rewrite (xvalue_split xm sel (x_of pi) Hr), (xvalue_split xm sel x' Hr).
  rewrite (rest_indep xm sel (x_of pi) x').
  assert (H1 : lsum (fun nx => net_ext sel (ipos xm) (x_of pi) (snd nx)) (touched_nets sel (inets xm))
               <= wobj (supplies sel (inets xm)) pi).
  { apply touched_le_wobj; [|exact Hrange]. unfold shift_net in Hd. cbn [n_arcs] in Hd.
    rewrite dual_feasible_app, andb_true_iff in Hd. exact (proj2 Hd). }
  pose proof (cert_weak_duality _ _ pi f _ Hf Hcons (pi_of_feasible d xm sel x' Hx')) as H2.
  cbn [n_sup shift_net] in H2. rewrite wobj_pi_of in H2. lia.
Qed.


(* ---------- the current positions are feasible ---------- *)
Definition consistent (d : dstate) (xm : incr) : Prop :=
  forall r c, In r (d_rows d) -> In c (dr_cells r) -> nth (p_id c) (ipos xm) 0 = p_x c.
Definition cur_x (xm : incr) (c : nat) : Z := nth c (ipos xm) 0.

Lemma row_unmoved_ok xs hi l : (forall c, In c l -> new_x xs c = p_x c) ->
  forall ps old_end, chain old_end hi l -> row_shift_ok xs ps old_end old_end hi l = true.
Proof.
  induction l as [|c r IH]; intros Hx ps old_end Hc; cbn [row_shift_ok]; [reflexivity|].
  cbn [chain] in Hc. destruct Hc as (H1 & H2 & H3).
  rewrite (Hx c (or_introl eq_refl)). rewrite (IH (fun c' H => Hx c' (or_intror H)) _ _ H3), andb_true_r.
  apply andb_true_iff. split.
  - destruct (in_shift xs c); [|reflexivity]. destruct ps; apply Z.leb_le; exact H1.
  - destruct (in_shift xs c); [|reflexivity]. destruct r as [|n r'].
    + apply Z.leb_le. exact H3.
    + destruct (in_shift xs n); [reflexivity|]. apply Z.leb_le. cbn [chain] in H3. tauto.
Qed.

Lemma current_feasible d xm sel : Inv d -> consistent d xm -> shift_ok d (assign sel (cur_x xm)) = true.
Proof.
  intros [HR _] Hc. unfold shift_ok. rewrite forallb_forall. intros r Hr.
  apply row_unmoved_ok.
  - intros c Hcin. rewrite new_x_assign. destruct (mem (p_id c) sel); [|reflexivity]. unfold cur_x. apply (Hc r c Hr Hcin).
  - rewrite Forall_forall in HR. exact (HR r Hr).
Qed.

Lemma write_current pos sel : write_pos pos (assign sel (fun c => nth c pos 0)) = pos.
Proof.
  rewrite write_pos_eq. apply list_ext_nth_error. intros j. rewrite nth_error_pos_after.
  destruct (last_assign _ j) as [v|] eqn:L; [|reflexivity].
  apply last_assign_map in L. subst v. rewrite (nth_error_nth_Z pos j) at 2. destruct (nth_error pos j); reflexivity.
Qed.

Lemma xvalue_current xm sel : IInv xm -> xvalue xm (assign sel (cur_x xm)) = ivalue xm.
Proof.
  intros [H1 H2]. unfold xvalue, cur_x. rewrite write_current. cbn [incr_build ivalue]. rewrite H2, H1. reflexivity.
Qed.

(* ---------- the maintained value after the write-back loop ---------- *)
Lemma write_updates_eq : write_updates = apply_updates. Proof. reflexivity. Qed.

Lemma write_updates_spec ups : forall xm, IInv xm ->
  IInv (write_updates xm ups) /\ inets (write_updates xm ups) = inets xm /\
  ipos (write_updates xm ups) = write_pos (ipos xm) ups /\ ivalue (write_updates xm ups) = xvalue xm ups.
Proof.
  induction ups as [|u ups IH]; intros xm Hx; cbn [write_updates write_pos fold_left].
  - split; [exact Hx|]. split; [reflexivity|]. split; [reflexivity|]. unfold xvalue. cbn [write_pos fold_left].
    destruct Hx as [H1 H2]. cbn [incr_build ivalue]. rewrite H2, H1. reflexivity.
  - destruct (update_inv xm (fst u) (snd u) Hx) as (A & B & C). cbn zeta in *.
    destruct (IH _ A) as (D & E & F & G).
    change (fold_left (fun s0 u0 => update_cell_pos s0 (fst u0) (snd u0)) ups (update_cell_pos xm (fst u) (snd u)))
      with (write_updates (update_cell_pos xm (fst u) (snd u)) ups).
    change (fold_left (fun l u0 => upd l (fst u0) (snd u0)) ups (upd (ipos xm) (fst u) (snd u)))
      with (write_pos (upd (ipos xm) (fst u) (snd u)) ups).
    split; [exact D|]. split; [congruence|]. split; [rewrite F, B; reflexivity|].
    rewrite G. unfold xvalue. rewrite B, C. reflexivity.
Qed.

(* ---------- one certified shift pass ---------- *)
Theorem shift_cert_step d s sel pi f :
  OInv s -> Inv d -> consistent d (ox s) -> Forall (fun c => (c < length (ipos (ox s)))%nat) sel ->
  shift_cert_ok (shift_net d (ox s) sel) pi f = true ->
  let ups := positions_of sel pi in
  let s' := oshift s ups in
  OInv s' /\ same_nets s' s /\ ivalue (ox s') <= ivalue (ox s) /\ oy s' = oy s /\ ovalue s' <= ovalue s /\
  Inv (apply_shift d ups) /\ consistent (apply_shift d ups) (ox s') /\
  (forall x', shift_ok d (assign sel x') = true -> ivalue (ox s') <= xvalue (ox s) (assign sel x')).
Proof.
  intros [Hx Hy] Hd Hc Hr Hcert. cbn zeta. unfold oshift. cbn [ox oy].
  destruct (write_updates_spec (positions_of sel pi) (ox s) Hx) as (A & B & C & D).
  assert (Hopt : forall x', shift_ok d (assign sel x') = true -> ivalue (write_updates (ox s) (positions_of sel pi)) <= xvalue (ox s) (assign sel x')).
  { intros x' Hx'. rewrite D. exact (shift_cert_optimal d (ox s) sel pi f x' Hr Hcert Hx'). }
  assert (Hle : ivalue (write_updates (ox s) (positions_of sel pi)) <= ivalue (ox s)).
  { rewrite <- (xvalue_current (ox s) sel Hx). apply Hopt. apply current_feasible; assumption. }
  assert (Hok : shift_ok d (positions_of sel pi) = true).
  { apply (shift_dual_feasible_legal d (ox s) sel pi). unfold shift_cert_ok in Hcert. rewrite !andb_true_iff in Hcert. tauto. }
  split; [split; assumption|]. split; [split; [exact B|reflexivity]|]. split; [exact Hle|]. split; [reflexivity|].
  split; [unfold ovalue; cbn [ox oy]; lia|]. split; [apply shift_inv; assumption|]. split; [|exact Hopt].
  intros r' c' Hr' Hc'. unfold apply_shift in Hr'. cbn [d_rows] in Hr'.
  apply in_map_iff in Hr' as (r & <- & Hrin). cbn [set_cells dr_cells] in Hc'.
  apply in_map_iff in Hc' as (c & <- & Hcin). cbn [move_cell p_id p_x].
  rewrite C. unfold positions_of.
  pose proof (ipin_pos_written sel (ipos (ox s)) (x_of pi) (p_id c, 0) Hr) as E. unfold ipin_pos, pin_at in E. cbn [fst snd] in E.
  rewrite new_x_assign. rewrite (Hc r c Hrin Hcin) in E. lia.
Qed.

(* ---------- histories of best moves, reorderings and certified shift passes ---------- *)
Definition cstep_ok (s : ostate) (st : cstep) : Prop :=
  match st with
  | CO o => ostep_ok o
  | CS d sel pi f => Inv d /\ consistent d (ox s) /\ Forall (fun c => (c < length (ipos (ox s)))%nat) sel /\
                     shift_cert_ok (shift_net d (ox s) sel) pi f = true
  end.
Fixpoint chist_ok (s : ostate) (l : list cstep) : Prop :=
  match l with [] => True | st :: r => cstep_ok s st /\ chist_ok (cstep_run s st) r end.

Theorem certified_history_monotone l : forall s, OInv s -> chist_ok s l ->
  OInv (csteps_run s l) /\ ovalue (csteps_run s l) <= ovalue s.
Proof.
  induction l as [|st l IH]; intros s Hs Hl; cbn [csteps_run fold_left]; [split; [exact Hs|lia]|].
  destruct Hl as [Hst Hl].
  assert (H1 : OInv (cstep_run s st) /\ ovalue (cstep_run s st) <= ovalue s).
  { destruct st as [o|d sel pi f]; cbn [cstep_run cstep_ok] in *.
    - destruct (ostep_monotone s o Hs Hst) as (A & _ & B). split; assumption.
    - destruct Hst as (Hd & Hc & Hr & Hcert).
      destruct (shift_cert_step d s sel pi f Hs Hd Hc Hr Hcert) as (A & _ & _ & _ & B & _). cbn zeta in *. split; assumption. }
  destruct H1 as [A B]. destruct (IH _ A Hl) as [C D].
  change (fold_left cstep_run l (cstep_run s st)) with (csteps_run (cstep_run s st) l). split; [exact C|lia].
Qed.

(* legality of the rows after ANY dual-feasible answer of the solver (C02) *)
Theorem shift_dual_feasible_inv d xm sel pi :
  Inv d -> dual_feasible (n_arcs (shift_net d xm sel)) pi = true -> Inv (apply_shift d (positions_of sel pi)).
Proof. intros Hd H. apply shift_inv; [exact Hd|]. exact (shift_dual_feasible_legal d xm sel pi H). Qed.

(* the x wirelength splits into the nets touching a selected cell (the objective of the linear programme) and
   the other nets, whose extents do not depend on the positions given to the selected cells *)
Definition touched_value (xm : incr) (sel : list nat) (x : nat -> Z) : Z :=
  lsum (fun nx => net_ext sel (ipos xm) x (snd nx)) (touched_nets sel (inets xm)).
Definition untouched_value (xm : incr) (sel : list nat) : Z :=
  lsum (fun nx => extent (map (ipin_pos (ipos xm)) (snd nx))) (filter (fun nx => negb (touches sel (snd nx))) (indexed (inets xm))).

Theorem xvalue_touched_untouched xm sel x :
  Forall (fun c => (c < length (ipos xm))%nat) sel ->
  xvalue xm (assign sel x) = touched_value xm sel x + untouched_value xm sel.
Proof.
  intros Hr. rewrite (xvalue_split xm sel x Hr). unfold touched_value, untouched_value. f_equal.
  apply lsum_ext. intros nx H. apply filter_In in H as [_ H]. apply negb_true_iff in H.
  unfold net_ext. f_equal. apply map_ext_in. intros p Hp. unfold pin_at, ipin_pos.
  destruct (mem (fst p) sel) eqn:M; [|reflexivity]. exfalso.
  assert (touches sel (snd nx) = true) by (unfold touches; apply existsb_exists; exists p; split; assumption). congruence.
Qed.

Theorem shift_cert_optimal_touched d xm sel pi f x' :
  Forall (fun c => (c < length (ipos xm))%nat) sel ->
  shift_cert_ok (shift_net d xm sel) pi f = true ->
  shift_ok d (assign sel x') = true ->
  touched_value xm sel (x_of pi) <= touched_value xm sel x'.
Proof.
  intros Hr Hc Hx'. pose proof (shift_cert_optimal d xm sel pi f x' Hr Hc Hx') as H.
  unfold positions_of in H. rewrite !(xvalue_touched_untouched xm sel _ Hr) in H. lia.
Qed.
