(* Extraction of the C16 models (Density.v, DensityUpdate.v) for the correspondence runs.
   ExtrOcamlBasic only: bool/option/list/prod/unit/sumbool map to OCaml's; Z,
   positive, nat, Q stay the extracted Coq datatypes.  No Extract Constant. *)
From Coq Require Import Extraction ExtrOcamlBasic ZArith List QArith.
Require Import CV.Orient CV.FreeSpace CV.Density CV.DensityUpdate.
Extraction Language OCaml.
Extraction "model_density.ml"
  Density.subdivisions Density.make_grid Density.grid_of_circuit Density.total_capacity
  Density.make_hier Density.level_limits Density.level_cap Density.find_bin
  Density.init_state Density.step Density.run_ops Density.redistribute Density.coarsen_x Density.coarsen_y
  Density.refine_x Density.refine_y Density.partition_okb Density.refined_from_x Density.refined_from_y
  Density.perm_b Density.allcells Density.gather
  Density.find_constrained_split Density.rebisect_split Density.reallocate Density.spread_cells Qreduction.Qred
  DensityUpdate.circuit_demands DensityUpdate.same_zero_status DensityUpdate.update_demand DensityUpdate.ustep.
