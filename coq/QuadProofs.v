(* C17 -- proofs about the model of coq/Quad.v (matrix assembly of the quadratic net models over Q).
   A. homogeneity of every assembly function in the net weights and penalty strengths
   B. the solution set of the finalized system is unchanged by a common positive factor
   C. the assembled system is the gradient-zero condition of the energy of its addPin calls; for two-pin nets
      and the star model that energy is the documented weighted quadratic objective
   D. the truncating container of the unchanged tree (std::vector<int> netWeight_) refutes A, B and C *)
From Coq Require Import List ZArith QArith Qminmax Qabs Bool Lia Lqa.
Require Import CV.Quad.
Import ListNotations.
Open Scope Q_scope.
Arguments bip_like : simpl never.

(* ------------------------------------------------------------------ generic list lemmas *)

Lemma Forall2_len : forall {A B} (R : A -> B -> Prop) l l', Forall2 R l l' -> length l = length l'.
Proof. induction 1; simpl; congruence. Qed.

Lemma Forall2_map_same : forall {A B C} (R : B -> C -> Prop) (f : A -> B) (g : A -> C) l,
  (forall a, In a l -> R (f a) (g a)) -> Forall2 R (map f l) (map g l).
Proof. induction l; simpl; intros; constructor; auto. Qed.

Lemma Forall2_flat_map_same : forall {A B C} (R : B -> C -> Prop) (f : A -> list B) (g : A -> list C) l,
  (forall a, In a l -> Forall2 R (f a) (g a)) -> Forall2 R (flat_map f l) (flat_map g l).
Proof. induction l; simpl; intros; [constructor|]. apply Forall2_app; auto. Qed.

Lemma Forall2_upd : forall {A B} (R : A -> B -> Prop) f g n l l',
  Forall2 R l l' -> (forall a b, R a b -> R (f a) (g b)) -> Forall2 R (upd n f l) (upd n g l').
Proof.
  intros A B R f g n l l' H. revert n. induction H; intros n Hf; simpl.
  - destruct n; constructor.
  - destruct n; constructor; auto.
Qed.

Lemma upd_length : forall {A} n (f : A -> A) l, length (upd n f l) = length l.
Proof. intros A n f l. revert n. induction l; intros [|n]; simpl; auto. Qed.

Lemma Forall2_fold_left : forall {S N} (RS : S -> S -> Prop) (RN : N -> N -> Prop) (f g : S -> N -> S) l l',
  Forall2 RN l l' -> (forall s s' n n', RS s s' -> RN n n' -> RS (f s n) (g s' n')) ->
  forall s s', RS s s' -> RS (fold_left f l s) (fold_left g l' s').
Proof. induction 1; simpl; intros; auto. Qed.

(* ------------------------------------------------------------------ A. homogeneity *)

Definition op_scaled (k : Q) (a' a : pinop) : Prop :=
  p_c1 a' = p_c1 a /\ p_c2 a' = p_c2 a /\ p_o1 a' = p_o1 a /\ p_o2 a' = p_o2 a /\ p_w a' == k * p_w a.
Definition trip_scaled (k : Q) (t' t : trip) : Prop :=
  t_row t' = t_row t /\ t_col t' = t_col t /\ t_val t' == k * t_val t.
Definition vec_scaled (k : Q) (v' v : list Q) : Prop := Forall2 (fun a' a => a' == k * a) v' v.
(* every triplet and every right-hand-side entry is multiplied by k; initial guess and matrix size unchanged *)
Definition sys_scaled (k : Q) (s' s : sys) : Prop :=
  Forall2 (trip_scaled k) (s_mat s') (s_mat s) /\ vec_scaled k (s_rhs s') (s_rhs s) /\
  s_init s' = s_init s /\ s_nz s' = s_nz s.
Definition net_scaled (k : Q) (n' n : net) : Prop := n_pins n' = n_pins n /\ n_weight n' == k * n_weight n.
(* the same nets with every weight multiplied by k *)
Definition nm_scaled (k : Q) (nm' nm : netmodel) : Prop :=
  nm_cells nm' = nm_cells nm /\ Forall2 (net_scaled k) (nm_nets nm') (nm_nets nm).

Lemma sys_scaled_size : forall k s' s, sys_scaled k s' s -> mat_size s' = mat_size s.
Proof. intros k s' s (_ & H & _). unfold mat_size. eapply Forall2_len; eauto. Qed.

Lemma add_fixed_pin_scaled : forall k c o pos w' w s' s,
  sys_scaled k s' s -> w' == k * w -> sys_scaled k (add_fixed_pin c o pos w' s') (add_fixed_pin c o pos w s).
Proof.
  intros k c o pos w' w s' s (Hm & Hr & Hi & Hz) Hw. unfold add_fixed_pin, sys_scaled; simpl. repeat split; auto.
  - apply Forall2_app; auto. repeat constructor; simpl; auto.
  - apply Forall2_upd; auto. intros a b Hab. rewrite Hab, Hw. ring.
  - rewrite Hz; auto.
Qed.

Lemma add_moving_pin_scaled : forall k c1 c2 o1 o2 w' w s' s,
  sys_scaled k s' s -> w' == k * w -> sys_scaled k (add_moving_pin c1 c2 o1 o2 w' s') (add_moving_pin c1 c2 o1 o2 w s).
Proof.
  intros k c1 c2 o1 o2 w' w s' s Hs Hw. unfold add_moving_pin. destruct (c1 =? c2)%Z; auto.
  destruct Hs as (Hm & Hr & Hi & Hz). unfold sys_scaled; simpl. repeat split; auto.
  - apply Forall2_app; auto. repeat constructor; simpl; auto; rewrite Hw; ring.
  - apply Forall2_upd; [apply Forall2_upd; auto|]; intros a b Hab; rewrite Hab, Hw; ring.
  - rewrite Hz; auto.
Qed.

Lemma add_pin_scaled : forall k o' o s' s, sys_scaled k s' s -> op_scaled k o' o -> sys_scaled k (add_pin o' s') (add_pin o s).
Proof.
  intros k o' o s' s Hs (H1 & H2 & H3 & H4 & Hw). unfold add_pin. rewrite H1, H2, H3, H4.
  destruct (p_c1 o =? p_c2 o)%Z; auto.
  destruct (p_c1 o =? -1)%Z; [apply add_fixed_pin_scaled; auto|].
  destruct (p_c2 o =? -1)%Z; [apply add_fixed_pin_scaled; auto|].
  apply add_moving_pin_scaled; auto.
Qed.

Lemma apply_ops_scaled : forall k ops' ops, Forall2 (op_scaled k) ops' ops ->
  forall s' s, sys_scaled k s' s -> sys_scaled k (apply_ops ops' s') (apply_ops ops s).
Proof.
  intros k ops' ops H s' s Hs. unfold apply_ops.
  eapply (Forall2_fold_left (sys_scaled k) (op_scaled k)); eauto.
  intros; apply add_pin_scaled; auto.
Qed.

Lemma add_cell_scaled : forall k p s' s, sys_scaled k s' s ->
  fst (add_cell p s') = fst (add_cell p s) /\ sys_scaled k (snd (add_cell p s')) (snd (add_cell p s)).
Proof.
  intros k p s' s Hs. pose proof (sys_scaled_size _ _ _ Hs) as Hn. destruct Hs as (Hm & Hr & Hi & Hz).
  unfold add_cell; simpl. split; [rewrite Hn; auto|]. unfold sys_scaled; simpl. repeat split; auto.
  - apply Forall2_app; auto. repeat constructor. ring.
  - rewrite Hi; auto.
  - rewrite Hz; auto.
Qed.

Lemma sys_empty_scaled : forall k n, sys_scaled k (sys_empty n) (sys_empty n).
Proof.
  intros k n. unfold sys_scaled, sys_empty; simpl. repeat split; auto.
  induction n; simpl; constructor; auto. ring.
Qed.

(* the op lists of the models *)
Ltac scaled_op := unfold op_scaled; simpl; repeat split; auto.

Lemma bipoint_ops_scaled : forall k w' w pins, w' == k * w -> Forall2 (op_scaled k) (bipoint_ops w' pins) (bipoint_ops w pins).
Proof. intros k w' w [|p0 [|p1 r]] Hw; simpl; repeat constructor; simpl; auto. Qed.

Lemma pair_ops_scaled : forall k f' f pins, (forall p q, op_scaled k (f' p q) (f p q)) ->
  Forall2 (op_scaled k) (pair_ops f' pins) (pair_ops f pins).
Proof.
  intros k f' f pins H. induction pins as [|p r IH]; simpl; [constructor|].
  apply Forall2_app; auto. apply Forall2_map_same; auto.
Qed.

Lemma clique_ops_scaled : forall k w' w pins, w' == k * w -> Forall2 (op_scaled k) (clique_ops w' pins) (clique_ops w pins).
Proof. intros. unfold clique_ops. apply pair_ops_scaled. intros; scaled_op. rewrite H. unfold Qdiv. ring. Qed.

Lemma star_ops_scaled : forall k w' w pins c, w' == k * w -> Forall2 (op_scaled k) (star_ops w' pins c) (star_ops w pins c).
Proof. intros. unfold star_ops. apply Forall2_map_same. intros; scaled_op. rewrite H. unfold Qdiv. ring. Qed.

Lemma bipoint_pl_ops_scaled : forall k w' w pins pl eps, w' == k * w ->
  Forall2 (op_scaled k) (bipoint_pl_ops w' pins pl eps) (bipoint_pl_ops w pins pl eps).
Proof. intros k w' w [|p0 [|p1 r]] pl eps Hw; simpl; repeat constructor; simpl; auto. rewrite Hw. unfold Qdiv. ring. Qed.

Lemma clique_pl_ops_scaled : forall k w' w pins pl eps, w' == k * w ->
  Forall2 (op_scaled k) (clique_pl_ops w' pins pl eps) (clique_pl_ops w pins pl eps).
Proof. intros. unfold clique_pl_ops. apply pair_ops_scaled. intros; scaled_op. rewrite H. unfold Qdiv. ring. Qed.

Lemma star_pl_ops_scaled : forall k w' w pins pl eps c, w' == k * w ->
  Forall2 (op_scaled k) (star_pl_ops w' pins pl eps c) (star_pl_ops w pins pl eps c).
Proof.
  intros. unfold star_pl_ops. destruct (min_pin pins pl) as [[[minI ?] ?] minPos]. destruct (max_pin pins pl) as [[[maxI ?] ?] maxPos].
  apply Forall2_map_same. intros [i p] _; simpl.
  destruct ((i =? minI)%nat || (i =? maxI)%nat); scaled_op; rewrite H; unfold Qdiv; ring.
Qed.

Lemma lightstar_ops_scaled : forall k w' w pins pl eps c, w' == k * w ->
  Forall2 (op_scaled k) (lightstar_ops w' pins pl eps c) (lightstar_ops w pins pl eps c).
Proof.
  intros. unfold lightstar_ops. destruct (min_pin pins pl) as [[[minI ?] ?] minPos]. destruct (max_pin pins pl) as [[[maxI ?] ?] maxPos].
  apply Forall2_map_same. intros [i p] _; simpl.
  destruct ((i =? minI)%nat || (i =? maxI)%nat); scaled_op; rewrite H; unfold Qdiv; ring.
Qed.

Lemma b2b_ops_scaled : forall k w' w pins pl eps, w' == k * w ->
  Forall2 (op_scaled k) (b2b_ops w' pins pl eps) (b2b_ops w pins pl eps).
Proof.
  intros. unfold b2b_ops. destruct (min_pin pins pl) as [[[minI minC] minO] minPos]. destruct (max_pin pins pl) as [[[maxI maxC] maxO] maxPos].
  apply Forall2_flat_map_same. intros [i p] _; simpl.
  destruct (i =? minI)%nat; [constructor|]. constructor.
  - scaled_op; rewrite H; unfold Qdiv; ring.
  - destruct (i =? maxI)%nat; repeat constructor; simpl; auto. rewrite H; unfold Qdiv; ring.
Qed.

Lemma penalty_ops_scaled : forall k pl i tg st' st cutoff, vec_scaled k st' st ->
  Forall2 (op_scaled k) (penalty_ops i pl tg st' cutoff) (penalty_ops i pl tg st cutoff).
Proof.
  intros k pl. induction pl as [|p pl IH]; intros i tg st' st cutoff H; simpl; [constructor|].
  destruct tg as [|t tg]; [constructor|]. inversion H; subst; [constructor|].
  constructor; [scaled_op; rewrite H0; unfold Qdiv; ring|]. apply IH; auto.
Qed.

Lemma add_net_model_scaled : forall k m pl eps s' s n' n, sys_scaled k s' s -> net_scaled k n' n ->
  sys_scaled k (add_net_model m pl eps s' n') (add_net_model m pl eps s n).
Proof.
  intros k m pl eps s' s n' n Hs (Hp & Hw). unfold add_net_model. rewrite Hp. destruct m.
  - apply apply_ops_scaled; auto. apply b2b_ops_scaled; auto.
  - destruct (bip_like (n_pins n)).
    + apply apply_ops_scaled; auto. apply bipoint_pl_ops_scaled; auto.
    + destruct (add_cell_scaled k (star_pos (n_pins n) pl) s' s Hs) as (Hc & Hs1).
      destruct (add_cell (star_pos (n_pins n) pl) s') as [c' s1']. destruct (add_cell (star_pos (n_pins n) pl) s) as [c s1].
      simpl in *. subst c'. apply apply_ops_scaled; auto. apply star_pl_ops_scaled; auto.
  - apply apply_ops_scaled; auto. apply clique_pl_ops_scaled; auto.
  - destruct (bip_like (n_pins n)).
    + apply apply_ops_scaled; auto. apply bipoint_pl_ops_scaled; auto.
    + destruct (add_cell_scaled k (star_pos (n_pins n) pl) s' s Hs) as (Hc & Hs1).
      destruct (add_cell (star_pos (n_pins n) pl) s') as [c' s1']. destruct (add_cell (star_pos (n_pins n) pl) s) as [c s1].
      simpl in *. subst c'. apply apply_ops_scaled; auto. apply lightstar_ops_scaled; auto.
Qed.

Lemma add_star_scaled : forall k s' s n' n, sys_scaled k s' s -> net_scaled k n' n -> sys_scaled k (add_star n' s') (add_star n s).
Proof.
  intros k s' s n' n Hs (Hp & Hw). unfold add_star, add_bipoint. rewrite Hp.
  destruct (bip_like (n_pins n)).
  - apply apply_ops_scaled; auto. apply bipoint_ops_scaled; auto.
  - destruct (add_cell_scaled k 0 s' s Hs) as (Hc & Hs1).
    destruct (add_cell 0 s') as [c' s1']. destruct (add_cell 0 s) as [c s1].
    simpl in *. subst c'. apply apply_ops_scaled; auto. apply star_ops_scaled; auto.
Qed.

Lemma create_scaled : forall k m nm' nm pl eps, nm_scaled k nm' nm -> sys_scaled k (create m nm' pl eps) (create m nm pl eps).
Proof.
  intros k m nm' nm pl eps (Hc & Hn). unfold create. rewrite Hc.
  eapply (Forall2_fold_left (sys_scaled k) (net_scaled k)); eauto; [|apply sys_empty_scaled].
  intros; apply add_net_model_scaled; auto.
Qed.

Lemma create_star0_scaled : forall k nm' nm, nm_scaled k nm' nm -> sys_scaled k (create_star0 nm') (create_star0 nm).
Proof.
  intros k nm' nm (Hc & Hn). unfold create_star0. rewrite Hc.
  eapply (Forall2_fold_left (sys_scaled k) (net_scaled k)); eauto; [|apply sys_empty_scaled].
  intros; apply add_star_scaled; auto.
Qed.

Lemma create_bipoint0_scaled : forall k nm' nm, nm_scaled k nm' nm -> sys_scaled k (create_bipoint0 nm') (create_bipoint0 nm).
Proof.
  intros k nm' nm (Hc & Hn). unfold create_bipoint0. rewrite Hc.
  eapply (Forall2_fold_left (sys_scaled k) (net_scaled k)); eauto; [|apply sys_empty_scaled].
  intros s s' n n' Hs (Hp & Hw). unfold add_bipoint. rewrite Hp. apply apply_ops_scaled; auto. apply bipoint_ops_scaled; auto.
Qed.

Lemma create_clique0_scaled : forall k nm' nm, nm_scaled k nm' nm -> sys_scaled k (create_clique0 nm') (create_clique0 nm).
Proof.
  intros k nm' nm (Hc & Hn). unfold create_clique0. rewrite Hc.
  eapply (Forall2_fold_left (sys_scaled k) (net_scaled k)); eauto; [|apply sys_empty_scaled].
  intros s s' n n' Hs (Hp & Hw). unfold add_clique. rewrite Hp. apply apply_ops_scaled; auto. apply clique_ops_scaled; auto.
Qed.

Lemma add_penalty_scaled : forall k pl tg st' st cutoff s' s, sys_scaled k s' s -> vec_scaled k st' st ->
  sys_scaled k (add_penalty pl tg st' cutoff s') (add_penalty pl tg st cutoff s).
Proof. intros. unfold add_penalty. apply apply_ops_scaled; auto. apply penalty_ops_scaled; auto. Qed.

(* all the assembly entry points at once *)
Lemma assembly_homogeneous : forall k nm' nm, nm_scaled k nm' nm ->
  sys_scaled k (create_star0 nm') (create_star0 nm) /\
  sys_scaled k (create_bipoint0 nm') (create_bipoint0 nm) /\
  sys_scaled k (create_clique0 nm') (create_clique0 nm) /\
  (forall m pl eps, sys_scaled k (create m nm' pl eps) (create m nm pl eps)) /\
  (forall m pl eps tg st' st cutoff, vec_scaled k st' st ->
     sys_scaled k (add_penalty pl tg st' cutoff (create m nm' pl eps)) (add_penalty pl tg st cutoff (create m nm pl eps))).
Proof.
  intros k nm' nm H. split; [apply create_star0_scaled; auto|]. split; [apply create_bipoint0_scaled; auto|].
  split; [apply create_clique0_scaled; auto|]. split; [intros; apply create_scaled; auto|].
  intros; apply add_penalty_scaled; auto. apply create_scaled; auto.
Qed.

(* the repaired addNet stores the weight it is given: building the same nets with weights k*w gives nm_scaled *)
Lemma add_net_scaled : forall k cells offs w' w nm' nm, nm_scaled k nm' nm -> w' == k * w ->
  nm_scaled k (add_net cells offs w' nm') (add_net cells offs w nm).
Proof.
  intros k cells offs w' w nm' nm (Hc & Hn) Hw. unfold add_net, add_net_gen.
  destruct (length cells <=? 1)%nat; [split; auto|]. split; simpl; auto.
  apply Forall2_app; auto. repeat constructor; simpl; auto.
Qed.

Lemma add_net_ext_scaled : forall k cells offs fx w' w nm' nm, nm_scaled k nm' nm -> w' == k * w ->
  nm_scaled k (add_net_ext cells offs fx w' nm') (add_net_ext cells offs fx w nm).
Proof.
  intros k cells offs fx w' w nm' nm H Hw. unfold add_net_ext, add_net_ext_gen.
  destruct cells as [|c r]; auto. destruct fx as [[mn mx]|]; [destruct (Qeq_bool mx mn)|]; apply (add_net_scaled k); auto.
Qed.

Lemma build_nm_scaled : forall k n nets' nets,
  Forall2 (fun e' e => fst e' = fst e /\ snd e' == k * snd e) nets' nets ->
  nm_scaled k (build_nm n nets') (build_nm n nets).
Proof.
  intros k n nets' nets H. unfold build_nm, build_nm_gen.
  eapply (Forall2_fold_left (nm_scaled k)); eauto.
  - intros s s' [[[cs os] fx] w] [[[cs' os'] fx'] w'] Hs (H1 & H2). simpl in *. inversion H1; subst.
    apply (add_net_ext_scaled k); auto.
  - split; simpl; auto.
Qed.

(* ------------------------------------------------------------------ B. solution sets *)

Lemma nth_upd : forall {A} n (f : A -> A) l i d,
  nth i (upd n f l) d = if (Nat.eqb i n && Nat.ltb n (length l))%bool then f (nth i l d) else nth i l d.
Proof.
  intros A n f l. revert n. induction l as [|a l IH]; intros n i d; simpl.
  - change (Nat.ltb n 0) with false. rewrite Bool.andb_false_r. destruct i; reflexivity.
  - destruct n, i; simpl; auto. rewrite IH. reflexivity.
Qed.

Lemma upd_app_lt : forall {A} n (f : A -> A) l r, (n < length l)%nat -> upd n f (l ++ r) = upd n f l ++ r.
Proof.
  intros A n f l. revert n. induction l; intros n r H; simpl in *; [lia|]. destruct n; simpl; auto. rewrite IHl; auto. lia.
Qed.

(* cells of an addPin call are below the current matrix size *)
Definition op_ok (n : nat) (o : pinop) : Prop := (-1 <= p_c1 o < Z.of_nat n)%Z /\ (-1 <= p_c2 o < Z.of_nat n)%Z.

(* invariant of MatrixCreator: hasNonZero_ has one flag per row; every triplet lies in a flagged row of the matrix;
   an unflagged row has a zero right-hand side *)
Definition sys_inv (s : sys) : Prop :=
  length (s_nz s) = length (s_rhs s) /\
  (forall t, In t (s_mat s) ->
     (0 <= t_row t < Z.of_nat (length (s_rhs s)))%Z /\ forall i, t_row t = Z.of_nat i -> nth i (s_nz s) false = true) /\
  (forall i, nth i (s_nz s) false = false -> nth i (s_rhs s) 0 == 0).

Lemma inv_step : forall s newtrips rhs' ini nz',
  sys_inv s -> length nz' = length rhs' -> length rhs' = length (s_rhs s) ->
  (forall i, nth i (s_nz s) false = true -> nth i nz' false = true) ->
  (forall t, In t newtrips -> (0 <= t_row t < Z.of_nat (length (s_rhs s)))%Z /\ forall i, t_row t = Z.of_nat i -> nth i nz' false = true) ->
  (forall i, nth i nz' false = false -> nth i rhs' 0 == nth i (s_rhs s) 0) ->
  sys_inv (mkSys (s_mat s ++ newtrips) rhs' ini nz').
Proof.
  intros s nt rhs' ini nz' (Hl & Ht & Hr) H1 H2 Hmono Hnew Hrhs. unfold sys_inv; simpl. split; auto. split.
  - intros t Hin. rewrite H2. apply in_app_or in Hin. destruct Hin as [Hin|Hin]; auto.
    destruct (Ht t Hin) as (Ha & Hb). split; auto.
  - intros i Hi. rewrite (Hrhs i Hi). apply Hr. destruct (nth i (s_nz s) false) eqn:E; auto. rewrite (Hmono i E) in Hi. discriminate.
Qed.

Lemma flag_set : forall c i (nz : list bool), (c < Z.of_nat (length nz))%Z -> c = Z.of_nat i ->
  nth i (upd (Z.to_nat c) (fun _ => true) nz) false = true.
Proof.
  intros c i nz Hc E. subst c. rewrite Nat2Z.id, nth_upd, Nat.eqb_refl. simpl.
  destruct (Nat.ltb i (length nz)) eqn:L; auto. apply Nat.ltb_ge in L. lia.
Qed.

Lemma flag_mono : forall n i (nz : list bool), nth i nz false = true -> nth i (upd n (fun _ => true) nz) false = true.
Proof. intros. rewrite nth_upd. destruct (_ && _)%bool; auto. Qed.

Lemma add_fixed_pin_inv : forall c o pos w s, sys_inv s -> (0 <= c < Z.of_nat (mat_size s))%Z -> sys_inv (add_fixed_pin c o pos w s).
Proof.
  intros c o pos w s Hinv Hc. unfold add_fixed_pin, mat_size in *. pose proof Hinv as (Hl & _).
  apply inv_step; auto; try (rewrite !upd_length; auto).
  - intros; apply flag_mono; auto.
  - intros t [E|[]]; subst t; simpl. split; auto. intros i E. apply flag_set; auto. rewrite Hl; lia.
  - intros i. rewrite !nth_upd, Hl. destruct (_ && _)%bool; intros; [discriminate|reflexivity].
Qed.

Lemma add_moving_pin_inv : forall c1 c2 o1 o2 w s, sys_inv s ->
  (0 <= c1 < Z.of_nat (mat_size s))%Z -> (0 <= c2 < Z.of_nat (mat_size s))%Z -> sys_inv (add_moving_pin c1 c2 o1 o2 w s).
Proof.
  intros c1 c2 o1 o2 w s Hinv H1 H2. unfold add_moving_pin, mat_size in *. destruct (c1 =? c2)%Z; auto. pose proof Hinv as (Hl & _).
  apply inv_step; auto; try (rewrite !upd_length; auto).
  - intros; apply flag_mono, flag_mono; auto.
  - assert (F1 : forall i, c1 = Z.of_nat i -> nth i (upd (Z.to_nat c2) (fun _ => true) (upd (Z.to_nat c1) (fun _ => true) (s_nz s))) false = true).
    { intros. apply flag_mono, flag_set; auto. rewrite Hl; lia. }
    assert (F2 : forall i, c2 = Z.of_nat i -> nth i (upd (Z.to_nat c2) (fun _ => true) (upd (Z.to_nat c1) (fun _ => true) (s_nz s))) false = true).
    { intros. apply flag_set; auto. rewrite upd_length, Hl; lia. }
    intros t [E|[E|[E|[E|[]]]]]; subst t; simpl; split; auto.
  - intros i. rewrite !nth_upd, !upd_length, Hl.
    destruct (Nat.eqb i (Z.to_nat c2) && _)%bool; [discriminate|].
    destruct (Nat.eqb i (Z.to_nat c1) && _)%bool; intros; [discriminate|reflexivity].
Qed.

Lemma add_pin_size : forall o s, mat_size (add_pin o s) = mat_size s.
Proof.
  intros o s. unfold add_pin, add_fixed_pin, add_moving_pin, mat_size.
  repeat (match goal with |- context [if ?b then _ else _] => destruct b end); simpl; rewrite ?upd_length; auto.
Qed.

Lemma add_pin_inv : forall o s, sys_inv s -> op_ok (mat_size s) o -> sys_inv (add_pin o s).
Proof.
  intros o s Hinv (H1 & H2). unfold add_pin. destruct (Z.eqb_spec (p_c1 o) (p_c2 o)); auto.
  destruct (Z.eqb_spec (p_c1 o) (-1)); [apply add_fixed_pin_inv; auto; lia|].
  destruct (Z.eqb_spec (p_c2 o) (-1)); [apply add_fixed_pin_inv; auto; lia|]. apply add_moving_pin_inv; auto; lia.
Qed.

Lemma apply_ops_size : forall ops s, mat_size (apply_ops ops s) = mat_size s.
Proof. induction ops; intros; simpl; auto. unfold apply_ops in *; simpl. rewrite IHops. apply add_pin_size. Qed.

Lemma apply_ops_inv : forall ops s, sys_inv s -> Forall (op_ok (mat_size s)) ops -> sys_inv (apply_ops ops s).
Proof.
  induction ops; intros s Hinv H; simpl; auto. inversion H; subst. unfold apply_ops in *; simpl.
  apply IHops; [apply add_pin_inv; auto|]. rewrite add_pin_size; auto.
Qed.

Lemma add_cell_inv : forall p s, sys_inv s ->
  sys_inv (snd (add_cell p s)) /\ mat_size (snd (add_cell p s)) = S (mat_size s) /\ fst (add_cell p s) = Z.of_nat (mat_size s).
Proof.
  intros p s (Hl & Ht & Hr). unfold add_cell, mat_size; simpl. split; [|split; auto; rewrite app_length; simpl; lia].
  unfold sys_inv; simpl. rewrite !app_length; simpl. split; [lia|]. split.
  - intros t Hin. destruct (Ht t Hin) as (Ha & Hb). split; [lia|]. intros i E. specialize (Hb i E).
    rewrite app_nth1; auto. subst. rewrite <- Hl in Ha. lia.
  - intros i Hi. destruct (Nat.lt_ge_cases i (length (s_rhs s))) as [L|L].
    + rewrite app_nth1 in Hi by lia. rewrite app_nth1 by lia. auto.
    + rewrite app_nth2 by lia. destruct (i - length (s_rhs s))%nat as [|[|j]]; simpl; reflexivity.
Qed.

Lemma sys_empty_inv : forall n, sys_inv (sys_empty n).
Proof.
  intros n. unfold sys_inv, sys_empty; simpl. rewrite !repeat_length. split; auto. split; [intros t []|].
  intros i _. rewrite nth_repeat. reflexivity.
Qed.

(* ---- the models only name cells of the NetModel (check(): -1 <= c < nbCells) and their own star cells *)

Definition pins_ok (n : nat) (pins : list (Z * Q)) : Prop := forall p, In p pins -> (-1 <= fst p < Z.of_nat n)%Z.
Definition nm_ok (nm : netmodel) : Prop := forall n, In n (nm_nets nm) -> pins_ok (nm_cells nm) (n_pins n).

Lemma op_ok_mono : forall n m o, (n <= m)%nat -> op_ok n o -> op_ok m o.
Proof. unfold op_ok; intros; lia. Qed.

Lemma in_indexed : forall {A} (l : list A) i a, In (i, a) (indexed l) -> In a l.
Proof. unfold indexed; intros. eapply in_combine_r; eauto. Qed.

Lemma bipoint_ops_ok : forall n w pins, pins_ok n pins -> Forall (op_ok n) (bipoint_ops w pins).
Proof.
  intros n w [|p0 [|p1 r]] H; simpl; try constructor; [|constructor].
  split; simpl; [apply (H p0)|apply (H p1)]; simpl; auto.
Qed.

Lemma pair_ops_ok : forall n f pins, pins_ok n pins -> (forall p q, p_c1 (f p q) = fst p /\ p_c2 (f p q) = fst q) ->
  Forall (op_ok n) (pair_ops f pins).
Proof.
  intros n f pins. induction pins as [|p r IH]; intros H Hf; simpl; [constructor|]. apply Forall_app. split.
  - apply Forall_forall. intros o Ho. apply in_map_iff in Ho. destruct Ho as (q & E & Hq). subst o.
    destruct (Hf p q) as (E1 & E2). unfold op_ok. rewrite E1, E2. split; [apply (H p)|apply (H q)]; simpl; auto.
  - apply IH; auto. intros q Hq; apply H; simpl; auto.
Qed.

Lemma map_ops_ok : forall {A} n (f : A -> pinop) l, (forall a, In a l -> op_ok n (f a)) -> Forall (op_ok n) (map f l).
Proof. intros. apply Forall_forall. intros o Ho. apply in_map_iff in Ho. destruct Ho as (a & E & Ha). subst; auto. Qed.

Definition best_ok (n : nat) (b : option (nat * Z * Q * Q)) : Prop :=
  match b with None => True | Some (_, c, _, _) => (-1 <= c < Z.of_nat n)%Z end.

Lemma fold_best_ok : forall n step (l : list (nat * (Z * Q))) b0,
  (forall b ip, best_ok n b -> In ip l -> best_ok n (step b ip)) -> best_ok n b0 -> best_ok n (fold_left step l b0).
Proof. intros n step l. induction l; intros b0 H H0; simpl; auto. apply IHl; [intros; apply H; simpl; auto|apply H; simpl; auto]. Qed.

Lemma min_pin_ok : forall n pins pl, pins_ok n pins -> let '(_, c, _, _) := min_pin pins pl in (-1 <= c < Z.of_nat n)%Z.
Proof.
  intros n pins pl H. unfold min_pin.
  assert (B : best_ok n (fold_left (min_pin_step pl) (indexed pins) None)).
  { apply fold_best_ok; simpl; auto. intros b [i p] Hb Hin. apply in_indexed in Hin. unfold min_pin_step; simpl.
    destruct b as [[[[? ?] ?] bp]|]; simpl; [destruct (Qlt_bool _ bp); simpl; auto|]; apply (H p Hin). }
  destruct (fold_left _ _ None) as [[[[? ?] ?] ?]|]; simpl in *; auto. lia.
Qed.

Lemma max_pin_ok : forall n pins pl, pins_ok n pins -> let '(_, c, _, _) := max_pin pins pl in (-1 <= c < Z.of_nat n)%Z.
Proof.
  intros n pins pl H. unfold max_pin.
  assert (B : best_ok n (fold_left (max_pin_step pl) (indexed pins) None)).
  { apply fold_best_ok; simpl; auto. intros b [i p] Hb Hin. apply in_indexed in Hin. unfold max_pin_step; simpl.
    destruct b as [[[[? ?] ?] bp]|]; simpl; [destruct (Qlt_bool bp _); simpl; auto|]; apply (H p Hin). }
  destruct (fold_left _ _ None) as [[[[? ?] ?] ?]|]; simpl in *; auto. lia.
Qed.

Lemma clique_ops_ok : forall n w pins, pins_ok n pins -> Forall (op_ok n) (clique_ops w pins).
Proof. intros. apply pair_ops_ok; auto. Qed.
Lemma clique_pl_ops_ok : forall n w pins pl eps, pins_ok n pins -> Forall (op_ok n) (clique_pl_ops w pins pl eps).
Proof. intros. apply pair_ops_ok; auto. Qed.
Lemma bipoint_pl_ops_ok : forall n w pins pl eps, pins_ok n pins -> Forall (op_ok n) (bipoint_pl_ops w pins pl eps).
Proof.
  intros n w [|p0 [|p1 r]] pl eps H; simpl; try constructor; [|constructor].
  split; simpl; [apply (H p0)|apply (H p1)]; simpl; auto.
Qed.
Lemma star_ops_ok : forall n w pins c, pins_ok n pins -> (-1 <= c < Z.of_nat n)%Z -> Forall (op_ok n) (star_ops w pins c).
Proof. intros. apply map_ops_ok. intros p Hp. split; simpl; auto; apply (H p Hp). Qed.
Lemma star_pl_ops_ok : forall n w pins pl eps c, pins_ok n pins -> (-1 <= c < Z.of_nat n)%Z -> Forall (op_ok n) (star_pl_ops w pins pl eps c).
Proof.
  intros. unfold star_pl_ops. destruct (min_pin pins pl) as [[[? ?] ?] ?]. destruct (max_pin pins pl) as [[[? ?] ?] ?].
  apply map_ops_ok. intros [i p] Hp. apply in_indexed in Hp. simpl. destruct (_ || _)%bool; split; simpl; auto; apply (H p Hp).
Qed.
Lemma lightstar_ops_ok : forall n w pins pl eps c, pins_ok n pins -> (-1 <= c < Z.of_nat n)%Z -> Forall (op_ok n) (lightstar_ops w pins pl eps c).
Proof.
  intros. unfold lightstar_ops. destruct (min_pin pins pl) as [[[? ?] ?] ?]. destruct (max_pin pins pl) as [[[? ?] ?] ?].
  apply map_ops_ok. intros [i p] Hp. apply in_indexed in Hp. simpl. destruct (_ || _)%bool; split; simpl; auto; apply (H p Hp).
Qed.
Lemma b2b_ops_ok : forall n w pins pl eps, pins_ok n pins -> Forall (op_ok n) (b2b_ops w pins pl eps).
Proof.
  intros n w pins pl eps H. unfold b2b_ops. pose proof (min_pin_ok n pins pl H) as Hmin. pose proof (max_pin_ok n pins pl H) as Hmax.
  destruct (min_pin pins pl) as [[[minI minC] ?] ?]. destruct (max_pin pins pl) as [[[maxI maxC] ?] ?].
  apply Forall_forall. intros o Ho. apply in_flat_map in Ho. destruct Ho as ([i p] & Hp & Ho). apply in_indexed in Hp. simpl in Ho.
  destruct (i =? minI)%nat; [destruct Ho|]. destruct Ho as [E|Ho]; [subst o; split; simpl; auto; apply (H p Hp)|].
  destruct (i =? maxI)%nat; [destruct Ho|]. destruct Ho as [E|[]]. subst o; split; simpl; auto; apply (H p Hp).
Qed.
Lemma penalty_ops_ok : forall n pl i tg st cutoff, (0 <= i)%Z -> (i + Z.of_nat (length pl) <= Z.of_nat n)%Z ->
  Forall (op_ok n) (penalty_ops i pl tg st cutoff).
Proof.
  intros n pl. induction pl as [|p pl IH]; intros i tg st cutoff H0 H; simpl; [constructor|].
  destruct tg; [constructor|]. destruct st; [constructor|]. simpl in H. constructor; [split; simpl; lia|]. apply IH; lia.
Qed.

Definition build_inv (nm : netmodel) (s : sys) : Prop := sys_inv s /\ (nm_cells nm <= mat_size s)%nat.

Lemma pins_ok_mono : forall n m pins, (n <= m)%nat -> pins_ok n pins -> pins_ok m pins.
Proof. unfold pins_ok; intros. specialize (H0 p H1). lia. Qed.

Lemma build_apply_ops : forall nm ops s, build_inv nm s -> Forall (op_ok (mat_size s)) ops -> build_inv nm (apply_ops ops s).
Proof. intros nm ops s (Hi & Hn) H. split; [apply apply_ops_inv; auto|rewrite apply_ops_size; auto]. Qed.

Lemma build_with_cell : forall nm p s (ops : Z -> list pinop), build_inv nm s ->
  (forall c, c = Z.of_nat (mat_size s) -> Forall (op_ok (S (mat_size s))) (ops c)) ->
  build_inv nm (let (c, s1) := add_cell p s in apply_ops (ops c) s1).
Proof.
  intros nm p s ops (Hi & Hn) H. destruct (add_cell_inv p s Hi) as (Hi1 & Hs1 & Hc).
  destruct (add_cell p s) as [c s1]. simpl in *. apply build_apply_ops; [split; auto; lia|]. rewrite Hs1. auto.
Qed.

Lemma add_net_model_inv : forall nm m pl eps s n, build_inv nm s -> pins_ok (nm_cells nm) (n_pins n) ->
  build_inv nm (add_net_model m pl eps s n).
Proof.
  intros nm m pl eps s n Hb Hp. pose proof Hb as (_ & Hn). pose proof (pins_ok_mono _ _ _ Hn Hp) as Hp'.
  unfold add_net_model. destruct m.
  - apply build_apply_ops; auto. apply b2b_ops_ok; auto.
  - destruct (bip_like (n_pins n)); [apply build_apply_ops; auto; apply bipoint_pl_ops_ok; auto|].
    apply build_with_cell; auto. intros c Hc. apply star_pl_ops_ok; [eapply pins_ok_mono; [|eauto]|]; lia.
  - apply build_apply_ops; auto. apply clique_pl_ops_ok; auto.
  - destruct (bip_like (n_pins n)); [apply build_apply_ops; auto; apply bipoint_pl_ops_ok; auto|].
    apply build_with_cell; auto. intros c Hc. apply lightstar_ops_ok; [eapply pins_ok_mono; [|eauto]|]; lia.
Qed.

Lemma add_star_inv : forall nm s n, build_inv nm s -> pins_ok (nm_cells nm) (n_pins n) -> build_inv nm (add_star n s).
Proof.
  intros nm s n Hb Hp. pose proof Hb as (_ & Hn). pose proof (pins_ok_mono _ _ _ Hn Hp) as Hp'. unfold add_star, add_bipoint.
  destruct (bip_like (n_pins n)); [apply build_apply_ops; auto; apply bipoint_ops_ok; auto|].
  apply build_with_cell; auto. intros c Hc. apply star_ops_ok; [eapply pins_ok_mono; [|eauto]|]; lia.
Qed.

Lemma fold_build_inv : forall nm (f : sys -> net -> sys) nets s,
  (forall s n, build_inv nm s -> In n nets -> build_inv nm (f s n)) -> build_inv nm s -> build_inv nm (fold_left f nets s).
Proof. intros nm f nets. induction nets; intros s H H0; simpl; auto. apply IHnets; [intros; apply H; simpl; auto|apply H; simpl; auto]. Qed.

Lemma build_empty : forall nm, build_inv nm (sys_empty (nm_cells nm)).
Proof. intros. split; [apply sys_empty_inv|]. unfold mat_size, sys_empty; simpl. rewrite repeat_length. auto. Qed.

Lemma create_inv : forall m nm pl eps, nm_ok nm -> build_inv nm (create m nm pl eps).
Proof. intros. unfold create. apply fold_build_inv; [|apply build_empty]. intros; apply add_net_model_inv; auto. Qed.
Lemma create_star0_inv : forall nm, nm_ok nm -> build_inv nm (create_star0 nm).
Proof. intros. unfold create_star0. apply fold_build_inv; [|apply build_empty]. intros; apply add_star_inv; auto. Qed.
Lemma add_penalty_inv : forall nm pl tg st cutoff s, build_inv nm s -> (length pl <= nm_cells nm)%nat ->
  build_inv nm (add_penalty pl tg st cutoff s).
Proof. intros nm pl tg st cutoff s Hb Hl. pose proof Hb as (_ & Hn). apply build_apply_ops; auto. apply penalty_ops_ok; lia. Qed.

(* ---- row sums *)

Lemma row_sum_app : forall i a b x, row_sum i (a ++ b) x == row_sum i a x + row_sum i b x.
Proof. intros i a b x. unfold row_sum. induction a; simpl; [ring|]. rewrite IHa. ring. Qed.

Lemma row_sum_scaled : forall k i m' m x, Forall2 (trip_scaled k) m' m -> row_sum i m' x == k * row_sum i m x.
Proof.
  intros k i m' m x H. unfold row_sum. induction H as [|t' t m' m (Hr & Hc & Hv) _ IH]; simpl; [ring|].
  rewrite IH, Hr, Hc. destruct (t_row t =? i)%Z; [rewrite Hv|]; ring.
Qed.

Lemma row_sum_none : forall i m x, (forall t, In t m -> t_row t <> i) -> row_sum i m x == 0.
Proof.
  intros i m x. unfold row_sum. induction m as [|t m IH]; intros H; simpl; [reflexivity|].
  rewrite IH by (intros; apply H; simpl; auto). destruct (Z.eqb_spec (t_row t) i) as [E|E]; [|ring].
  exfalso. apply (H t); simpl; auto.
Qed.

Lemma in_indexed_nth : forall {A} (l : list A) a i b, In (i, b) (combine (seq a (length l)) l) -> (a <= i)%nat /\ nth_error l (i - a) = Some b.
Proof.
  intros A l. induction l as [|x l IH]; intros a i b H; simpl in H; [destruct H|]. destruct H as [E|H].
  - inversion E; subst. rewrite Nat.sub_diag. auto.
  - apply IH in H. destruct H as (H1 & H2). split; [lia|]. replace (i - a)%nat with (S (i - S a)) by lia. auto.
Qed.

Lemma reg_trips_row : forall nz t, In t (reg_trips nz) -> exists i, t_row t = Z.of_nat i /\ nth i nz true = false.
Proof.
  intros nz t H. unfold reg_trips in H. apply in_flat_map in H. destruct H as ([i b] & Hin & Ht). simpl in Ht.
  destruct b; [destruct Ht|]. destruct Ht as [E|[]]. subst t; simpl. exists i. split; auto.
  apply in_indexed_nth in Hin. destruct Hin as (_ & Hn). rewrite Nat.sub_0_r in Hn. apply nth_error_nth with (d := true) in Hn. auto.
Qed.

Lemma vec_scaled_nth : forall k v' v, vec_scaled k v' v -> forall i, nth i v' 0 == k * nth i v 0.
Proof. intros k v' v H. induction H; intros [|i]; simpl; auto; ring. Qed.

Lemma Forall2_map_seq : forall (R : Q -> Q -> Prop) (f : nat -> Q) l a,
  Forall2 R (map f (seq a (length l))) l <-> (forall i, (i < length l)%nat -> R (f (a + i)%nat) (nth i l 0)).
Proof.
  intros R f l. induction l as [|x l IH]; intros a; simpl.
  - split; [intros _ i Hi; lia|constructor].
  - split.
    + intros H. inversion H; subst. intros [|i] Hi; [rewrite Nat.add_0_r; auto|].
      rewrite (IH (S a)) in H5. specialize (H5 i). replace (a + S i)%nat with (S a + i)%nat by lia. apply H5. lia.
    + intros H. constructor; [specialize (H O); rewrite Nat.add_0_r in H; apply H; lia|].
      apply IH. intros i Hi. replace (S a + i)%nat with (a + S i)%nat by lia. apply (H (S i)). lia.
Qed.

Lemma solves_rows : forall s x, solves s x <-> (forall i, (i < length (s_rhs s))%nat -> row_sum (Z.of_nat i) (s_mat s) x == nth i (s_rhs s) 0).
Proof. intros. unfold solves, mat_vec. rewrite Forall2_map_seq. simpl. reflexivity. Qed.

(* the regularised system: same solutions whatever the common factor *)
Lemma solves_finalize_scaled : forall k s' s, ~ k == 0 -> sys_scaled k s' s -> sys_inv s ->
  forall x, solves (finalize s') x <-> solves (finalize s) x.
Proof.
  intros k s' s Hk Hs (Hl & Ht & Hr) x. pose proof (sys_scaled_size _ _ _ Hs) as Hn. unfold mat_size in Hn.
  destruct Hs as (Hm & Hv & _ & Hz). rewrite !solves_rows. unfold finalize; simpl. rewrite Hn, Hz.
  assert (E : forall i, (i < length (s_rhs s))%nat ->
     (row_sum (Z.of_nat i) (s_mat s' ++ reg_trips (s_nz s)) x == nth i (s_rhs s') 0 <->
      row_sum (Z.of_nat i) (s_mat s ++ reg_trips (s_nz s)) x == nth i (s_rhs s) 0)).
  { intros i Hi. rewrite !row_sum_app, (row_sum_scaled k _ _ _ _ Hm), (vec_scaled_nth _ _ _ Hv i).
    destruct (nth i (s_nz s) false) eqn:F.
    - assert (Z0 : row_sum (Z.of_nat i) (reg_trips (s_nz s)) x == 0).
      { apply row_sum_none. intros t Hin E. apply reg_trips_row in Hin. destruct Hin as (j & Ej & Hj).
        rewrite Ej in E. apply Nat2Z.inj in E. subst j. rewrite (nth_indep _ true false) in Hj by lia. congruence. }
      rewrite Z0, !Qplus_0_r. apply Qmult_inj_l; auto.
    - assert (Z0 : row_sum (Z.of_nat i) (s_mat s) x == 0).
      { apply row_sum_none. intros t Hin E. destruct (Ht t Hin) as (_ & Hb). rewrite (Hb i E) in F. discriminate. }
      rewrite Z0, (Hr i F). rewrite !Qmult_0_r. reflexivity. }
  split; intros H i Hi; [apply (proj1 (E i Hi))|apply (proj2 (E i Hi))]; auto.
Qed.

(* rows that no net touches read reg_value * x_i = 0 *)

Theorem solution_set_invariant : forall k nm' nm, 0 < k -> nm_ok nm -> nm_scaled k nm' nm ->
  (forall x, solves (system_star0 nm') x <-> solves (system_star0 nm) x) /\
  (forall m pl eps x, solves (system m nm' pl eps) x <-> solves (system m nm pl eps) x) /\
  (forall m pl eps tg st' st cutoff x, vec_scaled k st' st -> (length pl <= nm_cells nm)%nat ->
     solves (system_penalty m nm' pl eps tg st' cutoff) x <-> solves (system_penalty m nm pl eps tg st cutoff) x).
Proof.
  intros k nm' nm Hk Hok Hs. assert (Hk' : ~ k == 0) by (intro E; rewrite E in Hk; apply (Qlt_irrefl 0); auto).
  destruct (assembly_homogeneous k nm' nm Hs) as (H1 & _ & _ & H4 & H5).
  split; [|split].
  - intros x. apply (solves_finalize_scaled k); auto. apply create_star0_inv; auto.
  - intros m pl eps x. apply (solves_finalize_scaled k); auto. apply create_inv; auto.
  - intros m pl eps tg st' st cutoff x Hst Hl. apply (solves_finalize_scaled k); auto.
    apply (add_penalty_inv nm); auto. apply create_inv; auto.
Qed.

(* residual M x - b (the pull on every cell) is proportional to the common factor *)
Lemma residual_scaled : forall k s' s x i, sys_scaled k s' s ->
  row_sum i (s_mat s') x - nth (Z.to_nat i) (s_rhs s') 0 == k * (row_sum i (s_mat s) x - nth (Z.to_nat i) (s_rhs s) 0).
Proof. intros k s' s x i (Hm & Hv & _). rewrite (row_sum_scaled k _ _ _ _ Hm), (vec_scaled_nth _ _ _ Hv). ring. Qed.

(* ------------------------------------------------------------------ C. normal equations *)

(* variation of a pin position when the unknowns move by h (fixed pins do not move) *)
Definition hat (c : Z) (h : list Q) : Q := if (c =? -1)%Z then 0 else nth (Z.to_nat c) h 0.
Definition op_grad (x h : list Q) (o : pinop) : Q :=
  p_w o * (pin_at (p_c1 o) (p_o1 o) x - pin_at (p_c2 o) (p_o2 o) x) * (hat (p_c1 o) h - hat (p_c2 o) h).
Definition op_curv (h : list Q) (o : pinop) : Q :=
  (p_w o / 2) * ((hat (p_c1 o) h - hat (p_c2 o) h) * (hat (p_c1 o) h - hat (p_c2 o) h)).
Definition ops_grad (ops : list pinop) (x h : list Q) : Q := fold_right (fun o acc => op_grad x h o + acc) 0 ops.
Definition ops_curv (ops : list pinop) (h : list Q) : Q := fold_right (fun o acc => op_curv h o + acc) 0 ops.

Lemma nth_vadd : forall x h n, length x = length h -> nth n (vadd x h) 0 == nth n x 0 + nth n h 0.
Proof.
  induction x as [|a x IH]; intros [|b h] n H; simpl in *; try discriminate.
  - destruct n; ring.
  - destruct n; [reflexivity|]. apply IH. lia.
Qed.

Lemma vadd_length : forall x h, length x = length h -> length (vadd x h) = length x.
Proof. induction x; intros [|b h] H; simpl in *; try discriminate; auto. Qed.

Lemma pin_at_vadd : forall c o x h, length x = length h -> pin_at c o (vadd x h) == pin_at c o x + hat c h.
Proof. intros. unfold pin_at, hat. destruct (c =? -1)%Z; [ring|]. rewrite nth_vadd by auto. ring. Qed.

Lemma op_energy_expand : forall x h o, length x = length h ->
  op_energy (vadd x h) o == op_energy x o + op_grad x h o + op_curv h o.
Proof. intros. unfold op_energy, op_grad, op_curv. cbv zeta. rewrite !pin_at_vadd by auto. field. Qed.

Lemma ops_energy_expand : forall ops x h, length x = length h ->
  ops_energy ops (vadd x h) == ops_energy ops x + ops_grad ops x h + ops_curv ops h.
Proof.
  induction ops as [|o ops IH]; intros; simpl; [ring|]. rewrite IH, op_energy_expand by auto. ring.
Qed.

Lemma op_curv_nonneg : forall h o, 0 <= p_w o -> 0 <= op_curv h o.
Proof.
  intros. unfold op_curv. apply Qmult_le_0_compat.
  - unfold Qdiv. apply Qmult_le_0_compat; auto. discriminate.
  - set (d := hat (p_c1 o) h - hat (p_c2 o) h). destruct (Qlt_le_dec d 0) as [L|L].
    + setoid_replace (d * d) with ((- d) * (- d)) by ring. apply Qmult_le_0_compat; lra.
    + apply Qmult_le_0_compat; auto.
Qed.

Lemma ops_curv_nonneg : forall h ops, (forall o, In o ops -> 0 <= p_w o) -> 0 <= ops_curv ops h.
Proof.
  induction ops as [|o ops IH]; intros H; simpl; [lra|].
  pose proof (op_curv_nonneg h o (H o (or_introl eq_refl))). assert (0 <= ops_curv ops h) by (apply IH; intros; apply H; simpl; auto). lra.
Qed.

(* ---- how the system changes: lin tracks the gradient *)

Lemma vdot_nil_r : forall h, vdot h [] = 0.
Proof. destruct h; reflexivity. Qed.

Lemma vdot_upd : forall h l n d, (n < length l)%nat -> (n < length h)%nat ->
  vdot h (upd n (fun r => r + d) l) == vdot h l + nth n h 0 * d.
Proof.
  induction h as [|a h IH]; intros l n d Hl Hh; simpl in Hh; [lia|]. destruct l as [|b l]; simpl in Hl; [lia|].
  destruct n; simpl; [ring|]. rewrite IH by lia. ring.
Qed.

Lemma vdot_app0 : forall h l, vdot h (l ++ [0]) == vdot h l.
Proof.
  induction h as [|a h IH]; intros [|b l]; simpl; try reflexivity.
  - rewrite vdot_nil_r. ring.
  - rewrite IH. reflexivity.
Qed.

Lemma vdot_zeros : forall h n, vdot h (repeat 0 n) == 0.
Proof. induction h; intros [|n]; simpl; try reflexivity. rewrite IHh. ring. Qed.

Lemma bil_app : forall a b h x, bil (a ++ b) h x == bil a h x + bil b h x.
Proof. intros. unfold bil. induction a; simpl; [ring|]. rewrite IHa. ring. Qed.

Lemma lin_add_fixed_pin : forall c o pos w s h x, (0 <= c < Z.of_nat (mat_size s))%Z -> (mat_size s <= length h)%nat ->
  lin (add_fixed_pin c o pos w s) h x == lin s h x + w * (nth (Z.to_nat c) x 0 + o - pos) * nth (Z.to_nat c) h 0.
Proof.
  intros c o pos w s h x Hc Hh. unfold mat_size in *. unfold lin, add_fixed_pin; simpl.
  rewrite bil_app, vdot_upd by lia. unfold bil; simpl. ring.
Qed.

Lemma lin_add_moving_pin : forall c1 c2 o1 o2 w s h x, c1 <> c2 ->
  (0 <= c1 < Z.of_nat (mat_size s))%Z -> (0 <= c2 < Z.of_nat (mat_size s))%Z -> (mat_size s <= length h)%nat ->
  lin (add_moving_pin c1 c2 o1 o2 w s) h x ==
  lin s h x + w * ((nth (Z.to_nat c1) x 0 + o1) - (nth (Z.to_nat c2) x 0 + o2)) * (nth (Z.to_nat c1) h 0 - nth (Z.to_nat c2) h 0).
Proof.
  intros c1 c2 o1 o2 w s h x Hne H1 H2 Hh. unfold mat_size in *. unfold add_moving_pin.
  destruct (Z.eqb_spec c1 c2); [contradiction|]. unfold lin; simpl.
  rewrite bil_app, vdot_upd by (rewrite ?upd_length; lia). rewrite vdot_upd by lia. unfold bil; simpl. ring.
Qed.

Lemma lin_add_pin : forall o s h x, op_ok (mat_size s) o -> (mat_size s <= length h)%nat ->
  lin (add_pin o s) h x == lin s h x + op_grad x h o.
Proof.
  intros o s h x (H1 & H2) Hh. unfold add_pin, op_grad, pin_at, hat.
  destruct (Z.eqb_spec (p_c1 o) (p_c2 o)) as [E|NE].
  - rewrite E. ring.
  - destruct (Z.eqb_spec (p_c1 o) (-1)) as [E1|N1]; destruct (Z.eqb_spec (p_c2 o) (-1)) as [E2|N2]; try lia.
    + rewrite lin_add_fixed_pin by lia. ring.
    + rewrite lin_add_fixed_pin by lia. ring.
    + rewrite lin_add_moving_pin by lia. ring.
Qed.

Lemma lin_apply_ops : forall ops s h x, Forall (op_ok (mat_size s)) ops -> (mat_size s <= length h)%nat ->
  lin (apply_ops ops s) h x == lin s h x + ops_grad ops x h.
Proof.
  induction ops as [|o ops IH]; intros s h x H Hh; simpl; [ring|]. inversion H; subst. unfold apply_ops in *; simpl.
  rewrite IH by (rewrite add_pin_size; auto). rewrite lin_add_pin by auto. ring.
Qed.

Lemma lin_add_cell : forall p s h x, lin (snd (add_cell p s)) h x == lin s h x.
Proof. intros. unfold lin, add_cell; simpl. rewrite vdot_app0. reflexivity. Qed.

Lemma lin_sys_empty : forall n h x, lin (sys_empty n) h x == 0.
Proof. intros. unfold lin, sys_empty, bil; simpl. rewrite vdot_zeros. ring. Qed.

(* ---- lin of a solved system is zero *)

Lemma vdot_map_plus : forall h (f g : nat -> Q) l, vdot h (map (fun i => f i + g i) l) == vdot h (map f l) + vdot h (map g l).
Proof. induction h; intros f g [|i l]; simpl; try ring. rewrite IHh. ring. Qed.

Lemma vdot_map_zero : forall h (f : nat -> Q) l, (forall i, f i == 0) -> vdot h (map f l) == 0.
Proof. induction h; intros f [|i l] H; simpl; try reflexivity. rewrite IHh, H by auto. ring. Qed.

Lemma vdot_indicator_zero : forall h s R a, (R < s)%nat ->
  vdot h (map (fun i => if (Z.of_nat R =? Z.of_nat i)%Z then a else 0) (seq s (length h))) == 0.
Proof.
  induction h as [|b h IH]; intros s R a H; simpl; [reflexivity|].
  destruct (Z.eqb_spec (Z.of_nat R) (Z.of_nat s)); [lia|]. rewrite IH by lia. ring.
Qed.

Lemma vdot_indicator : forall h s R a, (s <= R < s + length h)%nat ->
  vdot h (map (fun i => if (Z.of_nat R =? Z.of_nat i)%Z then a else 0) (seq s (length h))) == nth (R - s) h 0 * a.
Proof.
  induction h as [|b h IH]; intros s R a H; simpl in *; [lia|].
  destruct (Z.eqb_spec (Z.of_nat R) (Z.of_nat s)) as [E|NE].
  - apply Nat2Z.inj in E. subst s. rewrite Nat.sub_diag, vdot_indicator_zero by lia. ring.
  - rewrite IH by lia. replace (R - s)%nat with (S (R - S s)) by lia. simpl. ring.
Qed.

Lemma bil_rows : forall m h x, (forall t, In t m -> (0 <= t_row t < Z.of_nat (length h))%Z) ->
  bil m h x == vdot h (map (fun i => row_sum (Z.of_nat i) m x) (seq 0 (length h))).
Proof.
  induction m as [|t m IH]; intros h x H.
  - simpl. rewrite vdot_map_zero; [reflexivity|]. intros; reflexivity.
  - unfold bil, row_sum in *. simpl. rewrite vdot_map_plus. rewrite <- IH by (intros; apply H; simpl; auto).
    destruct (H t (or_introl eq_refl)) as (H0 & H1).
    remember (Z.to_nat (t_row t)) as R. assert (E : t_row t = Z.of_nat R) by lia. rewrite E.
    rewrite vdot_indicator by lia. rewrite Nat.sub_0_r. ring.
Qed.

Lemma vdot_Forall2 : forall h a b, Forall2 Qeq a b -> vdot h a == vdot h b.
Proof. intros h a b H. revert h. induction H; intros [|c h]; simpl; try reflexivity. rewrite H, IHForall2. reflexivity. Qed.

Lemma lin_solves : forall s h x, sys_inv s -> length h = mat_size s -> solves s x -> lin s h x == 0.
Proof.
  intros s h x (_ & Ht & _) Hh Hs. unfold lin, mat_size in *. rewrite bil_rows.
  - rewrite Hh. unfold solves, mat_vec in Hs. rewrite (vdot_Forall2 _ _ _ Hs). ring.
  - intros t Hin. rewrite Hh. apply (Ht t Hin).
Qed.

(* ---- the general statement, for any sequence of addPin calls *)

Theorem ops_expansion : forall n ops x h, Forall (op_ok n) ops -> length x = n -> length h = n ->
  ops_energy ops (vadd x h) == ops_energy ops x + lin (apply_ops ops (sys_empty n)) h x + ops_curv ops h.
Proof.
  intros n ops x h Hok Hx Hh. rewrite ops_energy_expand by lia. rewrite lin_apply_ops, lin_sys_empty.
  - ring.
  - unfold mat_size, sys_empty; simpl. rewrite repeat_length. auto.
  - unfold mat_size, sys_empty; simpl. rewrite repeat_length. lia.
Qed.

Lemma solves_finalize_weaken : forall s x, sys_inv s -> solves (finalize s) x -> solves s x.
Proof.
  intros s x (Hl & Ht & Hr). rewrite !solves_rows. unfold finalize; simpl. intros H i Hi. specialize (H i Hi).
  rewrite row_sum_app in H. destruct (nth i (s_nz s) false) eqn:F.
  - rewrite <- H. assert (Z0 : row_sum (Z.of_nat i) (reg_trips (s_nz s)) x == 0); [|rewrite Z0; ring].
    apply row_sum_none. intros t Hin E. apply reg_trips_row in Hin. destruct Hin as (j & Ej & Hj).
    rewrite Ej in E. apply Nat2Z.inj in E. subst j. rewrite (nth_indep _ true false) in Hj by lia. congruence.
  - rewrite (Hr i F). apply row_sum_none. intros t Hin E. destruct (Ht t Hin) as (_ & Hb). rewrite (Hb i E) in F. discriminate.
Qed.

(* every solution of the assembled system minimises the energy of its addPin calls (weights >= 0) *)
Theorem ops_optimum : forall n ops x h, Forall (op_ok n) ops -> (forall o, In o ops -> 0 <= p_w o) ->
  length x = n -> length h = n -> solves (apply_ops ops (sys_empty n)) x ->
  ops_energy ops x <= ops_energy ops (vadd x h).
Proof.
  intros n ops x h Hok Hw Hx Hh Hs. rewrite (ops_expansion n) by auto.
  assert (Hsz : mat_size (sys_empty n) = n) by (unfold mat_size, sys_empty; simpl; apply repeat_length).
  rewrite lin_solves; auto.
  - pose proof (ops_curv_nonneg h ops Hw). lra.
  - apply apply_ops_inv; [apply sys_empty_inv|rewrite Hsz; auto].
  - rewrite apply_ops_size, Hsz. auto.
Qed.

(* ---- two-pin nets: addBipoint on every net *)

Lemma ops_energy_app : forall a b x, ops_energy (a ++ b) x == ops_energy a x + ops_energy b x.
Proof. intros. unfold ops_energy. induction a; simpl; [ring|]. rewrite IHa. ring. Qed.
Lemma ops_curv_app : forall a b h, ops_curv (a ++ b) h == ops_curv a h + ops_curv b h.
Proof. intros. unfold ops_curv. induction a; simpl; [ring|]. rewrite IHa. ring. Qed.
Lemma ops_grad_app : forall a b x h, ops_grad (a ++ b) x h == ops_grad a x h + ops_grad b x h.
Proof. intros. unfold ops_grad. induction a; simpl; [ring|]. rewrite IHa. ring. Qed.

Lemma fold_apply_ops : forall (f : net -> list pinop) nets s,
  fold_left (fun s n => apply_ops (f n) s) nets s = apply_ops (flat_map f nets) s.
Proof.
  intros f nets. induction nets; intros s; simpl; auto. rewrite IHnets. unfold apply_ops. rewrite fold_left_app. reflexivity.
Qed.

Definition bip_all (nm : netmodel) : list pinop := flat_map (fun n => bipoint_ops (n_weight n) (n_pins n)) (nm_nets nm).

Lemma create_bipoint0_ops : forall nm, create_bipoint0 nm = apply_ops (bip_all nm) (sys_empty (nm_cells nm)).
Proof. intros. unfold create_bipoint0, add_bipoint, bip_all. apply fold_apply_ops. Qed.

Lemma Forall_flat_map : forall {A B} (P : B -> Prop) (f : A -> list B) l, (forall a, In a l -> Forall P (f a)) -> Forall P (flat_map f l).
Proof. induction l; intros; simpl; [constructor|]. apply Forall_app. split; auto. apply H; simpl; auto. apply IHl. intros; apply H; simpl; auto. Qed.

Lemma bip_all_ok : forall nm, nm_ok nm -> Forall (op_ok (nm_cells nm)) (bip_all nm).
Proof. intros nm H. apply Forall_flat_map. intros n Hn. apply bipoint_ops_ok. apply H; auto. Qed.

Lemma bip_all_energy : forall nm x, ops_energy (bip_all nm) x == bipoint_energy nm x.
Proof.
  intros nm x. unfold bip_all, bipoint_energy. induction (nm_nets nm) as [|n r IH]; simpl; [reflexivity|].
  rewrite ops_energy_app, IH. destruct (n_pins n) as [|p0 [|p1 ?]]; simpl; try ring.
  unfold op_energy, pin_at, pin_position; simpl. ring.
Qed.

Lemma hat_flat : forall c h, pin_position (c, 0) h == hat c h.
Proof. intros. unfold pin_position, hat; simpl. ring. Qed.

Lemma bip_all_curv : forall nm h, ops_curv (bip_all nm) h == bipoint_energy (nm_flat nm) h.
Proof.
  intros nm h. unfold bip_all, bipoint_energy, nm_flat; simpl. induction (nm_nets nm) as [|n r IH]; simpl; [reflexivity|].
  rewrite ops_curv_app, IH. destruct (n_pins n) as [|p0 [|p1 ?]]; simpl; try ring.
  unfold op_curv; simpl. rewrite !hat_flat. ring.
Qed.

Lemma bip_all_weights : forall nm, (forall n, In n (nm_nets nm) -> 0 <= n_weight n) -> forall o, In o (bip_all nm) -> 0 <= p_w o.
Proof.
  intros nm H o Ho. unfold bip_all in Ho. apply in_flat_map in Ho. destruct Ho as (n & Hn & Ho).
  destruct (n_pins n) as [|p0 [|p1 ?]]; simpl in Ho; try contradiction. destruct Ho as [E|[]]. subst o; simpl. auto.
Qed.

(* exact second-order expansion of the weighted quadratic wirelength of two-pin nets around x: the linear term is
   h.(M x - b) for the assembled (M, b), the quadratic term is the energy of the offset-free nets *)
Theorem bipoint_expansion : forall nm x h, nm_ok nm -> length x = nm_cells nm -> length h = nm_cells nm ->
  bipoint_energy nm (vadd x h) == bipoint_energy nm x + lin (create_bipoint0 nm) h x + bipoint_energy (nm_flat nm) h.
Proof.
  intros nm x h Hok Hx Hh. rewrite create_bipoint0_ops, <- bip_all_curv, <- !bip_all_energy.
  apply ops_expansion; auto. apply bip_all_ok; auto.
Qed.

Theorem bipoint_optimum : forall nm x h, nm_ok nm -> (forall n, In n (nm_nets nm) -> 0 <= n_weight n) ->
  length x = nm_cells nm -> length h = nm_cells nm -> solves (create_bipoint0 nm) x ->
  bipoint_energy nm x <= bipoint_energy nm (vadd x h).
Proof.
  intros nm x h Hok Hw Hx Hh Hs. rewrite <- !bip_all_energy. rewrite create_bipoint0_ops in Hs.
  apply (ops_optimum (nm_cells nm)); auto. apply bip_all_ok; auto. apply bip_all_weights; auto.
Qed.

(* ---- the star model without placement: createStar(topo) *)

Fixpoint star0_ops_from (k : nat) (nets : list net) : list pinop :=
  match nets with
  | [] => []
  | n :: r =>
    if bip_like (n_pins n) then bipoint_ops (n_weight n) (n_pins n) ++ star0_ops_from k r
    else star_ops (n_weight n) (n_pins n) (Z.of_nat k) ++ star0_ops_from (S k) r
  end.
Fixpoint n_stars (nets : list net) : nat :=
  match nets with [] => O | n :: r => ((if bip_like (n_pins n) then 0 else 1) + n_stars r)%nat end.

Lemma fold_add_star_size : forall nets s, mat_size (fold_left (fun s n => add_star n s) nets s) = (mat_size s + n_stars nets)%nat.
Proof.
  induction nets as [|n r IH]; intros s; simpl; [lia|]. rewrite IH. unfold add_star, add_bipoint.
  destruct (bip_like (n_pins n)).
  - rewrite apply_ops_size. lia.
  - unfold add_cell. rewrite apply_ops_size. unfold mat_size; simpl. rewrite app_length; simpl. lia.
Qed.

Lemma lin_fold_add_star : forall nc nets s h x,
  (forall n, In n nets -> pins_ok nc (n_pins n)) -> (nc <= mat_size s)%nat -> (mat_size s + n_stars nets <= length h)%nat ->
  lin (fold_left (fun s n => add_star n s) nets s) h x == lin s h x + ops_grad (star0_ops_from (mat_size s) nets) x h.
Proof.
  intros nc nets. induction nets as [|n r IH]; intros s h x Hok Hn Hh; simpl in *; [ring|].
  assert (Hp : pins_ok (mat_size s) (n_pins n)) by (eapply pins_ok_mono; [|apply Hok]; eauto).
  unfold add_star at 2, add_bipoint. destruct (bip_like (n_pins n)).
  - rewrite IH; auto; try (rewrite apply_ops_size; lia).
    rewrite lin_apply_ops, apply_ops_size, ops_grad_app by (try apply bipoint_ops_ok; auto; lia). ring.
  - assert (Hs1 : mat_size (snd (add_cell 0 s)) = S (mat_size s)) by (unfold add_cell, mat_size; simpl; rewrite app_length; simpl; lia).
    assert (Hc : fst (add_cell 0 s) = Z.of_nat (mat_size s)) by reflexivity.
    destruct (add_cell 0 s) as [c s1] eqn:Ec. simpl in Hs1, Hc. subst c.
    rewrite IH; auto; try (rewrite apply_ops_size; lia).
    rewrite lin_apply_ops, apply_ops_size, ops_grad_app.
    + rewrite Hs1. replace s1 with (snd (add_cell 0 s)) by (rewrite Ec; auto). rewrite lin_add_cell. ring.
    + rewrite Hs1. apply star_ops_ok; [eapply pins_ok_mono; [|eauto]; lia|lia].
    + lia.
Qed.

Lemma star0_ops_ok : forall nc nets k, (forall n, In n nets -> pins_ok nc (n_pins n)) -> (nc <= k)%nat ->
  Forall (op_ok (k + n_stars nets)) (star0_ops_from k nets).
Proof.
  intros nc nets. induction nets as [|n r IH]; intros k Hok Hk; simpl; [constructor|].
  assert (Hp : pins_ok nc (n_pins n)) by (apply Hok; simpl; auto).
  destruct (bip_like (n_pins n)); apply Forall_app; split.
  - apply bipoint_ops_ok. eapply pins_ok_mono; [|eauto]. lia.
  - apply IH; auto. intros; apply Hok; simpl; auto.
  - apply star_ops_ok; [eapply pins_ok_mono; [|eauto]|]; lia.
  - replace (k + (1 + n_stars r))%nat with (S k + n_stars r)%nat by lia. apply IH; auto. intros; apply Hok; simpl; auto.
Qed.

Lemma pin_at_star : forall k x, pin_at (Z.of_nat k) 0 x == nth k x 0.
Proof. intros. unfold pin_at. destruct (Z.eqb_spec (Z.of_nat k) (-1)); [lia|]. rewrite Nat2Z.id. ring. Qed.
Lemma hat_star : forall k h, hat (Z.of_nat k) h = nth k h 0.
Proof. intros. unfold hat. destruct (Z.eqb_spec (Z.of_nat k) (-1)); [lia|]. rewrite Nat2Z.id. reflexivity. Qed.

Lemma star_ops_energy : forall w pins k x,
  ops_energy (star_ops w pins (Z.of_nat k)) x ==
  fold_right (fun p acc => (w / Qnat (length pins) / 2) * ((pin_position p x - nth k x 0) * (pin_position p x - nth k x 0)) + acc) 0 pins.
Proof.
  intros w pins k x. unfold star_ops. generalize (w / Qnat (length pins)). intros w'.
  induction pins as [|p r IH]; simpl; [reflexivity|]. rewrite IH. unfold op_energy; simpl. rewrite pin_at_star.
  unfold pin_at, pin_position. ring.
Qed.

Lemma star0_energy : forall nets k x, ops_energy (star0_ops_from k nets) x == star_energy_from k nets x.
Proof.
  induction nets as [|n r IH]; intros k x; simpl; [reflexivity|].
  destruct (bip_like (n_pins n)); rewrite ops_energy_app, IH.
  - destruct (n_pins n) as [|p0 [|p1 ?]]; simpl; try ring. unfold op_energy, pin_at, pin_position; simpl. ring.
  - rewrite star_ops_energy. reflexivity.
Qed.

Lemma star_ops_curv : forall w pins k h,
  ops_curv (star_ops w pins (Z.of_nat k)) h ==
  fold_right (fun p acc => (w / Qnat (length pins) / 2) * ((pin_position p h - nth k h 0) * (pin_position p h - nth k h 0)) + acc) 0
             (map (fun p : Z * Q => (fst p, 0)) pins).
Proof.
  intros w pins k h. unfold star_ops. generalize (w / Qnat (length pins)). intros w'.
  induction pins as [|p r IH]; simpl; [reflexivity|]. rewrite IH. unfold op_curv; simpl. rewrite hat_star, hat_flat. ring.
Qed.

Lemma single_cell_flat : forall pins, single_cell (map (fun p : Z * Q => (fst p, 0)) pins) = single_cell pins.
Proof. intros [|p r]; simpl; [reflexivity|]. induction r as [|q r IH]; simpl; [reflexivity|]. rewrite IH. reflexivity. Qed.
Lemma bip_like_flat : forall pins, bip_like (map (fun p : Z * Q => (fst p, 0)) pins) = bip_like pins.
Proof. intros. unfold bip_like. rewrite map_length, single_cell_flat. reflexivity. Qed.

Lemma star0_curv : forall nets k h,
  ops_curv (star0_ops_from k nets) h ==
  star_energy_from k (map (fun n => mkNet (n_weight n) (map (fun p : Z * Q => (fst p, 0)) (n_pins n))) nets) h.
Proof.
  induction nets as [|n r IH]; intros k h; simpl; [reflexivity|]. rewrite ?map_length, bip_like_flat.
  destruct (bip_like (n_pins n)); rewrite ops_curv_app, IH.
  - destruct (n_pins n) as [|p0 [|p1 ?]]; simpl; try ring. unfold op_curv; simpl. rewrite !hat_flat. ring.
  - rewrite star_ops_curv. reflexivity.
Qed.

Lemma star0_weights : forall nets k, (forall n, In n nets -> 0 <= n_weight n) -> forall o, In o (star0_ops_from k nets) -> 0 <= p_w o.
Proof.
  induction nets as [|n r IH]; intros k H o Ho; simpl in Ho; [contradiction|].
  assert (Hw : 0 <= n_weight n) by (apply H; simpl; auto).
  destruct (bip_like (n_pins n)); apply in_app_or in Ho; destruct Ho as [Ho|Ho]; try (eapply IH; eauto; intros; apply H; simpl; auto).
  - destruct (n_pins n) as [|p0 [|p1 ?]]; simpl in Ho; try contradiction. destruct Ho as [E|[]]. subst o; auto.
  - unfold star_ops in Ho. apply in_map_iff in Ho. destruct Ho as (p & E & _). subst o; simpl.
    unfold Qdiv. apply Qmult_le_0_compat; auto. apply Qinv_le_0_compat. unfold Qnat. unfold Qle; simpl. lia.
Qed.

Definition star_size (nm : netmodel) : nat := (nm_cells nm + n_stars (nm_nets nm))%nat.

Lemma create_star0_size : forall nm, mat_size (create_star0 nm) = star_size nm.
Proof. intros. unfold create_star0, star_size. rewrite fold_add_star_size. unfold mat_size, sys_empty; simpl. rewrite repeat_length. auto. Qed.

(* exact second-order expansion of the star objective (unknowns: the cells, then one star point per net of more than
   two pins) around x *)
Theorem star_expansion : forall nm x h, nm_ok nm -> length x = star_size nm -> length h = star_size nm ->
  star_energy nm (vadd x h) == star_energy nm x + lin (create_star0 nm) h x + star_energy (nm_flat nm) h.
Proof.
  intros nm x h Hok Hx Hh. unfold star_energy, create_star0, nm_flat; simpl.
  assert (Hsz : mat_size (sys_empty (nm_cells nm)) = nm_cells nm) by (unfold mat_size, sys_empty; simpl; apply repeat_length).
  rewrite (lin_fold_add_star (nm_cells nm)); auto; try (rewrite Hsz; unfold star_size in *; lia).
  rewrite lin_sys_empty, Hsz, <- star0_curv, <- !star0_energy. rewrite ops_energy_expand by lia. ring.
Qed.

Theorem star_optimum : forall nm x h, nm_ok nm -> (forall n, In n (nm_nets nm) -> 0 <= n_weight n) ->
  length x = star_size nm -> length h = star_size nm -> solves (create_star0 nm) x ->
  star_energy nm x <= star_energy nm (vadd x h).
Proof.
  intros nm x h Hok Hw Hx Hh Hs. rewrite star_expansion by auto.
  rewrite lin_solves; auto.
  - assert (0 <= star_energy (nm_flat nm) h); [|lra]. unfold star_energy, nm_flat; simpl. rewrite <- star0_curv.
    apply ops_curv_nonneg. apply star0_weights; auto.
  - apply create_star0_inv; auto.
  - rewrite create_star0_size; auto.
Qed.

(* ---- converse: a minimiser of the energy solves the assembled system *)

Lemma quad_nonneg_linear_zero : forall g q, 0 <= q -> (forall t, 0 <= t * g + t * t * q) -> g == 0.
Proof.
  intros g q Hq H. set (a := / (1 + q)).
  assert (Hpos : 0 < 1 + q) by lra.
  assert (Ha : a * (1 + q) == 1) by (unfold a; rewrite Qmult_comm; apply Qmult_inv_r; lra).
  specialize (H (- g * a)).
  assert (E : - g * a * g + - g * a * (- g * a) * q == - ((g * a) * (g * a))).
  { setoid_replace (- g * a * g + - g * a * (- g * a) * q) with (- ((g * a) * (g * a)) - g * g * a * (1 - a * (1 + q))) by ring.
    rewrite Ha. ring. }
  rewrite E in H.
  assert (Hsq : 0 <= (g * a) * (g * a)).
  { destruct (Qlt_le_dec (g * a) 0) as [L|L].
    - setoid_replace (g * a * (g * a)) with ((- (g * a)) * (- (g * a))) by ring. apply Qmult_le_0_compat; lra.
    - apply Qmult_le_0_compat; auto. }
  assert (Z0 : (g * a) * (g * a) == 0) by lra.
  assert (Zga : g * a == 0).
  { destruct (Qeq_dec (g * a) 0) as [|NE]; auto. exfalso.
    apply Qmult_integral in Z0. destruct Z0; contradiction. }
  apply Qmult_integral in Zga. destruct Zga as [|Za]; auto. exfalso. rewrite Za in Ha. lra.
Qed.

Definition unit_vec (n i : nat) (t : Q) : list Q := upd i (fun _ => t) (repeat 0 n).

Lemma unit_vec_length : forall n i t, length (unit_vec n i t) = n.
Proof. intros. unfold unit_vec. rewrite upd_length, repeat_length. auto. Qed.

Lemma vdot_zeros_l : forall n v, vdot (repeat 0 n) v == 0.
Proof. induction n; intros [|b v]; simpl; try reflexivity. rewrite IHn. ring. Qed.

Lemma vdot_unit : forall n i t v, (i < n)%nat -> vdot (unit_vec n i t) v == t * nth i v 0.
Proof.
  unfold unit_vec. induction n as [|n IH]; intros i t v Hi; [lia|]. simpl. destruct i as [|i]; destruct v as [|b v]; simpl.
  - ring.
  - rewrite vdot_zeros_l. ring.
  - ring.
  - rewrite IH by lia. ring.
Qed.

Lemma hat_unit : forall n i t c, hat c (unit_vec n i t) == t * hat c (unit_vec n i 1).
Proof.
  intros. unfold hat, unit_vec. destruct (c =? -1)%Z; [ring|]. rewrite !nth_upd, nth_repeat. destruct (_ && _)%bool; ring.
Qed.

Lemma ops_curv_unit : forall n i t ops, ops_curv ops (unit_vec n i t) == t * t * ops_curv ops (unit_vec n i 1).
Proof.
  intros n i t ops. induction ops as [|o ops IH]; simpl; [ring|]. rewrite IH. unfold op_curv.
  rewrite (hat_unit n i t (p_c1 o)), (hat_unit n i t (p_c2 o)). field.
Qed.

Lemma lin_unit : forall s x i t, sys_inv s -> (i < mat_size s)%nat ->
  lin s (unit_vec (mat_size s) i t) x == t * (row_sum (Z.of_nat i) (s_mat s) x - nth i (s_rhs s) 0).
Proof.
  intros s x i t (_ & Ht & _) Hi. unfold lin. rewrite bil_rows.
  - rewrite !vdot_unit by auto. rewrite unit_vec_length.
    rewrite (nth_indep _ 0 (row_sum (Z.of_nat 0) (s_mat s) x)) by (rewrite map_length, seq_length; auto).
    rewrite (map_nth (fun j => row_sum (Z.of_nat j) (s_mat s) x)). rewrite seq_nth by auto. simpl. ring.
  - intros tr Hin. rewrite unit_vec_length. apply (Ht tr Hin).
Qed.

Theorem ops_optimum_conv : forall n ops x, Forall (op_ok n) ops -> (forall o, In o ops -> 0 <= p_w o) -> length x = n ->
  (forall h, length h = n -> ops_energy ops x <= ops_energy ops (vadd x h)) ->
  solves (apply_ops ops (sys_empty n)) x.
Proof.
  intros n ops x Hok Hw Hx Hmin.
  assert (Hsz0 : mat_size (sys_empty n) = n) by (unfold mat_size, sys_empty; simpl; apply repeat_length).
  set (s := apply_ops ops (sys_empty n)).
  assert (Hinv : sys_inv s) by (apply apply_ops_inv; [apply sys_empty_inv|rewrite Hsz0; auto]).
  assert (Hsz : mat_size s = n) by (unfold s; rewrite apply_ops_size; auto).
  apply solves_rows. fold s. intros i Hi. unfold mat_size in Hsz. rewrite Hsz in Hi.
  set (g := row_sum (Z.of_nat i) (s_mat s) x - nth i (s_rhs s) 0).
  assert (G : g == 0); [|unfold g in G; lra].
  apply (quad_nonneg_linear_zero g (ops_curv ops (unit_vec n i 1))).
  - apply ops_curv_nonneg; auto.
  - intros t. specialize (Hmin (unit_vec n i t) (unit_vec_length n i t)).
    rewrite (ops_expansion n) in Hmin by (auto using unit_vec_length). fold s in Hmin.
    assert (L : lin s (unit_vec n i t) x == t * g).
    { unfold g. rewrite <- Hsz at 1. apply lin_unit; auto. unfold mat_size. lia. }
    rewrite L, ops_curv_unit in Hmin. lra.
Qed.

Theorem bipoint_optimum_conv : forall nm x, nm_ok nm -> (forall n, In n (nm_nets nm) -> 0 <= n_weight n) -> length x = nm_cells nm ->
  (forall h, length h = nm_cells nm -> bipoint_energy nm x <= bipoint_energy nm (vadd x h)) ->
  solves (create_bipoint0 nm) x.
Proof.
  intros nm x Hok Hw Hx Hmin. rewrite create_bipoint0_ops. apply ops_optimum_conv; auto.
  - apply bip_all_ok; auto.
  - apply bip_all_weights; auto.
  - intros h Hh. rewrite !bip_all_energy. auto.
Qed.

Theorem star_optimum_conv : forall nm x, nm_ok nm -> (forall n, In n (nm_nets nm) -> 0 <= n_weight n) -> length x = star_size nm ->
  (forall h, length h = star_size nm -> star_energy nm x <= star_energy nm (vadd x h)) ->
  solves (create_star0 nm) x.
Proof.
  intros nm x Hok Hw Hx Hmin. set (s := create_star0 nm).
  assert (Hinv : sys_inv s) by (apply create_star0_inv; auto).
  assert (Hsz : mat_size s = star_size nm) by apply create_star0_size.
  apply solves_rows. intros i Hi. fold (mat_size s) in Hi. rewrite Hsz in Hi.
  set (g := row_sum (Z.of_nat i) (s_mat s) x - nth i (s_rhs s) 0).
  assert (G : g == 0); [|unfold g in G; lra].
  set (ops := star0_ops_from (nm_cells nm) (nm_nets nm)).
  apply (quad_nonneg_linear_zero g (ops_curv ops (unit_vec (star_size nm) i 1))).
  - apply ops_curv_nonneg. apply star0_weights; auto.
  - intros t. specialize (Hmin (unit_vec (star_size nm) i t) (unit_vec_length _ i t)).
    rewrite star_expansion in Hmin by (auto using unit_vec_length). fold s in Hmin.
    assert (L : lin s (unit_vec (star_size nm) i t) x == t * g).
    { unfold g. rewrite <- Hsz at 1. apply lin_unit; auto. lia. }
    assert (C : star_energy (nm_flat nm) (unit_vec (star_size nm) i t) == t * t * ops_curv ops (unit_vec (star_size nm) i 1)).
    { unfold star_energy, nm_flat; simpl. rewrite <- star0_curv. apply ops_curv_unit. }
    rewrite L, C in Hmin. lra.
Qed.

(* the pull on every cell (row i of M x - b) is proportional to the common weight factor *)
Lemma pull_proportional : forall k nm' nm, nm_scaled k nm' nm ->
  (forall x i, row_sum i (s_mat (create_star0 nm')) x - nth (Z.to_nat i) (s_rhs (create_star0 nm')) 0 ==
               k * (row_sum i (s_mat (create_star0 nm)) x - nth (Z.to_nat i) (s_rhs (create_star0 nm)) 0)) /\
  (forall m pl eps x i, row_sum i (s_mat (create m nm' pl eps)) x - nth (Z.to_nat i) (s_rhs (create m nm' pl eps)) 0 ==
               k * (row_sum i (s_mat (create m nm pl eps)) x - nth (Z.to_nat i) (s_rhs (create m nm pl eps)) 0)).
Proof.
  intros k nm' nm H. split; intros; apply residual_scaled; [apply create_star0_scaled|apply create_scaled]; auto.
Qed.

(* boolean form of nm_ok, for the examples *)
Definition nm_okb (nm : netmodel) : bool :=
  forallb (fun n => forallb (fun p : Z * Q => (-1 <=? fst p)%Z && (fst p <? Z.of_nat (nm_cells nm))%Z) (n_pins n)) (nm_nets nm).
Lemma nm_okb_ok : forall nm, nm_okb nm = true -> nm_ok nm.
Proof.
  intros nm H n Hn p Hp. unfold nm_okb in H. rewrite forallb_forall in H. specialize (H n Hn). rewrite forallb_forall in H.
  specialize (H p Hp). apply andb_prop in H. destruct H as (H1 & H2). apply Z.leb_le in H1. apply Z.ltb_lt in H2. lia.
Qed.

(* every NetModel built through addNet satisfies what check() tests, when the cells given are in range *)
Lemma add_net_gen_ok : forall store cells offs w nm, nm_ok nm -> (forall c, In c cells -> (-1 <= c < Z.of_nat (nm_cells nm))%Z) ->
  nm_ok (add_net_gen store cells offs w nm).
Proof.
  intros store cells offs w nm Hok Hc. unfold add_net_gen. destruct (length cells <=? 1)%nat; auto.
  intros n Hn p Hp. simpl in *. apply in_app_or in Hn. destruct Hn as [Hn|[E|[]]]; [apply (Hok n Hn p Hp)|].
  subst n; simpl in Hp. destruct p as [c o]. apply in_combine_l in Hp. simpl. auto.
Qed.

(* ------------------------------------------------------------------ D. the truncating container (unchanged tree) *)

Definition wit_cells : list Z := [0%Z; (-1)%Z].
Definition wit_offs : list Q := [0; 4].

(* weight 1/2 is stored as 0, weight 2 * 1/2 as 1: the assembled system is not multiplied by 2 *)
Lemma truncating_homogeneity_refuted :
  exists k cells offs w, 0 < k /\
    ~ sys_scaled k (create_star0 (add_net_int cells offs (k * w) (nm_empty 1))) (create_star0 (add_net_int cells offs w (nm_empty 1))).
Proof.
  exists 2, wit_cells, wit_offs, (1 # 2). split; [reflexivity|]. intros (Hm & _). vm_compute in Hm.
  inversion Hm as [|? ? ? ? (_ & _ & Hv)]; subst. vm_compute in Hv. discriminate.
Qed.

(* x = 7 solves the system assembled for weight 1/2 (0 * x = 0) but not the one assembled for weight 1 (x = 4) *)
Lemma truncating_solution_set_refuted :
  exists k cells offs w x, 0 < k /\
    solves (system_star0 (add_net_int cells offs w (nm_empty 1))) x /\
    ~ solves (system_star0 (add_net_int cells offs (k * w) (nm_empty 1))) x.
Proof.
  exists 2, wit_cells, wit_offs, (1 # 2), [7]. split; [reflexivity|]. split.
  - apply solves_rows. intros [|i] Hi; [vm_compute; reflexivity|vm_compute in Hi; lia].
  - intros H. rewrite solves_rows in H. specialize (H O). vm_compute in H.
    assert (L : (0 < 1)%nat) by lia. specialize (H L). discriminate.
Qed.

(* x = 7 solves the system assembled by the unchanged tree for a net of weight 1/2 between cell 0 and a fixed pin at 4,
   but the weighted quadratic wirelength 1/4 (x - 4)^2 is smaller at x + h = 4 *)
Lemma truncating_not_least_squares :
  exists cells offs w x h,
    solves (system_star0 (add_net_int cells offs w (nm_empty 1))) x /\
    ~ star_energy (add_net cells offs w (nm_empty 1)) x <= star_energy (add_net cells offs w (nm_empty 1)) (vadd x h).
Proof.
  exists wit_cells, wit_offs, (1 # 2), [7], [-3]. split.
  - apply solves_rows. intros [|i] Hi; [vm_compute; reflexivity|vm_compute in Hi; lia].
  - intros H. vm_compute in H. apply H. reflexivity.
Qed.

(* ------------------------------------------------------------------ normalize() (finding F22) over Q *)
Lemma Qpow2_nz : forall z, ~ Qpow2 z == 0.
Proof.
  intros z. unfold Qpow2. destruct (0 <=? z)%Z eqn:E.
  - unfold Qeq; simpl. pose proof (Z.pow_pos_nonneg 2 z). lia.
  - unfold Qeq; simpl. lia.
Qed.

Lemma Forall2_map_l_same : forall {A B} (R : B -> A -> Prop) (f : A -> B) l, (forall a, In a l -> R (f a) a) -> Forall2 R (map f l) l.
Proof. induction l; simpl; intros; constructor; auto. Qed.

Lemma scale_sys_scaled : forall k s, sys_scaled k (scale_sys k s) s.
Proof.
  intros k s. unfold sys_scaled, scale_sys; simpl. repeat split; auto.
  - apply Forall2_map_l_same. intros t _. unfold trip_scaled; simpl. repeat split; reflexivity.
  - unfold vec_scaled. apply Forall2_map_l_same. intros a _. reflexivity.
Qed.

(* normalize() does not change the solutions of the system handed to Eigen *)
Lemma normalize_solution_set : forall s, sys_inv s -> forall x, solves (solver_input s) x <-> solves (finalize s) x.
Proof.
  intros s Hs x. unfold solver_input, normalize. destruct (norm_exp s) as [e|]; [|reflexivity].
  apply (solves_finalize_scaled (Qpow2 (- e))); [apply Qpow2_nz|apply scale_sys_scaled|exact Hs].
Qed.

(* ------------------------------------------------------------------ nets on a single cell (finding F25) *)
Lemma add_pin_self : forall o s, p_c1 o = p_c2 o -> add_pin o s = s.
Proof. intros o s H. unfold add_pin. rewrite H, Z.eqb_refl. reflexivity. Qed.

Lemma apply_ops_self : forall ops s, Forall (fun o => p_c1 o = p_c2 o) ops -> apply_ops ops s = s.
Proof.
  intros ops s H. revert s. unfold apply_ops. induction H as [|o r Ho H IH]; intros s; simpl; [reflexivity|].
  rewrite add_pin_self by exact Ho. apply IH.
Qed.

Lemma single_cell_spec : forall pins, single_cell pins = true -> forall p q, In p pins -> In q pins -> fst p = fst q.
Proof.
  intros [|a r] H p q Hp Hq; [destruct Hp|]. simpl in H. rewrite forallb_forall in H.
  assert (E : forall x, In x (a :: r) -> fst x = fst a).
  { intros x [<-|Hx]; [reflexivity|]. apply Z.eqb_eq. apply H. exact Hx. }
  rewrite (E p Hp), (E q Hq). reflexivity.
Qed.

Lemma pair_ops_in : forall f pins o, In o (pair_ops f pins) -> exists p q, In p pins /\ In q pins /\ o = f p q.
Proof.
  intros f pins. induction pins as [|a r IH]; intros o H; simpl in H; [destruct H|].
  apply in_app_or in H. destruct H as [H|H].
  - apply in_map_iff in H. destruct H as (q & E & Hq). exists a, q. simpl; auto.
  - destruct (IH o H) as (p & q & Hp & Hq & E). exists p, q. simpl; auto.
Qed.

(* the extreme pin of a non-empty net is one of its pins *)
Definition cell_in (pins : list (Z * Q)) (best : option (nat * Z * Q * Q)) : Prop :=
  exists i c o ps, best = Some (i, c, o, ps) /\ exists p, In p pins /\ c = fst p.

Lemma fold_cell_in : forall step pins (l : list (nat * (Z * Q))) best,
  (forall b ip, In (snd ip) pins -> cell_in pins b -> cell_in pins (step b ip)) ->
  (forall ip, In ip l -> In (snd ip) pins) -> cell_in pins best -> cell_in pins (fold_left step l best).
Proof.
  intros step pins l. induction l as [|ip l IH]; intros best Hs Hl Hb; simpl; [exact Hb|].
  apply IH; auto. - intros; apply Hl; simpl; auto. - apply Hs; auto. apply Hl; simpl; auto.
Qed.

Lemma min_step_cell_in : forall pl pins b ip, In (snd ip) pins -> cell_in pins b -> cell_in pins (min_pin_step pl b ip).
Proof.
  intros pl pins b ip Hi (i & c & o & ps & -> & Hc). unfold min_pin_step.
  destruct (Qlt_bool _ _); [|exists i, c, o, ps; auto]. do 4 eexists. split; [reflexivity|]. exists (snd ip); auto.
Qed.
Lemma max_step_cell_in : forall pl pins b ip, In (snd ip) pins -> cell_in pins b -> cell_in pins (max_pin_step pl b ip).
Proof.
  intros pl pins b ip Hi (i & c & o & ps & -> & Hc). unfold max_pin_step.
  destruct (Qlt_bool _ _); [|exists i, c, o, ps; auto]. do 4 eexists. split; [reflexivity|]. exists (snd ip); auto.
Qed.

Lemma indexed_cons : forall {A} (a : A) l, exists r, indexed (a :: l) = (O, a) :: r /\ forall ip, In ip r -> In (snd ip) l.
Proof.
  intros A a l. unfold indexed. simpl. eexists. split; [reflexivity|]. intros [i x] H. simpl. eapply in_combine_r; eauto.
Qed.

Lemma min_pin_cell : forall pins pl, pins <> [] -> exists i c o ps, min_pin pins pl = (i, c, o, ps) /\ exists p, In p pins /\ c = fst p.
Proof.
  intros [|a l] pl H; [congruence|]. unfold min_pin. destruct (indexed_cons a l) as (r & -> & Hr). simpl.
  assert (C : cell_in (a :: l) (fold_left (min_pin_step pl) r (Some (O, fst a, snd a, pin_position a pl)))).
  { apply fold_cell_in. - intros; apply min_step_cell_in; auto. - intros ip Hip. right. apply Hr; auto.
    - do 4 eexists. split; [reflexivity|]. exists a; simpl; auto. }
  destruct C as (i & c & o & ps & -> & Hc). exists i, c, o, ps. auto.
Qed.
Lemma max_pin_cell : forall pins pl, pins <> [] -> exists i c o ps, max_pin pins pl = (i, c, o, ps) /\ exists p, In p pins /\ c = fst p.
Proof.
  intros [|a l] pl H; [congruence|]. unfold max_pin. destruct (indexed_cons a l) as (r & -> & Hr). simpl.
  assert (C : cell_in (a :: l) (fold_left (max_pin_step pl) r (Some (O, fst a, snd a, pin_position a pl)))).
  { apply fold_cell_in. - intros; apply max_step_cell_in; auto. - intros ip Hip. right. apply Hr; auto.
    - do 4 eexists. split; [reflexivity|]. exists a; simpl; auto. }
  destruct C as (i & c & o & ps & -> & Hc). exists i, c, o, ps. auto.
Qed.

Lemma b2b_ops_self : forall w pins pl eps, single_cell pins = true -> Forall (fun o => p_c1 o = p_c2 o) (b2b_ops w pins pl eps).
Proof.
  intros w pins pl eps H. destruct pins as [|a l] eqn:E; [constructor|]. rewrite <- E in *.
  assert (N : pins <> []) by (rewrite E; discriminate).
  unfold b2b_ops. destruct (min_pin_cell pins pl N) as (i1 & c1 & o1 & p1 & -> & q1 & Hq1 & ->).
  destruct (max_pin_cell pins pl N) as (i2 & c2 & o2 & p2 & -> & q2 & Hq2 & ->).
  apply Forall_forall. intros o Ho. apply in_flat_map in Ho. destruct Ho as ([i p] & Hip & Ho). simpl in Ho.
  apply in_indexed in Hip.
  destruct (i =? i1)%nat; [destruct Ho|]. destruct Ho as [<-|Ho]; [simpl; apply (single_cell_spec _ H); auto|].
  destruct (i =? i2)%nat; [destruct Ho|]. destruct Ho as [<-|[]]. simpl; apply (single_cell_spec _ H); auto.
Qed.

Lemma pair_ops_self : forall f pins, single_cell pins = true -> (forall p q, p_c1 (f p q) = fst p /\ p_c2 (f p q) = fst q) ->
  Forall (fun o => p_c1 o = p_c2 o) (pair_ops f pins).
Proof.
  intros f pins H Hf. apply Forall_forall. intros o Ho. destruct (pair_ops_in _ _ _ Ho) as (p & q & Hp & Hq & ->).
  destruct (Hf p q) as [-> ->]. apply (single_cell_spec _ H); auto.
Qed.

Lemma bipoint_pl_ops_self : forall w pins pl eps, single_cell pins = true -> Forall (fun o => p_c1 o = p_c2 o) (bipoint_pl_ops w pins pl eps).
Proof.
  intros w pins pl eps H. unfold bipoint_pl_ops. destruct pins as [|p0 [|p1 r]]; constructor; [|constructor].
  simpl. apply (single_cell_spec _ H); simpl; auto.
Qed.
Lemma bipoint_ops_self : forall w pins, single_cell pins = true -> Forall (fun o => p_c1 o = p_c2 o) (bipoint_ops w pins).
Proof.
  intros w pins H. unfold bipoint_ops. destruct pins as [|p0 [|p1 r]]; constructor; [|constructor].
  simpl. apply (single_cell_spec _ H); simpl; auto.
Qed.

Lemma bip_like_single : forall pins, single_cell pins = true -> bip_like pins = true.
Proof. intros pins H. unfold bip_like. rewrite H. apply orb_true_r. Qed.

(* a net whose pins are all on one cell adds nothing to the system, in every model *)
Lemma single_cell_net_noop : forall n, single_cell (n_pins n) = true ->
  (forall m pl eps s, add_net_model m pl eps s n = s) /\ (forall s, add_star n s = s) /\
  (forall s, add_bipoint n s = s) /\ (forall s, add_clique n s = s).
Proof.
  intros n H. split; [|split; [|split]].
  - intros m pl eps s. unfold add_net_model. rewrite (bip_like_single _ H). destruct m; apply apply_ops_self.
    + apply b2b_ops_self; exact H.
    + apply bipoint_pl_ops_self; exact H.
    + unfold clique_pl_ops. apply pair_ops_self; [exact H|]. intros; simpl; auto.
    + apply bipoint_pl_ops_self; exact H.
  - intros s. unfold add_star. rewrite (bip_like_single _ H). unfold add_bipoint. apply apply_ops_self. apply bipoint_ops_self; exact H.
  - intros s. unfold add_bipoint. apply apply_ops_self. apply bipoint_ops_self; exact H.
  - intros s. unfold add_clique. apply apply_ops_self. unfold clique_ops. apply pair_ops_self; [exact H|]. intros; simpl; auto.
Qed.

Lemma fold_noop : forall {S N} (f : S -> N -> S) l s, (forall n s, In n l -> f s n = s) -> fold_left f l s = s.
Proof. induction l; simpl; intros; auto. rewrite H by auto. apply IHl. intros; apply H; auto. Qed.

(* a circuit all of whose nets are such nets: nothing is assembled, finalize() regularises every row *)
Lemma single_cell_nets_regularised : forall nm, (forall n, In n (nm_nets nm) -> single_cell (n_pins n) = true) ->
  (forall m pl eps, create m nm pl eps = sys_empty (nm_cells nm)) /\ create_star0 nm = sys_empty (nm_cells nm) /\
  s_mat (finalize (sys_empty (nm_cells nm))) = reg_trips (repeat false (nm_cells nm)).
Proof.
  intros nm H. split; [|split; [|reflexivity]].
  - intros. unfold create. apply fold_noop. intros n s Hn. apply (single_cell_net_noop n (H n Hn)).
  - unfold create_star0. apply fold_noop. intros n s Hn. apply (single_cell_net_noop n (H n Hn)).
Qed.

(* BEFORE the repair: the Star model on one movable cell with two nets on it (pins at -1, 2, -3, 3 and -2, 1, 2; placement 0,
   epsilon 10): rows 1 (the cell), 2 and 3 (the star points) are marked non-empty, so finalize() regularises row 0 only,
   and the finalized matrix annihilates (0, 1, 1, 1): it is singular *)
Definition f25_nm : netmodel :=
  mkNM 2 [mkNet 1 [(1%Z, -1); (1%Z, 2); (1%Z, -3); (1%Z, 3)]; mkNet 1 [(1%Z, -2); (1%Z, 1); (1%Z, 2)]].
Lemma star_single_cell_singular_before_repair :
  s_nz (create_star_old f25_nm [0; 0] 10) = [false; true; true; true] /\
  (forall i, (i < 4)%nat -> row_sum (Z.of_nat i) (s_mat (finalize (create_star_old f25_nm [0; 0] 10))) [0; 1; 1; 1] == 0) /\
  create Star f25_nm [0; 0] 10 = sys_empty 2.
Proof.
  split; [vm_compute; reflexivity|split].
  - intros [|[|[|[|i]]]] Hi; try lia; vm_compute; reflexivity.
  - apply single_cell_nets_regularised. intros n [<-|[<-|[]]]; reflexivity.
Qed.
