(* C16: proofs about the demand-update operation (model: DensityUpdate.v).  No axioms. *)
From Coq Require Import List ZArith Lia Bool Arith.
Import ListNotations.
Require Import CV.FreeSpace CV.Density CV.DensityProofs CV.DensityUpdate.
Local Open Scope Z_scope.

Lemma nonnegb_spec d : nonnegb d = true <-> (forall v, In v d -> 0 <= v).
Proof.
  unfold nonnegb. rewrite forallb_forall. split; intros H v Hin; specialize (H v Hin); lia.
Qed.

Lemma nonnegb_nth d c v : nonnegb d = true -> nth_error d c = Some v -> 0 <= v.
Proof. intros H E. apply (proj1 (nonnegb_spec d) H). eapply nth_error_In; eauto. Qed.

(* demands computed from a circuit with non-negative sizes are non-negative *)
Lemma circuit_demands_nonneg cells :
  (forall fx w h, In (fx, w, h) cells -> 0 <= w /\ 0 <= h) -> nonnegb (circuit_demands cells) = true.
Proof.
  intros H. apply nonnegb_spec. intros v Hin. unfold circuit_demands in Hin. apply in_map_iff in Hin.
  destruct Hin as ([[fx w] h] & E & Hin). simpl in E. destruct (H fx w h Hin). destruct fx; subst; nia.
Qed.

Lemma circuit_demands_length cells : length (circuit_demands cells) = length cells.
Proof. apply map_length. Qed.

(* what the guard says, cell by cell *)
Lemma same_zero_status_spec d d' : same_zero_status d d' = true <->
  length d = length d' /\ (forall c v v', nth_error d c = Some v -> nth_error d' c = Some v' -> (v = 0 <-> v' = 0)).
Proof.
  unfold same_zero_status. rewrite andb_true_iff, Nat.eqb_eq, forallb_forall. split.
  - intros [L H]. split; auto. intros c v v' E E'.
    assert (Hin : In (v, v') (combine d d')).
    { clear H L. revert d' c E E'. induction d as [|a t IH]; intros [|b t'] [|c] E E'; simpl in *; try discriminate.
      - inversion E. inversion E'. auto.
      - right. eapply IH; eauto. }
    specialize (H _ Hin). simpl in H. apply eqb_prop in H.
    destruct (Z.eqb_spec v 0), (Z.eqb_spec v' 0); try discriminate; tauto.
  - intros [L H]. split; auto. intros [v v'] Hin. simpl.
    apply (In_nth_error) in Hin. destruct Hin as [c Hc].
    assert (E : nth_error d c = Some v /\ nth_error d' c = Some v').
    { clear H L. revert d' c Hc. induction d as [|a t IH]; intros [|b t'] [|c] Hc; simpl in *; try discriminate.
      - inversion Hc. auto.
      - apply IH; auto. }
    destruct E as [E E']. specialize (H c v v' E E').
    destruct (Z.eqb_spec v 0), (Z.eqb_spec v' 0); simpl; auto; tauto.
Qed.

(* ------------------------------------------------------------------ the update: refused = identity, accepted = replaced *)

Theorem update_refused_unchanged h d s d' : same_zero_status d d' = false ->
  ustep h (d, s) (Update d') = Some (d, s).
Proof. intros E. simpl. unfold update_demand. rewrite E. reflexivity. Qed.

Theorem update_accepted h d s d' : same_zero_status d d' = true ->
  ustep h (d, s) (Update d') = Some (d', s).
Proof. intros E. simpl. unfold update_demand. rewrite E. reflexivity. Qed.

(* the guard refuses exactly when some cell's demand changes to or from zero (or the sizes differ) *)
Theorem update_refused_iff d d' : length d = length d' ->
  (same_zero_status d d' = false <->
   exists c v v', nth_error d c = Some v /\ nth_error d' c = Some v' /\ ((v = 0 /\ v' <> 0) \/ (v <> 0 /\ v' = 0))).
Proof.
  intros L. split.
  - intros E. unfold same_zero_status in E. rewrite L, Nat.eqb_refl in E. simpl in E.
    assert (H : exists p, In p (combine d d') /\ Bool.eqb (fst p =? 0) (snd p =? 0) = false).
    { clear L. induction (combine d d') as [|p l IH]; simpl in E; [discriminate|].
      apply andb_false_iff in E. destruct E as [E|E].
      - exists p. split; [left; auto|auto].
      - destruct (IH E) as (q & Hq & Eq). exists q. split; [right; auto|auto]. }
    destruct H as ([v v'] & Hin & Eq). simpl in Eq.
    apply In_nth_error in Hin. destruct Hin as [c Hc]. exists c, v, v'.
    assert (E2 : nth_error d c = Some v /\ nth_error d' c = Some v').
    { clear E L Eq. revert d' c Hc. induction d as [|a t IH]; intros [|b t'] [|c] Hc; simpl in *; try discriminate.
      - inversion Hc. auto.
      - apply IH; auto. }
    destruct E2 as [E1 E2]. repeat split; auto.
    destruct (Z.eqb_spec v 0), (Z.eqb_spec v' 0); simpl in Eq; try discriminate; [left|right]; auto.
  - intros (c & v & v' & E1 & E2 & Hd). destruct (same_zero_status d d') eqn:S; auto.
    apply same_zero_status_spec in S. destruct S as [_ S]. specialize (S c v v' E1 E2). lia.
Qed.

(* ------------------------------------------------------------------ the invariant across an update *)

Lemma inv_change_demands h d d' s : nonnegb d = true -> nonnegb d' = true -> same_zero_status d d' = true ->
  inv h d s -> inv h d' s.
Proof.
  intros N N' S I. apply same_zero_status_spec in S. destruct S as [L S]. destruct I.
  constructor; auto.
  - intros c Hc. rewrite <- L. auto.
  - intros c v' E'. destruct (nth_error d c) as [v|] eqn:E.
    + rewrite (inv_cnt c v E). specialize (S c v v' E E').
      pose proof (nonnegb_nth d c v N E). pose proof (nonnegb_nth d' c v' N' E').
      destruct (Z.ltb_spec 0 v), (Z.ltb_spec 0 v'); auto; lia.
    + apply nth_error_None in E. assert (nth_error d' c <> None) by congruence. apply nth_error_Some in H. lia.
  - congruence.
  - congruence.
  - intros c Hc. apply inv_out. lia.
Qed.

Theorem update_inv h d d' s : nonnegb d = true -> nonnegb d' = true -> inv h d s ->
  inv h (update_demand d d') s /\ nonnegb (update_demand d d') = true /\ length (update_demand d d') = length d.
Proof.
  intros N N' I. unfold update_demand. destruct (same_zero_status d d') eqn:S; [|auto].
  split; [apply (inv_change_demands h d d' s N N' S I)|]. split; auto.
  apply same_zero_status_spec in S. symmetry. tauto.
Qed.

(* ------------------------------------------------------------------ every history with updates *)

Theorem ustep_inv h ds o ds' : hier_wf h -> nonnegb (fst ds) = true ->
  (forall d', o = Update d' -> nonnegb d' = true) ->
  inv h (fst ds) (snd ds) -> ustep h ds o = Some ds' ->
  inv h (fst ds') (snd ds') /\ nonnegb (fst ds') = true /\ length (fst ds') = length (fst ds).
Proof.
  intros Hh N Hu I E. destruct ds as [d s]. destruct o as [o|d']; simpl in *.
  - destruct (step h (length d) s o) as [s'|] eqn:E1; [|discriminate]. inversion E. subst. simpl.
    split; [eapply step_inv; eauto|auto].
  - inversion E. subst. simpl. apply update_inv; auto.
Qed.

Theorem run_uops_inv h ops : forall ds ds', hier_wf h -> nonnegb (fst ds) = true -> updates_nonneg ops ->
  inv h (fst ds) (snd ds) -> run_uops h ds ops = Some ds' ->
  inv h (fst ds') (snd ds') /\ nonnegb (fst ds') = true /\ length (fst ds') = length (fst ds).
Proof.
  induction ops as [|o ops IH]; intros ds ds' Hh N U I E; simpl in E.
  - inversion E. subst. auto.
  - destruct (ustep h ds o) as [ds1|] eqn:E1; [|discriminate].
    destruct (ustep_inv h ds o ds1 Hh N) as (I1 & N1 & L1); auto.
    { intros d' ->. apply U. left. reflexivity. }
    destruct (IH ds1 ds' Hh N1) as (I2 & N2 & L2); auto.
    { intros d' Hin. apply U. right. exact Hin. }
    split; auto. split; auto. congruence.
Qed.

Theorem update_history_invariant bs regs d ops h d' s' :
  make_hier (make_grid bs regs) = Some h -> nonnegb d = true -> updates_nonneg ops ->
  run_uops h (d, init_state h d) ops = Some (d', s') ->
  inv h d' s' /\ partition_okb h d' s' = true /\ nonnegb d' = true /\ length d' = length d.
Proof.
  intros Hm N U E.
  assert (Hw : hier_wf h).
  { destruct (grid_hierarchy_exists bs regs) as (h' & E' & _ & W). rewrite Hm in E'. inversion E'. subst h'. exact W. }
  destruct (run_uops_inv h ops (d, init_state h d) (d', s') Hw N U) as (I & N' & L); simpl; auto.
  { apply init_inv; auto. }
  simpl in *. split; auto. split; [apply partition_okb_correct; auto|auto].
Qed.

(* the clause "zero-area cells to none" after any history with updates *)
Theorem update_history_zero_cell_in_no_bin bs regs d ops h d' s' c :
  make_hier (make_grid bs regs) = Some h -> nonnegb d = true -> updates_nonneg ops ->
  run_uops h (d, init_state h d) ops = Some (d', s') -> nth_error d' c = Some 0 ->
  (forall i j l, nth_error2 (bcells s') i j = Some l -> ~ In c l) /\
  nth_error (cbx s') c = Some (-1) /\ nth_error (cby s') c = Some (-1).
Proof.
  intros Hm N U E Ec. destruct (update_history_invariant bs regs d ops h d' s' Hm N U E) as (I & _).
  eapply inv_nonpositive_cell_in_no_bin; eauto. lia.
Qed.
