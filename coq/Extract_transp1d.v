(* Extraction of the C14 model (family transp1d) to OCaml for the correspondence runs.
   ExtrOcamlBasic only: bool/option/list/prod/unit/sumbool map to OCaml's; Z,
   positive, nat stay the extracted Coq datatypes.  No Extract Constant. *)
From Coq Require Import Extraction ExtrOcamlBasic ZArith List.
Require Import CV.Transp1d CV.Transp1dCert.
Extraction Language OCaml.
Extraction "model_transp1d.ml"
  Transp1d.balance_demand Transp1d.solve Transp1d.assign Transp1d.assign_unfixed
  Transp1dCert.check_plan Transp1dCert.solve_checked Transp1dCert.plan_cost.
