(* C07: the C++-typed intermediate values of RowLegalizer::getPlacement (src/place_detailed/row_legalizer.cpp:85-99), over
   the ideal model RowLeg.placement_aux.  Added by the listing tie (MachineOpsCover.v): AbacusLegalizer::run reads the
   placement back through this function, and its two int sums were in no listing.
       finalAbsPos = constrainingPos_;  partial_sum from the back with std::min   (no arithmetic)
       ret[i] = finalAbsPos[i] + cumWidth_[i];                                     (int)
       assert(finalAbsPos[i] + cumWidth_[i + 1] <= end_);                          (int, assertion builds)
   The model walks the cells from the newest: m = the running minimum, usedAfter = cumWidth_[i + 1], usedAfter - w = cumWidth_[i].
   `int` = I32 (RowLegMachine.v).  Types transcribed by hand; tied to the source by MachineOpsCover.v.  Definitions only. *)
From Coq Require Import List ZArith.
Import ListNotations.
Require Import CV.RowLeg CV.RowLegMachine.
Local Open Scope Z_scope.

Fixpoint gp_aux_vals (cp ws : list Z) (usedAfter : Z) (curmin : option Z) : list (cty * Z) :=
  match cp, ws with
  | c :: cp', w :: ws' =>
     let m := match curmin with None => c | Some m => Z.min m c end in
     (I32, m + (usedAfter - w))        (* ret[i] = finalAbsPos[i] + cumWidth_[i] *)
     :: (I32, m + usedAfter)           (* finalAbsPos[i] + cumWidth_[i + 1]  (assert) *)
     :: gp_aux_vals cp' ws' (usedAfter - w) (Some m)
  | _, _ => []
  end.

Definition gp_vals (s : rl) : list (cty * Z) := gp_aux_vals (cpos s) (widths s) (used s) None.
