(* C06 -- global placement stays inside the placement area and exports the blend.
   Model: Spread.v (exact rationals; bins are inputs; follows the tree WITH the F15 repair: cells that are in no
   bin are reported at their target clamped into the placement area).  Proofs: SpreadProofs.v.
   Labels: [F] proved for all inputs of the exact model; [R] refuted for the unrepaired function (finding F15).
   NOT provable here and validated by runs only (./check C06): that global placement completes without an error,
   that every exposed value is finite, and the binary32 rounding of blendPlacement / the solver (Eigen's
   conjugate gradient is outside the model).
   The binary32 arithmetic of spreadCells and the binary64 export step ARE modelled (SpreadFloat.v, Flocq) and the
   theorems about them are in the last section of this file (they use the standard library's real-number axioms;
   the theorems over Q stay closed under the global context). *)
From Coq Require Import List ZArith QArith Qround Qabs Bool Lia.
Import ListNotations.
Require Import CV.Orient CV.FreeSpace CV.Spread CV.SpreadProofs.

(* ---------------------------------------------------------------- spreading *)

(* [F] spreadCells: in a bin whose demands are non-negative, a cell of positive demand gets a coordinate within
   [lo,hi], strictly inside when lo < hi *)
Theorem c06_spread_cells_inside : forall targets demands lo hi c d,
  length demands = length targets ->
  (forall x, In x demands -> 0 <= x) ->
  lo <= hi ->
  nth_error demands c = Some d -> 0 < d ->
  exists v, nth_error (spread_cells targets demands lo hi) c = Some v /\
            (lo <= v /\ v <= hi) /\ (lo < hi -> lo < v /\ v < hi).
Proof. exact spread_cells_inside. Qed.

Example c06_spread_cells_nonvacuous : map Qred (spread_cells [3; 1; 2] [1; 2; 1] 0 8) = [7; 2; 5].
Proof. vm_compute. reflexivity. Qed.

(* [F] spreadCoordX / spreadCoordY: every cell of positive demand that is in a bin (each cell in at most one bin:
   C16's partition invariant, an hypothesis here) is reported within the interval of ITS bin, strictly inside when
   the bin is not degenerate *)
Theorem c06_spread_coord_inside : forall alo ahi bins target demand b c,
  bin_ok bins demand b -> In c (b_cells b) -> (c < length target)%nat -> 0 < getq demand c ->
  exists v, nth_error (spread_coord alo ahi bins target demand) c = Some v /\ within_bin b v.
Proof. exact spread_coord_inside. Qed.

Definition ex_bins := [ {| b_lo := 100; b_hi := 150; b_cells := [2%nat; 0%nat] |};
                        {| b_lo := 150; b_hi := 200; b_cells := [3%nat] |} ].

Example c06_spread_coord_nonvacuous :
  map Qred (spread_coord 100 200 ex_bins [130; 20; 110; 500; 170] [2; 0; 2; 5; 0]) = [275 # 2; 100; 225 # 2; 175; 170]
  /\ bin_ok ex_bins [2; 0; 2; 5; 0] {| b_lo := 100; b_hi := 150; b_cells := [2%nat; 0%nat] |}.
Proof.
  split; [vm_compute; reflexivity|]. unfold bin_ok, ex_bins. simpl. repeat split.
  - repeat constructor; simpl; intuition discriminate.
  - left; reflexivity.
  - intros c' [<-|[<-|[]]]; vm_compute; discriminate.
  - discriminate.
Qed.

(* [F] repaired code: a cell in no bin (a movable cell without area, or a fixed cell) is reported at its target
   clamped into the placement area *)
Theorem c06_spread_coord_no_bin : forall alo ahi bins target demand c t,
  ~ in_some_bin bins c -> nth_error target c = Some t ->
  nth_error (spread_coord alo ahi bins target demand) c = Some (clampq (inject_Z alo) (inject_Z ahi) t).
Proof. exact spread_coord_no_bin. Qed.

Theorem c06_clamp_inside : forall lo hi v, lo <= hi -> lo <= clampq lo hi v /\ clampq lo hi v <= hi.
Proof. exact clampq_inside. Qed.

Example c06_no_bin_nonvacuous :
  ~ in_some_bin ex_bins 1%nat /\ ~ in_some_bin ex_bins 4%nat /\
  Qred (clampq 100 200 20) = 100 /\ Qred (clampq 100 200 170) = 170 /\ Qred (clampq 100 200 500) = 200.
Proof.
  unfold in_some_bin, ex_bins. simpl. repeat split; try (vm_compute; reflexivity); intuition discriminate.
Qed.

(* [F] the unrepaired function reports every cell that is in no bin at 0.0 *)
Theorem c06_spread_coord_orig_no_bin : forall n bins target demand c,
  ~ in_some_bin bins c -> (c < n)%nat -> nth_error (spread_coord_orig n bins target demand) c = Some 0.
Proof. exact spread_coord_orig_no_bin. Qed.

(* [R] F15: for the unrepaired function "the coordinate of every movable cell lies in the placement area" is false:
   a movable cell of zero demand with its target inside [100,200] is reported at 0 *)
Theorem c06_spread_coord_orig_zero_area_refuted :
  exists n bins target demand c (alo ahi : Z),
    (c < n)%nat /\ ~ in_some_bin bins c /\ getq demand c == 0 /\
    (forall b, In b bins -> b_lo b = alo /\ b_hi b = ahi) /\
    inject_Z alo <= getq target c /\ getq target c <= inject_Z ahi /\
    ~ (inject_Z alo <= getq (spread_coord_orig n bins target demand) c).
Proof. exact spread_coord_orig_refuted. Qed.

Example c06_orig_nonvacuous :
  map Qred (spread_coord_orig 5 ex_bins [130; 20; 110; 500; 170] [2; 0; 2; 5; 0]) = [275 # 2; 0; 225 # 2; 175; 0].
Proof. vm_compute. reflexivity. Qed.

(* ---------------------------------------------------------------- placement area and bin limits *)

(* [F] updateBinsToSize / computeSubdivisions: limits strictly increasing, inside [mn,mx] *)
Theorem c06_limits_inside : forall mn mx maxSize, (mn < mx)%Z -> (1 <= maxSize)%Z ->
  forall i j l h, (i < j)%nat -> nth_error (limits mn mx maxSize) i = Some l -> nth_error (limits mn mx maxSize) j = Some h ->
  (mn <= l /\ l < h /\ h <= mx)%Z.
Proof. exact limits_spec. Qed.

Example c06_limits_nonvacuous : limits 9 91 25 = [9; 36; 63; 91]%Z /\ limits 0 20 25 = [0; 20]%Z.
Proof. vm_compute. split; reflexivity. Qed.

(* [F] DensityGrid::fromIspdCircuit: with a non-negative margin and at least one row surviving the clipping, the
   placement area lies inside the bounding box of the rows (with the margin free on the left and on the right), and
   all bin limits lie inside it, strictly increasing *)
Theorem c06_grid_limits_inside_rows_bbox : forall margin maxSize rows cells lx ly,
  (0 <= margin)%Z -> (1 <= maxSize)%Z ->
  clip_rows margin (map rr (compute_rows_circuit rows [] cells)) <> [] ->
  grid_of_circuit margin maxSize rows cells = (lx, ly) ->
  let a := grid_area margin (map rr (compute_rows_circuit rows [] cells)) in
  let R := bbox (map rr rows) in
  rect_in a R /\
  (minX R + margin <= minX a /\ maxX a <= maxX R - margin)%Z /\
  limits_ok (minX a) (maxX a) lx /\ limits_ok (minY a) (maxY a) ly /\
  limits_ok (minX R) (maxX R) lx /\ limits_ok (minY R) (maxY R) ly.
Proof. exact grid_of_circuit_limits. Qed.

Definition ex_rows := [ {| rr := {| minX := 0; maxX := 100; minY := 0; maxY := 10 |}; ro := oN |};
                        {| rr := {| minX := 0; maxX := 100; minY := 10; maxY := 20 |}; ro := oFS |};
                        {| rr := {| minX := 0; maxX := 17; minY := 20; maxY := 30 |}; ro := oN |} ].
Definition ex_cells : list (Z * Z * Z * Z * orient * bool * bool) :=
  [ (40%Z, 0%Z, 20%Z, 10%Z, oN, true, true); (5%Z, 5%Z, 3%Z, 10%Z, oN, false, false) ].

(* an obstruction splits the first row, the third row (17 wide, margin 9) is dropped by the clipping *)
Example c06_grid_nonvacuous :
  clip_rows 9 (map rr (compute_rows_circuit ex_rows [] ex_cells)) =
    [ {| minX := 9; maxX := 31; minY := 0; maxY := 10 |}; {| minX := 69; maxX := 91; minY := 0; maxY := 10 |};
      {| minX := 9; maxX := 91; minY := 10; maxY := 20 |} ] /\
  grid_of_circuit 9 25 ex_rows ex_cells = ([9; 36; 63; 91]%Z, [0; 20]%Z).
Proof. vm_compute. split; reflexivity. Qed.

(* [F] finding F28, repaired code (density_grid.cpp:45-51): when NO free row survives the clipping -- every row is
   covered by fixed obstructions, or only pieces not wider than twice the margin remain -- the placement area of the
   grid is the bounding box R of the circuit's rows (before the repair: (0,0,0,0), every cell exposed at the origin)
   and the bin limits are those of R, strictly increasing inside R in every direction in which R has extent *)
Theorem c06_grid_without_free_space : forall margin maxSize rows cells,
  (1 <= maxSize)%Z ->
  clip_rows margin (map rr (compute_rows_circuit rows [] cells)) = [] ->
  let R := bbox (map rr rows) in
  circuit_grid_area margin rows cells = R /\
  grid_of_circuit margin maxSize rows cells = (limits (minX R) (maxX R) maxSize, limits (minY R) (maxY R) maxSize) /\
  ((minX R < maxX R)%Z -> limits_ok (minX R) (maxX R) (fst (grid_of_circuit margin maxSize rows cells))) /\
  ((minY R < maxY R)%Z -> limits_ok (minY R) (maxY R) (snd (grid_of_circuit margin maxSize rows cells))).
Proof. exact grid_of_circuit_without_free_space. Qed.

(* [F] EVERY circuit that has a row of positive width and height, any fixed cells and obstructions, no hypothesis on
   what the clipping leaves: the placement area a of the density grid is a non-degenerate rectangle inside the bounding
   box R of the rows and all bin limits lie inside R, strictly increasing.  These are the `limits_ok L H lims` that
   c06_ub_centre_inside asks for with [L,H] = the rows' bounding box, and the `alo <= ahi` of c06_no_bin_centre *)
Theorem c06_grid_limits_inside_rows_bbox_all : forall margin maxSize rows cells lx ly,
  (0 <= margin)%Z -> (1 <= maxSize)%Z -> has_proper_row rows ->
  grid_of_circuit margin maxSize rows cells = (lx, ly) ->
  let a := circuit_grid_area margin rows cells in
  let R := bbox (map rr rows) in
  rect_in a R /\ (minX a < maxX a)%Z /\ (minY a < maxY a)%Z /\
  limits_ok (minX a) (maxX a) lx /\ limits_ok (minY a) (maxY a) ly /\
  limits_ok (minX R) (maxX R) lx /\ limits_ok (minY R) (maxY R) ly.
Proof. exact grid_of_circuit_limits_all. Qed.

(* the first row is covered by an obstruction; of the second one a piece 17 wide remains, which the margin 9 removes:
   no clipped row is left and the grid is the one of the rows' bounding box [50,150]x[20,40] *)
Definition nf_rows := [ {| rr := {| minX := 50; maxX := 150; minY := 20; maxY := 30 |}; ro := oN |};
                        {| rr := {| minX := 50; maxX := 150; minY := 30; maxY := 40 |}; ro := oFS |} ].
Definition nf_cells : list (Z * Z * Z * Z * orient * bool * bool) :=
  [ (40%Z, 15%Z, 200%Z, 15%Z, oN, true, true); (67%Z, 30%Z, 90%Z, 10%Z, oN, true, true);
    (60%Z, 20%Z, 4%Z, 10%Z, oN, false, false) ].

Example c06_grid_without_free_space_nonvacuous :
  map rr (compute_rows_circuit nf_rows [] nf_cells) = [ {| minX := 50; maxX := 67; minY := 30; maxY := 40 |} ] /\
  clip_rows 9 (map rr (compute_rows_circuit nf_rows [] nf_cells)) = [] /\
  has_proper_row nf_rows /\
  circuit_grid_area 9 nf_rows nf_cells = {| minX := 50; maxX := 150; minY := 20; maxY := 40 |} /\
  grid_of_circuit 9 25 nf_rows nf_cells = ([50; 75; 100; 125; 150]%Z, [20; 40]%Z).
Proof.
  split; [vm_compute; reflexivity|]. split; [vm_compute; reflexivity|]. split.
  - eexists. split; [left; reflexivity|]. simpl. split; reflexivity.
  - split; vm_compute; reflexivity.
Qed.

(* ---------------------------------------------------------------- export *)

(* [F] a centre strictly inside an interval with integer ends is exposed (lower-left rounded by std::round, centre
   = lower-left + size/2) inside the closed interval: in exact arithmetic no slack is needed *)
Theorem c06_exported_centre_strict : forall x w lo hi,
  inject_Z lo < x -> x < inject_Z hi ->
  inject_Z lo <= exported_centre x w /\ exported_centre x w <= inject_Z hi.
Proof. exact exported_centre_strict. Qed.

(* [F] a centre in the closed interval is exposed at most 1/2 outside; the bound is attained
   (c06_export_nonvacuous: centre 122 of a cell of height 7 in [.,122] is exposed at 122.5) *)
Theorem c06_exported_centre_closed : forall x w lo hi,
  inject_Z lo <= x -> x <= inject_Z hi ->
  inject_Z lo - (1 # 2) <= exported_centre x w /\ exported_centre x w <= inject_Z hi + (1 # 2).
Proof. exact exported_centre_closed. Qed.

Example c06_export_nonvacuous :
  export_coord (5 # 2) 0 = 3%Z /\ export_coord (-5 # 2) 0 = (-3)%Z /\ export_coord (7 # 2) 3 = 2%Z /\
  Qred (exported_centre 122 7) = 245 # 2.
Proof. vm_compute. repeat split; reflexivity. Qed.

(* [F] upper-bound placements, one direction: lims are grid limits (strictly increasing inside [L,H], e.g. the
   bounding box of the rows by c06_grid_limits_inside_rows_bbox_all, for every circuit with a row of positive width and
   height, whatever the obstructions leave), the bin of the cell spans lims[i]..lims[j]: the
   exposed centre of every cell of positive demand lies in [L,H] *)
Theorem c06_ub_centre_inside : forall L H lims alo ahi bins target demand b c i j w,
  limits_ok L H lims ->
  (i < j)%nat -> nth_error lims i = Some (b_lo b) -> nth_error lims j = Some (b_hi b) ->
  NoDup (concat (map b_cells bins)) -> In b bins -> (forall c', In c' (b_cells b) -> 0 <= getq demand c') ->
  In c (b_cells b) -> (c < length target)%nat -> 0 < getq demand c ->
  exists v, nth_error (spread_coord alo ahi bins target demand) c = Some v /\
            inject_Z L <= exported_centre v w /\ exported_centre v w <= inject_Z H.
Proof. exact ub_centre_1d. Qed.

(* [F] repaired code, cells without a bin: exposed within 1/2 of the placement area (inside the rows' bounding box
   in x as soon as the margin is >= 1, by c06_grid_limits_inside_rows_bbox) *)
Theorem c06_no_bin_centre : forall alo ahi bins target demand c t w,
  (alo <= ahi)%Z -> ~ in_some_bin bins c -> nth_error target c = Some t ->
  exists v, nth_error (spread_coord alo ahi bins target demand) c = Some v /\
            inject_Z alo - (1 # 2) <= exported_centre v w /\ exported_centre v w <= inject_Z ahi + (1 # 2).
Proof. exact no_bin_centre_1d. Qed.

Example c06_ub_centre_nonvacuous :
  limits_ok 0 300 [100; 150; 200]%Z /\
  map (fun v => Qred (exported_centre v 7)) (spread_coord 100 200 ex_bins [130; 20; 110; 500; 170] [2; 0; 2; 5; 0])
  = [275 # 2; 201 # 2; 225 # 2; 351 # 2; 341 # 2].
Proof.
  split; [|vm_compute; reflexivity].
  intros i j l h Hij Hi Hj.
  assert (Hj3 : (j < 3)%nat) by (apply (nth_error_Some [100; 150; 200]%Z); congruence).
  destruct j as [|[|[|j]]]; try lia; destruct i as [|[|i]]; try lia; simpl in Hi, Hj;
    inversion Hi; inversion Hj; subst; lia.
Qed.

(* [F] the returned placement is the documented blend up to the rounding of std::round:
   |x - ((1-w) LB + w UB - width/2)| <= 1/2 for every movable cell, same in y *)
Theorem c06_export_is_blend : forall w cells lbx ubx lby uby i c ax bx ay by_,
  length lbx = length ubx -> length lby = length uby ->
  nth_error cells i = Some c -> g_fixed c = false ->
  nth_error lbx i = Some ax -> nth_error ubx i = Some bx -> nth_error lby i = Some ay -> nth_error uby i = Some by_ ->
  exists c', nth_error (export_global w cells lbx ubx lby uby) i = Some c' /\
    Qabs (inject_Z (g_x c') - (((1 - w) * ax + w * bx) - (1 # 2) * inject_Z (g_pw c))) <= 1 # 2 /\
    Qabs (inject_Z (g_y c') - (((1 - w) * ay + w * by_) - (1 # 2) * inject_Z (g_ph c))) <= 1 # 2.
Proof. exact export_is_blend. Qed.

(* [F] the global export never writes orientation, sizes or the fixed flag, and never touches a fixed cell *)
Theorem c06_export_frame : forall w cells lbx ubx lby uby,
  length (export_global w cells lbx ubx lby uby) = length cells /\
  forall i c, nth_error cells i = Some c ->
    exists c', nth_error (export_global w cells lbx ubx lby uby) i = Some c' /\
      g_orient c' = g_orient c /\ g_fixed c' = g_fixed c /\ g_pw c' = g_pw c /\ g_ph c' = g_ph c /\
      (g_fixed c = true -> c' = c).
Proof. exact export_global_frame. Qed.

Definition ex_gcells := [ {| g_fixed := false; g_x := 0; g_y := 0; g_pw := 3; g_ph := 10; g_orient := 5 |};
                          {| g_fixed := true; g_x := 7; g_y := 8; g_pw := 2; g_ph := 2; g_orient := 1 |} ].

Example c06_export_global_nonvacuous :
  export_global (99 # 100) ex_gcells [10; 0] [20; 0] [5; 0] [7 # 2; 0] =
  [ {| g_fixed := false; g_x := 18; g_y := -1; g_pw := 3; g_ph := 10; g_orient := 5 |};
    {| g_fixed := true; g_x := 7; g_y := 8; g_pw := 2; g_ph := 2; g_orient := 1 |} ].
Proof. vm_compute. reflexivity. Qed.

(* ================================================================ binary32 (Flocq) ================================
   The theorems above are about exact rationals.  The ones below are about the binary32 computation itself:
   SpreadFloat.v replaces every C++ float operator of spreadCells by the correctly rounded IEEE-754 operation of
   Flocq's BinarySingleNaN (round to nearest even); ./check C06 compares spreadCoordX/Y of the compiled library with
   this model BIT FOR BIT on <= 100 non-dyadic cases per run (vm_compute).  These theorems depend on the axioms of the
   standard library's real numbers, which Flocq is built on (Print Assumptions lists them):
   ClassicalDedekindReals.sig_forall_dec, ClassicalDedekindReals.sig_not_dec and
   FunctionalExtensionality.functional_extensionality_dep.  No other axiom. *)
From Coq Require Import Reals.
From Flocq Require Import Core BinarySingleNaN.
Require Import CV.SpreadFloat CV.SpreadFloatProofs.

(* [R] "dem*max + (1-dem)*min stays in [min,max] for 0 <= dem <= 1" is FALSE in binary32, even for integer limits
   below 2^22: dem = 2^-25 (1 + 2^-23), bin [2097153, 2097154] gives 2097152.75 *)
Theorem c06_spread_float_refuted :
  exists (dem : f32) (mn mx : Z),
    is_finite dem = true /\ (0 <= B2R dem <= 1)%R /\
    (Z.abs mn <= 2 ^ 22)%Z /\ (Z.abs mx <= 2 ^ 22)%Z /\ (mn < mx)%Z /\
    is_finite (spread_expr_f dem (f_of_Z mx) (f_of_Z mn)) = true /\
    (B2R (spread_expr_f dem (f_of_Z mx) (f_of_Z mn)) < IZR mn)%R.
Proof.
  exists wit_dem, 2097153%Z, 2097154%Z.
  destruct spread_expr_f_below_witness as [H1 [H2 [H3 H4]]].
  split; [exact H1|]. split; [exact H2|].
  split; [vm_compute; congruence|]. split; [vm_compute; congruence|]. split; [reflexivity|].
  split; [exact H3|exact H4].
Qed.

(* [R] the whole of spreadCells (unrepaired tree), int limits and int demands as spreadCoordX/Y pass them:
   wit_cells = spread_cells_int_f false [0; 1; 2] [1; 32044; 57] (-117183) (-117133) (SpreadFloat.v): three cells of
   demand 1, 32044, 57 in the bin [-117183, -117133]: the first cell is put BELOW the bin (-117183.0078125) *)
Theorem c06_spread_cells_float_below_refuted :
  exists c : f32,
    nth_error wit_cells 0 = Some c /\
    is_finite c = true /\ (B2R c < IZR (-117183))%R.
Proof. exact spread_cells_f_below_witness. Qed.

(* [R] ... and wit2_cells = spread_cells_int_f false [0; 1; ...; 4241] [1; ...; 1] 0 100000: 4242 cells of demand 1 in the bin
   [0, 100000]: `dem` has drifted to 1 + 19 * 2^-23 when the last cell is
   reached and that cell is put ABOVE the bin (100000.2265625); a four-cell instance of the same effect follows *)
Theorem c06_spread_cells_float_above_refuted :
  exists c : f32,
    nth_error wit2_cells 4241 = Some c /\
    is_finite c = true /\ (IZR 100000 < B2R c)%R.
Proof. exact spread_cells_f_above_witness. Qed.

Theorem c06_spread_cells_float_above_refuted_small :
  exists c : f32,
    nth_error wit3_cells 3 = Some c /\
    is_finite c = true /\ (IZR 100000 < B2R c)%R.
Proof. exact spread_cells_f_above_witness_small. Qed.

(* [R] the accumulated demand fraction itself exceeds 1 (4242 equal cells): 1.0f - dem is then negative *)
Theorem c06_spread_dem_exceeds_one_refuted :
  is_finite wit2_dem_final = true /\ (1 < B2R wit2_dem_final)%R.
Proof. exact spread_dem_exceeds_one_witness. Qed.

(* [F] what IS true of the unrepaired expression: integer limits of magnitude <= 2^k (0 <= k <= 23), every finite dem in
   [0,1]: no overflow, and the coordinate leaves [min, max] by at most 2^(k-23) (1/2 for the C07 range 2^22, 1/4 for 2^21,
   ...): one unit in the last place of the magnitude bound.  The witness above attains 1/4 with limits in (2^21, 2^22]. *)
Theorem c06_spread_float_slack : forall (k mn mx : Z) (dem : f32),
  (0 <= k <= 23)%Z -> (Z.abs mn <= 2 ^ k)%Z -> (Z.abs mx <= 2 ^ k)%Z -> (mn <= mx)%Z ->
  is_finite dem = true -> (0 <= B2R dem <= 1)%R ->
  is_finite (spread_expr_f dem (f_of_Z mx) (f_of_Z mn)) = true /\
  (IZR mn - bpow radix2 (k - 23) <= B2R (spread_expr_f dem (f_of_Z mx) (f_of_Z mn)) <= IZR mx + bpow radix2 (k - 23))%R.
Proof. exact spread_expr_f_slack. Qed.

Example c06_spread_float_slack_nonvacuous :
  B2SF (spread_expr_f (f_of_me 1 (-2)) (f_of_Z 1000) (f_of_Z (-3))) = B2SF (f_of_me 991 (-2)).
Proof. vm_compute. reflexivity. Qed.

(* [F] the repaired expression (coordinate clamped into the bin, candidate fix a28082d of finding F21): inside
   [min, max] for EVERY binary32 value of dem -- NaN, infinities and dem > 1 included *)
Theorem c06_spread_float_clamped_inside : forall (dem : f32) (mn mx : Z),
  (Z.abs mn <= 2 ^ 24)%Z -> (Z.abs mx <= 2 ^ 24)%Z -> (mn <= mx)%Z ->
  is_finite (spread_expr_clamped_f dem (f_of_Z mx) (f_of_Z mn)) = true /\
  (IZR mn <= B2R (spread_expr_clamped_f dem (f_of_Z mx) (f_of_Z mn)) <= IZR mx)%R.
Proof. exact spread_expr_clamped_f_inside_int. Qed.

(* [F] repaired spreadCells, any targets and demands (NaN included): every entry of the returned vector is the
   initial 0.0f or a finite value of [lo, hi].  _partial: that the cells of positive demand ARE written is proved for the
   exact model only (c06_spread_cells_inside), not for this binary32 loop *)
Theorem c06_spread_cells_float_clamped_entries_partial : forall (targets demands : list f32) (lo hi : f32),
  is_finite lo = true -> is_finite hi = true -> (B2R lo <= B2R hi)%R ->
  Forall (fun v => v = fzero \/ (is_finite v = true /\ (B2R lo <= B2R v <= B2R hi)%R))
         (spread_cells_f true targets demands lo hi).
Proof. exact spread_cells_clamped_f_entries. Qed.

Example c06_spread_cells_float_clamped_nonvacuous :
  map B2SF (spread_cells_int_f true [f_of_Z 0; f_of_Z 1; f_of_Z 2; f_of_Z 3] [1994072; 1655332; 1892993; 1]%Z 0 100000)
  = map B2SF [f_of_me 9210498 (-9); f_of_me 13033438 (-8); f_of_me 10614095 (-7); f_of_Z 100000].
Proof. vm_compute. reflexivity. Qed.

(* ---------------------------------------------------------------- the accumulation of `dem` (binary32) *)
(* The next theorems are stated over the reals with one rnd32 (round to nearest even to binary32) per C++ operation:
   acc_R = the left-to-right float sums, inc_R = 0.5f*curDemand*invTotalDemand, dem_R ds vs k = the value of `dem`
   after k additions when std::accumulate runs over ds and the loop visits the positive demands vs.  The bit-level
   operations compute exactly rnd32 on finite values without overflow (fadd_correct, fmul_correct, f_of_Z_correct in
   SpreadFloatProofs.v); the composition of these lemmas along the whole loop is not stated at bit level. *)

(* [F] at most n cells with demands >= 1 (ints converted to float), total below 2^100: at every point of the loop
   0 <= dem <= (1+u)^(2n+3) / (1-u)^n, u = 2^-24 (about 1 + 3 n 2^-24: dem CAN exceed 1, see
   c06_spread_dem_exceeds_one_refuted; then 1.0f - dem < 0 and the coordinate passes max by (dem-1)(max-min)) *)
Theorem c06_dem_float_bound : forall (ds vs : list R) (n k : nat),
  Forall (fun d => fmt32 d /\ (1 <= d)%R) ds -> Forall (fun d => fmt32 d /\ (1 <= d)%R) vs ->
  ds <> [] -> (sum_R vs <= sum_R ds)%R -> (length ds <= n)%nat -> (length vs <= n)%nat ->
  (acc_R 0 ds <= bpow radix2 100)%R ->
  (0 <= dem_R ds vs k <= (1 + bpow radix2 (-24)) ^ (2 * n + 3) / (1 - bpow radix2 (-24)) ^ n)%R.
Proof. exact dem_R_bound. Qed.

(* [F] at most 65536 cells in the bin: dem <= 1 + 1/64 *)
Theorem c06_dem_float_bound_65536 : forall (ds vs : list R) (n k : nat),
  Forall (fun d => fmt32 d /\ (1 <= d)%R) ds -> Forall (fun d => fmt32 d /\ (1 <= d)%R) vs ->
  ds <> [] -> (sum_R vs <= sum_R ds)%R -> (length ds <= n)%nat -> (length vs <= n)%nat -> (Z.of_nat n <= 65536)%Z ->
  (acc_R 0 ds <= bpow radix2 100)%R ->
  (0 <= dem_R ds vs k <= 1 + / 64)%R.
Proof. exact dem_R_bound_65536. Qed.

Example c06_dem_float_bound_nonvacuous :
  Forall (fun d => fmt32 d /\ (1 <= d)%R) [1%R] /\ [1%R] <> [] /\ (sum_R [1%R] <= sum_R [1%R])%R /\
  (acc_R 0 [1%R] <= bpow radix2 100)%R.
Proof. exact dem_R_bound_hyps_example. Qed.

(* ---------------------------------------------------------------- the export step in binary64 *)
(* exportPlacement evaluates std::round(x - 0.5 * placedWidth) in double (the float centre is promoted, 0.5 is a double
   literal): export_coord_R x size = ZnearestA (rnd64 (x - size/2)) (round half away from zero of ONE binary64 rounding).
   [F] the exposed lower-left plus half the size is within 1/2 + 2^-53 |x - size/2| + 2^-1075 of the float centre x;
   with |x| <= 2^30 and an int size: within 1/2 + 2^-21.  (x itself is the binary32 blend: its own error is the
   4u(|1-w||LB| + |w||UB|) of the check's tolerance and is not part of this statement.) *)
Theorem c06_export_float_blend : forall (x : R) (size : Z),
  (Rabs (IZR (export_coord_R x size) - (x - / 2 * IZR size))
   <= / 2 + bpow radix2 (-53) * Rabs (x - / 2 * IZR size) + bpow radix2 (-1075))%R.
Proof. exact export_coord_R_blend. Qed.

Theorem c06_export_float_blend_bounded : forall (x : R) (size : Z),
  (Rabs x <= bpow radix2 30)%R -> (Z.abs size <= 2 ^ 31)%Z ->
  (Rabs (IZR (export_coord_R x size) - (x - / 2 * IZR size)) <= / 2 + bpow radix2 (-21))%R.
Proof. exact export_coord_R_blend_bounded. Qed.

(* the executable binary64 version on sample values: centre 122.5, size 7 -> 119; centre -0.5, size 0 -> -1 *)
Example c06_export_float_nonvacuous :
  export_coord_f (f_of_me 245 (-1)) 7 = Some 119%Z /\ export_coord_f (f_of_me (-1) (-1)) 0 = Some (-1)%Z.
Proof. split; vm_compute; reflexivity. Qed.

Print Assumptions c06_spread_cells_inside.
Print Assumptions c06_spread_coord_inside.
Print Assumptions c06_spread_coord_no_bin.
Print Assumptions c06_clamp_inside.
Print Assumptions c06_spread_coord_orig_no_bin.
Print Assumptions c06_spread_coord_orig_zero_area_refuted.
Print Assumptions c06_limits_inside.
Print Assumptions c06_grid_limits_inside_rows_bbox.
Print Assumptions c06_grid_without_free_space.
Print Assumptions c06_grid_limits_inside_rows_bbox_all.
Print Assumptions c06_exported_centre_strict.
Print Assumptions c06_exported_centre_closed.
Print Assumptions c06_ub_centre_inside.
Print Assumptions c06_no_bin_centre.
Print Assumptions c06_export_is_blend.
Print Assumptions c06_export_frame.
Print Assumptions c06_spread_float_refuted.
Print Assumptions c06_spread_cells_float_below_refuted.
Print Assumptions c06_spread_cells_float_above_refuted.
Print Assumptions c06_spread_cells_float_above_refuted_small.
Print Assumptions c06_spread_dem_exceeds_one_refuted.
Print Assumptions c06_spread_float_slack.
Print Assumptions c06_spread_float_clamped_inside.
Print Assumptions c06_spread_cells_float_clamped_entries_partial.
Print Assumptions c06_dem_float_bound.
Print Assumptions c06_dem_float_bound_65536.
Print Assumptions c06_export_float_blend.
Print Assumptions c06_export_float_blend_bounded.
