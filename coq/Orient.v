(* Orientation / polarity tables of src/parameters.cpp and src/coloquinte.hpp *)
From Coq Require Import List ZArith Bool.
Import ListNotations.

Inductive orient := oN | oS | oW | oE | oFN | oFS | oFW | oFE | oINVALID | oUNKNOWN.
Inductive polarity := pANY | pSAME | pOPPOSITE | pNW | pSE.

Definition all_orients := [oN; oS; oW; oE; oFN; oFS; oFW; oFE; oINVALID; oUNKNOWN].
Definition all_polarities := [pANY; pSAME; pOPPOSITE; pNW; pSE].

(* CellOrientation oppositeRowOrientation(CellOrientation) -- parameters.cpp *)
Definition opposite_row_orientation (o : orient) : orient :=
  match o with oN => oFS | oS => oFN | oE => oFW | oW => oFE | oFN => oS | oFS => oN
             | oFE => oW | oFW => oE | _ => oINVALID end.
(* bool isTurn(CellOrientation) *)
Definition is_turn (o : orient) : bool := match o with oE | oW | oFW | oFE => true | _ => false end.
(* CellOrientation cellOrientationInRow(CellRowPolarity, CellOrientation) *)
Definition cell_orientation_in_row (p : polarity) (r : orient) : orient :=
  match p with
  | pANY => oUNKNOWN
  | pOPPOSITE => opposite_row_orientation r
  | pSAME => r
  | pNW => match r with oFN | oN | oFW | oW => r | _ => oINVALID end
  | pSE => match r with oFS | oS | oFE | oE => r | _ => oINVALID end
  end.
Definition orient_eqb (a b : orient) : bool :=
  match a, b with oN,oN|oS,oS|oW,oW|oE,oE|oFN,oFN|oFS,oFS|oFW,oFW|oFE,oFE|oINVALID,oINVALID|oUNKNOWN,oUNKNOWN => true | _,_ => false end.
Definition polarity_eqb (a b : polarity) : bool :=
  match a, b with pANY,pANY|pSAME,pSAME|pOPPOSITE,pOPPOSITE|pNW,pNW|pSE,pSE => true | _,_ => false end.

Lemma orient_eqb_eq a b : orient_eqb a b = true <-> a = b.
Proof. destruct a, b; cbn; split; intros H; try reflexivity; try discriminate. Qed.
