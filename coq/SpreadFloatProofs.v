(* C06 -- proofs about the binary32 / binary64 model of SpreadFloat.v (Flocq).  Every lemma is closed by Qed;
   the real-number axioms of the standard library (ClassicalDedekindReals.sig_forall_dec, sig_not_dec,
   FunctionalExtensionality.functional_extensionality_dep) are inherited from Coq.Reals through Flocq. *)
From Coq Require Import ZArith Reals Psatz Lra Lia List Bool.
From Flocq Require Import Core BinarySingleNaN Relative Sterbenz Plus_error.
Require Import CV.SpreadFloat.
Local Open Scope R_scope.

Notation fexp32 := (FLT_exp (-149) 24).
Local Instance prec24 : Prec_gt_0 24 := p24.
Local Instance valid32 : Valid_exp fexp32 := FLT_exp_valid (-149) 24.

Lemma bpow_m24 : bpow radix2 (-24) = / 16777216.
Proof. reflexivity. Qed.
Lemma bpow_m25 : bpow radix2 (-25) = / 33554432.
Proof. reflexivity. Qed.
Lemma bpow_m150_pos : 0 < bpow radix2 (-150).
Proof. apply bpow_gt_0. Qed.

(* |rnd x - x| <= 2^-24 |x| + 2^-150 for every real x *)
Lemma rnd32_err : forall x, Rabs (rnd32 x - x) <= bpow radix2 (-24) * Rabs x + bpow radix2 (-150).
Proof.
  intros x. unfold rnd32.
  destruct (Rlt_or_le (Rabs x) (bpow radix2 (-149 + 24 - 1))) as [Hs|Hn].
  - pose proof (error_le_half_ulp radix2 fexp32 (fun z => negb (Z.even z)) x) as H.
    rewrite (ulp_FLT_small radix2 (-149) 24) in H.
    2:{ eapply Rlt_trans; [exact Hs|]. apply bpow_lt. lia. }
    assert (E : / 2 * bpow radix2 (-149) = bpow radix2 (-150)).
    { change (/ 2) with (bpow radix2 (-1)). rewrite <- bpow_plus. reflexivity. }
    rewrite E in H.
    pose proof (Rabs_pos x). pose proof (bpow_gt_0 radix2 (-24)).
    eapply Rle_trans; [exact H|]. nra.
  - pose proof (relative_error_N_FLT radix2 (-149) 24 ltac:(lia) (fun z => negb (Z.even z)) x Hn) as H.
    match type of H with _ <= ?c * _ => replace c with (bpow radix2 (-24)) in H end.
    2:{ change (/ 2) with (bpow radix2 (-1)). rewrite <- bpow_plus. reflexivity. }
    pose proof bpow_m150_pos. lra.
Qed.

(* the subtraction 1 - t, t in [0,1]: absolute error at most 2^-25 (half an ulp below 1) *)
Lemma rnd32_1 : rnd32 1 = 1.
Proof.
  unfold rnd32. apply round_generic; [apply valid_rnd_N|].
  change 1 with (bpow radix2 0). apply generic_format_bpow. unfold FLT_exp. lia.
Qed.

Lemma rnd32_0 : rnd32 0 = 0.
Proof. unfold rnd32. apply round_0. apply valid_rnd_N. Qed.

Lemma rnd32_le : forall x y, x <= y -> rnd32 x <= rnd32 y.
Proof. intros x y H. unfold rnd32. apply round_le; auto with typeclass_instances. Qed.

Lemma rnd32_id : forall x, fmt32 x -> rnd32 x = x.
Proof. intros x H. unfold rnd32. apply round_generic; auto with typeclass_instances. Qed.

Lemma rnd32_unit_err : forall x, 0 <= x <= 1 -> Rabs (rnd32 x - x) <= bpow radix2 (-25).
Proof.
  intros x [H0 H1].
  destruct (Req_dec x 1) as [->|N1].
  { rewrite rnd32_1. replace (1 - 1) with 0 by ring. rewrite Rabs_R0. apply bpow_ge_0. }
  destruct (Req_dec x 0) as [->|N0].
  { rewrite rnd32_0. replace (0 - 0) with 0 by ring. rewrite Rabs_R0. apply bpow_ge_0. }
  pose proof (error_le_half_ulp radix2 fexp32 (fun z => negb (Z.even z)) x) as H.
  fold (rnd32 x) in H.
  eapply Rle_trans; [exact H|].
  rewrite ulp_neq_0 by exact N0.
  assert (Hm : (mag radix2 x <= 0)%Z).
  { apply mag_le_bpow; [exact N0|]. rewrite Rabs_pos_eq by exact H0. simpl. lra. }
  assert (Hc : (cexp radix2 fexp32 x <= -24)%Z).
  { unfold cexp, FLT_exp. lia. }
  apply Rle_trans with (/ 2 * bpow radix2 (-24)).
  - apply Rmult_le_compat_l; [lra|]. apply bpow_le. exact Hc.
  - change (/ 2) with (bpow radix2 (-1)). rewrite <- bpow_plus. apply Rle_refl.
Qed.

Lemma rnd32_unit_range : forall x, 0 <= x <= 1 -> 0 <= rnd32 x <= 1.
Proof.
  intros x [H0 H1]. split.
  - rewrite <- rnd32_0. apply rnd32_le. exact H0.
  - rewrite <- rnd32_1. apply rnd32_le. exact H1.
Qed.

(* the expression of line 324 over the reals, one rounding per operator *)
Definition spread_expr_R (t mx mn : R) : R :=
  rnd32 (rnd32 (t * mx) + rnd32 (rnd32 (1 - t) * mn)).

Lemma abs_le_inv : forall a b, Rabs a <= b -> - b <= a <= b.
Proof. intros a b H. unfold Rabs in H. destruct (Rcase_abs a); lra. Qed.

Lemma spread_expr_R_sum_err :
  forall M mn mx t,
    0 <= t <= 1 -> Rabs mn <= M -> Rabs mx <= M ->
    Rabs (rnd32 (t * mx) + rnd32 (rnd32 (1 - t) * mn) - (t * mx + (1 - t) * mn))
    <= bpow radix2 (-24) * M * (3 / 2 + bpow radix2 (-25)) + bpow radix2 (-149).
Proof.
  intros M mn mx t Ht Hmn Hmx.
  set (s := rnd32 (1 - t)).
  assert (Hs : 0 <= s <= 1) by (apply rnd32_unit_range; lra).
  pose proof (abs_le_inv _ _ (rnd32_unit_err (1 - t) ltac:(lra))) as Hd. fold s in Hd.
  pose proof (abs_le_inv _ _ (rnd32_err (t * mx))) as Ha.
  pose proof (abs_le_inv _ _ (rnd32_err (s * mn))) as Hb.
  rewrite Rabs_mult in Ha, Hb.
  rewrite (Rabs_pos_eq t) in Ha by lra. rewrite (Rabs_pos_eq s) in Hb by lra.
  set (u := bpow radix2 (-24)) in *. set (d := bpow radix2 (-25)) in *.
  assert (Hu : 0 < u) by apply bpow_gt_0. assert (Hdp : 0 < d) by apply bpow_gt_0.
  assert (Heta : 2 * bpow radix2 (-150) = bpow radix2 (-149)).
  { change 2 with (bpow radix2 1). rewrite <- bpow_plus. reflexivity. }
  assert (HM : 0 <= M) by (pose proof (Rabs_pos mn); lra).
  assert (Hdu : d = u / 2).
  { unfold d, u. rewrite bpow_m24, bpow_m25. lra. }
  set (a := rnd32 (t * mx)) in *. set (b := rnd32 (s * mn)) in *.
  (* products bounded by M *)
  assert (Ht1 : t * Rabs mx <= t * M) by (apply Rmult_le_compat_l; lra).
  assert (Hs1 : s * Rabs mn <= s * M) by (apply Rmult_le_compat_l; lra).
  pose proof (abs_le_inv _ _ Hmn) as Hmn'.
  set (dl := s - (1 - t)) in *.
  assert (Hdm : - (d * M) <= dl * mn <= d * M).
  { split; nra. }
  assert (Hts : t + s = 1 + dl) by (unfold dl; ring).
  assert (Hsum : u * (t * M) + u * (s * M) <= u * M * (1 + d)).
  { replace (u * (t * M) + u * (s * M)) with (u * M * (t + s)) by ring. rewrite Hts.
    apply Rmult_le_compat_l; [nra|]. lra. }
  assert (Hexp : a + b - (t * mx + (1 - t) * mn) = (a - t * mx) + (b - s * mn) + dl * mn).
  { unfold dl. ring. }
  rewrite Hexp. apply Rabs_le.
  assert (HuR1 : u * (t * Rabs mx) <= u * (t * M)) by (apply Rmult_le_compat_l; lra).
  assert (HuR2 : u * (s * Rabs mn) <= u * (s * M)) by (apply Rmult_le_compat_l; lra).
  replace (u * M * (3 / 2 + d)) with (u * M * (1 + d) + d * M) by (rewrite Hdu; field).
  split; lra.
Qed.

(* mn - E <= coord <= mx + E as soon as mn - E and mx + E are binary32 values and E covers the three
   rounding errors of the operands *)
Lemma spread_expr_R_bound :
  forall M E mn mx t,
    0 <= t <= 1 -> Rabs mn <= M -> Rabs mx <= M -> mn <= mx ->
    fmt32 (mn - E) -> fmt32 (mx + E) ->
    bpow radix2 (-24) * M * (3 / 2 + bpow radix2 (-25)) + bpow radix2 (-149) <= E ->
    mn - E <= spread_expr_R t mx mn <= mx + E.
Proof.
  intros M E mn mx t Ht Hmn Hmx Hle Fl Fh HE.
  pose proof (abs_le_inv _ _ (spread_expr_R_sum_err M mn mx t Ht Hmn Hmx)) as H.
  assert (Hv : mn <= t * mx + (1 - t) * mn <= mx) by (split; nra).
  unfold spread_expr_R. split.
  - rewrite <- (rnd32_id (mn - E)) by exact Fl. apply rnd32_le. lra.
  - rewrite <- (rnd32_id (mx + E)) by exact Fh. apply rnd32_le. lra.
Qed.

(* k * 2^e is a binary32 value when |k| <= 2^24 and e >= -149 *)
Lemma fmt32_F2R : forall k e : Z, (Z.abs k <= 2 ^ 24)%Z -> (-149 <= e)%Z ->
  fmt32 (IZR k * bpow radix2 e).
Proof.
  intros k e Hk He. unfold fmt32.
  destruct (Z.eq_dec (Z.abs k) (2 ^ 24)) as [Heq|Hne].
  - (* +-2^24 * 2^e = +-2^(24+e) *)
    assert (Hk' : k = (2 ^ 24)%Z \/ k = (- 2 ^ 24)%Z) by lia.
    assert (Hp : generic_format radix2 fexp32 (bpow radix2 (24 + e))).
    { apply generic_format_bpow. unfold FLT_exp. lia. }
    destruct Hk' as [->| ->].
    + replace (IZR (2 ^ 24) * bpow radix2 e) with (bpow radix2 (24 + e)); [exact Hp|].
      rewrite bpow_plus. reflexivity.
    + replace (IZR (- 2 ^ 24) * bpow radix2 e) with (- bpow radix2 (24 + e)).
      * apply generic_format_opp. exact Hp.
      * rewrite bpow_plus. change (bpow radix2 24) with (IZR (2 ^ 24)). rewrite opp_IZR. ring.
  - apply generic_format_FLT. exists (Float radix2 k e); simpl; [reflexivity|lia|lia].
Qed.

(* integer bin limits of magnitude at most 2^k (0 <= k <= 23): the binary32 coordinate leaves [mn, mx] by at
   most 2^(k-23), i.e. one unit in the last place of the magnitude bound *)
Lemma spread_expr_R_int_bound :
  forall (k : Z) (mn mx : Z) (t : R),
    (0 <= k <= 23)%Z -> 0 <= t <= 1 ->
    (Z.abs mn <= 2 ^ k)%Z -> (Z.abs mx <= 2 ^ k)%Z -> (mn <= mx)%Z ->
    IZR mn - bpow radix2 (k - 23) <= spread_expr_R t (IZR mx) (IZR mn) <= IZR mx + bpow radix2 (k - 23).
Proof.
  intros k mn mx t Hk Ht Hmn Hmx Hle.
  assert (Hb : bpow radix2 k = IZR (2 ^ k)).
  { rewrite <- (IZR_Zpower radix2) by lia. reflexivity. }
  assert (Hsh : forall z : Z, IZR z = IZR (z * 2 ^ (23 - k)) * bpow radix2 (k - 23)).
  { intros z. rewrite mult_IZR. rewrite (IZR_Zpower radix2) by lia. rewrite Rmult_assoc.
    rewrite <- bpow_plus. replace (23 - k + (k - 23))%Z with 0%Z by ring. simpl. ring. }
  assert (Hpow : (2 ^ k * 2 ^ (23 - k) = 2 ^ 23)%Z).
  { rewrite <- Z.pow_add_r by lia. f_equal. lia. }
  assert (Hp23 : (0 < 2 ^ (23 - k))%Z) by (apply Z.pow_pos_nonneg; lia).
  apply spread_expr_R_bound with (M := bpow radix2 k).
  - exact Ht.
  - rewrite Hb, <- abs_IZR. apply IZR_le. exact Hmn.
  - rewrite Hb, <- abs_IZR. apply IZR_le. exact Hmx.
  - apply IZR_le. exact Hle.
  - replace (IZR mn - bpow radix2 (k - 23)) with (IZR (mn * 2 ^ (23 - k) - 1) * bpow radix2 (k - 23)).
    + apply fmt32_F2R; [|lia]. change (2 ^ 24)%Z with (2 * 2 ^ 23)%Z. rewrite <- Hpow. nia.
    + rewrite minus_IZR, Rmult_minus_distr_r, <- Hsh. ring.
  - replace (IZR mx + bpow radix2 (k - 23)) with (IZR (mx * 2 ^ (23 - k) + 1) * bpow radix2 (k - 23)).
    + apply fmt32_F2R; [|lia]. change (2 ^ 24)%Z with (2 * 2 ^ 23)%Z. rewrite <- Hpow. nia.
    + rewrite plus_IZR, Rmult_plus_distr_r, <- Hsh. ring.
  - (* 2^-24 * 2^k * (3/2 + 2^-25) + 2^-149 <= 2^(k-23) *)
    replace (bpow radix2 (k - 23)) with (bpow radix2 (-24) * bpow radix2 k * 2).
    2:{ change 2 with (bpow radix2 1). rewrite <- !bpow_plus. f_equal. ring. }
    assert (H1 : 1 <= bpow radix2 k). { change 1 with (bpow radix2 0). apply bpow_le. lia. }
    assert (H2 : bpow radix2 (-149) <= bpow radix2 (-24) * / 4).
    { change (/ 4) with (bpow radix2 (-2)). rewrite <- bpow_plus. apply bpow_le. lia. }
    rewrite bpow_m25. pose proof (bpow_gt_0 radix2 (-24)). nra.
Qed.

(* ------------------------------------------------------------------ the binary32 operations compute rnd32 *)
Local Instance prec24_128 : Prec_lt_emax 24 128 := p24_128.

(* rounding keeps a bound that is itself a binary32 value *)
Lemma rnd32_abs_le : forall x B, fmt32 B -> Rabs x <= B -> Rabs (rnd32 x) <= B.
Proof.
  intros x B FB H. unfold rnd32. apply abs_round_le_generic; auto with typeclass_instances.
Qed.

Lemma fmt32_bpow : forall e, (-149 <= e)%Z -> fmt32 (bpow radix2 e).
Proof. intros e He. apply generic_format_bpow. unfold FLT_exp. lia. Qed.

Lemma rnd32_no_overflow : forall x, Rabs x <= bpow radix2 127 ->
  Rlt_bool (Rabs (rnd32 x)) (bpow radix2 128) = true.
Proof.
  intros x H. apply Rlt_bool_true.
  apply Rle_lt_trans with (bpow radix2 127).
  - apply rnd32_abs_le; [apply fmt32_bpow; lia|exact H].
  - apply bpow_lt. lia.
Qed.

Lemma fmul_correct : forall x y : f32, is_finite x = true -> is_finite y = true ->
  Rabs (B2R x * B2R y) <= bpow radix2 127 ->
  B2R (fmul x y) = rnd32 (B2R x * B2R y) /\ is_finite (fmul x y) = true.
Proof.
  intros x y Fx Fy H.
  pose proof (Bmult_correct 24 128 p24 p24_128 mode_NE x y) as C.
  change (round radix2 (SpecFloat.fexp 24 128) (round_mode mode_NE) (B2R x * B2R y)) with (rnd32 (B2R x * B2R y)) in C.
  rewrite (rnd32_no_overflow _ H) in C. destruct C as [C1 [C2 _]].
  split; [exact C1|]. unfold fmul. rewrite C2, Fx, Fy. reflexivity.
Qed.

Lemma fadd_correct : forall x y : f32, is_finite x = true -> is_finite y = true ->
  Rabs (B2R x + B2R y) <= bpow radix2 127 ->
  B2R (fadd x y) = rnd32 (B2R x + B2R y) /\ is_finite (fadd x y) = true.
Proof.
  intros x y Fx Fy H.
  pose proof (Bplus_correct 24 128 p24 p24_128 mode_NE x y Fx Fy) as C.
  change (round radix2 (SpecFloat.fexp 24 128) (round_mode mode_NE) (B2R x + B2R y)) with (rnd32 (B2R x + B2R y)) in C.
  rewrite (rnd32_no_overflow _ H) in C. destruct C as [C1 [C2 _]].
  split; [exact C1|exact C2].
Qed.

Lemma fsub_correct : forall x y : f32, is_finite x = true -> is_finite y = true ->
  Rabs (B2R x - B2R y) <= bpow radix2 127 ->
  B2R (fsub x y) = rnd32 (B2R x - B2R y) /\ is_finite (fsub x y) = true.
Proof.
  intros x y Fx Fy H.
  pose proof (Bminus_correct 24 128 p24 p24_128 mode_NE x y Fx Fy) as C.
  change (round radix2 (SpecFloat.fexp 24 128) (round_mode mode_NE) (B2R x - B2R y)) with (rnd32 (B2R x - B2R y)) in C.
  rewrite (rnd32_no_overflow _ H) in C. destruct C as [C1 [C2 _]].
  split; [exact C1|exact C2].
Qed.

Lemma fone_correct : B2R fone = 1 /\ is_finite fone = true.
Proof. split; [apply Bone_correct|apply is_finite_Bone]. Qed.

Lemma B2R_fmt32 : forall x : f32, fmt32 (B2R x).
Proof. intros x. apply (generic_format_B2R 24 128). Qed.

(* the C++ expression on finite operands of magnitude <= 2^100 (no overflow): it is spread_expr_R *)
Lemma spread_expr_f_correct :
  forall dem mx mn : f32,
    is_finite dem = true -> is_finite mx = true -> is_finite mn = true ->
    0 <= B2R dem <= 1 -> Rabs (B2R mx) <= bpow radix2 100 -> Rabs (B2R mn) <= bpow radix2 100 ->
    B2R (spread_expr_f dem mx mn) = spread_expr_R (B2R dem) (B2R mx) (B2R mn) /\
    is_finite (spread_expr_f dem mx mn) = true.
Proof.
  intros dem mx mn Fd Fx Fn Hd Hx Hn.
  assert (B100 : bpow radix2 100 <= bpow radix2 126) by (apply bpow_le; lia).
  assert (B126 : 2 * bpow radix2 126 = bpow radix2 127).
  { change 2 with (bpow radix2 1). rewrite <- bpow_plus. reflexivity. }
  assert (P126 : 0 < bpow radix2 126) by apply bpow_gt_0.
  destruct fone_correct as [O1 O2].
  (* 1.0f - dem *)
  destruct (fsub_correct fone dem O2 Fd) as [S1 S2].
  { rewrite O1. rewrite Rabs_pos_eq by lra. apply Rle_trans with 1; [lra|].
    change 1 with (bpow radix2 0). apply bpow_le. lia. }
  rewrite O1 in S1.
  pose proof (rnd32_unit_range (1 - B2R dem) ltac:(lra)) as Rs. rewrite <- S1 in Rs.
  (* dem * max *)
  destruct (fmul_correct dem mx Fd Fx) as [A1 A2].
  { rewrite Rabs_mult, (Rabs_pos_eq (B2R dem)) by lra. pose proof (Rabs_pos (B2R mx)). nra. }
  (* (1 - dem) * min *)
  destruct (fmul_correct (fsub fone dem) mn S2 Fn) as [B1 B2].
  { rewrite Rabs_mult, (Rabs_pos_eq (B2R (fsub fone dem))) by lra. pose proof (Rabs_pos (B2R mn)). nra. }
  assert (Ha : Rabs (B2R (fmul dem mx)) <= bpow radix2 126).
  { rewrite A1. apply rnd32_abs_le; [apply fmt32_bpow; lia|].
    rewrite Rabs_mult, (Rabs_pos_eq (B2R dem)) by lra. pose proof (Rabs_pos (B2R mx)). nra. }
  assert (Hb : Rabs (B2R (fmul (fsub fone dem) mn)) <= bpow radix2 126).
  { rewrite B1. apply rnd32_abs_le; [apply fmt32_bpow; lia|].
    rewrite Rabs_mult, (Rabs_pos_eq (B2R (fsub fone dem))) by lra. pose proof (Rabs_pos (B2R mn)). nra. }
  destruct (fadd_correct _ _ A2 B2) as [C1 C2].
  { eapply Rle_trans; [apply Rabs_triang|]. lra. }
  split; [|exact C2].
  unfold spread_expr_f, spread_expr_R. rewrite C1, A1, B1, S1. reflexivity.
Qed.

(* (float)z : correctly rounded, exact for |z| <= 2^24 *)
Lemma f_of_Z_correct : forall z : Z, (Z.abs z <= 2 ^ 100)%Z ->
  B2R (f_of_Z z) = rnd32 (IZR z) /\ is_finite (f_of_Z z) = true.
Proof.
  intros z Hz.
  pose proof (binary_normalize_correct 24 128 p24 p24_128 mode_NE z 0 false) as C.
  cbv zeta in C.
  assert (E : F2R (Float radix2 z 0) = IZR z) by (unfold F2R; simpl; ring).
  rewrite E in C.
  change (round radix2 (SpecFloat.fexp 24 128) (round_mode mode_NE) (IZR z)) with (rnd32 (IZR z)) in C.
  rewrite rnd32_no_overflow in C.
  - destruct C as [C1 [C2 _]]. split; [exact C1|exact C2].
  - rewrite <- abs_IZR. apply Rle_trans with (IZR (2 ^ 100)); [apply IZR_le; exact Hz|].
    rewrite (IZR_Zpower radix2) by lia. apply bpow_le. lia.
Qed.

Lemma f_of_Z_exact : forall z : Z, (Z.abs z <= 2 ^ 24)%Z ->
  B2R (f_of_Z z) = IZR z /\ is_finite (f_of_Z z) = true.
Proof.
  intros z Hz. destruct (f_of_Z_correct z) as [C1 C2].
  { eapply Z.le_trans; [exact Hz|]. apply Z.pow_le_mono_r; lia. }
  split; [|exact C2]. rewrite C1. apply rnd32_id.
  replace (IZR z) with (IZR z * bpow radix2 0) by (simpl; ring).
  apply fmt32_F2R; [exact Hz|lia].
Qed.

(* C06, binary32, clause 1 (what IS true): integer bin limits of magnitude <= 2^k, k <= 23, any finite
   dem in [0,1]: the computed coordinate is finite and leaves [min, max] by at most 2^(k-23) *)
Lemma spread_expr_f_slack :
  forall (k mn mx : Z) (dem : f32),
    (0 <= k <= 23)%Z -> (Z.abs mn <= 2 ^ k)%Z -> (Z.abs mx <= 2 ^ k)%Z -> (mn <= mx)%Z ->
    is_finite dem = true -> 0 <= B2R dem <= 1 ->
    is_finite (spread_expr_f dem (f_of_Z mx) (f_of_Z mn)) = true /\
    IZR mn - bpow radix2 (k - 23) <= B2R (spread_expr_f dem (f_of_Z mx) (f_of_Z mn))
      <= IZR mx + bpow radix2 (k - 23).
Proof.
  intros k mn mx dem Hk Hmn Hmx Hle Fd Hd.
  assert (Hk24 : (2 ^ k <= 2 ^ 24)%Z) by (apply Z.pow_le_mono_r; lia).
  destruct (f_of_Z_exact mn ltac:(lia)) as [N1 N2].
  destruct (f_of_Z_exact mx ltac:(lia)) as [X1 X2].
  assert (B : forall z : Z, (Z.abs z <= 2 ^ k)%Z -> Rabs (IZR z) <= bpow radix2 100).
  { intros z Hz. rewrite <- abs_IZR. apply Rle_trans with (IZR (2 ^ 24)); [apply IZR_le; lia|].
    rewrite (IZR_Zpower radix2) by lia. apply bpow_le. lia. }
  destruct (spread_expr_f_correct dem (f_of_Z mx) (f_of_Z mn) Fd X2 N2 Hd) as [C1 C2].
  { rewrite X1. apply B. exact Hmx. }
  { rewrite N1. apply B. exact Hmn. }
  split; [exact C2|]. rewrite C1, X1, N1.
  apply spread_expr_R_int_bound; assumption.
Qed.

(* ------------------------------------------------------------------ clampCoords on one element *)
Lemma clamp_f_inside : forall mn mx c : f32,
  is_finite mn = true -> is_finite mx = true -> is_finite c = true -> B2R mn <= B2R mx ->
  is_finite (clamp_f mn mx c) = true /\ B2R mn <= B2R (clamp_f mn mx c) <= B2R mx.
Proof.
  intros mn mx c Fn Fx Fc Hle. unfold clamp_f, fmax_std, fmin_std.
  rewrite (Bltb_correct 24 128 c mx Fc Fx).
  destruct (Rlt_bool_spec (B2R c) (B2R mx)) as [H1|H1].
  - rewrite (Bltb_correct 24 128 mn c Fn Fc).
    destruct (Rlt_bool_spec (B2R mn) (B2R c)) as [H2|H2]; split; try assumption; lra.
  - rewrite (Bltb_correct 24 128 mn mx Fn Fx).
    destruct (Rlt_bool_spec (B2R mn) (B2R mx)) as [H2|H2]; split; try assumption; lra.
Qed.

(* a NaN or an infinity is clamped too: std::min(max, NaN) = max, hence the result is always one of the
   three operands and lies in [min, max] whenever min <= max are finite *)
Lemma clamp_f_inside_any : forall mn mx c : f32,
  is_finite mn = true -> is_finite mx = true -> B2R mn <= B2R mx ->
  is_finite (clamp_f mn mx c) = true /\ B2R mn <= B2R (clamp_f mn mx c) <= B2R mx.
Proof.
  intros mn mx c Fn Fx Hle.
  destruct (is_finite c) eqn:Fc; [apply clamp_f_inside; assumption|].
  assert (Hm : fmin_std mx c = mx \/ fmin_std mx c = c).
  { unfold fmin_std. destruct (Bltb c mx); auto. }
  unfold clamp_f.
  destruct Hm as [-> | Hm].
  - unfold fmax_std. rewrite (Bltb_correct 24 128 mn mx Fn Fx).
    destruct (Rlt_bool_spec (B2R mn) (B2R mx)); split; try assumption; lra.
  - (* min picked c, i.e. c < max: c = -infinity; then max(min, c) = min *)
    rewrite Hm. unfold fmin_std in Hm.
    destruct c as [s|[|]| |s m e B]; try discriminate Fc.
    + (* -infinity *) unfold fmax_std.
      replace (Bltb mn (B754_infinity true)) with false.
      * split; [exact Fn|lra].
      * destruct mn as [sn|sn| |sn m' e' B']; try discriminate Fn; reflexivity.
    + (* +infinity < finite is false *) exfalso.
      destruct mx as [sx|sx| |sx m' e' B']; try discriminate Fx; cbv [Bltb SpecFloat.SFltb SpecFloat.SFcompare B2SF] in Hm; try discriminate Hm; destruct sx; discriminate Hm.
    + (* NaN < x is false *) exfalso.
      destruct mx as [sx|sx| |sx m' e' B']; try discriminate Fx; cbv [Bltb SpecFloat.SFltb SpecFloat.SFcompare B2SF] in Hm; try discriminate Hm; destruct sx; discriminate Hm.
Qed.

(* ------------------------------------------------------------------ witnesses (computed inside Coq) *)
Import ListNotations.

Lemma Bltb_true_lt : forall a b : f32, is_finite a = true -> is_finite b = true ->
  Bltb a b = true -> B2R a < B2R b.
Proof.
  intros a b Fa Fb H. rewrite (Bltb_correct 24 128 a b Fa Fb) in H.
  destruct (Rlt_bool_spec (B2R a) (B2R b)); [assumption|discriminate].
Qed.

Lemma Bleb_true_le : forall a b : f32, is_finite a = true -> is_finite b = true ->
  Bleb a b = true -> B2R a <= B2R b.
Proof.
  intros a b Fa Fb H. rewrite (Bleb_correct 24 128 a b Fa Fb) in H.
  destruct (Rle_bool_spec (B2R a) (B2R b)); [assumption|discriminate].
Qed.

(* the expression alone: dem = 2^-25 (1 + 2^-23), bin [2097153, 2097154]: coordinate 2097152.75 *)
Lemma spread_expr_f_below_witness :
  is_finite wit_dem = true /\ 0 <= B2R wit_dem <= 1 /\
  is_finite (spread_expr_f wit_dem (f_of_Z 2097154) (f_of_Z 2097153)) = true /\
  B2R (spread_expr_f wit_dem (f_of_Z 2097154) (f_of_Z 2097153)) < IZR 2097153.
Proof.
  assert (F : is_finite wit_dem = true) by (vm_compute; reflexivity).
  assert (Fc : is_finite (spread_expr_f wit_dem (f_of_Z 2097154) (f_of_Z 2097153)) = true)
    by (vm_compute; reflexivity).
  destruct (f_of_Z_exact 2097153 ltac:(vm_compute; discriminate)) as [N1 N2].
  destruct fone_correct as [O1 O2].
  split; [exact F|]. split; [|split; [exact Fc|]].
  - split.
    + change 0 with (B2R fzero). apply Bleb_true_le; [reflexivity|exact F|vm_compute; reflexivity].
    + rewrite <- O1. apply Bleb_true_le; [exact F|exact O2|vm_compute; reflexivity].
  - rewrite <- N1. apply Bltb_true_lt; [exact Fc|exact N2|vm_compute; reflexivity].
Qed.

(* boolean tests evaluated by vm_compute, and their meaning *)
Definition below_check (l : list f32) (mn : Z) (i : nat) : bool :=
  Nat.ltb i (length l) && is_finite (nth i l fzero) && Bltb (nth i l fzero) (f_of_Z mn) &&
  Z.leb (Z.abs mn) (2 ^ 24).
Definition above_check (l : list f32) (mx : Z) (i : nat) : bool :=
  Nat.ltb i (length l) && is_finite (nth i l fzero) && Bltb (f_of_Z mx) (nth i l fzero) &&
  Z.leb (Z.abs mx) (2 ^ 24).

Lemma below_check_sound : forall l mn i, below_check l mn i = true ->
  exists c : f32, nth_error l i = Some c /\ is_finite c = true /\ B2R c < IZR mn.
Proof.
  intros l mn i H. unfold below_check in H.
  apply andb_prop in H. destruct H as [H H3]. apply andb_prop in H. destruct H as [H H2].
  apply andb_prop in H. destruct H as [H0 H1].
  apply Nat.ltb_lt in H0. apply Z.leb_le in H3.
  destruct (f_of_Z_exact mn H3) as [N1 N2].
  exists (nth i l fzero). split; [apply nth_error_nth'; exact H0|]. split; [exact H1|].
  rewrite <- N1. apply Bltb_true_lt; assumption.
Qed.

Lemma above_check_sound : forall l mx i, above_check l mx i = true ->
  exists c : f32, nth_error l i = Some c /\ is_finite c = true /\ IZR mx < B2R c.
Proof.
  intros l mx i H. unfold above_check in H.
  apply andb_prop in H. destruct H as [H H3]. apply andb_prop in H. destruct H as [H H2].
  apply andb_prop in H. destruct H as [H0 H1].
  apply Nat.ltb_lt in H0. apply Z.leb_le in H3.
  destruct (f_of_Z_exact mx H3) as [N1 N2].
  exists (nth i l fzero). split; [apply nth_error_nth'; exact H0|]. split; [exact H1|].
  rewrite <- N1. apply Bltb_true_lt; assumption.
Qed.

(* the whole of spreadCells on a bin [-117183, -117133] with three cells of demand 1, 32044, 57 (total 32102,
   every conversion and the sum exact): the first cell lands below the bin, at -117183.0078125 *)

Lemma spread_cells_f_below_witness :
  exists c : f32, nth_error wit_cells 0 = Some c /\ is_finite c = true /\ B2R c < IZR (-117183).
Proof. apply below_check_sound. vm_compute. reflexivity. Qed.

(* 4242 cells of demand 1 in the bin [0, 100000], targets 0, 1, 2, ...: the total 4242 and 1/4242 are
   rounded once, the 8484 additions to `dem` drift upwards, dem = 1 + 19 * 2^-23 when the last cell is
   reached, 1.0f - dem is negative and the last cell lands above the bin, at 100000.2265625 *)

Lemma spread_cells_f_above_witness :
  exists c : f32, nth_error wit2_cells 4241 = Some c /\ is_finite c = true /\ IZR 100000 < B2R c.
Proof. apply above_check_sound. vm_compute. reflexivity. Qed.

(* ... and the value of `dem` itself exceeds 1 there (the quantity item 2 of the analysis bounds) *)
Lemma spread_dem_exceeds_one_witness :
  is_finite wit2_dem_final = true /\ 1 < B2R wit2_dem_final.
Proof.
  assert (F : is_finite wit2_dem_final = true) by (vm_compute; reflexivity).
  split; [exact F|]. destruct fone_correct as [O1 O2]. rewrite <- O1.
  apply Bltb_true_lt; [exact O2|exact F|vm_compute; reflexivity].
Qed.

(* a small instance of the same effect: four cells of demand 1994072, 1655332, 1892993, 1 (total 5542398 < 2^24:
   every conversion and the total are exact) in the bin [0, 100000]: dem = 1 + 2^-23 at the last cell *)

Lemma spread_cells_f_above_witness_small :
  exists c : f32, nth_error wit3_cells 3 = Some c /\ is_finite c = true /\ IZR 100000 < B2R c.
Proof. apply above_check_sound. vm_compute. reflexivity. Qed.

(* ------------------------------------------------------------------ the repaired expression *)
(* the clamped coordinate is in [min, max] whatever `dem` is (NaN and infinities included) *)
Lemma spread_expr_clamped_f_inside : forall dem mx mn : f32,
  is_finite mn = true -> is_finite mx = true -> B2R mn <= B2R mx ->
  is_finite (spread_expr_clamped_f dem mx mn) = true /\
  B2R mn <= B2R (spread_expr_clamped_f dem mx mn) <= B2R mx.
Proof. intros dem mx mn Fn Fx H. unfold spread_expr_clamped_f. apply clamp_f_inside_any; assumption. Qed.

(* the same with the int limits of spreadCoordX/Y *)
Lemma spread_expr_clamped_f_inside_int : forall (dem : f32) (mn mx : Z),
  (Z.abs mn <= 2 ^ 24)%Z -> (Z.abs mx <= 2 ^ 24)%Z -> (mn <= mx)%Z ->
  is_finite (spread_expr_clamped_f dem (f_of_Z mx) (f_of_Z mn)) = true /\
  IZR mn <= B2R (spread_expr_clamped_f dem (f_of_Z mx) (f_of_Z mn)) <= IZR mx.
Proof.
  intros dem mn mx Hn Hx Hle.
  destruct (f_of_Z_exact mn Hn) as [N1 N2]. destruct (f_of_Z_exact mx Hx) as [X1 X2].
  rewrite <- N1, <- X1. apply spread_expr_clamped_f_inside; try assumption.
  rewrite N1, X1. apply IZR_le. exact Hle.
Qed.

(* invariant of the loop of the repaired spreadCells: an entry of the result is either the initial 0.0f or a
   finite value of [lo, hi] *)
Definition entry_ok (lo hi v : f32) : Prop :=
  v = fzero \/ (is_finite v = true /\ B2R lo <= B2R v <= B2R hi).

Lemma fset_nth_ok : forall lo hi l c v, Forall (entry_ok lo hi) l -> entry_ok lo hi v ->
  Forall (entry_ok lo hi) (fset_nth c v l).
Proof.
  intros lo hi l. induction l as [|h t IH]; intros c v Hl Hv; destruct c; simpl; try constructor;
    inversion Hl; subst; try assumption.
  apply IH; assumption.
Qed.

Lemma spread_step_clamped_ok : forall demands inv lo hi st k,
  is_finite lo = true -> is_finite hi = true -> B2R lo <= B2R hi ->
  Forall (entry_ok lo hi) (snd st) ->
  Forall (entry_ok lo hi) (snd (spread_step_f true demands inv lo hi st k)).
Proof.
  intros demands inv lo hi st k Fl Fh Hle Hst. unfold spread_step_f.
  destruct (nth_error demands (snd k)) as [cur|]; [|exact Hst].
  destruct (Bleb cur fzero); [exact Hst|]. cbn [snd].
  apply fset_nth_ok; [exact Hst|]. right.
  apply spread_expr_clamped_f_inside; assumption.
Qed.

Lemma spread_cells_clamped_f_entries : forall targets demands lo hi,
  is_finite lo = true -> is_finite hi = true -> B2R lo <= B2R hi ->
  Forall (entry_ok lo hi) (spread_cells_f true targets demands lo hi).
Proof.
  intros targets demands lo hi Fl Fh Hle. unfold spread_cells_f, spread_cells_state_f.
  set (order := fsort_keys (fmk_order targets)). set (inv := fdiv fone (fsum demands)).
  assert (G : forall l st, Forall (entry_ok lo hi) (snd st) ->
              Forall (entry_ok lo hi) (snd (fold_left (spread_step_f true demands inv lo hi) l st))).
  { induction l as [|k t IH]; intros st Hst; [exact Hst|]. simpl. apply IH.
    apply spread_step_clamped_ok; assumption. }
  apply G. cbn [snd]. apply Forall_forall. intros x Hx. apply repeat_spec in Hx. left. exact Hx.
Qed.

(* ------------------------------------------------------------------ the export step (binary64 + std::round) *)
Notation fexp64 := (FLT_exp (-1074) 53).
Local Instance prec53 : Prec_gt_0 53 := p53.
Local Instance valid64 : Valid_exp fexp64 := FLT_exp_valid (-1074) 53.

Lemma rnd64_err : forall x, Rabs (rnd64 x - x) <= bpow radix2 (-53) * Rabs x + bpow radix2 (-1075).
Proof.
  intros x. unfold rnd64.
  destruct (Rlt_or_le (Rabs x) (bpow radix2 (-1074 + 53 - 1))) as [Hs|Hn].
  - pose proof (error_le_half_ulp radix2 fexp64 (fun z => negb (Z.even z)) x) as H.
    rewrite (ulp_FLT_small radix2 (-1074) 53) in H.
    2:{ eapply Rlt_trans; [exact Hs|]. apply bpow_lt. lia. }
    assert (E : / 2 * bpow radix2 (-1074) = bpow radix2 (-1075)).
    { change (/ 2) with (bpow radix2 (-1)). rewrite <- bpow_plus. reflexivity. }
    rewrite E in H.
    pose proof (Rabs_pos x). pose proof (bpow_gt_0 radix2 (-53)).
    eapply Rle_trans; [exact H|]. nra.
  - pose proof (relative_error_N_FLT radix2 (-1074) 53 ltac:(lia) (fun z => negb (Z.even z)) x Hn) as H.
    match type of H with _ <= ?c * _ => replace c with (bpow radix2 (-53)) in H end.
    2:{ change (/ 2) with (bpow radix2 (-1)). rewrite <- bpow_plus. reflexivity. }
    pose proof (bpow_gt_0 radix2 (-1075)). lra.
Qed.

(* the exposed lower-left coordinate is within 1/2 (std::round) plus one binary64 rounding of x - size/2 *)
Lemma export_coord_R_blend : forall (x : R) (size : Z),
  Rabs (IZR (export_coord_R x size) - (x - / 2 * IZR size))
  <= / 2 + bpow radix2 (-53) * Rabs (x - / 2 * IZR size) + bpow radix2 (-1075).
Proof.
  intros x size. unfold export_coord_R.
  set (y := x - / 2 * IZR size).
  pose proof (rnd64_err y) as H1.
  pose proof (Znearest_half (Z.leb 0) (rnd64 y)) as H2.
  replace (IZR (ZnearestA (rnd64 y)) - y) with (- (rnd64 y - IZR (ZnearestA (rnd64 y))) + (rnd64 y - y)) by ring.
  eapply Rle_trans; [apply Rabs_triang|]. rewrite Rabs_Ropp. lra.
Qed.

(* with the magnitudes of the property's domain (centre below 2^30, size an int): the excess over 1/2 is < 2^-21 *)
Lemma export_coord_R_blend_bounded : forall (x : R) (size : Z),
  Rabs x <= bpow radix2 30 -> (Z.abs size <= 2 ^ 31)%Z ->
  Rabs (IZR (export_coord_R x size) - (x - / 2 * IZR size)) <= / 2 + bpow radix2 (-21).
Proof.
  intros x size Hx Hs.
  eapply Rle_trans; [apply export_coord_R_blend|].
  assert (Hsz : Rabs (IZR size) <= bpow radix2 31).
  { rewrite <- abs_IZR. apply Rle_trans with (IZR (2 ^ 31)); [apply IZR_le; exact Hs|].
    rewrite (IZR_Zpower radix2) by lia. apply Rle_refl. }
  assert (Hy : Rabs (x - / 2 * IZR size) <= bpow radix2 31).
  { eapply Rle_trans; [apply Rabs_triang|]. rewrite Rabs_Ropp, Rabs_mult, (Rabs_pos_eq (/ 2)) by lra.
    change (bpow radix2 31) with (2 * bpow radix2 30). pose proof (bpow_gt_0 radix2 30).
    change (bpow radix2 31) with (2 * bpow radix2 30) in Hsz. lra. }
  assert (H53 : bpow radix2 (-53) * bpow radix2 31 = bpow radix2 (-22)).
  { rewrite <- bpow_plus. reflexivity. }
  assert (Hm : bpow radix2 (-53) * Rabs (x - / 2 * IZR size) <= bpow radix2 (-22)).
  { rewrite <- H53. apply Rmult_le_compat_l; [apply bpow_ge_0|exact Hy]. }
  assert (Ht : bpow radix2 (-1075) <= bpow radix2 (-22)) by (apply bpow_le; lia).
  assert (H21 : bpow radix2 (-21) = 2 * bpow radix2 (-22)).
  { change 2 with (bpow radix2 1). rewrite <- bpow_plus. reflexivity. }
  lra.
Qed.

(* ------------------------------------------------------------------ the accumulation of `dem` (item 2) *)
(* a sum of two binary32 values has a pure relative error (no underflow term) *)
Lemma rnd32_plus_rel : forall a b, fmt32 a -> fmt32 b ->
  Rabs (rnd32 (a + b) - (a + b)) <= bpow radix2 (-24) * Rabs (a + b).
Proof.
  intros a b Fa Fb.
  destruct (Rlt_or_le (Rabs (a + b)) (bpow radix2 (-149 + 24 - 1))) as [Hs|Hn].
  - rewrite rnd32_id.
    + replace (a + b - (a + b)) with 0 by ring. rewrite Rabs_R0.
      apply Rmult_le_pos; [apply bpow_ge_0|apply Rabs_pos].
    + apply (FLT_format_plus_small radix2 (-149) 24); try assumption.
      apply Rlt_le. eapply Rlt_trans; [exact Hs|]. apply bpow_lt. lia.
  - pose proof (relative_error_N_FLT radix2 (-149) 24 ltac:(lia) (fun z => negb (Z.even z)) (a + b) Hn) as H.
    match type of H with _ <= ?c * _ => replace c with (bpow radix2 (-24)) in H end.
    2:{ change (/ 2) with (bpow radix2 (-1)). rewrite <- bpow_plus. reflexivity. }
    exact H.
Qed.

Lemma rnd32_rel : forall x, bpow radix2 (-126) <= Rabs x ->
  Rabs (rnd32 x - x) <= bpow radix2 (-24) * Rabs x.
Proof.
  intros x Hn.
  pose proof (relative_error_N_FLT radix2 (-149) 24 ltac:(lia) (fun z => negb (Z.even z)) x Hn) as H.
  match type of H with _ <= ?c * _ => replace c with (bpow radix2 (-24)) in H end.
  2:{ change (/ 2) with (bpow radix2 (-1)). rewrite <- bpow_plus. reflexivity. }
  exact H.
Qed.

Lemma fmt32_rnd : forall x, fmt32 (rnd32 x).
Proof. intros x. apply generic_format_round; auto with typeclass_instances. Qed.

Lemma rnd32_nonneg : forall x, 0 <= x -> 0 <= rnd32 x.
Proof. intros x H. rewrite <- rnd32_0. apply rnd32_le. exact H. Qed.

(* left-to-right float accumulation (std::accumulate, and the two additions per cell to `dem`) *)
Notation u32 := (bpow radix2 (-24)).

Lemma acc_R_bounds : forall xs d,
  fmt32 d -> 0 <= d -> Forall (fun x => fmt32 x /\ 0 <= x) xs ->
  fmt32 (acc_R d xs) /\
  (d + sum_R xs) * (1 - u32) ^ length xs <= acc_R d xs <= (d + sum_R xs) * (1 + u32) ^ length xs.
Proof.
  assert (Hu : 0 < u32 < 1).
  { split; [apply bpow_gt_0|]. change 1 with (bpow radix2 0). apply bpow_lt. lia. }
  induction xs as [|x t IH]; intros d Fd Hd Hxs.
  - simpl. split; [exact Fd|]. lra.
  - inversion Hxs as [|x' t' [Fx Hx] Ht]; subst.
    pose proof (abs_le_inv _ _ (rnd32_plus_rel d x Fd Fx)) as He.
    rewrite (Rabs_pos_eq (d + x)) in He by lra.
    assert (H0 : 0 <= rnd32 (d + x)) by (apply rnd32_nonneg; lra).
    destruct (IH (rnd32 (d + x)) (fmt32_rnd _) H0 Ht) as [IF [IL IU]].
    assert (Hst : 0 <= sum_R t).
    { clear -Ht. induction Ht as [|y l [_ Hy] _ IHl]; simpl; lra. }
    assert (P1 : 0 <= (1 - u32) ^ length t) by (apply pow_le; lra).
    assert (P2 : 0 <= (1 + u32) ^ length t) by (apply pow_le; lra).
    change (acc_R d (x :: t)) with (acc_R (rnd32 (d + x)) t).
    split; [exact IF|].
    assert (E1 : (d + sum_R (x :: t)) * (1 - u32) ^ length (x :: t)
                 = ((d + x) * (1 - u32) + sum_R t * (1 - u32)) * (1 - u32) ^ length t) by (simpl; ring).
    assert (E2 : (d + sum_R (x :: t)) * (1 + u32) ^ length (x :: t)
                 = ((d + x) * (1 + u32) + sum_R t * (1 + u32)) * (1 + u32) ^ length t) by (simpl; ring).
    rewrite E1, E2. split.
    + eapply Rle_trans; [|exact IL]. apply Rmult_le_compat_r; [exact P1|]. nra.
    + eapply Rle_trans; [exact IU|]. apply Rmult_le_compat_r; [exact P2|]. nra.
Qed.

Lemma sum_R_nonneg : forall xs, Forall (fun x => 0 <= x) xs -> 0 <= sum_R xs.
Proof. intros xs H. induction H as [|y l Hy _ IH]; simpl; lra. Qed.

Lemma sum_R_firstn_le : forall xs k, Forall (fun x => 0 <= x) xs -> sum_R (firstn k xs) <= sum_R xs.
Proof.
  induction xs as [|x t IH]; intros k H.
  - rewrite firstn_nil. apply Rle_refl.
  - inversion H as [|x' t' Hx Ht]; subst. destruct k; simpl.
    + pose proof (sum_R_nonneg t Ht). lra.
    + specialize (IH k Ht). lra.
Qed.

Lemma pow_le_1_anti : forall x m n, 0 <= x <= 1 -> (m <= n)%nat -> x ^ n <= x ^ m.
Proof.
  intros x m n Hx Hmn. induction Hmn as [|n' _ IH]; [apply Rle_refl|].
  simpl. assert (0 <= x ^ n') by (apply pow_le; lra). nra.
Qed.

(* one increment: 0 <= inc <= (d/2) * inv * (1+u)^2 for d >= 1 and 2^-102 <= inv *)
Lemma inc_R_bound : forall inv d, fmt32 d -> 1 <= d -> bpow radix2 (-102) <= inv ->
  fmt32 (inc_R inv d) /\ 0 <= inc_R inv d <= / 2 * d * inv * (1 + u32) ^ 2.
Proof.
  intros inv d Fd Hd Hinv. unfold inc_R.
  assert (Hu : 0 < u32 < / 2).
  { split; [apply bpow_gt_0|]. change (/ 2) with (bpow radix2 (-1)). apply bpow_lt. lia. }
  assert (B126 : bpow radix2 (-126) <= / 2 * d).
  { apply Rle_trans with (/ 2); [|lra]. change (/ 2) with (bpow radix2 (-1)). apply bpow_le. lia. }
  pose proof (abs_le_inv _ _ (rnd32_rel (/ 2 * d) ltac:(rewrite Rabs_pos_eq by lra; exact B126))) as Hh.
  rewrite (Rabs_pos_eq (/ 2 * d)) in Hh by lra.
  set (h := rnd32 (/ 2 * d)) in *.
  assert (Hh4 : / 4 <= h) by nra.
  assert (Hip : 0 < inv) by (pose proof (bpow_gt_0 radix2 (-102)); lra).
  assert (Hp : bpow radix2 (-126) <= h * inv).
  { apply Rle_trans with (/ 4 * bpow radix2 (-102)).
    - change (/ 4) with (bpow radix2 (-2)). rewrite <- bpow_plus. apply bpow_le. lia.
    - pose proof (bpow_gt_0 radix2 (-102)). nra. }
  pose proof (abs_le_inv _ _ (rnd32_rel (h * inv) ltac:(rewrite Rabs_pos_eq by nra; exact Hp))) as Hi.
  rewrite (Rabs_pos_eq (h * inv)) in Hi by nra.
  split; [apply fmt32_rnd|]. split.
  - apply rnd32_nonneg. nra.
  - assert (A1 : h * inv <= / 2 * d * (1 + u32) * inv) by (apply Rmult_le_compat_r; lra).
    assert (A2 : rnd32 (h * inv) <= h * inv * (1 + u32)) by lra.
    assert (A3 : h * inv * (1 + u32) <= / 2 * d * (1 + u32) * inv * (1 + u32)) by (apply Rmult_le_compat_r; lra).
    replace (/ 2 * d * inv * (1 + u32) ^ 2) with (/ 2 * d * (1 + u32) * inv * (1 + u32)) by ring. lra.
Qed.

Lemma incs_R_props : forall inv vs, bpow radix2 (-102) <= inv ->
  Forall (fun d => fmt32 d /\ 1 <= d) vs ->
  Forall (fun x => fmt32 x /\ 0 <= x) (incs_R inv vs) /\
  sum_R (incs_R inv vs) <= sum_R vs * inv * (1 + u32) ^ 2 /\
  length (incs_R inv vs) = (2 * length vs)%nat.
Proof.
  intros inv vs Hinv H. induction H as [|d t [Fd Hd] Ht [IH1 [IH2 IH3]]].
  - simpl. split; [constructor|]. split; [lra|reflexivity].
  - destruct (inc_R_bound inv d Fd Hd Hinv) as [F [L U]].
    change (incs_R inv (d :: t)) with (inc_R inv d :: inc_R inv d :: incs_R inv t).
    split; [constructor; [split; assumption|constructor; [split; assumption|exact IH1]]|]. split.
    + cbn [sum_R fold_right]. fold (sum_R (incs_R inv t)). fold (sum_R t). lra.
    + cbn [length]. rewrite IH3. lia.
Qed.

Lemma sum_R_ge_1 : forall xs, xs <> [] -> Forall (fun d => fmt32 d /\ 1 <= d) xs -> 1 <= sum_R xs.
Proof.
  intros xs Hne H. destruct H as [|x t [_ Hx] Ht]; [congruence|]. simpl.
  assert (0 <= sum_R t).
  { apply sum_R_nonneg. eapply Forall_impl; [|exact Ht]. intros a [_ Ha]. lra. }
  lra.
Qed.

(* item 2: the value of `dem` after any number k of additions, for at most n cells (demands >= 1, total below
   2^100): 0 <= dem <= (1+u)^(2n+3) / (1-u)^n with u = 2^-24 *)
Lemma dem_R_bound : forall (ds vs : list R) (n k : nat),
  Forall (fun d => fmt32 d /\ 1 <= d) ds -> Forall (fun d => fmt32 d /\ 1 <= d) vs ->
  ds <> [] -> sum_R vs <= sum_R ds -> (length ds <= n)%nat -> (length vs <= n)%nat ->
  acc_R 0 ds <= bpow radix2 100 ->
  0 <= dem_R ds vs k <= (1 + u32) ^ (2 * n + 3) / (1 - u32) ^ n.
Proof.
  intros ds vs n k Hds Hvs Hne Hsum Ln Lv Hov. unfold dem_R.
  assert (Hu : 0 < u32 < / 2).
  { split; [apply bpow_gt_0|]. change (/ 2) with (bpow radix2 (-1)). apply bpow_lt. lia. }
  assert (F0 : fmt32 0) by apply generic_format_0.
  set (T := acc_R 0 ds) in *. set (S := sum_R ds) in *.
  assert (HS : 1 <= S) by (apply sum_R_ge_1; assumption).
  assert (Hds' : Forall (fun x => fmt32 x /\ 0 <= x) ds).
  { eapply Forall_impl; [|exact Hds]. intros a [Fa Ha]. split; [exact Fa|lra]. }
  destruct (acc_R_bounds ds 0 F0 (Rle_refl 0) Hds') as [_ [TL _]]. fold T in TL. fold S in TL.
  rewrite Rplus_0_l in TL.
  set (q := (1 - u32) ^ n).
  assert (Hq : 0 < q) by (apply pow_lt; lra).
  assert (HD : S * q <= T).
  { eapply Rle_trans; [|exact TL]. apply Rmult_le_compat_l; [lra|]. apply pow_le_1_anti; [lra|exact Ln]. }
  assert (HT : 0 < T) by nra.
  (* 1/T and inv *)
  assert (HiT : bpow radix2 (-100) <= 1 / T).
  { unfold Rdiv. rewrite Rmult_1_l. replace (bpow radix2 (-100)) with (/ bpow radix2 100) by (rewrite <- bpow_opp; reflexivity).
    apply Rinv_le_contravar; [exact HT|exact Hov]. }
  assert (HiT126 : bpow radix2 (-126) <= Rabs (1 / T)).
  { rewrite Rabs_pos_eq by (pose proof (bpow_gt_0 radix2 (-100)); lra).
    eapply Rle_trans; [|exact HiT]. apply bpow_le. lia. }
  pose proof (abs_le_inv _ _ (rnd32_rel (1 / T) HiT126)) as Hinv.
  rewrite (Rabs_pos_eq (1 / T)) in Hinv by (pose proof (bpow_gt_0 radix2 (-100)); lra).
  set (inv := rnd32 (1 / T)) in *.
  assert (Hinv102 : bpow radix2 (-102) <= inv).
  { assert (E : bpow radix2 (-102) = / 4 * bpow radix2 (-100)).
    { change (/ 4) with (bpow radix2 (-2)). rewrite <- bpow_plus. reflexivity. }
    pose proof (bpow_gt_0 radix2 (-100)). nra. }
  destruct (incs_R_props inv vs Hinv102 Hvs) as [PF [PS PL]].
  set (L := incs_R inv vs) in *.
  (* the prefix *)
  assert (PFk : Forall (fun x => fmt32 x /\ 0 <= x) (firstn k L)).
  { rewrite <- (firstn_skipn k L) in PF. apply Forall_app in PF. apply PF. }
  destruct (acc_R_bounds (firstn k L) 0 F0 (Rle_refl 0) PFk) as [_ [AL AU]].
  rewrite Rplus_0_l in AL, AU.
  assert (PN : Forall (fun x => 0 <= x) L).
  { eapply Forall_impl; [|exact PF]. intros a [_ Ha]. exact Ha. }
  assert (PNk : Forall (fun x => 0 <= x) (firstn k L)).
  { eapply Forall_impl; [|exact PFk]. intros a [_ Ha]. exact Ha. }
  pose proof (sum_R_nonneg _ PNk) as Hk0. pose proof (sum_R_firstn_le L k PN) as Hk1.
  set (len := length (firstn k L)) in *.
  assert (Hlen : (len <= 2 * n)%nat).
  { unfold len. rewrite firstn_length. lia. }
  split.
  - eapply Rle_trans; [|exact AL]. apply Rmult_le_pos; [exact Hk0|]. apply pow_le. lra.
  - set (c2 := (1 + u32) ^ 2) in *. set (E := (1 + u32) ^ len) in *.
    assert (Hc2 : 0 < c2) by (apply pow_lt; lra).
    assert (HE : 0 < E) by (apply pow_lt; lra).
    assert (HE2 : E <= (1 + u32) ^ (2 * n)) by (apply Rle_pow; [lra|exact Hlen]).
    assert (Sv0 : 0 <= sum_R vs).
    { apply sum_R_nonneg. eapply Forall_impl; [|exact Hvs]. intros a [_ Ha]. lra. }
    (* sum of the prefix <= (S / T) (1+u)^3, and S / T <= 1 / q *)
    assert (B1 : sum_R (firstn k L) <= S * (/ T * (1 + u32)) * c2).
    { eapply Rle_trans; [exact Hk1|]. eapply Rle_trans; [exact PS|].
      apply Rmult_le_compat_r; [lra|].
      assert (Hinv0 : 0 <= inv) by (pose proof (bpow_gt_0 radix2 (-102)); lra).
      unfold Rdiv in Hinv. rewrite Rmult_1_l in Hinv.
      apply Rmult_le_compat; lra. }
    assert (B2 : S * / T <= / q).
    { apply Rmult_le_reg_r with (q * T); [nra|].
      replace (S * / T * (q * T)) with (S * q * (T * / T)) by ring.
      replace (/ q * (q * T)) with (T * (q * / q)) by ring.
      rewrite Rinv_r by lra. rewrite Rinv_r by lra. lra. }
    assert (Ppow : (1 + u32) ^ (2 * n + 3) = (1 + u32) * c2 * (1 + u32) ^ (2 * n)).
    { rewrite pow_add. unfold c2. simpl. ring. }
    rewrite Ppow. unfold Rdiv.
    eapply Rle_trans; [exact AU|].
    apply Rle_trans with (S * (/ T * (1 + u32)) * c2 * (1 + u32) ^ (2 * n)).
    + apply Rmult_le_compat; try lra.
    + replace (S * (/ T * (1 + u32)) * c2 * (1 + u32) ^ (2 * n))
        with ((S * / T) * ((1 + u32) * c2 * (1 + u32) ^ (2 * n))) by ring.
      rewrite (Rmult_comm ((1 + u32) * c2 * (1 + u32) ^ (2 * n)) (/ q)).
      apply Rmult_le_compat_r; [|exact B2].
      assert (0 < (1 + u32) ^ (2 * n)) by (apply pow_lt; lra).
      apply Rmult_le_pos; [apply Rmult_le_pos; lra|lra].
Qed.

Lemma bernoulli_1m : forall x m, 0 <= x <= 1 -> 1 - INR m * x <= (1 - x) ^ m.
Proof.
  intros x m Hx. induction m as [|m IH].
  - simpl. lra.
  - rewrite S_INR. simpl pow.
    assert (H1 : (1 - x) * (1 - INR m * x) <= (1 - x) * (1 - x) ^ m) by (apply Rmult_le_compat_l; lra).
    assert (H2 : 0 <= INR m) by apply pos_INR. nra.
Qed.

Lemma pow_1p_le_inv_1m : forall x m, 0 <= x < 1 -> (1 + x) ^ m <= / (1 - x) ^ m.
Proof.
  intros x m Hx.
  assert (Hp : 0 < (1 - x) ^ m) by (apply pow_lt; lra).
  apply Rmult_le_reg_r with ((1 - x) ^ m); [exact Hp|].
  rewrite Rinv_l by lra. rewrite <- Rpow_mult_distr.
  apply Rle_trans with (1 ^ m); [apply pow_incr; split; nra|rewrite pow1; lra].
Qed.

(* numeric form of dem_R_bound: (1+u)^(2n+3) / (1-u)^n <= 1 / (1 - (3n+3) u); at most 65536 cells: <= 1 + 1/64 *)
Lemma dem_bound_numeric : forall n : nat, (Z.of_nat n <= 65536)%Z ->
  (1 + u32) ^ (2 * n + 3) / (1 - u32) ^ n <= 1 + / 64.
Proof.
  intros n Hn.
  assert (Hu : u32 = / 16777216) by apply bpow_m24.
  assert (Hu1 : 0 <= u32 < 1) by (rewrite Hu; lra).
  set (a := (1 - u32) ^ n). set (b := (1 - u32) ^ (2 * n + 3)).
  assert (Ha : 0 < a) by (apply pow_lt; lra). assert (Hb : 0 < b) by (apply pow_lt; lra).
  assert (Hab : a * b = (1 - u32) ^ (3 * n + 3)).
  { unfold a, b. rewrite <- pow_add. f_equal. lia. }
  pose proof (pow_1p_le_inv_1m u32 (2 * n + 3) Hu1) as HP. fold b in HP.
  pose proof (bernoulli_1m u32 (3 * n + 3) ltac:(lra)) as HB. rewrite <- Hab in HB.
  assert (HN : INR (3 * n + 3) <= 196611).
  { rewrite INR_IZR_INZ. apply IZR_le. lia. }
  assert (HN0 : 0 <= INR (3 * n + 3)) by apply pos_INR.
  (* a * b >= 1 - 196611 u >= 64/65 *)
  assert (Hab2 : 64 / 65 <= a * b) by (rewrite Hu in HB; nra).
  unfold Rdiv. apply Rle_trans with (/ b * / a).
  - apply Rmult_le_compat_r; [apply Rlt_le, Rinv_0_lt_compat; exact Ha|exact HP].
  - rewrite <- Rinv_mult. rewrite (Rmult_comm b a).
    apply Rle_trans with (/ (64 / 65)).
    + apply Rinv_le_contravar; [lra|exact Hab2].
    + lra.
Qed.

Lemma dem_R_bound_65536 : forall (ds vs : list R) (n k : nat),
  Forall (fun d => fmt32 d /\ 1 <= d) ds -> Forall (fun d => fmt32 d /\ 1 <= d) vs ->
  ds <> [] -> sum_R vs <= sum_R ds -> (length ds <= n)%nat -> (length vs <= n)%nat -> (Z.of_nat n <= 65536)%Z ->
  acc_R 0 ds <= bpow radix2 100 ->
  0 <= dem_R ds vs k <= 1 + / 64.
Proof.
  intros ds vs n k Hds Hvs Hne Hs Ln Lv Hn Hov.
  destruct (dem_R_bound ds vs n k Hds Hvs Hne Hs Ln Lv Hov) as [H0 H1].
  split; [exact H0|]. eapply Rle_trans; [exact H1|]. apply dem_bound_numeric. exact Hn.
Qed.

(* the hypotheses of dem_R_bound are satisfiable (one cell of demand 1) *)
Lemma dem_R_bound_hyps_example :
  Forall (fun d => fmt32 d /\ 1 <= d) [1] /\ [1] <> [] /\ sum_R [1] <= sum_R [1] /\
  acc_R 0 [1] <= bpow radix2 100.
Proof.
  split; [|split; [discriminate|split; [apply Rle_refl|]]].
  - constructor; [|constructor]. split; [|lra]. change (fmt32 (bpow radix2 0)). apply fmt32_bpow. lia.
  - unfold acc_R. simpl. rewrite Rplus_0_l, rnd32_1. change (bpow radix2 0 <= bpow radix2 100). apply bpow_le. lia.
Qed.
