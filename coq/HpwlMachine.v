(* C07: the C++-typed intermediate values of the wirelength computations, over the ideal model Hpwl.v:
     - Circuit::hpwl (src/coloquinte.cpp:236-259) with Circuit::pinXOffset / pinYOffset (216-234);
     - IncrNetModel (src/place_detailed/incr_net_model.cpp): computeNetMinMaxPos (213-223), computeValue
       (233-240), updateCellPos (242-249), recomputeNet (251-258).
   `int` = I32, `long long` = I64 (RowLegMachine.v).  cellX_, cellY_, pinXOffsets_, pinYOffsets_, netLimits_,
   cellPos_, netPinOffsets_ are vectors of int; netMinMaxPos_ holds pairs of int; value_ and the `ret`
   accumulators are long long; the differences max - min are evaluated in int BEFORE being added to the
   long long accumulator.
   The type annotations are transcribed BY HAND from the C++ text (modelled, not verified).
   Not listed: the CSR construction of IncrNetModel::finalize (cellLimits_, curIndex), abstracted by lists in
   Hpwl.v; its counters are bounded by the number of pins. *)
From Coq Require Import List ZArith Lia Bool.
Import ListNotations.
Require Import CV.Orient CV.Hpwl CV.RowLegMachine.
Local Open Scope Z_scope.

(* ---------- Circuit::hpwl ---------- *)
(* the body of the loop over the pins of a net: base = netLimits_[net], i = pin *)
Definition pin_vals (cells : list hcell) (base i : Z) (p : hpin) (mnx mxx mny mxy : Z) : list (cty * Z) :=
  let c := nth (pc p) cells dcell in
  let offx := if is_turn (ho c) then pyo p else pxo p in
  let offy := if is_turn (ho c) then pxo p else pyo p in
  [(I32, base + i)] ++                                                      (* netLimits_[net] + i (pinCell, pinXOffset, pinYOffset) *)
  (if x_flipped (ho c) then [(I32, placed_width (ho c) (hw c) (hh c) - offx)] else []) ++   (* placedWidth(cell) - offs *)
  [(I32, pin_px cells p)] ++                                                (* int px = x(cell) + pinXOffset(net, pin) *)
  (if y_flipped (ho c) then [(I32, placed_height (ho c) (hw c) (hh c) - offy)] else []) ++  (* placedHeight(cell) - offs *)
  [(I32, pin_py cells p);                                                   (* int py = y(cell) + pinYOffset(net, pin) *)
   (I32, Z.min mnx (pin_px cells p)); (I32, Z.max mxx (pin_px cells p));    (* minX = std::min(px, minX); maxX = ... *)
   (I32, Z.min mny (pin_py cells p)); (I32, Z.max mxy (pin_py cells p));
   (I32, i + 1)].                                                           (* ++pin *)

Fixpoint net_pins_vals (cells : list hcell) (base i : Z) (pins : list hpin) (mnx mxx mny mxy : Z) : list (cty * Z) :=
  match pins with
  | [] => []
  | p :: r => pin_vals cells base i p mnx mxx mny mxy ++
              net_pins_vals cells base (i + 1) r (Z.min mnx (pin_px cells p)) (Z.max mxx (pin_px cells p))
                            (Z.min mny (pin_py cells p)) (Z.max mxy (pin_py cells p))
  end.

(* one iteration of the loop over the nets; acc = ret before the iteration *)
Definition net_vals (cells : list hcell) (base : Z) (net : list hpin) (acc : Z) : list (cty * Z) :=
  (I32, Z.of_nat (length net)) ::                                           (* nbPinsNet(net) = netLimits_[net+1] - netLimits_[net] *)
  match net with
  | [] => []                                                                (* continue *)
  | _ =>
    let ex := extent (map (pin_px cells) net) in let ey := extent (map (pin_py cells) net) in
    net_pins_vals cells base 0 net INT_MAX INT_MIN INT_MAX INT_MIN ++
    [(I32, ex); (I64, acc + ex);                                            (* ret += (maxX - minX): int difference, long long sum *)
     (I32, ey); (I64, acc + ex + ey)]                                       (* ret += (maxY - minY) *)
  end.

(* the loop over the nets: k = net, base = netLimits_[net] *)
Fixpoint nets_vals (cells : list hcell) (k base acc : Z) (nets : list (list hpin)) : list (cty * Z) :=
  match nets with
  | [] => []
  | net :: r =>
    net_vals cells base net acc ++
    [(I32, base + Z.of_nat (length net)); (I32, k + 1)] ++                  (* netLimits_[net + 1]; ++net *)
    nets_vals cells (k + 1) (base + Z.of_nat (length net)) (acc + net_hpwl cells net) r
  end.

Definition hpwl_vals (cells : list hcell) (nets : list (list hpin)) : list (cty * Z) :=
  nets_vals cells 0 0 0 nets ++ [(I64, hpwl cells nets)].                   (* return ret *)

(* the domain: cell positions within [-2^22, 2^22]; the ORIENTED pin offsets (the values of pinXOffset /
   pinYOffset) within [-2^23, 2^23]; fewer than 2^31 pins in total and fewer than 2^31 nets *)
Definition hcell_dom (c : hcell) : Prop := -4194304 <= hx c <= 4194304 /\ -4194304 <= hy c <= 4194304.
Definition hpin_dom (cells : list hcell) (p : hpin) : Prop :=
  let c := nth (pc p) cells dcell in
  -8388608 <= pin_x_offset (ho c) (hw c) (hh c) (pxo p) (pyo p) <= 8388608 /\
  -8388608 <= pin_y_offset (ho c) (hw c) (hh c) (pxo p) (pyo p) <= 8388608.
Definition hpwl_dom (cells : list hcell) (nets : list (list hpin)) : Prop :=
  Forall hcell_dom cells /\ Forall (Forall (hpin_dom cells)) nets /\
  Z.of_nat (length (concat nets)) < 2147483648 /\ Z.of_nat (length nets) < 2147483648.
(* sufficient in terms of the raw data: sizes in [0, 2^22] and raw offsets in [-2^22, 2^22] *)
Definition hpin_raw_dom (cells : list hcell) (p : hpin) : Prop :=
  let c := nth (pc p) cells dcell in
  0 <= hw c <= 4194304 /\ 0 <= hh c <= 4194304 /\ -4194304 <= pxo p <= 4194304 /\ -4194304 <= pyo p <= 4194304.

(* ---------- IncrNetModel ---------- *)
(* computeNetMinMaxPos(net): the loop over the pins *)
Fixpoint mm_pins_vals (pos : list Z) (pins : list ipin) (mn mx : Z) : list (cty * Z) :=
  match pins with
  | [] => []
  | p :: r =>
    let v := ipin_pos pos p in
    [(I32, v);                                                              (* int pinPos = cellPos_[c] + netPinOffset(net, j) *)
     (I32, Z.min mn v); (I32, Z.max mx v)] ++                               (* minPos = std::min(pinPos, minPos); maxPos = ... *)
    mm_pins_vals pos r (Z.min mn v) (Z.max mx v)
  end.

(* computeValue(): ret += minMaxPos.second - minMaxPos.first *)
Fixpoint value_vals (mm : list (Z * Z)) (acc : Z) : list (cty * Z) :=
  match mm with
  | [] => []
  | m :: r => [(I32, snd m - fst m); (I64, acc + (snd m - fst m))] ++ value_vals r (acc + (snd m - fst m))
  end.

(* IncrNetModelBuilder::build -> finalize(): netMinMaxPos_ = computeNetMinMaxPos(); value_ = computeValue() *)
Definition build_vals (pos : list Z) (nets : list (list ipin)) : list (cty * Z) :=
  concat (map (fun net => mm_pins_vals pos net INT_MAX INT_MIN) nets) ++
  value_vals (map (net_minmax pos) nets) 0.

(* recomputeNet(net) *)
Definition recompute_vals (s : incr) (net : nat) : list (cty * Z) :=
  match nth_error (inets s) net, nth_error (iminmax s) net with
  | Some pins, Some old =>
    let nw := net_minmax (ipos s) pins in
    mm_pins_vals (ipos s) pins INT_MAX INT_MIN ++
    [(I32, snd old - fst old);                                              (* int oldValue = old.second - old.first *)
     (I32, snd nw - fst nw);                                                (* int newValue = new.second - new.first *)
     (I32, (snd nw - fst nw) - (snd old - fst old));                        (* newValue - oldValue (int) *)
     (I64, ivalue s + ((snd nw - fst nw) - (snd old - fst old)))]           (* value_ += ... (long long) *)
  | _, _ => []
  end.

Fixpoint recompute_loop_vals (ids : list nat) (s : incr) : list (cty * Z) :=
  match ids with
  | [] => []
  | i :: r => recompute_vals s i ++ recompute_loop_vals r (recompute_net s i)
  end.

(* updateCellPos(cell, pos) *)
Definition update_vals (s : incr) (c : nat) (p : Z) : list (cty * Z) :=
  let s1 := {| ipos := upd (ipos s) c p; inets := inets s; iminmax := iminmax s; ivalue := ivalue s |} in
  (I32, p) :: recompute_loop_vals (cell_net_ids (inets s) c) s1.

Fixpoint updates_vals (s : incr) (ups : list (nat * Z)) : list (cty * Z) :=
  match ups with
  | [] => []
  | (c, p) :: r => update_vals s c p ++ updates_vals (update_cell_pos s c p) r
  end.

(* the domain: positions within [-2^23, 2^23], offsets (including the folded fixed pseudo-pins) within
   [-2^24, 2^24], every net non-empty (addNet drops nets of fewer than two pins), fewer than 2^31 nets;
   the stored bounds are within the range of the pin positions and the value is their sum *)
Definition ipos_dom (pos : list Z) : Prop := Forall (fun v => -8388608 <= v <= 8388608) pos.
Definition inets_dom (nets : list (list ipin)) : Prop :=
  Forall (fun net => net <> [] /\ Forall (fun p => -16777216 <= snd p <= 16777216) net) nets /\
  Z.of_nat (length nets) < 2147483648.
Definition mm_ok (m : Z * Z) : Prop := -25165824 <= fst m /\ fst m <= snd m /\ snd m <= 25165824.
Definition incr_dom (s : incr) : Prop :=
  ipos_dom (ipos s) /\ inets_dom (inets s) /\
  length (iminmax s) = length (inets s) /\ Forall mm_ok (iminmax s) /\ ivalue s = sum_widths (iminmax s).
