(* C07: every int intermediate of the position arithmetic of DetailedPlacement (MovesMachine.v) fits, under the
   row invariant MovesProofs.Inv with the rows inside [-2^22, 2^22]; for one operation and for every history. *)
From Coq Require Import List ZArith Lia Bool.
Import ListNotations.
Require Import CV.Orient CV.Moves CV.MovesProofs CV.RowLegMachine CV.MovesMachine.
Local Open Scope Z_scope.

Lemma f32 v : -2147483648 <= v < 2147483648 -> fits (I32, v).
Proof. intros H. exact H. Qed.

(* ---------- the geometry of a site ---------- *)
Lemma site_bounds hi b : forall a lo, chain lo hi (a ++ b) ->
  lo <= site_begin lo a /\ site_begin lo a <= site_end hi b /\ site_end hi b <= hi.
Proof.
  induction a as [|x a IH]; intros lo H; cbn [app site_begin] in *.
  - split; [lia|]. destruct b as [|n r]; cbn [site_end chain] in *; [lia|].
    destruct H as (H1 & H2 & H3). pose proof (chain_lo_le_hi _ _ _ H3). lia.
  - cbn [chain] in H. destruct H as (H1 & H2 & H3). specialize (IH _ H3). lia.
Qed.

(* the model's fold is the single sum the C++ evaluates: cellX(pred) + cellWidth(pred) *)
Lemma site_begin_last a m : forall lo, site_begin lo (a ++ [m]) = p_x m + p_w m.
Proof. induction a as [|x a IH]; intros lo; cbn [app site_begin]; [reflexivity|apply IH]. Qed.

Lemma mid_bounds lo hi a m b : chain lo hi (a ++ m :: b) ->
  lo <= site_begin lo a /\ site_begin lo a <= p_x m /\ 0 <= p_w m /\
  p_x m + p_w m <= site_end hi b /\ site_end hi b <= hi.
Proof.
  intros H. pose proof (site_bounds hi (m :: b) a lo H) as (A1 & A2 & _). cbn [site_end] in A2.
  destruct (chain_remove _ _ _ _ _ H) as [_ Hw].
  replace (a ++ m :: b) with ((a ++ [m]) ++ b) in H by (rewrite <- app_assoc; reflexivity).
  pose proof (site_bounds hi b (a ++ [m]) lo H) as (_ & B2 & B3). rewrite site_begin_last in B2. lia.
Qed.

(* ---------- the magnitude part of the invariant is kept ---------- *)
Definition MagInv (s : dstate) : Prop := Inv s /\ mag s.

Lemma Forall_upd_row_gen (P : drow -> Prop) rows i r : Forall P rows -> P r -> Forall P (upd_row rows i r).
Proof.
  revert i. induction rows as [|x t IH]; intros i Hf Hr; cbn [upd_row]; [constructor|].
  inversion Hf; subst. destruct i; constructor; try assumption. apply IH; assumption.
Qed.

Lemma unplace_mag s id s' : MagInv s -> unplace s id = Some s' -> MagInv s'.
Proof.
  intros [HI [Hr Hl]] U. split; [eapply unplace_inv; eassumption|].
  unfold unplace in U. destruct (find_row (d_rows s) id 0) as [[[[[i r] a] m] b]|] eqn:F; [|discriminate].
  inversion U; subst s'. clear U. apply find_row_spec in F as (k & -> & Hn & Hc & _).
  destruct HI as [Hok _]. pose proof (Forall_nth _ _ _ _ Hok Hn) as Hrow. unfold row_ok in Hrow. rewrite Hc in Hrow.
  pose proof (Forall_nth _ _ _ _ Hr Hn) as [M1 M2].
  split; cbn [d_rows d_loose].
  - apply Forall_upd_row_gen; [exact Hr|]. unfold row_mag, set_cells; cbn [dr_min dr_max]. lia.
  - constructor; [|exact Hl]. pose proof (mid_bounds _ _ _ _ _ Hrow). lia.
Qed.

Lemma place_mag s id rowi pred x s' : MagInv s -> place s id rowi pred x = Some s' -> MagInv s'.
Proof.
  intros [HI [Hr Hl]] P. split; [eapply place_inv; eassumption|].
  unfold place in P.
  destruct (take_loose id (d_loose s)) as [[c loose']|] eqn:T; [|discriminate].
  destruct (nth_error (d_rows s) rowi) as [r|] eqn:N; [|discriminate].
  destruct (split_site pred (dr_cells r)) as [[a b]|] eqn:S; [|discriminate].
  destruct (_ && _); [|discriminate]. inversion P; subst s'. clear P.
  pose proof (Forall_nth _ _ _ _ Hr N) as [M1 M2]. apply take_loose_spec in T as [_ Tall].
  split; cbn [d_rows d_loose].
  - apply Forall_upd_row_gen; [exact Hr|]. unfold row_mag, set_cells; cbn [dr_min dr_max]. lia.
  - apply Tall. exact Hl.
Qed.

Lemma insert_mag s id rowi pred s' : MagInv s -> insert s id rowi pred = Some s' -> MagInv s'.
Proof.
  intros HI. unfold insert. destruct (can_insert s id rowi pred) as [[|]|]; try discriminate.
  destruct (find_row _ _ _) as [[[[[? ?] ?] c] ?]|]; [|discriminate].
  destruct (nth_error _ _) as [r|]; [|discriminate].
  destruct (split_site _ _) as [[sa sb]|]; [|discriminate].
  destruct (unplace s id) as [s1|] eqn:U; [|discriminate].
  intros P. eapply place_mag; [|exact P]. eapply unplace_mag; eassumption.
Qed.

Lemma swap_mag s c1 c2 s' : MagInv s -> swap s c1 c2 = Some s' -> MagInv s'.
Proof.
  intros HI. unfold swap. destruct (can_swap s c1 c2) as [[|]|]; try discriminate.
  destruct (find_row (d_rows s) c1 0) as [[[[[i1 r1] a1] m1] b1]|]; [|discriminate].
  destruct (find_row (d_rows s) c2 0) as [[[[[i2 r2] a2] m2] b2]|]; [|discriminate].
  destruct (bounds_of r1 a1 b1) as [bb1 ba1]. destruct (bounds_of r2 a2 b2) as [bb2 ba2].
  destruct (if opt_nat_eqb (pred_of a1) (Some c2) then _ else _) as [x1 x2].
  destruct (unplace s c1) as [s1|] eqn:U1; [|discriminate].
  destruct (unplace s1 c2) as [s2|] eqn:U2; [|discriminate].
  assert (I2 : MagInv s2) by (eapply unplace_mag; [eapply unplace_mag; eassumption|eassumption]).
  destruct (opt_nat_eqb (pred_of a1) (Some c2)).
  - destruct (place s2 c1 i2 _ x1) as [s3|] eqn:P1; [|discriminate].
    intros P2. eapply place_mag; [eapply place_mag; eassumption|exact P2].
  - destruct (opt_nat_eqb (pred_of a2) (Some c1)).
    + destruct (place s2 c2 i1 _ x2) as [s3|] eqn:P1; [|discriminate].
      intros P2. eapply place_mag; [eapply place_mag; eassumption|exact P2].
    + destruct (place s2 c1 i2 _ x1) as [s3|] eqn:P1; [|discriminate].
      intros P2. eapply place_mag; [eapply place_mag; eassumption|exact P2].
Qed.

Lemma step_mag s o : MagInv s -> MagInv (step_mop s o).
Proof.
  intros HI. unfold step_mop. destruct (apply_mop s o) as [s'|] eqn:A; [|exact HI].
  destruct o; cbn [apply_mop] in A.
  - eapply swap_mag; eassumption.
  - eapply insert_mag; eassumption.
  - eapply unplace_mag; eassumption.
  - eapply place_mag; eassumption.
Qed.

(* ---------- the values fit ---------- *)
Lemma quot2_bounds v B : 0 <= B -> - B <= v <= B -> - B <= Z.quot v 2 <= B.
Proof.
  intros HB Hv. pose proof (Z.quot_rem' v 2) as E.
  destruct (Z.le_gt_cases 0 v) as [Hp|Hn].
  - pose proof (Z.rem_bound_pos_pos v 2 ltac:(lia) Hp). lia.
  - pose proof (Z.rem_bound_pos_neg v 2 ltac:(lia) ltac:(lia)). lia.
Qed.

(* a placed cell and its site, from the row invariant *)
Lemma found_bounds s id i0 i r a m b :
  MagInv s -> find_row (d_rows s) id i0 = Some (i, r, a, m, b) ->
  -4194304 <= dr_min r /\ dr_max r <= 4194304 /\
  dr_min r <= site_begin (dr_min r) a /\ site_begin (dr_min r) a <= p_x m /\ 0 <= p_w m /\
  p_x m + p_w m <= site_end (dr_max r) b /\ site_end (dr_max r) b <= dr_max r.
Proof.
  intros [[Hok _] [Hr _]] F. apply find_row_spec in F as (k & _ & Hn & Hc & _).
  pose proof (Forall_nth _ _ _ _ Hok Hn) as Hrow. unfold row_ok in Hrow. rewrite Hc in Hrow.
  pose proof (Forall_nth _ _ _ _ Hr Hn) as [M1 M2]. pose proof (mid_bounds _ _ _ _ _ Hrow). lia.
Qed.

Lemma site_mag s rowi r pred a b :
  MagInv s -> nth_error (d_rows s) rowi = Some r -> split_site pred (dr_cells r) = Some (a, b) ->
  -4194304 <= site_begin (dr_min r) a /\ site_begin (dr_min r) a <= site_end (dr_max r) b /\
  site_end (dr_max r) b <= 4194304.
Proof.
  intros [[Hok _] [Hr _]] N S. apply split_site_app in S.
  pose proof (Forall_nth _ _ _ _ Hok N) as Hrow. unfold row_ok in Hrow. rewrite S in Hrow.
  pose proof (Forall_nth _ _ _ _ Hr N) as [M1 M2]. pose proof (site_bounds _ _ _ _ Hrow). lia.
Qed.

Theorem place_no_overflow s id rowi pred x :
  MagInv s -> -16777216 <= x <= 16777216 -> Forall fits (place_vals s id rowi pred x).
Proof.
  intros HI Hx. unfold place_vals.
  destruct (take_loose id (d_loose s)) as [[c loose']|] eqn:T; [|constructor].
  destruct (nth_error (d_rows s) rowi) as [r|] eqn:N; [|constructor].
  destruct (split_site pred (dr_cells r)) as [[a b]|] eqn:S; [|constructor].
  pose proof (site_mag _ _ _ _ _ _ HI N S) as Hs.
  apply take_loose_spec in T as [Tin _]. destruct HI as [[_ Hl0] [_ Hl1]].
  rewrite Forall_forall in Hl0, Hl1. specialize (Hl0 _ Tin). specialize (Hl1 _ Tin). cbn beta in Hl0, Hl1.
  repeat (constructor; [apply f32; lia|]). constructor.
Qed.

Theorem can_insert_no_overflow s id rowi pred : MagInv s -> Forall fits (can_insert_vals s id rowi pred).
Proof.
  intros HI. unfold can_insert_vals.
  destruct (find_row (d_rows s) id 0) as [[[[[ri r0] a] c] b0]|]; [|constructor].
  destruct (nth_error (d_rows s) rowi) as [r|] eqn:N; [|constructor].
  destruct (opt_nat_eqb (Some id) pred); [constructor|].
  destruct (_ && _); [constructor|]. destruct (negb _); [constructor|].
  destruct (split_site pred (dr_cells r)) as [[sa sb]|] eqn:S; [|constructor].
  pose proof (site_mag _ _ _ _ _ _ HI N S) as Hs.
  repeat (constructor; [apply f32; lia|]). constructor.
Qed.

Theorem insert_no_overflow s id rowi pred : MagInv s -> Forall fits (insert_vals s id rowi pred).
Proof.
  intros HI. unfold insert_vals. apply Forall_app. split; [apply can_insert_no_overflow; exact HI|].
  destruct (can_insert s id rowi pred) as [[|]|]; try constructor.
  destruct (find_row (d_rows s) id 0) as [[[[[ri r0] a] c] b0]|] eqn:F; [|constructor].
  destruct (nth_error (d_rows s) rowi) as [r|] eqn:N; [|constructor].
  destruct (split_site pred (dr_cells r)) as [[sa sb]|] eqn:S; [|constructor].
  pose proof (site_mag _ _ _ _ _ _ HI N S) as Hs.
  pose proof (found_bounds _ _ _ _ _ _ _ _ HI F) as Hc.
  set (se := site_end (dr_max r) sb) in *. set (sb' := site_begin (dr_min r) sa) in *.
  assert (Hw : 0 <= p_w c <= 8388608) by lia.
  assert (Hv : -16777216 <= se - p_w c + sb' <= 16777216) by lia.
  pose proof (quot2_bounds _ 16777216 ltac:(lia) Hv) as Hq.
  apply Forall_app. split; [repeat (constructor; [apply f32; lia|]); constructor|].
  destruct (unplace s id) as [s1|] eqn:U; [|constructor].
  apply place_no_overflow; [eapply unplace_mag; eassumption|exact Hq].
Qed.

Theorem can_swap_no_overflow s c1 c2 : MagInv s -> Forall fits (can_swap_vals s c1 c2).
Proof.
  intros HI. unfold can_swap_vals.
  destruct (find_row (d_rows s) c1 0) as [[[[[i1 r1] a1] m1] b1]|] eqn:F1; [|constructor].
  destruct (find_row (d_rows s) c2 0) as [[[[[i2 r2] a2] m2] b2]|] eqn:F2; [|constructor].
  destruct (Nat.eqb c1 c2); [constructor|]. destruct (_ || _); [constructor|]. destruct (_ || _); [constructor|].
  unfold bounds_of.
  pose proof (found_bounds _ _ _ _ _ _ _ _ HI F1) as H1. pose proof (found_bounds _ _ _ _ _ _ _ _ HI F2) as H2.
  repeat (constructor; [apply f32; lia|]). constructor.
Qed.

Theorem swap_no_overflow s c1 c2 : MagInv s -> Forall fits (swap_vals s c1 c2).
Proof.
  intros HI. unfold swap_vals. apply Forall_app. split; [apply can_swap_no_overflow; exact HI|].
  destruct (can_swap s c1 c2) as [[|]|]; try constructor.
  destruct (find_row (d_rows s) c1 0) as [[[[[i1 r1] a1] m1] b1]|] eqn:F1; [|constructor].
  destruct (find_row (d_rows s) c2 0) as [[[[[i2 r2] a2] m2] b2]|] eqn:F2; [|constructor].
  unfold bounds_of.
  pose proof (found_bounds _ _ _ _ _ _ _ _ HI F1) as H1. pose proof (found_bounds _ _ _ _ _ _ _ _ HI F2) as H2.
  set (bb1 := site_begin (dr_min r1) a1) in *. set (ba1 := site_end (dr_max r1) b1) in *.
  set (bb2 := site_begin (dr_min r2) a2) in *. set (ba2 := site_end (dr_max r2) b2) in *.
  assert (Hv1 : -16777216 <= bb2 + ba2 - p_w m1 <= 16777216) by lia.
  assert (Hv2 : -16777216 <= bb1 + ba1 - p_w m2 <= 16777216) by lia.
  pose proof (quot2_bounds _ 16777216 ltac:(lia) Hv1) as Hq1.
  pose proof (quot2_bounds _ 16777216 ltac:(lia) Hv2) as Hq2.
  set (x1 := if opt_nat_eqb (pred_of a1) (Some c2) then p_x m2
             else if opt_nat_eqb (pred_of a2) (Some c1) then p_x m1 + p_w m2 else Z.quot (bb2 + ba2 - p_w m1) 2).
  set (x2 := if opt_nat_eqb (pred_of a1) (Some c2) then p_x m2 + p_w m1
             else if opt_nat_eqb (pred_of a2) (Some c1) then p_x m1 else Z.quot (bb1 + ba1 - p_w m2) 2).
  assert (Hx1 : -16777216 <= x1 <= 16777216).
  { unfold x1. destruct (opt_nat_eqb (pred_of a1) (Some c2)); [lia|]. destruct (opt_nat_eqb (pred_of a2) (Some c1)); lia. }
  assert (Hx2 : -16777216 <= x2 <= 16777216).
  { unfold x2. destruct (opt_nat_eqb (pred_of a1) (Some c2)); [lia|]. destruct (opt_nat_eqb (pred_of a2) (Some c1)); lia. }
  apply Forall_app. split.
  { unfold x1, x2. destruct (opt_nat_eqb (pred_of a1) (Some c2)); [repeat (constructor; [apply f32; lia|]); constructor|].
    destruct (opt_nat_eqb (pred_of a2) (Some c1)); repeat (constructor; [apply f32; lia|]); constructor. }
  clearbody x1 x2.
  destruct (unplace s c1) as [s1|] eqn:U1; [|constructor].
  destruct (unplace s1 c2) as [s2|] eqn:U2; [|constructor].
  assert (I2 : MagInv s2) by (eapply unplace_mag; [eapply unplace_mag; eassumption|eassumption]).
  destruct (opt_nat_eqb (pred_of a1) (Some c2)).
  - apply Forall_app. split; [apply place_no_overflow; assumption|].
    destruct (place s2 c1 i2 _ x1) as [s3|] eqn:P1; [|constructor].
    apply place_no_overflow; [eapply place_mag; eassumption|assumption].
  - destruct (opt_nat_eqb (pred_of a2) (Some c1)).
    + apply Forall_app. split; [apply place_no_overflow; assumption|].
      destruct (place s2 c2 i1 _ x2) as [s3|] eqn:P1; [|constructor].
      apply place_no_overflow; [eapply place_mag; eassumption|assumption].
    + apply Forall_app. split; [apply place_no_overflow; assumption|].
      destruct (place s2 c1 i2 _ x1) as [s3|] eqn:P1; [|constructor].
      apply place_no_overflow; [eapply place_mag; eassumption|assumption].
Qed.

Theorem mop_no_overflow s o : MagInv s -> mop_ok o -> Forall fits (mop_vals s o).
Proof.
  intros HI Ho. destruct o; cbn [mop_vals mop_ok] in *.
  - apply swap_no_overflow; exact HI.
  - apply insert_no_overflow; exact HI.
  - constructor.
  - apply place_no_overflow; assumption.
Qed.

(* every history of swaps, insertions, unplace and place from a state satisfying the invariant *)
Theorem moves_history_no_overflow ops : forall s,
  MagInv s -> Forall mop_ok ops -> Forall fits (run_mops_vals s ops).
Proof.
  induction ops as [|o ops IH]; intros s HI Hok; cbn [run_mops_vals]; [constructor|].
  inversion Hok; subst. apply Forall_app. split; [apply mop_no_overflow; assumption|].
  apply IH; [apply step_mag; exact HI|assumption].
Qed.

(* the positions the model's swap / insert use are the listed ones (the listing is about the same run) *)
Lemma moves_history_inv ops : forall s, MagInv s -> MagInv (run_mops s ops).
Proof.
  induction ops as [|o ops IH]; intros s HI; cbn [run_mops fold_left]; [exact HI|]. apply IH. apply step_mag. exact HI.
Qed.

(* ---------- non-vacuity and sanity ---------- *)
Definition ex_state : dstate :=
  {| d_rows :=
       [ {| dr_min := -4194304; dr_max := 4194304; dr_y := 0; dr_o := oN;
            dr_cells := [ {| p_id := 0%nat; p_x := -4194304; p_w := 1; p_pol := pANY; p_o := oN |};
                          {| p_id := 2%nat; p_x := 0; p_w := 4194304; p_pol := pANY; p_o := oN |} ] |};
         {| dr_min := 4194302; dr_max := 4194304; dr_y := 10; dr_o := oN;
            dr_cells := [ {| p_id := 1%nat; p_x := 4194303; p_w := 1; p_pol := pANY; p_o := oN |} ] |} ];
     d_loose := [] |}.
Definition ex_ops : list mop :=
  [MSwap 0 1; MInsert 1 1 (Some 0%nat); MUnplace 2; MPlace 2 0 None 16777216; MPlace 2 0 None 0].

Lemma ex_state_inv : MagInv ex_state.
Proof.
  split; [split|split]; cbn [ex_state d_rows d_loose]; repeat constructor; cbn; lia.
Qed.

(* the domain is inhabited at its upper end (a row spanning [-2^22, 2^22], a row ending at 2^22), the history
   is effective (a swap across rows, an insertion, a refused and an accepted place), 44 values are listed *)
Example moves_nonvacuous :
  MagInv ex_state /\ Forall mop_ok ex_ops /\
  length (run_mops_vals ex_state ex_ops) = 44%nat /\
  map (fun r => map (fun c => (p_id c, p_x c)) (dr_cells r)) (d_rows (run_mops ex_state ex_ops))
    = [[(2%nat, 0)]; [(0%nat, 4194302); (1%nat, 4194303)]].
Proof.
  split; [exact ex_state_inv|]. split; [repeat constructor; cbn; lia|].
  split; vm_compute; reflexivity.
Qed.

(* sanity: the listing is sensitive to the width of the type.  boundaryBefore + boundaryAfter reaches
   2^23 - 2, twice the coordinate range: a 23-bit signed type (|v| < 2^22 .. the coordinate range itself), let
   alone a 16-bit short, would overflow on this in-domain history, and x + cellWidth(c) of the refused place
   reaches 20971520 > 2^24 *)
Example moves_narrower_would_overflow :
  MagInv ex_state /\ Forall mop_ok ex_ops /\
  In (I32, 8388606) (run_mops_vals ex_state ex_ops) /\ ~ (-4194304 <= 8388606 <= 4194304) /\
  In (I32, 20971520) (run_mops_vals ex_state ex_ops) /\ ~ (-32768 <= 20971520 < 32768).
Proof.
  split; [exact ex_state_inv|]. split; [repeat constructor; cbn; lia|].
  split; [vm_compute; tauto|]. split; [lia|]. split; [vm_compute; tauto|lia].
Qed.
