(* C05, composition: the value the optimiser maintains IS Circuit::hpwl of the circuit it exposes, in
   every state reachable by the paired steps of DetailedValue.v (coupling invariant), as long as no
   polarised cell has changed orientation (scope of the frozen pin offsets, finding F8). *)
From Coq Require Import List ZArith Lia Bool Arith Permutation.
Import ListNotations.
Require Import CV.Orient CV.FreeSpace CV.Circuit CV.Hpwl CV.HpwlProofs CV.HpwlFoldProofs.
Require Import CV.Moves CV.MovesProofs CV.MovesOrientProofs CV.Optimiser CV.OptimiserProofs.
Require Import CV.ShiftLp CV.ShiftLpProofs.
Require Import CV.Legalizer CV.LegalizerSoundProofs.
Require Import CV.DetailedInit CV.DetailedInitProofs CV.DetailedExport CV.DetailedExportProofs CV.DetailedValue.
Local Open Scope Z_scope.

(* ------------------------------------------------------------------ *)
(* Circuit::hpwl on Circuit.circuit: the conversion *)
Lemma hcells_nth c j :
  nth j (hcells c) Hpwl.dcell = match nth_error (cells c) j with Some k => hcell_of k | None => Hpwl.dcell end.
Proof.
  unfold hcells. destruct (nth_error (cells c) j) as [k|] eqn:E.
  - apply nth_error_nth. apply map_nth_error. exact E.
  - apply nth_overflow. rewrite map_length. apply nth_error_None. exact E.
Qed.

Lemma pin_px_circuit c p : pin_px (hcells c) p = cpin_x c p.
Proof. unfold pin_px, cpin_x. rewrite hcells_nth. destruct (nth_error (cells c) (pc p)); reflexivity. Qed.
Lemma pin_py_circuit c p : pin_py (hcells c) p = cpin_y c p.
Proof. unfold pin_py, cpin_y. rewrite hcells_nth. destruct (nth_error (cells c) (pc p)); reflexivity. Qed.

Lemma fold_left_ext_Z {A} (f g : Z -> A -> Z) l : (forall a x, f a x = g a x) -> forall a, fold_left f l a = fold_left g l a.
Proof. intros H. induction l as [|x l IH]; intros a; cbn [fold_left]; [reflexivity|]. rewrite H. apply IH. Qed.

Theorem hpwl_circuit_direct c nets : hpwl_circuit c nets = hpwl_direct c nets.
Proof.
  unfold hpwl_circuit, hpwl_direct, hpwl. apply fold_left_ext_Z. intros a net. f_equal.
  unfold net_hpwl. destruct net as [|p net]; [reflexivity|].
  rewrite (map_ext _ _ (pin_px_circuit c)), (map_ext _ _ (pin_py_circuit c)). reflexivity.
Qed.

(* ------------------------------------------------------------------ *)
(* the model over ALL cells: subset = 0 .. n-1 *)
Lemma index_of_seq c n : forall i0 k, index_of c (seq k n) i0 = if (k <=? c)%nat && (c <? k + n)%nat then Some (i0 + (c - k))%nat else None.
Proof.
  induction n as [|n IH]; intros i0 k; cbn [seq index_of].
  - destruct (Nat.leb_spec k c), (Nat.ltb_spec c (k + 0)); cbn; try reflexivity; lia.
  - destruct (Nat.eqb_spec k c) as [->|Hne].
    + rewrite Nat.leb_refl. destruct (Nat.ltb_spec c (c + S n)); [|lia]. cbn. f_equal. lia.
    + rewrite IH. destruct (Nat.leb_spec (S k) c), (Nat.leb_spec k c), (Nat.ltb_spec c (S k + n)), (Nat.ltb_spec c (k + S n));
        cbn; try reflexivity; try lia. f_equal. lia.
Qed.

Lemma index_of_all c n : index_of c (seq 0 n) 0 = if (c <? n)%nat then Some c else None.
Proof. rewrite index_of_seq. cbn [Nat.leb andb Nat.add]. rewrite Nat.sub_0_r. reflexivity. Qed.

(* the folded net does not depend on the positions: no pin is folded *)
Lemma topo_net_all gpos gpos' n net :
  length gpos = n -> length gpos' = n -> topo_net gpos (seq 0 n) net = topo_net gpos' (seq 0 n) net.
Proof.
  intros L L'. unfold topo_net.
  assert (E : flat_map (fun p => match index_of (fst p) (seq 0 n) 0 with Some _ => [] | None => [ipin_pos gpos p] end) net =
              flat_map (fun p => match index_of (fst p) (seq 0 n) 0 with Some _ => [] | None => [ipin_pos gpos' p] end) net).
  { induction net as [|p net IH]; cbn [flat_map]; [reflexivity|]. rewrite IH. f_equal.
    rewrite index_of_all. destruct (Nat.ltb_spec (fst p) n); [reflexivity|].
    unfold ipin_pos. rewrite !nth_overflow by lia. reflexivity. }
  rewrite E. reflexivity.
Qed.

(* positions of the model over all cells *)
Lemma local_vec_all gpos n : length gpos = n -> local_vec gpos (seq 0 n) = gpos ++ [0].
Proof.
  intros L. unfold local_vec. f_equal. subst n. apply nth_ext with (d := 0) (d' := 0).
  - rewrite map_length, seq_length. reflexivity.
  - intros j Hj. rewrite map_length, seq_length in Hj.
    rewrite (nth_indep _ 0 (nth 0 gpos 0)) by (rewrite map_length, seq_length; exact Hj).
    rewrite (map_nth (fun c => nth c gpos 0) (seq 0 (length gpos)) 0%nat j).
    rewrite seq_nth by exact Hj. reflexivity.
Qed.

(* ------------------------------------------------------------------ *)
(* the positions of the two models ARE the positions of the exposed circuit *)
Lemma pos_in_found d i x y : pos_in d i = Some (x, y) ->
  exists ri r a m b, find_row (d_rows d) i 0 = Some (ri, r, a, m, b) /\ x = p_x m /\ y = dr_y r.
Proof.
  unfold pos_in. destruct (find_row (d_rows d) i 0) as [[[[[ri r] a] m] b]|]; [|discriminate].
  intros [= <- <-]. exists ri, r, a, m, b. repeat split.
Qed.

Lemma pos_in_none d i : pos_in d i = None -> find_row (d_rows d) i 0 = None.
Proof. unfold pos_in. destruct (find_row (d_rows d) i 0) as [[[[[ri r] a] m] b]|]; [discriminate|reflexivity]. Qed.

Lemma exposed_cell_pos c rh d o i k :
  Rel c rh d -> coupled c d o -> nth_error (cells c) i = Some k ->
  cur_pos o i = (c_x (export_cell d i k), c_y (export_cell d i k)).
Proof.
  intros HR (_ & _ & _ & _ & Hh & Hu) Hk. destruct (pos_in d i) as [[x y]|] eqn:P.
  - rewrite (Hh i x y P). apply pos_in_found in P as (ri & r & a & m & b & F & -> & ->).
    destruct (found_is_kept c rh d i ri r a m b HR F) as (k' & Hk' & [Fx _]). rewrite Hk in Hk'. injection Hk' as <-.
    rewrite (export_found d i k ri r a m b Fx F). reflexivity.
  - rewrite (Hu i k Hk P). rewrite (export_cell_absent d i k (pos_in_none d i P)). reflexivity.
Qed.

Lemma write_back_length c d : length (cells (write_back c d)) = length (cells c).
Proof. cbn [write_back cells]. apply map_from_length. Qed.

Lemma exposed_positions c rh d o :
  Rel c rh d -> coupled c d o ->
  ipos (ox o) = map hx (hcells (write_back c d)) ++ [0] /\ ipos (oy o) = map hy (hcells (write_back c d)) ++ [0].
Proof.
  intros HR HC. pose proof HC as (Lx & Ly & Zx & Zy & _).
  assert (G : forall (f : hcell -> Z) (g : ccell -> Z) (pos : list Z),
            (forall k, f (hcell_of k) = g k) -> length pos = S (length (cells c)) -> nth (length (cells c)) pos 0 = 0 ->
            (forall i k, nth_error (cells c) i = Some k -> nth i pos 0 = g (export_cell d i k)) ->
            pos = map f (hcells (write_back c d)) ++ [0]).
  { intros f g pos Hfg L Z H. apply nth_ext with (d := 0) (d' := 0).
    - rewrite app_length, map_length. unfold hcells. rewrite map_length, write_back_length. cbn [length]. lia.
    - intros j Hj. rewrite L in Hj.
      assert (Lm : length (map f (hcells (write_back c d))) = length (cells c))
        by (rewrite map_length; unfold hcells; rewrite map_length; apply write_back_length).
      destruct (Nat.eq_dec j (length (cells c))) as [->|Hne].
      + rewrite Z. rewrite app_nth2 by lia. rewrite Lm, Nat.sub_diag. reflexivity.
      + assert (Hlt : (j < length (cells c))%nat) by lia.
        destruct (nth_error (cells c) j) as [k|] eqn:Ek; [|apply nth_error_None in Ek; lia].
        rewrite (H j k Ek). rewrite app_nth1 by lia. symmetry. apply nth_error_nth.
        unfold hcells. rewrite map_map. rewrite (map_nth_error _ _ _ (write_back_nth_fwd c d j k Ek)). rewrite Hfg. reflexivity. }
  split.
  - apply (G hx c_x); [reflexivity|exact Lx|exact Zx|].
    intros i k Hk. pose proof (exposed_cell_pos c rh d o i k HR HC Hk) as E. unfold cur_pos in E. injection E as E _. exact E.
  - apply (G hy c_y); [reflexivity|exact Ly|exact Zy|].
    intros i k Hk. pose proof (exposed_cell_pos c rh d o i k HR HC Hk) as E. unfold cur_pos in E. injection E as _ E. exact E.
Qed.

(* ------------------------------------------------------------------ *)
(* the frozen pin offsets are the offsets of the exposed circuit when the orientations agree *)
Definition shape (h : hcell) : orient * Z * Z := (ho h, hw h, hh h).

Lemma topology_nets_same_shape dirx cells1 cells2 nets n :
  length cells1 = n -> length cells2 = n ->
  (forall j, shape (nth j cells1 Hpwl.dcell) = shape (nth j cells2 Hpwl.dcell)) ->
  inets (circuit_topology dirx cells1 nets (seq 0 n)) = inets (circuit_topology dirx cells2 nets (seq 0 n)).
Proof.
  intros L1 L2 Hs. unfold circuit_topology, topology. cbn [incr_build inets]. f_equal.
  rewrite !map_map. apply map_ext. intros net.
  rewrite (topo_net_all _ (map (fun c => if dirx then hx c else hy c) cells2) n) by (rewrite map_length; assumption).
  f_equal. apply map_ext. intros p. cbn zeta. pose proof (Hs (pc p)) as E. unfold shape in E. injection E as E1 E2 E3.
  rewrite E1, E2, E3. reflexivity.
Qed.

(* every cell of the exposed circuit has the orientation the models were built with *)
Definition orient_same (c : circuit) (d : dstate) : Prop :=
  forall i k, nth_error (cells c) i = Some k -> c_o (export_cell d i k) = c_o k.

Lemma orient_frozen_same c rh d : Rel c rh d -> orient_frozen c d -> orient_same c d.
Proof.
  intros HR HF i k Hk. destruct (polarity_eqb (c_pol k) pANY) eqn:EP.
  2:{ apply (HF i k Hk). intros E. rewrite E in EP. discriminate. }
  assert (Ha : c_pol k = pANY) by (destruct (c_pol k); try discriminate; reflexivity).
  unfold export_cell. destruct (c_fixed k); [reflexivity|].
  destruct (find_row (d_rows d) i 0) as [[[[[ri r] a] m] b]|] eqn:F; [|reflexivity]. cbn [c_o].
  destruct HR as (_ & Hall & _). apply find_row_spec in F as (j & _ & N & Hc & Hid).
  assert (Hm : In m (dr_cells r)) by (rewrite Hc; apply in_or_app; right; left; reflexivity).
  destruct (Hall m (cells_of_placed _ _ _ (nth_error_In _ _ N) Hm)) as (k' & Hk' & _ & _ & _ & Hany & _).
  rewrite Hid, Hk in Hk'. injection Hk' as <-. apply Hany. exact Ha.
Qed.

Lemma exposed_shape c d : orient_same c d ->
  forall j, shape (nth j (hcells (write_back c d)) Hpwl.dcell) = shape (nth j (hcells c) Hpwl.dcell).
Proof.
  intros HO j. rewrite !hcells_nth. destruct (nth_error (cells c) j) as [k|] eqn:Ek.
  - rewrite (write_back_nth_fwd c d j k Ek). unfold shape, hcell_of. cbn [ho hw hh].
    destruct (export_cell_frame d j k) as (A & B & _). rewrite A, B, (HO j k Ek). reflexivity.
  - assert (E : nth_error (cells (write_back c d)) j = None)
      by (apply nth_error_None; rewrite write_back_length; apply nth_error_None; exact Ek).
    rewrite E. reflexivity.
Qed.

(* ------------------------------------------------------------------ *)
(* deliverable 2: the value of the exposed circuit *)
Lemma int_pins_bounded c nets : int_pins c nets ->
  forall net, In net nets -> bounded (map (pin_px (hcells c)) net) /\ bounded (map (pin_py (hcells c)) net).
Proof. intros H net Hn. exact (H net Hn). Qed.

Lemma topology_is_build dirx cells nets sub :
  circuit_topology dirx cells nets sub =
  incr_build (ipos (circuit_topology dirx cells nets sub)) (inets (circuit_topology dirx cells nets sub)).
Proof. reflexivity. Qed.

Lemma topology_pos_all dirx cells nets n : length cells = n ->
  ipos (circuit_topology dirx cells nets (seq 0 n)) = map (fun c => if dirx then hx c else hy c) cells ++ [0].
Proof.
  intros L. unfold circuit_topology, topology. cbn [incr_build ipos].
  change (map (fun c0 => nth c0 ?g 0) (seq 0 n) ++ [0]) with (local_vec g (seq 0 n)).
  apply local_vec_all. rewrite map_length. exact L.
Qed.

Theorem exposed_value c rh nets d o :
  Rel c rh d -> coupled c d o -> frozen_nets c nets o -> OInv o -> orient_frozen c d ->
  int_pins (write_back c d) nets ->
  hpwl_circuit (write_back c d) nets = ovalue o.
Proof.
  intros HR HC [Nx Ny] HO HF HB.
  pose proof (orient_frozen_same c rh d HR HF) as HS.
  destruct (exposed_positions c rh d o HR HC) as [Px Py].
  set (c' := write_back c d) in *.
  assert (Ln : length (hcells c') = length (cells c)) by (unfold hcells; rewrite map_length; apply write_back_length).
  assert (Ln0 : length (hcells c) = length (cells c)) by (unfold hcells; apply map_length).
  unfold hpwl_circuit.
  rewrite <- (circuit_value_is_hpwl (hcells c') nets (all_cells c) (int_pins_bounded c' nets HB)).
  rewrite (ovalue_scratch o HO). unfold all_cells.
  rewrite (topology_is_build true (hcells c')), (topology_is_build false (hcells c')).
  rewrite !(topology_pos_all _ (hcells c') nets (length (cells c)) Ln).
  rewrite (topology_nets_same_shape true (hcells c') (hcells c) nets _ Ln Ln0 (exposed_shape c d HS)).
  rewrite (topology_nets_same_shape false (hcells c') (hcells c) nets _ Ln Ln0 (exposed_shape c d HS)).
  rewrite Nx, Ny, Px, Py. reflexivity.
Qed.

(* ------------------------------------------------------------------ *)
(* construction: unique ids *)
Lemma construct_shape rws0 ds s : construct rws0 ds = DOk s ->
  exists asg, locate_all (Legalizer.sort_rows rws0) 0 ds = DOk asg /\
              s = {| d_rows := build_rows (Legalizer.sort_rows rws0) 0 asg; d_loose := [] |}.
Proof.
  unfold construct. destruct (locate_all (Legalizer.sort_rows rws0) 0 ds) as [asg|e]; [|discriminate].
  destruct (negb _); [discriminate|]. destruct (negb _); [discriminate|]. destruct (negb _); [discriminate|].
  intros [= <-]. exists asg. split; reflexivity.
Qed.

Lemma from_circuit_shape c s : from_circuit c = DOk s ->
  exists rws ds asg, locate_all rws 0 ds = DOk asg /\ s = {| d_rows := build_rows rws 0 asg; d_loose := [] |}.
Proof.
  unfold from_circuit. destruct (rows c).
  - intros H. apply construct_shape in H as (asg & H1 & H2). eexists _, _, asg. split; eassumption.
  - destruct (row_height c); [|discriminate]. intros H. apply construct_shape in H as (asg & H1 & H2).
    eexists _, _, asg. split; eassumption.
Qed.

Lemma NoDup_app_intro {A} (l1 l2 : list A) :
  NoDup l1 -> NoDup l2 -> (forall x, In x l1 -> In x l2 -> False) -> NoDup (l1 ++ l2).
Proof.
  induction l1 as [|a l1 IH]; intros H1 H2 D; cbn [app]; [exact H2|].
  inversion H1 as [|? ? Ha H1']; subst. constructor.
  - intros Hin. apply in_app_or in Hin as [Hin|Hin]; [contradiction|]. apply (D a); [left; reflexivity|exact Hin].
  - apply IH; [exact H1'|exact H2|]. intros x Hx. apply D. right. exact Hx.
Qed.

Lemma NoDup_app_elim {A} (l1 l2 : list A) :
  NoDup (l1 ++ l2) -> NoDup l1 /\ NoDup l2 /\ (forall x, In x l1 -> In x l2 -> False).
Proof.
  induction l1 as [|a l1 IH]; cbn [app]; intros H.
  - split; [constructor|]. split; [exact H|]. intros x [].
  - inversion H as [|? ? Ha H']; subst. destruct (IH H') as (A1 & A2 & A3). split; [|split; [exact A2|]].
    + constructor; [|exact A1]. intros Hin. apply Ha. apply in_or_app. left. exact Hin.
    + intros x [<-|Hx] Hx2; [apply Ha; apply in_or_app; right; exact Hx2|exact (A3 x Hx Hx2)].
Qed.

Lemma ids_inc_nodup l : forall lo, ids_inc lo l -> NoDup (map p_id l).
Proof.
  induction l as [|a t IH]; intros lo; cbn [ids_inc map]; [constructor|]. intros [H1 H2]. constructor; [|eapply IH; exact H2].
  intros Hin. apply in_map_iff in Hin as (b & E & Hb). pose proof (ids_inc_In _ _ _ H2 Hb). lia.
Qed.

Lemma insert_x_perm c l : Permutation (c :: l) (insert_x c l).
Proof.
  induction l as [|a t IH]; cbn [insert_x]; [apply Permutation_refl|].
  destruct (p_x a <? p_x c); [|apply Permutation_refl].
  eapply Permutation_trans; [apply perm_swap|]. apply perm_skip. exact IH.
Qed.

Lemma sort_x_perm l : Permutation l (sort_x l).
Proof.
  induction l as [|a t IH]; cbn [sort_x fold_right]; [apply Permutation_refl|]. fold (sort_x t).
  eapply Permutation_trans; [apply perm_skip; exact IH|apply insert_x_perm].
Qed.

Lemma asg_id_unique (asg : list (nat * pcell)) lo : ids_inc lo (map snd asg) ->
  forall j p j' q, In (j, p) asg -> In (j', q) asg -> p_id p = p_id q -> j = j'.
Proof.
  revert lo. induction asg as [|[j0 p0] t IH]; intros lo; cbn [map snd ids_inc In]; [tauto|].
  intros [H1 H2] j p j' q [[= <- <-]|Hp] [[= <- <-]|Hq] E.
  - reflexivity.
  - exfalso. pose proof (ids_inc_In _ _ _ H2 (in_map snd _ _ Hq)) as G. cbn [snd] in G. lia.
  - exfalso. pose proof (ids_inc_In _ _ _ H2 (in_map snd _ _ Hp)) as G. cbn [snd] in G. lia.
  - eapply IH; eassumption.
Qed.

Lemma build_rows_nodup asg lo : ids_inc lo (map snd asg) ->
  forall rws j0, NoDup (map p_id (flat_map dr_cells (build_rows rws j0 asg))) /\
                 (forall p, In p (flat_map dr_cells (build_rows rws j0 asg)) -> exists j, (j0 <= j)%nat /\ In (j, p) asg).
Proof.
  intros Hinc. induction rws as [|r t IH]; intros j0; cbn [build_rows flat_map map].
  - split; [constructor|intros p []].
  - destruct (IH (S j0)) as [N1 N2]. cbn [mk_drow dr_cells]. split.
    + rewrite map_app. apply NoDup_app_intro; [| exact N1 |].
      * unfold row_cells. eapply Permutation_NoDup; [apply Permutation_map; apply sort_x_perm|].
        eapply ids_inc_nodup. apply ids_inc_filter. exact Hinc.
      * intros x Hx1 Hx2. apply in_map_iff in Hx1 as (p & <- & Hp). apply in_map_iff in Hx2 as (q & E & Hq).
        apply row_cells_In in Hp. destruct (N2 q Hq) as (j & Hj & Hjq).
        pose proof (asg_id_unique asg lo Hinc _ _ _ _ Hp Hjq (eq_sym E)). lia.
    + intros p Hp. apply in_app_or in Hp as [Hp|Hp].
      * apply row_cells_In in Hp. exists j0. split; [lia|exact Hp].
      * destruct (N2 p Hp) as (j & Hj & Hjp). exists j. split; [lia|exact Hjp].
Qed.

Theorem from_circuit_ids_nodup c s : from_circuit c = DOk s -> NoDup (map p_id (cells_of s)).
Proof.
  intros H. apply from_circuit_shape in H as (rws & ds & asg & L & ->).
  unfold cells_of. cbn [d_rows d_loose]. rewrite app_nil_r.
  destruct (locate_all_spec rws ds 0 asg L) as (Hinc & _). exact (proj1 (build_rows_nodup asg 0 Hinc rws 0)).
Qed.

(* ------------------------------------------------------------------ *)
(* deliverable 1, base case: the invariant holds after construction *)
Definition PInv (c : circuit) (rh : Z) (nets : list (list hpin)) (s : pstate) : Prop :=
  Rel c rh (ps_d s) /\ Inv (ps_d s) /\ d_loose (ps_d s) = [] /\ NoDup (map p_id (cells_of (ps_d s))) /\
  OInv (ps_o s) /\ frozen_nets c nets (ps_o s) /\ coupled c (ps_d s) (ps_o s).

Lemma init_cur_pos c nets i k : nth_error (cells c) i = Some k -> cur_pos (init_models c nets) i = (c_x k, c_y k).
Proof.
  intros Hk. unfold cur_pos, init_models, all_cells. cbn [ox oy].
  assert (L : length (hcells c) = length (cells c)) by (unfold hcells; apply map_length).
  rewrite !(topology_pos_all _ (hcells c) nets _ L).
  assert (Hi : (i < length (cells c))%nat) by (apply nth_error_Some; congruence).
  rewrite !app_nth1 by (rewrite map_length, L; exact Hi).
  f_equal; apply nth_error_nth; unfold hcells; rewrite map_map; rewrite (map_nth_error _ _ _ Hk); reflexivity.
Qed.

Lemma init_coupled c rh nets d0 :
  std_design c rh -> legal c -> from_circuit c = DOk d0 -> coupled c d0 (init_models c nets).
Proof.
  intros SD HL Hs. destruct (from_circuit_structure c rh d0 SD HL Hs) as (_ & _ & _ & _ & Hall).
  assert (L : length (hcells c) = length (cells c)) by (unfold hcells; apply map_length).
  unfold coupled. cbn zeta. unfold init_models, all_cells. cbn [ox oy].
  rewrite !(topology_pos_all _ (hcells c) nets _ L). rewrite !app_length, !map_length, L. cbn [length].
  split; [lia|]. split; [lia|].
  split; [rewrite app_nth2 by (rewrite map_length, L; lia); rewrite map_length, L, Nat.sub_diag; reflexivity|].
  split; [rewrite app_nth2 by (rewrite map_length, L; lia); rewrite map_length, L, Nat.sub_diag; reflexivity|].
  split.
  - intros i x y P. apply pos_in_found in P as (ri & r & a & m & b & F & -> & ->).
    apply find_row_spec in F as (j & _ & N & Hc & Hid).
    assert (Hm : In m (dr_cells r)) by (rewrite Hc; apply in_or_app; right; left; reflexivity).
    destruct (Hall r m (nth_error_In _ _ N) Hm) as (k & Hk & _ & Em & Ey). rewrite Hid in Hk.
    change (cur_pos (init_models c nets) i = (p_x m, dr_y r)). rewrite (init_cur_pos c nets i k Hk).
    rewrite Em, Ey. reflexivity.
  - intros i k Hk _. exact (init_cur_pos c nets i k Hk).
Qed.

Lemma init_PInv c rh nets d0 :
  std_design c rh -> legal c -> from_circuit c = DOk d0 ->
  PInv c rh nets {| ps_d := d0; ps_o := init_models c nets |}.
Proof.
  intros SD HL Hs. destruct (Rel_from_circuit c rh d0 SD HL Hs) as (HI & Hl & HR). unfold PInv. cbn [ps_d ps_o].
  split; [exact HR|]. split; [exact HI|]. split; [exact Hl|]. split; [exact (from_circuit_ids_nodup c d0 Hs)|].
  split; [split; unfold init_models; cbn [ox oy]; unfold circuit_topology, topology; apply build_inv|].
  split; [split; reflexivity|]. apply (init_coupled c rh); assumption.
Qed.

(* at construction the optimised value is Circuit::hpwl of the circuit *)
Lemma init_value c nets : int_pins c nets -> ovalue (init_models c nets) = hpwl_circuit c nets.
Proof.
  intros HB. unfold ovalue, init_models, hpwl_circuit. cbn [ox oy].
  apply circuit_value_is_hpwl. exact (int_pins_bounded c nets HB).
Qed.

(* ------------------------------------------------------------------ *)
(* small facts for concrete circuits *)
Lemma int_pinsb_sound c nets : int_pinsb c nets = true -> int_pins c nets.
Proof.
  unfold int_pinsb, int_pins. rewrite forallb_forall. intros H net Hn. specialize (H net Hn).
  apply andb_true_iff in H as [H1 H2]. rewrite forallb_forall in H1, H2.
  split; intros v Hv; [specialize (H1 v Hv)|specialize (H2 v Hv)]; unfold in_int in *;
    apply andb_true_iff in H1 || apply andb_true_iff in H2; rewrite !Z.leb_le in *; tauto.
Qed.

(* without polarised cells the F8 scope restriction is void *)
Lemma orient_frozen_any c d : (forall k, In k (cells c) -> c_pol k = pANY) -> orient_frozen c d.
Proof. intros H i k Hk Hp. exfalso. apply Hp. apply H. eapply nth_error_In. exact Hk. Qed.
