(* C12 part of the review-gap statements (umbrella: Properties_gaps2.v); every proof is `exact <lemma>`.
   To be merged by the lead into Properties_C12.v.  Model: ReviewGaps2C12Model.v (RowLegalizer::clear(),
   lastAvailablePos(), histories that contain them) over RowLeg.v.  Labels: [F] all inputs.
   NOT tied: neither ./check C12's harness nor its driver exercises clear()/lastAvailablePos() yet. *)
From Coq Require Import List ZArith Lia Bool.
Import ListNotations.
Require Import CV.RowLeg CV.RowLegProofs CV.RowLegCert CV.RowLegChecked CV.ReviewGaps2C12Model CV.ReviewGaps2C12.
Local Open Scope Z_scope.

(* [F] clear() restores the initial state of the same segment ... *)
Theorem c12_clear_is_init : forall s, clear s = rl_init (rbegin s) (rend s).
Proof. exact clear_is_init. Qed.
(* [F] ... whatever the history before it (pushes, queries, clears, lastAvailablePos) *)
Theorem c12_after_clear_initial : forall b e h, run_statec (rl_init b e) (h ++ [CClear]) = rl_init b e.
Proof. exact after_clear_initial. Qed.

(* [F] state and outputs after a clear() do not depend on what happened before it *)
Theorem c12_clear_forgets : forall b e h1 h2,
  run_statec (rl_init b e) (h1 ++ CClear :: h2) = run_statec (rl_init b e) h2 /\
  outputsc (rl_init b e) (h1 ++ CClear :: h2) = outputsc (rl_init b e) h1 ++ OCleared :: outputsc (rl_init b e) h2.
Proof. exact clear_forgets. Qed.

(* [F] the state after ANY history = the state of the plain (clear-free) run of the operations after the
   last clear(); pushes that fit in the history fit in that run: every theorem of Properties_C12 applies *)
Theorem c12_history_state : forall b e h,
  run_statec (rl_init b e) h = run_state (rl_init b e) (last_segment h).
Proof. exact history_state. Qed.
Theorem c12_history_fits : forall b e h, fitsc (rl_init b e) h -> fits (rl_init b e) (last_segment h).
Proof. exact history_fits. Qed.

(* [F] main clause for histories with clear(): legal and optimal for the cells inserted since the last clear() *)
Theorem c12_history_placement_optimal : forall b e h,
  b <= e -> fitsc (rl_init b e) h ->
  let pl := placement (run_statec (rl_init b e) h) in
  let cs := mk_cells (push_list (last_segment h)) pl in
  length pl = length (push_list (last_segment h)) /\
  legal_from b e cs pl /\
  (forall zs, legal_from b e cs zs -> cost_of cs pl <= cost_of cs zs).
Proof. exact history_placement_optimal. Qed.

(* [F] prediction is pure and exact in every state such a history reaches *)
Theorem c12_history_query_pure : forall b e h w t,
  b <= e -> fitsc (rl_init b e) h ->
  let s := run_statec (rl_init b e) h in
  fst (get_cost s w t) = s /\ snd (get_cost s w t) = snd (push s w t).
Proof. exact history_query_pure. Qed.

(* [F] costs after a clear(): those of the plain run of the tail; the push costs sum to the minimum *)
Theorem c12_history_costs_after_clear : forall b e h1 ops,
  b <= e -> fits (rl_init b e) ops ->
  let costs := snd (run b e ops) in
  outputsc (rl_init b e) (h1 ++ CClear :: map COp ops) = outputsc (rl_init b e) h1 ++ OCleared :: map OCost costs /\
  let pl := placement (run_statec (rl_init b e) (h1 ++ CClear :: map COp ops)) in
  let cs := mk_cells (push_list ops) pl in
  pl = fst (run b e ops) /\
  push_cost_sum ops costs = cost_of cs pl /\
  (forall zs, legal_from b e cs zs -> push_cost_sum ops costs <= cost_of cs zs).
Proof. exact history_costs_after_clear. Qed.

(* [F] lastAvailablePos(): with at least one cell, the right end of the newest cell of getPlacement(), inside
   the segment; with no cell the C++ calls back() on an empty vector (None in the model) *)
Theorem c12_last_available_spec : forall b e h,
  b <= e -> fitsc (rl_init b e) h ->
  let s := run_statec (rl_init b e) h in
  match placement_aux (cpos s) (widths s) (used s) None, widths s with
  | x :: _, w :: _ => last_available_pos s = Some (x + w) /\ b + w <= x + w <= e
  | [], [] => last_available_pos s = None
  | _, _ => False
  end.
Proof. exact last_available_spec. Qed.
Theorem c12_last_available_none : forall s, last_available_pos s = None <-> cpos s = [].
Proof. exact last_available_none. Qed.

Example c12_history_nonvacuous :
  let h := [COp (Push 2 5); CLast; CClear; CLast; COp (Push 2 5); COp (Query 1 (-3)); COp (Push 1 (-3)); CLast] in
  fitsc (rl_init 0 6) h /\
  last_segment h = [Push 2 5; Query 1 (-3); Push 1 (-3)] /\
  outputsc (rl_init 0 6) h =
    [OCost 2; OLast (Some 6); OCleared; OLast None; OCost 2; OCost 10; OCost 10; OLast (Some 6)] /\
  placement (run_statec (rl_init 0 6) h) = [3; 5].
Proof. exact history_nonvacuous. Qed.

Print Assumptions c12_clear_is_init.
Print Assumptions c12_after_clear_initial.
Print Assumptions c12_clear_forgets.
Print Assumptions c12_history_state.
Print Assumptions c12_history_fits.
Print Assumptions c12_history_placement_optimal.
Print Assumptions c12_history_query_pure.
Print Assumptions c12_history_costs_after_clear.
Print Assumptions c12_last_available_spec.
Print Assumptions c12_last_available_none.
