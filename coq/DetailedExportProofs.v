(* The way back from the row structure to the circuit: the placement exposed by detailed placement
   (write_back = DetailedPlacement::exportPlacement) is legal, leaves the cells the structure does not
   hold exactly where they were, and carries the prescribed orientations -- after EVERY history of
   moves and shift passes from the structure built by from_circuit. *)
From Coq Require Import List ZArith Lia Bool Arith Permutation.
Import ListNotations.
Require Import CV.Orient CV.FreeSpace CV.FreeSpaceProofs CV.Circuit CV.CircuitProofs CV.OrientProofs.
Require Import CV.Moves CV.MovesProofs CV.MovesOrientProofs.
Require Import CV.Legalizer CV.LegalizerProofs CV.LegalizerSoundProofs.
Require Import CV.DetailedInit CV.DetailedInitProofs CV.DetailedExport.
Local Open Scope Z_scope.

(* ------------------------------------------------------------------ *)
(* map_from *)
Lemma map_from_nth {A B} (f : nat -> A -> B) l : forall i0 j,
  nth_error (map_from f i0 l) j = option_map (f (i0 + j)%nat) (nth_error l j).
Proof.
  induction l as [|a t IH]; intros i0 [|j]; cbn [map_from nth_error option_map]; try reflexivity.
  - rewrite Nat.add_0_r. reflexivity.
  - rewrite IH. replace (S i0 + j)%nat with (i0 + S j)%nat by lia. reflexivity.
Qed.

Lemma map_from_length {A B} (f : nat -> A -> B) l : forall i0, length (map_from f i0 l) = length l.
Proof. induction l as [|a t IH]; intros i0; cbn [map_from length]; [reflexivity|]. rewrite IH. reflexivity. Qed.

Lemma map_from_nth0 {A B} (f : nat -> A -> B) l j b :
  nth_error (map_from f 0 l) j = Some b -> exists a, nth_error l j = Some a /\ b = f j a.
Proof.
  rewrite map_from_nth. cbn [Nat.add]. destruct (nth_error l j) as [a|]; cbn [option_map]; [|discriminate].
  intros [= <-]. exists a. split; reflexivity.
Qed.

Lemma map_from_In {A B} (f : nat -> A -> B) l b :
  In b (map_from f 0 l) -> exists j a, nth_error l j = Some a /\ b = f j a.
Proof. intros H. apply In_nth_error in H as [j Hj]. apply map_from_nth0 in Hj as (a & H1 & H2). exists j, a. tauto. Qed.

Lemma map_from_combine {A B} (f : nat -> A -> B) l : forall i0 a b,
  In (a, b) (combine l (map_from f i0 l)) -> exists j, nth_error l j = Some a /\ b = f (i0 + j)%nat a.
Proof.
  induction l as [|x t IH]; intros i0 a b; cbn [map_from combine In]; [tauto|].
  intros [[= <- <-]|H].
  - exists O. rewrite Nat.add_0_r. split; reflexivity.
  - apply IH in H as (j & H1 & H2). exists (S j). replace (i0 + S j)%nat with (S i0 + j)%nat by lia. split; assumption.
Qed.

(* pairwise disjointness of a filtered list, from the indices *)
Lemma pd_filter_of_nth {A} (f : A -> rect) (g : A -> bool) l :
  (forall i j a b, (i < j)%nat -> nth_error l i = Some a -> nth_error l j = Some b -> g a = true -> g b = true ->
                   disjoint_rects (f a) (f b)) ->
  pairwise_disjoint (map f (filter g l)).
Proof.
  induction l as [|x t IH]; intros H; cbn [filter map pairwise_disjoint]; [exact I|].
  assert (Ht : pairwise_disjoint (map f (filter g t))).
  { apply IH. intros i j a b Hij Hi Hj. apply (H (S i) (S j)); [lia|exact Hi|exact Hj]. }
  destruct (g x) eqn:Gx; [|exact Ht]. cbn [map pairwise_disjoint]. split; [|exact Ht].
  intros r Hr. apply in_map_iff in Hr as (b & <- & Hb). apply filter_In in Hb as [Hb Gb].
  apply In_nth_error in Hb as [j Hj]. apply (H O (S j) x b); [lia|reflexivity|exact Hj|exact Gx|exact Gb].
Qed.

Lemma pd_nth (l : list rect) i j a b :
  pairwise_disjoint l -> i <> j -> nth_error l i = Some a -> nth_error l j = Some b -> disjoint_rects a b.
Proof.
  intros Hpd Hne Hi Hj.
  apply (pd_filter_nth (fun r : rect => r) (fun _ => true) l) with (i := i) (j := j); try assumption; try reflexivity.
  rewrite map_id. clear - Hpd. induction l as [|x t IH]; cbn [filter]; [exact I|].
  cbn [pairwise_disjoint] in *. destruct Hpd as [H1 H2]. split; [|apply IH; exact H2].
  intros b Hb. apply H1. apply filter_In in Hb as [Hb _]. exact Hb.
Qed.

(* ------------------------------------------------------------------ *)
(* export_cell: the frame *)
Lemma export_cell_frame s i k :
  c_w (export_cell s i k) = c_w k /\ c_h (export_cell s i k) = c_h k /\ c_pol (export_cell s i k) = c_pol k /\
  c_fixed (export_cell s i k) = c_fixed k /\ c_obs (export_cell s i k) = c_obs k.
Proof.
  unfold export_cell. destruct (c_fixed k) eqn:Fx; [rewrite Fx; tauto|].
  destruct (find_row (d_rows s) i 0) as [[[[[ri r] a] m] b]|]; cbn; tauto.
Qed.

Lemma export_cell_fixed s i k : c_fixed k = true -> export_cell s i k = k.
Proof. intros H. unfold export_cell. rewrite H. reflexivity. Qed.

Lemma export_cell_absent s i k : find_row (d_rows s) i 0 = None -> export_cell s i k = k.
Proof. intros H. unfold export_cell. rewrite H. destruct (c_fixed k); reflexivity. Qed.

Lemma write_back_nth c s i k' :
  nth_error (cells (write_back c s)) i = Some k' ->
  exists k, nth_error (cells c) i = Some k /\ k' = export_cell s i k.
Proof. cbn [write_back cells]. apply map_from_nth0. Qed.

Lemma write_back_nth_fwd c s i k :
  nth_error (cells c) i = Some k -> nth_error (cells (write_back c s)) i = Some (export_cell s i k).
Proof. intros H. cbn [write_back cells]. rewrite map_from_nth, H. reflexivity. Qed.

Lemma write_back_movable c s k' :
  In k' (movable (write_back c s)) ->
  exists i k, nth_error (cells c) i = Some k /\ c_fixed k = false /\ k' = export_cell s i k.
Proof.
  intros H. apply movable_In in H as [H Fx]. cbn [write_back cells] in H. apply map_from_In in H as (i & k & Hk & ->).
  exists i, k. split; [exact Hk|]. split; [|reflexivity].
  destruct (export_cell_frame s i k) as (_ & _ & _ & E & _). congruence.
Qed.

(* the fixed obstructions, hence the free segments of C15, are the same *)
Lemma write_back_obstacles s l : forall i0,
  flat_map (fun c : rect * bool * bool => match c with (p, fx, ob) => if fx && ob then [p] else [] end)
           (map (fun k => (placement_of k, c_fixed k, c_obs k)) (map_from (export_cell s) i0 l)) =
  flat_map (fun c : rect * bool * bool => match c with (p, fx, ob) => if fx && ob then [p] else [] end)
           (map (fun k => (placement_of k, c_fixed k, c_obs k)) l).
Proof.
  induction l as [|k t IH]; intros i0; cbn [map_from map flat_map]; [reflexivity|]. rewrite IH. f_equal.
  destruct (c_fixed k) eqn:Fx; [rewrite (export_cell_fixed s i0 k Fx), Fx; reflexivity|].
  destruct (export_cell_frame s i0 k) as (_ & _ & _ & E & _). rewrite E, Fx. reflexivity.
Qed.

Lemma write_back_free_rows c s : free_rows (write_back c s) = free_rows c.
Proof.
  unfold free_rows, compute_rows, obstacles_of. cbn [write_back rows cells app].
  rewrite write_back_obstacles. reflexivity.
Qed.

Lemma write_back_row_height c s : row_height (write_back c s) = row_height c.
Proof. reflexivity. Qed.

(* ------------------------------------------------------------------ *)
(* the invariant that ties a structure to the circuit it was built from *)

(* a cell of the structure stands for a kept cell of the circuit: same width and polarity, the
   orientation differs from the circuit's only for a polarised cell and never changes isTurn (so the
   placed width and height of the circuit cell are the same with either orientation) *)
Definition cell_ok (c : circuit) (rh : Z) (p : pcell) : Prop :=
  exists k, nth_error (cells c) (p_id p) = Some k /\ kept rh k /\ p_w p = placed_w k /\ p_pol p = c_pol k /\
            (c_pol k = pANY -> p_o p = c_o k) /\ is_turn (p_o p) = is_turn (c_o k).

Definition Rel (c : circuit) (rh : Z) (s : dstate) : Prop :=
  (* the rows are, in this order, the free segments the constructor received *)
  map row_geom (d_rows s) = map seg_geom (sort_rows (dp_rows c rh)) /\
  (* every cell of the structure, placed or not, stands for a kept cell *)
  (forall p, In p (cells_of s) -> cell_ok c rh p) /\
  (* every kept cell is in the structure *)
  (forall i k, nth_error (cells c) i = Some k -> kept rh k -> exists p, In p (cells_of s) /\ p_id p = i).

Lemma row_geom_upd rows i r l : nth_error rows i = Some r ->
  map row_geom (upd_row rows i (set_cells r l)) = map row_geom rows.
Proof.
  revert i. induction rows as [|x t IH]; intros [|i]; cbn [nth_error upd_row map]; try discriminate.
  - intros [= ->]. reflexivity.
  - intros H. rewrite (IH _ H). reflexivity.
Qed.

Lemma turn_table p r : is_turn r = false -> is_turn (cell_orientation_in_row p r) = false.
Proof. destruct p, r; cbn; intros H; try reflexivity; discriminate. Qed.

(* rows of the structure are not turned *)
Lemma Rel_row_not_turned c rh s r :
  std_design c rh -> Rel c rh s -> In r (d_rows s) -> is_turn (dr_o r) = false.
Proof.
  intros SD (Hg & _) Hr. apply (in_map row_geom) in Hr. rewrite Hg in Hr.
  apply in_map_iff in Hr as (sg & E & Hsg). unfold seg_geom, row_geom in E. injection E as _ _ _ E4.
  destruct (sorted_rows_shape c rh sg SD Hsg) as (_ & _ & r0 & Hr0 & Ro & _).
  destruct SD as (_ & _ & _ & Hturn & _). rewrite <- E4, Ro. apply Hturn. exact Hr0.
Qed.

(* the structure from_circuit returns, WITHOUT the hypothesis on the orientations (orient_pre): when
   the constructor and check() accept a legal circuit of the domain, the structure is the one
   from_circuit_accepts_legal describes (same proof; the orientation test of check() only decides
   whether a structure is returned, not which) *)
Lemma from_circuit_structure_rows c rh s :
  std_design c rh -> rows c <> [] -> legal c -> from_circuit c = DOk s ->
  Inv s /\ d_loose s = [] /\
  map row_geom (d_rows s) = map seg_geom (sort_rows (dp_rows c rh)) /\
  (forall i k, nth_error (cells c) i = Some k -> kept rh k ->
     exists dr, In dr (d_rows s) /\ dr_y dr = c_y k /\ In (cell_image i k) (dr_cells dr)) /\
  (forall dr p, In dr (d_rows s) -> In p (dr_cells dr) ->
     exists k, nth_error (cells c) (p_id p) = Some k /\ kept rh k /\ p = cell_image (p_id p) k /\ dr_y dr = c_y k).
Proof.
  intros SD Hrows HL Hs.
  assert (HRH : row_height c = Some rh).
  { destruct SD as (_ & Hheight & _). apply row_height_uniform; assumption. }
  set (rws := sort_rows (dp_rows c rh)). set (ds := map (dcell_of rh) (cells c)).
  assert (Hds : forall i d, nth_error ds i = Some d -> dc_w d <> -1 ->
                            exists k, nth_error (cells c) i = Some k /\ d = dcell_of rh k /\ kept rh k).
  { intros i d Hi Hw. apply nth_error_map_inv in Hi as (k & Hk & ->). exists k.
    split; [exact Hk|]. split; [reflexivity|]. apply dp_width_not_ignored. exact Hw. }
  destruct (locate_all_ok rws ds O) as (asg & Hasg).
  { intros i d Hi Hw. destruct (Hds i d Hi Hw) as (k & Hk & -> & Hkept).
    destruct (kept_located c rh (0 + i) k SD HRH HL (nth_error_In _ _ Hk) Hkept) as (j & s0 & L & _).
    exists j. exact L. }
  destruct (locate_all_spec rws ds O asg Hasg) as (Hinc & Hsnd & Hcmp).
  assert (Hcell : forall j p, In (j, p) asg ->
            exists k s0, nth_error (cells c) (p_id p) = Some k /\ kept rh k /\ p = cell_image (p_id p) k /\
                        nth_error rws j = Some s0 /\ minY (rr s0) = c_y k /\ minX (rr s0) <= c_x k /\
                        c_x k + placed_w k <= maxX (rr s0) /\ 0 < placed_w k).
  { intros j p Hin. destruct (Hsnd j p Hin) as (i & d & Hi & Hw & -> & L). cbn [Nat.add] in *.
    destruct (Hds i d Hi Hw) as (k & Hk & -> & Hkept). apply locate_sound in L as (s0 & N & Y & X0 & X1).
    cbn [dcell_of dc_x dc_y dc_w] in Y, X0, X1. rewrite (dp_width_kept _ _ Hkept) in X1.
    exists k, s0. cbn [pcell_of p_id]. split; [exact Hk|]. split; [exact Hkept|].
    split; [apply pcell_of_kept; exact Hkept|]. split; [exact N|]. repeat split; try assumption.
    eapply kept_placed_w_pos; [exact SD|eapply nth_error_In; exact Hk|exact Hkept]. }
  assert (Hrow : forall j s0, nth_error rws j = Some s0 -> chain (minX (rr s0)) (maxX (rr s0)) (row_cells asg j)).
  { intros j s0 N. pose proof (sorted_rows_shape c rh s0 SD (nth_error_In _ _ N)) as (Sh & Sx & r & Hr & Ro & Ins & Sy).
    unfold row_cells. apply sort_chain; [lia| |].
    + rewrite Forall_forall. intros p Hp. apply in_map_iff in Hp as ([j' p'] & E & Hin). cbn [snd] in E. subst p'.
      apply filter_In in Hin as [Hin Hj]. cbn [fst] in Hj. apply Nat.eqb_eq in Hj. subst j'.
      destruct (Hcell j p Hin) as (k & s' & _ & _ & -> & N' & _ & X0 & X1 & W). rewrite N in N'. injection N' as <-.
      cbn [cell_image p_x p_w]. lia.
    + apply (pwx_of_ids _ O); [apply ids_inc_filter; exact Hinc|].
      assert (Hin' : forall p, In p (map snd (filter (fun q : nat * pcell => Nat.eqb (fst q) j) asg)) -> In (j, p) asg).
      { intros p Hp. apply in_map_iff in Hp as ([j' p'] & E & Hin). cbn [snd] in E. subst p'.
        apply filter_In in Hin as [Hin Hj]. cbn [fst] in Hj. apply Nat.eqb_eq in Hj. subst j'. exact Hin. }
      intros a b Ha Hb Hne. apply Hin' in Ha, Hb.
      destruct (Hcell j a Ha) as (ka & sa & Hka & [Fa Ha'] & Ea & Na & Ya & _).
      destruct (Hcell j b Hb) as (kb & sb & Hkb & [Fb Hb'] & Eb & Nb & Yb & _).
      rewrite N in Na, Nb. injection Na as <-. injection Nb as <-.
      assert (D : disjoint_rects (placement_of ka) (placement_of kb)).
      { unfold legal in HL. rewrite HRH in HL. destruct HL as (_ & _ & Hdis). unfold movable in Hdis.
        apply (pd_filter_nth placement_of (fun k => negb (c_fixed k)) (cells c) Hdis (p_id a) (p_id b)); try assumption.
        - rewrite Fa. reflexivity.
        - rewrite Fb. reflexivity. }
      rewrite !placement_of_eq in D. unfold disjoint_rects in D. cbn [minX maxX minY maxY] in D.
      rewrite Ea, Eb. unfold xdisj. cbn [cell_image p_x p_w]. destruct SD as (Hrh & _). lia. }
  set (drs := build_rows rws 0 asg).
  assert (Hdr : forall dr, In dr drs -> exists j s0, nth_error rws j = Some s0 /\ dr = mk_drow s0 (row_cells asg j)).
  { intros dr Hdr. apply build_rows_In in Hdr as (j & s0 & N & ->). exists j, s0. split; [exact N|reflexivity]. }
  assert (F1 : forallb (fun r => no_overlap (dr_cells r)) drs = true).
  { apply forallb_forall. intros dr Hin. destruct (Hdr dr Hin) as (j & s0 & N & ->). cbn [mk_drow dr_cells].
    eapply chain_no_overlap. exact (Hrow j s0 N). }
  assert (F2 : forallb (fun r => check_chain (dr_min r) (dr_max r) (dr_cells r)) drs = true).
  { apply forallb_forall. intros dr Hin. destruct (Hdr dr Hin) as (j & s0 & N & ->). cbn [mk_drow dr_cells dr_min dr_max].
    apply chain_check_chain. exact (Hrow j s0 N). }
  assert (Es : s = {| d_rows := drs; d_loose := [] |}).
  { unfold from_circuit in Hs. destruct (rows c) as [|r0 rs] eqn:ER; [congruence|]. rewrite HRH in Hs.
    unfold construct in Hs. fold ds in Hs. fold rws in Hs. rewrite Hasg in Hs. fold drs in Hs. rewrite F1, F2 in Hs.
    cbn [negb] in Hs. destruct (negb _) in Hs; [discriminate|]. injection Hs as <-. reflexivity. }
  subst s. cbn [d_rows d_loose]. split.
  { split; cbn [d_rows d_loose]; [|constructor]. rewrite Forall_forall. intros dr Hin.
    destruct (Hdr dr Hin) as (j & s0 & N & ->). unfold row_ok. cbn [mk_drow dr_cells dr_min dr_max].
    exact (Hrow j s0 N). }
  split; [reflexivity|]. split; [apply build_rows_geom|]. split.
  - intros i k Hk Hkept.
    assert (Hi : nth_error ds i = Some (dcell_of rh k)) by (unfold ds; apply map_nth_error; exact Hk).
    destruct (Hcmp i _ Hi) as (j & Hin).
    { cbn [dcell_of dc_w]. rewrite (dp_width_kept _ _ Hkept).
      pose proof (kept_placed_w_pos c rh k SD (nth_error_In _ _ Hk) Hkept). lia. }
    cbn [Nat.add] in Hin. rewrite (pcell_of_kept _ _ _ Hkept) in Hin.
    destruct (Hcell j _ Hin) as (k' & s0 & Hk' & _ & _ & N & Y & _). cbn [cell_image p_id] in Hk'.
    rewrite Hk in Hk'. injection Hk' as <-.
    exists (mk_drow s0 (row_cells asg j)). split; [|split].
    + apply build_rows_In. exists j, s0. split; [exact N|reflexivity].
    + cbn [mk_drow dr_y]. exact Y.
    + cbn [mk_drow dr_cells]. apply row_cells_In. exact Hin.
  - intros dr p Hin Hp. destruct (Hdr dr Hin) as (j & s0 & N & ->). cbn [mk_drow dr_cells dr_y] in *.
    apply row_cells_In in Hp. destruct (Hcell j p Hp) as (k & s' & Hk & Hkept & E & N' & Y & _).
    rewrite N in N'. injection N' as <-. exists k. tauto.
Qed.

Lemma from_circuit_structure c rh s :
  std_design c rh -> legal c -> from_circuit c = DOk s ->
  Inv s /\ d_loose s = [] /\
  map row_geom (d_rows s) = map seg_geom (sort_rows (dp_rows c rh)) /\
  (forall i k, nth_error (cells c) i = Some k -> kept rh k ->
     exists dr, In dr (d_rows s) /\ dr_y dr = c_y k /\ In (cell_image i k) (dr_cells dr)) /\
  (forall dr p, In dr (d_rows s) -> In p (dr_cells dr) ->
     exists k, nth_error (cells c) (p_id p) = Some k /\ kept rh k /\ p = cell_image (p_id p) k /\ dr_y dr = c_y k).
Proof.
  intros SD HL Hs. destruct (rows c) as [|r0 rs] eqn:ER.
  - assert (EM : movable c = []) by (unfold legal, row_height in HL; rewrite ER in HL; exact HL).
    rewrite (from_circuit_norows c ER EM) in Hs. injection Hs as <-. cbn [d_rows d_loose map].
    split; [split; constructor|]. split; [reflexivity|]. split.
    + unfold dp_rows, compute_rows. rewrite ER. reflexivity.
    + split; [|intros dr p []]. intros i k Hk [Hfx _]. exfalso.
      assert (H : In k (movable c)) by (apply movable_In; split; [eapply nth_error_In; exact Hk|exact Hfx]).
      rewrite EM in H. destruct H.
  - apply from_circuit_structure_rows; try assumption. rewrite ER. discriminate.
Qed.

(* base case *)
Lemma Rel_from_circuit c rh s :
  std_design c rh -> legal c -> from_circuit c = DOk s -> Inv s /\ d_loose s = [] /\ Rel c rh s.
Proof.
  intros SD HL Hs. destruct (from_circuit_structure c rh s SD HL Hs) as (HI & Hl & Hg & Hin & Hall).
  split; [exact HI|]. split; [exact Hl|]. split; [exact Hg|]. split.
  - intros p Hp. unfold cells_of in Hp. rewrite Hl, app_nil_r in Hp. apply in_flat_map in Hp as (dr & Hdr & Hp).
    destruct (Hall dr p Hdr Hp) as (k & Hk & Hkept & E & _). exists k. rewrite E. cbn [cell_image p_id p_w p_pol p_o].
    repeat split; try assumption; try reflexivity; apply Hkept.
  - intros i k Hk Hkept. destruct (Hin i k Hk Hkept) as (dr & Hdr & _ & Hp). exists (cell_image i k).
    split; [|reflexivity]. unfold cells_of. apply in_or_app. left. apply in_flat_map. exists dr. split; assumption.
Qed.

(* unplace *)
Lemma unplace_rel c rh s id s' : Rel c rh s -> unplace s id = Some s' -> Rel c rh s'.
Proof.
  intros (Hg & Hall & Hin) U. pose proof (unplace_cells _ _ _ U) as P.
  apply unplace_spec in U as (i & r & a & m & b & _ & Hn & _ & _ & Hr & _). split; [|split].
  - rewrite Hr, (row_geom_upd _ _ _ _ Hn). exact Hg.
  - intros p Hp. apply Hall. eapply Permutation_in; [apply Permutation_sym; exact P|exact Hp].
  - intros j k Hk Hkept. destruct (Hin j k Hk Hkept) as (p & Hp & E). exists p. split; [|exact E].
    eapply Permutation_in; [exact P|exact Hp].
Qed.

(* place: the cells before and after, up to order *)
Lemma place_cells_perm s id rowi pred x s' : place s id rowi pred x = Some s' ->
  exists c r X, nth_error (d_rows s) rowi = Some r /\
    Permutation (cells_of s) (c :: X) /\
    Permutation (cells_of s')
      ({| p_id := p_id c; p_x := x; p_w := p_w c; p_pol := p_pol c;
          p_o := if orient_eqb (cell_orientation_in_row (p_pol c) (dr_o r)) oUNKNOWN then p_o c
                 else cell_orientation_in_row (p_pol c) (dr_o r) |} :: X) /\
    map row_geom (d_rows s') = map row_geom (d_rows s).
Proof.
  unfold place.
  destruct (take_loose id (d_loose s)) as [[c loose']|] eqn:T; [|discriminate].
  destruct (nth_error (d_rows s) rowi) as [r|] eqn:N; [|discriminate].
  destruct (split_site pred (dr_cells r)) as [[a b]|] eqn:S; [|discriminate].
  destruct (_ && _); [|discriminate]. intros [= <-]. unfold cells_of. cbn [d_rows d_loose].
  destruct (flat_upd _ _ _ N) as (rest & H1 & H2). apply split_site_app in S. apply take_loose_perm in T.
  exists c, r, (a ++ b ++ rest ++ loose'). split; [reflexivity|]. split; [|split].
  - eapply Permutation_trans; [apply Permutation_app; [exact H2|exact T]|]. rewrite S.
    rewrite <- !app_assoc. apply Permutation_sym. cbn [app].
    apply (Permutation_trans (l' := a ++ c :: b ++ rest ++ loose')); [apply Permutation_middle|].
    apply Permutation_app_head. rewrite !app_assoc. apply Permutation_middle.
  - eapply Permutation_trans; [apply Permutation_app_tail; apply H1|]. rewrite <- !app_assoc. cbn [app].
    apply Permutation_sym. apply Permutation_middle.
  - apply row_geom_upd. exact N.
Qed.

Lemma place_rel c rh s id rowi pred x s' :
  std_design c rh -> Rel c rh s -> place s id rowi pred x = Some s' -> Rel c rh s'.
Proof.
  intros SD HR P. pose proof HR as (Hg & Hall & Hin).
  destruct (place_cells_perm _ _ _ _ _ _ P) as (m & r & X & N & P1 & P2 & G). split; [|split].
  - rewrite G. exact Hg.
  - intros p Hp. apply (Permutation_in _ P2) in Hp. destruct Hp as [<-|Hp].
    + destruct (Hall m) as (k & Hk & Hkept & Hw & Hpol & Hany & Ht).
      { eapply Permutation_in; [apply Permutation_sym; exact P1|left; reflexivity]. }
      exists k. cbn [p_id p_w p_pol p_o]. split; [exact Hk|]. split; [exact Hkept|]. split; [exact Hw|]. split; [exact Hpol|].
      pose proof (Rel_row_not_turned c rh s r SD HR (nth_error_In _ _ N)) as Tr.
      destruct (orient_eqb (cell_orientation_in_row (p_pol m) (dr_o r)) oUNKNOWN) eqn:E; [split; assumption|].
      split.
      * intros Ha. rewrite Hpol, Ha in E. cbn in E. discriminate.
      * rewrite (turn_table (p_pol m) _ Tr).
        destruct SD as (_ & _ & _ & _ & Hmov). destruct (Hmov k) as (_ & _ & [H|H]).
        -- apply movable_In. split; [eapply nth_error_In; exact Hk|apply Hkept].
        -- symmetry. exact H.
        -- rewrite Hpol, H in E. cbn in E. discriminate.
    + apply Hall. eapply Permutation_in; [apply Permutation_sym; exact P1|right; exact Hp].
  - intros j k Hk Hkept. destruct (Hin j k Hk Hkept) as (p & Hp & E).
    apply (Permutation_in _ P1) in Hp. destruct Hp as [<-|Hp].
    + eexists. split; [eapply Permutation_in; [apply Permutation_sym; exact P2|left; reflexivity]|exact E].
    + exists p. split; [eapply Permutation_in; [apply Permutation_sym; exact P2|right; exact Hp]|exact E].
Qed.

Lemma insert_rel c rh s id rowi pred s' :
  std_design c rh -> Rel c rh s -> insert s id rowi pred = Some s' -> Rel c rh s'.
Proof.
  intros SD HR. unfold insert. destruct (can_insert s id rowi pred) as [[|]|]; try discriminate.
  destruct (find_row _ _ _) as [[[[[? ?] ?] m] ?]|]; [|discriminate].
  destruct (nth_error _ _) as [r|]; [|discriminate].
  destruct (split_site _ _) as [[sa sb]|]; [|discriminate].
  destruct (unplace s id) as [s1|] eqn:U; [|discriminate].
  intros P. eapply place_rel; [exact SD| |exact P]. eapply unplace_rel; eassumption.
Qed.

Lemma swap_rel c rh s c1 c2 s' :
  std_design c rh -> Rel c rh s -> swap s c1 c2 = Some s' -> Rel c rh s'.
Proof.
  intros SD HR. unfold swap. destruct (can_swap s c1 c2) as [[|]|]; try discriminate.
  destruct (find_row (d_rows s) c1 0) as [[[[[i1 r1] a1] m1] b1]|]; [|discriminate].
  destruct (find_row (d_rows s) c2 0) as [[[[[i2 r2] a2] m2] b2]|]; [|discriminate].
  destruct (bounds_of r1 a1 b1) as [bb1 ba1]. destruct (bounds_of r2 a2 b2) as [bb2 ba2].
  destruct (if opt_nat_eqb (pred_of a1) (Some c2) then _ else _) as [x1 x2].
  destruct (unplace s c1) as [s1|] eqn:U1; [|discriminate].
  destruct (unplace s1 c2) as [s2|] eqn:U2; [|discriminate].
  assert (R2 : Rel c rh s2) by (eapply unplace_rel; [eapply unplace_rel; eassumption|eassumption]).
  destruct (opt_nat_eqb (pred_of a1) (Some c2)).
  - destruct (place s2 c1 i2 _ x1) as [s3|] eqn:P1; [|discriminate].
    intros P2. eapply place_rel; [exact SD|eapply place_rel; eassumption|exact P2].
  - destruct (opt_nat_eqb (pred_of a2) (Some c1)).
    + destruct (place s2 c2 i1 _ x2) as [s3|] eqn:P1; [|discriminate].
      intros P2. eapply place_rel; [exact SD|eapply place_rel; eassumption|exact P2].
    + destruct (place s2 c1 i2 _ x1) as [s3|] eqn:P1; [|discriminate].
      intros P2. eapply place_rel; [exact SD|eapply place_rel; eassumption|exact P2].
Qed.

Lemma step_mop_rel c rh s o : std_design c rh -> Rel c rh s -> Rel c rh (step_mop s o).
Proof.
  intros SD HR. unfold step_mop. destruct (apply_mop s o) as [s'|] eqn:A; [|exact HR].
  destruct o; cbn [apply_mop] in A.
  - eapply swap_rel; eassumption.
  - eapply insert_rel; eassumption.
  - eapply unplace_rel; eassumption.
  - eapply place_rel; eassumption.
Qed.

(* the shift pass only changes x *)
Lemma shift_rel c rh s xs : Rel c rh s -> Rel c rh (apply_shift s xs).
Proof.
  intros (Hg & Hall & Hin). split; [|split].
  - rewrite <- Hg. unfold apply_shift. cbn [d_rows]. rewrite map_map. reflexivity.
  - intros p' Hp'. unfold cells_of, apply_shift in Hp'. cbn [d_rows d_loose] in Hp'.
    apply in_app_or in Hp' as [Hp'|Hp'].
    + apply in_flat_map in Hp' as (r' & Hr' & Hp'). apply in_map_iff in Hr' as (r & <- & Hr).
      cbn [set_cells dr_cells] in Hp'. apply in_map_iff in Hp' as (p & <- & Hp).
      destruct (Hall p) as (k & H); [unfold cells_of; apply in_or_app; left; apply in_flat_map; exists r; split; assumption|].
      exists k. exact H.
    + apply Hall. unfold cells_of. apply in_or_app. right. exact Hp'.
  - intros i k Hk Hkept. destruct (Hin i k Hk Hkept) as (p & Hp & E). unfold cells_of in Hp.
    apply in_app_or in Hp as [Hp|Hp].
    + apply in_flat_map in Hp as (r & Hr & Hp). exists (move_cell xs p). split; [|exact E].
      unfold cells_of, apply_shift. cbn [d_rows d_loose]. apply in_or_app. left. apply in_flat_map.
      exists (set_cells r (map (move_cell xs) (dr_cells r))). split; [apply in_map_iff; exists r; split; [reflexivity|exact Hr]|].
      cbn [set_cells dr_cells]. apply in_map. exact Hp.
    + exists p. split; [|exact E]. unfold cells_of, apply_shift. cbn [d_rows d_loose]. apply in_or_app. right. exact Hp.
Qed.

Lemma run_dops_rel c rh ops : forall s, std_design c rh -> Rel c rh s -> Rel c rh (run_dops s ops).
Proof.
  induction ops as [|o ops IH]; intros s SD HR; cbn [run_dops fold_left]; [exact HR|].
  apply IH; [exact SD|]. destruct o as [m|xs]; cbn [step_dop]; [apply step_mop_rel; assumption|apply shift_rel; exact HR].
Qed.

(* the row invariant along histories whose shifts satisfy the constraints *)
Lemma run_dops_inv ops : forall s, Inv s -> dshifts_ok s ops -> Inv (run_dops s ops).
Proof.
  induction ops as [|o ops IH]; intros s HI HS; cbn [run_dops fold_left]; [exact HI|].
  destruct HS as [H1 H2]. apply IH; [|exact H2].
  destruct o as [m|xs]; cbn [step_dop dop_shift_ok] in *; [apply step_inv; exact HI|apply shift_inv; assumption].
Qed.

(* ------------------------------------------------------------------ *)
(* the optimiser's own moves (swap, insert, shift) leave no cell unplaced *)
Lemma place_loose s id rowi pred x s' m l' :
  take_loose id (d_loose s) = Some (m, l') -> place s id rowi pred x = Some s' -> d_loose s' = l'.
Proof.
  intros T. unfold place. rewrite T.
  destruct (nth_error (d_rows s) rowi) as [r|]; [|discriminate].
  destruct (split_site pred (dr_cells r)) as [[a b]|]; [|discriminate].
  destruct (_ && _); [|discriminate]. intros [= <-]. reflexivity.
Qed.

Lemma insert_loose s id rowi pred s' : insert s id rowi pred = Some s' -> d_loose s' = d_loose s.
Proof.
  unfold insert. destruct (can_insert s id rowi pred) as [[|]|]; try discriminate.
  destruct (find_row _ _ _) as [[[[[? ?] ?] m] ?]|]; [|discriminate].
  destruct (nth_error _ _) as [r|]; [|discriminate].
  destruct (split_site _ _) as [[sa sb]|]; [|discriminate].
  destruct (unplace s id) as [s1|] eqn:U; [|discriminate]. intros P.
  apply unplace_spec in U as (i' & r' & a' & m' & b' & _ & _ & _ & Hid & _ & Hl).
  eapply place_loose; [|exact P]. rewrite Hl. apply take_loose_head. exact Hid.
Qed.

Lemma swap_loose s c1 c2 s' : swap s c1 c2 = Some s' -> d_loose s' = d_loose s.
Proof.
  unfold swap. destruct (can_swap s c1 c2) as [[|]|] eqn:CS; try discriminate.
  unfold can_swap in CS.
  destruct (find_row (d_rows s) c1 0) as [[[[[i1 r1] a1] m1] b1]|]; [|discriminate].
  destruct (find_row (d_rows s) c2 0) as [[[[[i2 r2] a2] m2] b2]|]; [|discriminate].
  destruct (Nat.eqb_spec c1 c2) as [|Hne]; [discriminate|]. clear CS.
  destruct (bounds_of r1 a1 b1) as [bb1 ba1]. destruct (bounds_of r2 a2 b2) as [bb2 ba2].
  destruct (if opt_nat_eqb (pred_of a1) (Some c2) then _ else _) as [x1 x2].
  destruct (unplace s c1) as [s1|] eqn:U1; [|discriminate].
  destruct (unplace s1 c2) as [s2|] eqn:U2; [|discriminate].
  apply unplace_spec in U1 as (j1 & q1 & u1 & n1 & v1 & _ & _ & _ & Hid1 & _ & Hl1).
  apply unplace_spec in U2 as (j2 & q2 & u2 & n2 & v2 & _ & _ & _ & Hid2 & _ & Hl2). rewrite Hl1 in Hl2.
  assert (T1 : take_loose c1 (d_loose s2) = Some (n1, n2 :: d_loose s)).
  { rewrite Hl2. rewrite take_loose_skip by congruence. rewrite (take_loose_head c1 n1 _ Hid1). reflexivity. }
  assert (T2 : take_loose c2 (d_loose s2) = Some (n2, n1 :: d_loose s)).
  { rewrite Hl2. apply take_loose_head. exact Hid2. }
  assert (first_c1 : forall p x p' x' s3, place s2 c1 i2 p x = Some s3 -> place s3 c2 i1 p' x' = Some s' -> d_loose s' = d_loose s).
  { intros p x p' x' s3 P1 P2. pose proof (place_loose _ _ _ _ _ _ _ _ T1 P1) as L3.
    eapply place_loose; [|exact P2]. rewrite L3. apply take_loose_head. exact Hid2. }
  destruct (opt_nat_eqb (pred_of a1) (Some c2)).
  - destruct (place s2 c1 i2 _ x1) as [s3|] eqn:P1; [|discriminate]. intros P2. eapply first_c1; eassumption.
  - destruct (opt_nat_eqb (pred_of a2) (Some c1)).
    + destruct (place s2 c2 i1 _ x2) as [s3|] eqn:P1; [|discriminate]. intros P2.
      pose proof (place_loose _ _ _ _ _ _ _ _ T2 P1) as L3.
      eapply place_loose; [|exact P2]. rewrite L3. apply take_loose_head. exact Hid1.
    + destruct (place s2 c1 i2 _ x1) as [s3|] eqn:P1; [|discriminate]. intros P2. eapply first_c1; eassumption.
Qed.

Lemma closed_step_loose s o : closed_dop o = true -> d_loose (step_dop s o) = d_loose s.
Proof.
  destruct o as [[c1 c2|c r p|c|c r p x]|xs]; cbn [closed_dop step_dop]; try discriminate; intros _.
  - unfold step_mop. cbn [apply_mop]. destruct (swap s c1 c2) as [s'|] eqn:E; [eapply swap_loose; exact E|reflexivity].
  - unfold step_mop. cbn [apply_mop]. destruct (insert s c r p) as [s'|] eqn:E; [eapply insert_loose; exact E|reflexivity].
  - reflexivity.
Qed.

Lemma closed_run_loose ops : forall s, forallb closed_dop ops = true -> d_loose (run_dops s ops) = d_loose s.
Proof.
  induction ops as [|o ops IH]; intros s; cbn [forallb run_dops fold_left]; [reflexivity|].
  intros H. apply andb_true_iff in H as [H1 H2]. fold (run_dops (step_dop s o) ops).
  rewrite (IH _ H2). apply closed_step_loose. exact H1.
Qed.

Lemma closed_dhist_allowed ops : forall s, forallb closed_dop ops = true -> dhist_allowed s ops.
Proof.
  induction ops as [|o ops IH]; intros s; cbn [forallb dhist_allowed]; [tauto|].
  intros H. apply andb_true_iff in H as [H1 H2]. split; [|apply IH; exact H2].
  destruct o as [[| | |]|]; cbn in *; try reflexivity; discriminate.
Qed.

(* ------------------------------------------------------------------ *)
(* where the structure holds a cell *)
Lemma split_at_complete id l p : In p l -> p_id p = id -> split_at id l <> None.
Proof.
  induction l as [|x t IH]; cbn [In split_at]; [tauto|]. intros [->|Hin] E.
  - rewrite E, Nat.eqb_refl. discriminate.
  - destruct (Nat.eqb (p_id x) id); [discriminate|]. specialize (IH Hin E).
    destruct (split_at id t) as [[[? ?] ?]|]; [discriminate|congruence].
Qed.

Lemma find_row_complete rows id r p : forall i0,
  In r rows -> In p (dr_cells r) -> p_id p = id -> find_row rows id i0 <> None.
Proof.
  induction rows as [|x t IH]; intros i0; cbn [In find_row]; [tauto|]. intros [->|Hr] Hp E.
  - pose proof (split_at_complete id _ p Hp E) as H. destruct (split_at id (dr_cells r)) as [[[? ?] ?]|]; [discriminate|congruence].
  - destruct (split_at id (dr_cells x)) as [[[? ?] ?]|]; [discriminate|]. apply IH; assumption.
Qed.

Lemma cells_of_placed s r p : In r (d_rows s) -> In p (dr_cells r) -> In p (cells_of s).
Proof. intros Hr Hp. unfold cells_of. apply in_or_app. left. apply in_flat_map. exists r. split; assumption. Qed.

(* everything that is known of a cell the structure holds in a row *)
Lemma found_cell c rh s i ri r a m b :
  std_design c rh -> Rel c rh s -> Inv s -> find_row (d_rows s) i 0 = Some (ri, r, a, m, b) ->
  exists k sg, nth_error (cells c) i = Some k /\ kept rh k /\
    nth_error (d_rows s) ri = Some r /\ dr_cells r = a ++ m :: b /\ p_id m = i /\
    nth_error (sort_rows (dp_rows c rh)) ri = Some sg /\
    dr_min r = minX (rr sg) /\ dr_max r = maxX (rr sg) /\ dr_y r = minY (rr sg) /\ dr_o r = ro sg /\
    minX (rr sg) <= p_x m /\ p_x m + p_w m <= maxX (rr sg) /\ 0 < p_w m /\
    p_w m = placed_w k /\ p_pol m = c_pol k /\ (c_pol k = pANY -> p_o m = c_o k) /\ is_turn (p_o m) = is_turn (c_o k).
Proof.
  intros SD (Hg & Hall & _) [HR _] F. apply find_row_spec in F as (j & -> & N & Hc & Hid). cbn [Nat.add].
  assert (Hm : In m (dr_cells r)) by (rewrite Hc; apply in_or_app; right; left; reflexivity).
  destruct (Hall m (cells_of_placed _ _ _ (nth_error_In _ _ N) Hm)) as (k & Hk & Hkept & Hw & Hpol & Hany & Ht).
  rewrite Hid in Hk.
  pose proof (map_nth_error row_geom _ _ N) as G. rewrite Hg in G. apply nth_error_map_inv in G as (sg & Hsg & E).
  unfold row_geom, seg_geom in E. injection E as E1 E2 E3 E4.
  pose proof (Forall_nth _ _ _ _ HR N) as Hok. unfold row_ok in Hok. destruct (chain_In _ _ _ _ Hok Hm) as (C1 & C2 & _).
  pose proof (kept_placed_w_pos c rh k SD (nth_error_In _ _ Hk) Hkept) as W.
  exists k, sg. repeat split; try assumption; try lia; apply Hkept.
Qed.

Lemma export_found s i k ri r a m b : c_fixed k = false -> find_row (d_rows s) i 0 = Some (ri, r, a, m, b) ->
  export_cell s i k = {| c_x := p_x m; c_y := dr_y r; c_w := c_w k; c_h := c_h k; c_o := p_o m; c_pol := c_pol k;
                         c_fixed := c_fixed k; c_obs := c_obs k |}.
Proof. intros Fx F. unfold export_cell. rewrite Fx, F. reflexivity. Qed.

(* a kept cell, when no cell is unplaced, is exported from a row *)
Lemma kept_exported c rh s i k :
  std_design c rh -> Rel c rh s -> Inv s -> d_loose s = [] -> nth_error (cells c) i = Some k -> kept rh k ->
  exists ri r a m b sg,
    find_row (d_rows s) i 0 = Some (ri, r, a, m, b) /\ dr_cells r = a ++ m :: b /\ p_id m = i /\
    nth_error (d_rows s) ri = Some r /\
    nth_error (sort_rows (dp_rows c rh)) ri = Some sg /\ dr_o r = ro sg /\
    c_x (export_cell s i k) = p_x m /\ c_y (export_cell s i k) = minY (rr sg) /\ c_o (export_cell s i k) = p_o m /\
    placement_of (export_cell s i k) =
      {| minX := p_x m; maxX := p_x m + p_w m; minY := minY (rr sg); maxY := minY (rr sg) + rh |} /\
    minX (rr sg) <= p_x m /\ p_x m + p_w m <= maxX (rr sg) /\ 0 < p_w m /\
    p_pol m = c_pol k /\ (c_pol k = pANY -> p_o m = c_o k).
Proof.
  intros SD HR HI Hl Hk Hkept. pose proof HR as (_ & _ & Hin). destruct (Hin i k Hk Hkept) as (p & Hp & Hid).
  unfold cells_of in Hp. rewrite Hl, app_nil_r in Hp. apply in_flat_map in Hp as (r0 & Hr0 & Hp).
  pose proof (find_row_complete (d_rows s) i r0 p O Hr0 Hp Hid) as F.
  destruct (find_row (d_rows s) i 0) as [[[[[ri r] a] m] b]|] eqn:EF; [|congruence]. clear F.
  destruct (found_cell c rh s i ri r a m b SD HR HI EF) as
    (k' & sg & Hk' & _ & N & Hc & Hidm & Hsg & G1 & G2 & G3 & G4 & X0 & X1 & W & Hw & Hpol & Hany & Ht).
  rewrite Hk in Hk'. injection Hk' as <-.
  exists ri, r, a, m, b, sg. destruct Hkept as [Fx Hh].
  rewrite (export_found s i k ri r a m b Fx EF). cbn [c_x c_y c_o].
  repeat split; try assumption.
  rewrite placement_of_eq. unfold placed_w, placed_h in *. cbn [c_x c_y c_w c_h c_o]. rewrite Ht, <- Hw, Hh, G3. reflexivity.
Qed.

(* a movable cell that is not kept is not in the structure *)
Lemma not_kept_absent c rh s i k :
  std_design c rh -> Rel c rh s -> Inv s -> nth_error (cells c) i = Some k -> ~ kept rh k ->
  find_row (d_rows s) i 0 = None.
Proof.
  intros SD HR HI Hk Hn. destruct (find_row (d_rows s) i 0) as [[[[[ri r] a] m] b]|] eqn:EF; [|reflexivity].
  destruct (found_cell c rh s i ri r a m b SD HR HI EF) as (k' & sg & Hk' & Hkept & _).
  rewrite Hk in Hk'. injection Hk' as <-. contradiction.
Qed.

(* ------------------------------------------------------------------ *)
(* the segments the structure works on, against the circuit *)
Lemma dp_obstacles_intro rh cs k :
  In k cs -> c_fixed k = false -> placed_h k <> rh -> In (placement_of k) (dp_obstacles rh cs).
Proof.
  intros Hk Fx Hh. unfold dp_obstacles. apply in_flat_map. exists k. split; [exact Hk|]. rewrite Fx.
  destruct (Z.eqb_spec (placed_h k) rh); [contradiction|]. left. reflexivity.
Qed.

Lemma seg_as_interval r obs sg : In sg (freespace_rows r obs) ->
  In (minX (rr sg), maxX (rr sg)) (freespace_iv (rr r) obs) /\ minY (rr sg) = minY (rr r) /\ maxY (rr sg) = maxY (rr r).
Proof.
  unfold freespace_rows. intros H. apply in_map_iff in H as ([a b] & <- & Hin). cbn [rr minX maxX minY maxY fst snd]. tauto.
Qed.

(* a segment of the structure (rows minus fixed obstructions minus off-height movable cells) lies
   inside ONE free segment of the C15 model (rows minus fixed obstructions) *)
Lemma seg_in_free c rh sg : std_design c rh -> In sg (dp_rows c rh) ->
  exists fs, In fs (free_rows c) /\ minY (rr fs) = minY (rr sg) /\ maxY (rr fs) = maxY (rr sg) /\
             minX (rr fs) <= minX (rr sg) /\ maxX (rr sg) <= maxX (rr fs).
Proof.
  intros (Hrh & Hheight & _) Hsg. apply dp_rows_In in Hsg as (r & Hr & Hsg).
  pose proof (freespace_rows_shape _ _ _ Hsg) as (S1 & S2 & S3 & S4 & S5 & S6).
  apply seg_as_interval in Hsg as (Hiv & _ & _). pose proof (Hheight r Hr) as Hh.
  destruct (freespace_covers (rr r) (obstacles_of [] (fixed_cells c)) (minX (rr sg)) (maxX (rr sg))) as (a & b & Hab & Ha & Hb);
    try lia.
  { intros o Ho B. eapply covers_clear; [exists (minX (rr sg)), (maxX (rr sg)); split; [exact Hiv|lia]|exact S5| |exact B].
    unfold obstacles_of in *. cbn [app] in Ho. apply in_or_app. right. exact Ho. }
  exists {| rr := {| minX := a; maxX := b; minY := minY (rr r); maxY := maxY (rr r) |}; ro := ro r |}.
  cbn [rr minX maxX minY maxY]. split; [|lia].
  unfold free_rows, compute_rows. apply in_flat_map. exists r. split; [exact Hr|].
  unfold freespace_rows. apply in_map_iff. exists (a, b). split; [reflexivity|exact Hab].
Qed.

(* ... and is clear of every movable cell that is not one row high *)
Lemma seg_clear_of_offheight c rh sg k : std_design c rh -> In sg (dp_rows c rh) ->
  In k (cells c) -> c_fixed k = false -> placed_h k <> rh -> disjoint_rects (rr sg) (placement_of k).
Proof.
  intros (Hrh & Hheight & _ & _ & Hmov) Hsg Hk Fx Hh. apply dp_rows_In in Hsg as (r & Hr & Hsg).
  pose proof (freespace_rows_shape _ _ _ Hsg) as (S1 & S2 & S3 & S4 & S5 & S6).
  apply seg_as_interval in Hsg as (Hiv & _ & _).
  destruct (Hmov k) as (Wk & (n & Hn & Hnh) & _); [apply movable_In; tauto|].
  destruct (blocks (rr r) (placement_of k)) eqn:B.
  - destruct (covers_clear (rr r) (obstacles_of (dp_obstacles rh (cells c)) (fixed_cells c))
                           (minX (rr sg)) (maxX (rr sg)) (placement_of k)) as [H|H]; try exact B; try exact S5.
    + exists (minX (rr sg)), (maxX (rr sg)). split; [exact Hiv|lia].
    + unfold obstacles_of. apply in_or_app. left. apply dp_obstacles_intro; assumption.
    + unfold disjoint_rects. lia.
    + unfold disjoint_rects. lia.
  - unfold blocks in B. unfold disjoint_rects.
    destruct (Z.ltb_spec (minX (placement_of k)) (maxX (placement_of k))); [|lia].
    destruct (Z.ltb_spec (minY (placement_of k)) (maxY (placement_of k))); [|nia].
    destruct (Z.ltb_spec (minY (placement_of k)) (maxY (rr r))); [|lia].
    destruct (Z.ltb_spec (minY (rr r)) (maxY (placement_of k))); [discriminate|lia].
Qed.

(* two different segments are disjoint *)
Lemma segs_disjoint c rh i j si sj : std_design c rh -> i <> j ->
  nth_error (sort_rows (dp_rows c rh)) i = Some si -> nth_error (sort_rows (dp_rows c rh)) j = Some sj ->
  disjoint_rects (rr si) (rr sj).
Proof.
  intros (_ & _ & Hpd & _) Hne Hi Hj.
  apply (pd_nth (map rr (sort_rows (dp_rows c rh))) i j); [apply pd_sort; apply dp_rows_pd; exact Hpd|exact Hne| |];
    apply map_nth_error; assumption.
Qed.

Lemma seg_shape c rh sg i : std_design c rh -> nth_error (sort_rows (dp_rows c rh)) i = Some sg ->
  In sg (dp_rows c rh) /\ maxY (rr sg) = minY (rr sg) + rh /\
  exists r, In r (rows c) /\ ro sg = ro r /\ inside (rr sg) (rr r) /\ minY (rr sg) = minY (rr r).
Proof.
  intros SD H. apply nth_error_In in H. destruct (sorted_rows_shape c rh sg SD H) as (A & _ & B).
  split; [apply sort_rows_In; exact H|]. split; [lia|exact B].
Qed.

(* ------------------------------------------------------------------ *)
(* the exposed placement is legal *)
Lemma cell_legal_write_back c s rh k : cell_legal c rh k -> cell_legal (write_back c s) rh k.
Proof. unfold cell_legal. rewrite write_back_free_rows. intros H. exact H. Qed.

Lemma kept_dec rh k : {kept rh k} + {~ kept rh k}.
Proof.
  unfold kept. destruct (c_fixed k); [right; intros [H _]; discriminate|].
  destruct (Z.eq_dec (placed_h k) rh); [left; tauto|right; tauto].
Qed.

Lemma exported_kept_legal c rh s i k :
  std_design c rh -> Rel c rh s -> Inv s -> d_loose s = [] -> nth_error (cells c) i = Some k -> kept rh k ->
  cell_legal (write_back c s) rh (export_cell s i k).
Proof.
  intros SD HR HI Hl Hk Hkept.
  destruct (kept_exported c rh s i k SD HR HI Hl Hk Hkept) as
    (ri & r & a & m & b & sg & _ & _ & _ & _ & Hsg & _ & _ & _ & _ & Pl & X0 & X1 & W & _).
  destruct (seg_shape c rh sg ri SD Hsg) as (Hin & Hy & r0 & Hr0 & _ & _ & Y0).
  destruct (seg_in_free c rh sg SD Hin) as (fs & Hfs & F1 & F2 & F3 & F4).
  unfold cell_legal. cbn zeta. rewrite Pl. cbn [minX maxX minY maxY]. split; [lia|].
  exists 1%nat. split; [lia|]. split; [lia|]. split.
  - exists r0. split; [exact Hr0|]. symmetry. exact Y0.
  - intros j Hj. assert (j = O) by lia. subst j. unfold strip_in_segment. rewrite write_back_free_rows.
    exists fs. cbn [minX maxX minY maxY]. split; [exact Hfs|]. lia.
Qed.

Lemma exported_kept_vs_offheight c rh s i k k2 :
  std_design c rh -> Rel c rh s -> Inv s -> d_loose s = [] -> nth_error (cells c) i = Some k -> kept rh k ->
  In k2 (cells c) -> c_fixed k2 = false -> ~ kept rh k2 ->
  disjoint_rects (placement_of (export_cell s i k)) (placement_of k2).
Proof.
  intros SD HR HI Hl Hk Hkept Hk2 Fx2 Hn2.
  destruct (kept_exported c rh s i k SD HR HI Hl Hk Hkept) as
    (ri & r & a & m & b & sg & _ & _ & _ & _ & Hsg & _ & _ & _ & _ & Pl & X0 & X1 & W & _).
  destruct (seg_shape c rh sg ri SD Hsg) as (Hin & Hy & _).
  assert (Hh : placed_h k2 <> rh) by (intros E; apply Hn2; split; assumption).
  pose proof (seg_clear_of_offheight c rh sg k2 SD Hin Hk2 Fx2 Hh) as D.
  rewrite Pl. unfold disjoint_rects in *. cbn [minX maxX minY maxY]. lia.
Qed.

Lemma exported_kept_vs_kept c rh s i j ki kj :
  std_design c rh -> Rel c rh s -> Inv s -> d_loose s = [] -> i <> j ->
  nth_error (cells c) i = Some ki -> kept rh ki -> nth_error (cells c) j = Some kj -> kept rh kj ->
  disjoint_rects (placement_of (export_cell s i ki)) (placement_of (export_cell s j kj)).
Proof.
  intros SD HR HI Hl Hne Hki Ki Hkj Kj.
  destruct (kept_exported c rh s i ki SD HR HI Hl Hki Ki) as
    (ri & r & a & m & b & sg & _ & Hc & Hid & N & Hsg & _ & _ & _ & _ & Pl & X0 & X1 & W & _).
  destruct (kept_exported c rh s j kj SD HR HI Hl Hkj Kj) as
    (rj & r' & a' & m' & b' & sg' & _ & Hc' & Hid' & N' & Hsg' & _ & _ & _ & _ & Pl' & X0' & X1' & W' & _).
  rewrite Pl, Pl'. unfold disjoint_rects. cbn [minX maxX minY maxY].
  destruct (Nat.eq_dec ri rj) as [E|E].
  - subst rj. rewrite N in N'. injection N' as <-. rewrite Hsg in Hsg'. injection Hsg' as <-.
    destruct HI as [HRows _]. pose proof (Forall_nth _ _ _ _ HRows N) as Hok. unfold row_ok in Hok.
    assert (Na : nth_error (dr_cells r) (length a) = Some m).
    { rewrite Hc, nth_error_app2 by lia. rewrite Nat.sub_diag. reflexivity. }
    assert (Na' : nth_error (dr_cells r) (length a') = Some m').
    { rewrite Hc', nth_error_app2 by lia. rewrite Nat.sub_diag. reflexivity. }
    destruct (Nat.lt_total (length a) (length a')) as [L|[L|L]].
    + pose proof (chain_ordered _ _ _ _ _ _ _ Hok L Na Na'). lia.
    + rewrite L in Na. rewrite Na in Na'. injection Na' as <-. congruence.
    + pose proof (chain_ordered _ _ _ _ _ _ _ Hok L Na' Na). lia.
  - pose proof (segs_disjoint c rh ri rj sg sg' SD E Hsg Hsg') as D.
    destruct (seg_shape c rh sg ri SD Hsg) as (_ & Hy & _). destruct (seg_shape c rh sg' rj SD Hsg') as (_ & Hy' & _).
    unfold disjoint_rects in D. lia.
Qed.

Lemma exposed_legal c rh s :
  std_design c rh -> legal c -> Rel c rh s -> Inv s -> d_loose s = [] -> legal (write_back c s).
Proof.
  intros SD HL HR HI Hl. unfold legal. rewrite write_back_row_height.
  destruct (rows c) as [|r0 rs] eqn:ER.
  - unfold legal, row_height in *. rewrite ER in *.
    destruct (movable (write_back c s)) as [|k' t] eqn:EM; [reflexivity|]. exfalso.
    destruct (write_back_movable c s k') as (i & k & Hk & Fx & _); [rewrite EM; left; reflexivity|].
    assert (H : In k (movable c)) by (apply movable_In; split; [eapply nth_error_In; exact Hk|exact Fx]).
    rewrite HL in H. destruct H.
  - assert (HRH : row_height c = Some rh).
    { destruct SD as (_ & Hheight & _). apply row_height_uniform; [rewrite ER; discriminate|exact Hheight]. }
    unfold legal in HL. rewrite HRH in *. destruct HL as (Hrh & Hleg & Hdis). split; [exact Hrh|]. split.
    + intros k' Hk'. destruct (write_back_movable c s k' Hk') as (i & k & Hk & Fx & ->).
      destruct (kept_dec rh k) as [Kk|Nk].
      * apply (exported_kept_legal c rh s i k); assumption.
      * rewrite (export_cell_absent s i k (not_kept_absent c rh s i k SD HR HI Hk Nk)).
        apply cell_legal_write_back. apply Hleg. apply movable_In. split; [eapply nth_error_In; exact Hk|exact Fx].
    + unfold movable. apply pd_filter_of_nth. intros i j a b Hij Hi Hj Ga Gb.
      apply write_back_nth in Hi as (ki & Hki & ->). apply write_back_nth in Hj as (kj & Hkj & ->).
      apply negb_true_iff in Ga, Gb.
      destruct (export_cell_frame s i ki) as (_ & _ & _ & Ei & _). destruct (export_cell_frame s j kj) as (_ & _ & _ & Ej & _).
      rewrite Ei in Ga. rewrite Ej in Gb.
      destruct (kept_dec rh ki) as [Ki|Ni], (kept_dec rh kj) as [Kj|Nj].
      * apply (exported_kept_vs_kept c rh s i j ki kj); try assumption. lia.
      * rewrite (export_cell_absent s j kj (not_kept_absent c rh s j kj SD HR HI Hkj Nj)).
        apply (exported_kept_vs_offheight c rh s i ki kj); try assumption. eapply nth_error_In; exact Hkj.
      * rewrite (export_cell_absent s i ki (not_kept_absent c rh s i ki SD HR HI Hki Ni)).
        apply disjoint_rects_sym.
        apply (exported_kept_vs_offheight c rh s j kj ki); try assumption. eapply nth_error_In; exact Hki.
      * rewrite (export_cell_absent s i ki (not_kept_absent c rh s i ki SD HR HI Hki Ni)).
        rewrite (export_cell_absent s j kj (not_kept_absent c rh s j kj SD HR HI Hkj Nj)).
        unfold movable in Hdis.
        apply (pd_filter_nth placement_of (fun k => negb (c_fixed k)) (cells c) Hdis i j); try assumption; try lia.
Qed.

(* C02, main: every state reachable from the structure of a legal circuit by a history of moves and of
   shift passes satisfying their constraints, in which no cell is left unplaced, exports a legal circuit *)
Theorem write_back_legal c rh s ops :
  std_design c rh -> legal c -> from_circuit c = DOk s ->
  dshifts_ok s ops -> d_loose (run_dops s ops) = [] ->
  legal (write_back c (run_dops s ops)).
Proof.
  intros SD HL Hs HS Hl. destruct (Rel_from_circuit c rh s SD HL Hs) as (HI & _ & HR).
  apply (exposed_legal c rh); try assumption.
  - apply run_dops_rel; assumption.
  - apply run_dops_inv; assumption.
Qed.

(* the optimiser's own moves: swaps, inserts and shifts with arbitrary arguments *)
Theorem write_back_legal_closed c rh s ops :
  std_design c rh -> legal c -> from_circuit c = DOk s ->
  forallb closed_dop ops = true -> dshifts_ok s ops ->
  legal (write_back c (run_dops s ops)).
Proof.
  intros SD HL Hs HC HS. apply (write_back_legal c rh s ops); try assumption.
  rewrite (closed_run_loose ops s HC). destruct (Rel_from_circuit c rh s SD HL Hs) as (_ & Hl & _). exact Hl.
Qed.

(* ------------------------------------------------------------------ *)
(* C02, frame: what the structure does not hold is not touched -- for EVERY history (no hypothesis on
   the shifts, cells may be unplaced) *)
Lemma found_is_kept c rh s i ri r a m b :
  Rel c rh s -> find_row (d_rows s) i 0 = Some (ri, r, a, m, b) -> exists k, nth_error (cells c) i = Some k /\ kept rh k.
Proof.
  intros (_ & Hall & _) F. apply find_row_spec in F as (j & _ & N & Hc & Hid).
  assert (Hm : In m (dr_cells r)) by (rewrite Hc; apply in_or_app; right; left; reflexivity).
  destruct (Hall m (cells_of_placed _ _ _ (nth_error_In _ _ N) Hm)) as (k & Hk & Hkept & _).
  rewrite Hid in Hk. exists k. split; assumption.
Qed.

Lemma export_not_kept c rh s i k :
  Rel c rh s -> nth_error (cells c) i = Some k -> (c_fixed k = true \/ placed_h k <> rh) -> export_cell s i k = k.
Proof.
  intros HR Hk [Fx|Hh]; [apply export_cell_fixed; exact Fx|]. apply export_cell_absent.
  destruct (find_row (d_rows s) i 0) as [[[[[ri r] a] m] b]|] eqn:F; [|reflexivity].
  destruct (found_is_kept c rh s i ri r a m b HR F) as (k' & Hk' & [_ Hh']). rewrite Hk in Hk'. injection Hk' as <-. contradiction.
Qed.

Lemma map_from_same_frame s l : forall i0, Forall2 same_frame l (map_from (export_cell s) i0 l).
Proof.
  induction l as [|k t IH]; intros i0; cbn [map_from]; constructor; [|apply IH].
  destruct (export_cell_frame s i0 k) as (A & B & C & D & E). unfold same_frame.
  repeat split; try (symmetry; assumption). intros Fx. symmetry. apply export_cell_fixed. exact Fx.
Qed.

Theorem write_back_frame c rh s ops :
  std_design c rh -> legal c -> from_circuit c = DOk s ->
  rows (write_back c (run_dops s ops)) = rows c /\
  Forall2 same_frame (cells c) (cells (write_back c (run_dops s ops))) /\
  (forall i k, nth_error (cells c) i = Some k -> (c_fixed k = true \/ placed_h k <> rh) ->
               nth_error (cells (write_back c (run_dops s ops))) i = Some k).
Proof.
  intros SD HL Hs. split; [reflexivity|]. split; [apply map_from_same_frame|].
  intros i k Hk Hn. rewrite (write_back_nth_fwd c _ i k Hk). f_equal.
  apply (export_not_kept c rh); try assumption.
  apply run_dops_rel; [exact SD|]. exact (proj2 (proj2 (Rel_from_circuit c rh s SD HL Hs))).
Qed.

(* successive exports into the same circuit: the last one wins (the C++ exports into circuit_ at every
   callback; what a callback sees is write_back of the ORIGINAL circuit by the current state) *)
Lemma write_back_overwrites c rh s1 s2 :
  Rel c rh s1 -> Rel c rh s2 -> d_loose s2 = [] -> write_back (write_back c s1) s2 = write_back c s2.
Proof.
  intros R1 R2 Hl. unfold write_back at 1 3. cbn [rows]. f_equal. cbn [write_back cells].
  assert (G : forall l i0, (forall j k, nth_error l j = Some k -> nth_error (cells c) (i0 + j) = Some k) ->
              map_from (export_cell s2) i0 (map_from (export_cell s1) i0 l) = map_from (export_cell s2) i0 l).
  { induction l as [|k t IH]; intros i0 H; cbn [map_from]; [reflexivity|]. f_equal.
    - pose proof (H O k eq_refl) as Hk. rewrite Nat.add_0_r in Hk.
      destruct (export_cell_frame s1 i0 k) as (A & B & C & D & E).
      destruct (c_fixed k) eqn:Fx; [rewrite (export_cell_fixed s1 i0 k Fx); reflexivity|].
      unfold export_cell at 1 3. rewrite D, Fx.
      destruct (find_row (d_rows s2) i0 0) as [[[[[ri r] a] m] b]|] eqn:F; [rewrite A, B, C, E; reflexivity|].
      apply (export_not_kept c rh s1 i0 k R1 Hk). right. intros Hh.
      destruct R2 as (_ & _ & Hin). destruct (Hin i0 k Hk (conj Fx Hh)) as (p & Hp & Hid).
      unfold cells_of in Hp. rewrite Hl, app_nil_r in Hp. apply in_flat_map in Hp as (r0 & Hr0 & Hp).
      exact (find_row_complete (d_rows s2) i0 r0 p O Hr0 Hp Hid F).
    - apply IH. intros j k' Hj. replace (S i0 + j)%nat with (i0 + S j)%nat by lia. apply H. exact Hj. }
  apply G. intros j k Hj. exact Hj.
Qed.

(* ------------------------------------------------------------------ *)
(* C04: the exposed circuit carries the prescribed orientations *)
Lemma combine_In_nth {A B} (l : list A) (l' : list B) a b :
  In (a, b) (combine l l') -> exists i, nth_error l i = Some a /\ nth_error l' i = Some b.
Proof.
  revert l'. induction l as [|x l IH]; intros [|y l']; cbn [combine In]; try tauto.
  intros [[= <- <-]|H]; [exists O; split; reflexivity|]. apply IH in H as (i & H1 & H2). exists (S i). split; assumption.
Qed.

Lemma find_exists {A} (f : A -> bool) l x : In x l -> f x = true -> exists y, find f l = Some y.
Proof.
  induction l as [|a t IH]; cbn [In find]; [tauto|]. intros [->|H] Fx.
  - rewrite Fx. eexists; reflexivity.
  - destruct (f a); [eexists; reflexivity|apply IH; assumption].
Qed.

Lemma prescribed_of_table p r :
  p <> pANY -> r <> oUNKNOWN -> cell_orientation_in_row p r <> oINVALID ->
  prescribed p r = Some (Some (cell_orientation_in_row p r)) /\ cell_orientation_in_row p r <> oUNKNOWN.
Proof. destruct p, r; cbn; intros H1 H2 H3; try congruence; split; try reflexivity; discriminate. Qed.

Lemma exposed_orient_ok before c rh s :
  std_design c rh -> (forall r, In r (rows c) -> ro r <> oUNKNOWN) -> orient_ok before c ->
  Rel c rh s -> Inv s -> OInvM s -> d_loose s = [] -> orient_ok before (write_back c s).
Proof.
  intros SD HU [Hlen HO] HR HI HOI Hl. split; [cbn [write_back cells]; rewrite map_from_length; exact Hlen|].
  intros b a' Hin. apply combine_In_nth in Hin as (i & Hb & Ha). apply write_back_nth in Ha as (k & Hk & ->).
  pose proof (HO b k (combine_nth_In _ _ _ _ _ Hb Hk)) as Hck.
  destruct (export_cell_frame s i k) as (_ & _ & Epol & Efx & _).
  destruct (kept_dec rh k) as [Kk|Nk].
  2:{ rewrite (export_cell_absent s i k (not_kept_absent c rh s i k SD HR HI Hk Nk)). exact Hck. }
  intros Fx. rewrite Efx in Fx. specialize (Hck Fx). rewrite Epol.
  destruct (kept_exported c rh s i k SD HR HI Hl Hk Kk) as
    (ri & r & a & m & b0 & sg & _ & Hc & _ & N & Hsg & Ro & Ex & Ey & Eo & _ & X0 & X1 & W & Hpol & Hany).
  split.
  - intros Ha. rewrite Eo, (Hany Ha). apply (proj1 Hck). exact Ha.
  - intros Hna. destruct (seg_shape c rh sg ri SD Hsg) as (_ & _ & r0 & Hr0 & Ror & Ins & Y0). unfold inside in Ins.
    set (f := fun r1 : row => (minY (rr r1) =? c_y (export_cell s i k)) && (minX (rr r1) <=? c_x (export_cell s i k))
                              && (c_x (export_cell s i k) <? maxX (rr r1))).
    assert (F0 : f r0 = true).
    { unfold f. rewrite Ex, Ey. apply andb_true_iff. split; [apply andb_true_iff; split|];
        [apply Z.eqb_eq|apply Z.leb_le|apply Z.ltb_lt]; lia. }
    destruct (find_exists f (rows c) r0 Hr0 F0) as (r1 & F1).
    assert (r1 = r0).
    { apply find_some in F1 as [Hr1 B1]. unfold f in B1. rewrite Ex, Ey in B1.
      apply andb_true_iff in B1 as [B1 B3]. apply andb_true_iff in B1 as [B1 B2].
      apply Z.eqb_eq in B1. apply Z.leb_le in B2. apply Z.ltb_lt in B3.
      destruct SD as (Hrh & Hheight & Hpd & _).
      eapply (rows_point_unique (rows c) rh (p_x m) (minY (rr sg))); try eassumption; try lia. }
    subst r1.
    assert (Hm : In m (dr_cells r)) by (rewrite Hc; apply in_or_app; right; left; reflexivity).
    pose proof (OInvM_reads s r m HOI (nth_error_In _ _ N) Hm) as Hco. unfold cell_o_ok in Hco.
    rewrite Ro, Ror, Hpol in Hco.
    assert (NI : cell_orientation_in_row (c_pol k) (ro r0) <> oINVALID).
    { intros E. rewrite E in Hco. destruct Hco as [_ Hco]; [discriminate|]. apply Hco. reflexivity. }
    destruct (prescribed_of_table (c_pol k) (ro r0) Hna (HU r0 Hr0) NI) as [P NU].
    destruct (Hco NU) as [Hpo _].
    exists r0, (cell_orientation_in_row (c_pol k) (ro r0)). split; [exact F1|]. split; [exact P|].
    split; [rewrite Eo; exact Hpo|exact NI].
Qed.

Theorem write_back_orient_ok before c rh s ops :
  std_design c rh -> (forall r, In r (rows c) -> ro r <> oUNKNOWN) -> legal c -> orient_ok before c ->
  from_circuit c = DOk s -> dshifts_ok s ops -> dhist_allowed s ops -> d_loose (run_dops s ops) = [] ->
  orient_ok before (write_back c (run_dops s ops)).
Proof.
  intros SD HU HL HO Hs HS HA Hl.
  destruct (Rel_from_circuit c rh s SD HL Hs) as (HI & _ & HR).
  destruct (from_circuit_after_legalization before c rh SD HL HO) as (s0 & Hs0 & _ & HOI).
  rewrite Hs in Hs0. injection Hs0 as <-.
  apply (exposed_orient_ok before c rh); try assumption.
  - apply run_dops_rel; assumption.
  - apply run_dops_inv; assumption.
  - apply run_dops_oinv; assumption.
Qed.

Theorem write_back_orient_ok_closed before c rh s ops :
  std_design c rh -> (forall r, In r (rows c) -> ro r <> oUNKNOWN) -> legal c -> orient_ok before c ->
  from_circuit c = DOk s -> forallb closed_dop ops = true -> dshifts_ok s ops ->
  orient_ok before (write_back c (run_dops s ops)).
Proof.
  intros SD HU HL HO Hs HC HS. apply (write_back_orient_ok before c rh s ops); try assumption.
  - apply closed_dhist_allowed. exact HC.
  - rewrite (closed_run_loose ops s HC).
    exact (proj1 (proj2 (Rel_from_circuit c rh s SD HL Hs))).
Qed.

(* successive exports along a run: exporting the state after ops2 into the circuit that already
   received the state after ops1 gives the same circuit as exporting into the original one *)
Theorem write_back_twice c rh s ops1 ops2 :
  std_design c rh -> legal c -> from_circuit c = DOk s -> d_loose (run_dops s ops2) = [] ->
  write_back (write_back c (run_dops s ops1)) (run_dops s ops2) = write_back c (run_dops s ops2).
Proof.
  intros SD HL Hs Hl. pose proof (proj2 (proj2 (Rel_from_circuit c rh s SD HL Hs))) as HR.
  apply (write_back_overwrites c rh); [apply run_dops_rel; assumption|apply run_dops_rel; assumption|exact Hl].
Qed.

(* the hypothesis "no cell is left unplaced" cannot be dropped: between an unplace and the matching
   place the structure does not describe a placement (the C++ never exports there) *)
Example write_back_unplaced_refuted :
  exists s, from_circuit ex_dinit = DOk s /\
    d_loose (run_dops s [DMop (MUnplace 1); DMop (MInsert 5 0 None)]) <> [] /\
    legalb (write_back ex_dinit (run_dops s [DMop (MUnplace 1); DMop (MInsert 5 0 None)])) = false.
Proof. eexists. split; [vm_compute; reflexivity|]. split; [vm_compute; discriminate|vm_compute; reflexivity]. Qed.

(* everything together, in the form of the property: after legalization (legal c, orient_ok before c)
   fromIspdCircuit does not fail, and whatever the optimiser then does with swaps, inserts and shift
   passes (arbitrary arguments; shift passes satisfying their constraints), the circuit it exposes is
   legal, has the cells it does not optimise exactly where legalization put them, and -- when the rows
   have a known orientation -- carries the prescribed orientations *)
Theorem detailed_exposes_legal before c rh :
  std_design c rh -> legal c -> orient_ok before c ->
  exists s, from_circuit c = DOk s /\
    forall ops, forallb closed_dop ops = true -> dshifts_ok s ops ->
      legal (write_back c (run_dops s ops)) /\
      (forall i k, nth_error (cells c) i = Some k -> (c_fixed k = true \/ placed_h k <> rh) ->
                   nth_error (cells (write_back c (run_dops s ops))) i = Some k) /\
      ((forall r, In r (rows c) -> ro r <> oUNKNOWN) -> orient_ok before (write_back c (run_dops s ops))).
Proof.
  intros SD HL HO.
  destruct (from_circuit_after_legalization before c rh SD HL HO) as (s & Hs & _). exists s. split; [exact Hs|].
  intros ops HC HS. split; [|split].
  - apply (write_back_legal_closed c rh); assumption.
  - exact (proj2 (proj2 (write_back_frame c rh s ops SD HL Hs))).
  - intros HU. apply (write_back_orient_ok_closed before c rh); assumption.
Qed.

Print Assumptions write_back_legal.
Print Assumptions detailed_exposes_legal.
Print Assumptions write_back_legal_closed.
Print Assumptions write_back_frame.
Print Assumptions write_back_twice.
Print Assumptions write_back_orient_ok.
Print Assumptions write_back_orient_ok_closed.
