(* C05 -- detailed placement never worsens wirelength.
   Models: Optimiser.v (accept/reject logic of bestSwap / bestInsert / bestSwapUpdate and of
   RowReordering over the incremental wirelength model of Hpwl.v), tied to /repo by ./check C05
   (exact replay of every best-move call of DetailedPlacer with the implementation's candidates;
   value() against the from-scratch wirelength after every optimiser pass; Circuit::hpwl() at
   every Detailed callback). *)
From Coq Require Import List ZArith Lia Bool.
Import ListNotations.
Require Import CV.Orient CV.Hpwl CV.HpwlProofs CV.HpwlFoldProofs CV.Optimiser CV.OptimiserProofs.
Require Import CV.Moves CV.MovesProofs CV.ShiftLp CV.ShiftLpProofs.
Local Open Scope Z_scope.

(* [F] valueOnSwap / valueOnInsert: the value returned is the value at the candidate
   positions and the evaluation leaves positions and value exactly as they were, for every
   state reachable from a freshly built model and every candidate *)
Theorem c05_evaluation_is_pure : forall s ms, OInv s ->
  let r := value_on s ms in
  fst r = ovalue (set_many s ms) /\ OInv (snd r) /\ same_nets (snd r) s /\ same_pos (snd r) s /\ ovalue (snd r) = ovalue s.
Proof. exact value_on_pure. Qed.

(* [F] bestSwap / bestInsert / bestSwapUpdate, for EVERY list of candidates (feasible or not):
   a move that is performed strictly decreases the optimised value; when none is performed
   value and positions are unchanged *)
Theorem c05_accepted_move_decreases : forall s cands, OInv s ->
  let r := best_move s cands in
  OInv (fst r) /\ same_nets (fst r) s /\
  (snd r = true -> ovalue (fst r) < ovalue s) /\
  (snd r = false -> ovalue (fst r) = ovalue s /\ same_pos (fst r) s).
Proof. exact best_move_decreases. Qed.

(* [F] row reordering, for every enumeration of leaves that assign the reordered cells: either a
   strictly better order is written back, or nothing changes (positions restored) *)
Theorem c05_reordering_decreases : forall s cs leaves, OInv s -> Forall (leaf_ok cs) leaves ->
  let r := reorder s cs leaves in
  OInv (fst r) /\ same_nets (fst r) s /\
  (snd r = true -> ovalue (fst r) < ovalue s) /\
  (snd r = false -> ovalue (fst r) = ovalue s /\ same_pos (fst r) s).
Proof. exact reorder_decreases. Qed.

(* [F] along ANY history of such steps the optimised value never increases *)
Theorem c05_history_monotone : forall os s, OInv s -> Forall ostep_ok os ->
  OInv (osteps_run s os) /\ ovalue (osteps_run s os) <= ovalue s.
Proof. exact history_monotone. Qed.

(* [F] the optimised value is the geometric one: the sum over nets of the x-extent and of the
   y-extent of the pin positions (C09), in every state satisfying the invariant *)
Theorem c05_value_is_extent_sum : forall s, OInv s ->
  ovalue s = fold_right (fun net a => extent (map (ipin_pos (ipos (ox s))) net) + a) 0 (inets (ox s))
           + fold_right (fun net a => extent (map (ipin_pos (ipos (oy s))) net) + a) 0 (inets (oy s)).
Proof.
  intros s Hs. rewrite (ovalue_scratch s Hs). cbn [incr_build ivalue]. rewrite !sum_widths_map. reflexivity.
Qed.

(* [F] at construction (DetailedPlacer's constructor builds the x and the y model over all cells of
   the circuit, pin offsets taken with the orientations of that moment) the optimised value IS
   Circuit::hpwl of the circuit (the Z-valued model Hpwl.hpwl; under the hypothesis `bounded` on the pin
   positions of every net -- the sentinel loops need it; the int arithmetic of `max-min` / `value_ +=` in the
   C++ is not part of this statement), and the state satisfies the invariant the theorems above need *)
Theorem c05_initial_value_is_hpwl : forall cells nets subset,
  (forall net, In net nets -> bounded (map (pin_px cells) net) /\ bounded (map (pin_py cells) net)) ->
  let s := {| ox := circuit_topology true cells nets subset; oy := circuit_topology false cells nets subset |} in
  OInv s /\ ovalue s = hpwl cells nets.
Proof.
  intros cells nets subset Hb. cbn zeta. split.
  - split; unfold circuit_topology, topology; apply build_inv.
  - unfold ovalue. cbn [ox oy]. apply circuit_value_is_hpwl. exact Hb.
Qed.

(* ---------- the shift pass (DetailedPlacer::runShiftsOnCells) ----------
   The C++ builds a min-cost-flow network (ShiftLp.shift_net: positional arcs from the row structure, one pair
   of arcs per pin of every net touching a selected cell, supplies +1/-1 at the U/L node of these nets), has
   lemon's NetworkSimplex solve it, and writes  x[c] = potential(c) - potential(fixed).  The simplex is not
   modelled; its answer (potentials + arc flows) is CERTIFIED: ShiftLp.shift_cert_ok checks dual feasibility
   (all reduced costs cost + pi(src) - pi(tgt) >= 0), flow >= 0, flow conservation with the supplies,
   complementary slackness (flow > 0 => reduced cost = 0) and that the net bounds lie on the right side of the
   INT_MAX/INT_MIN sentinels of the wirelength model.  ./check C05 compares the network the C++ built with
   shift_net on the same state (exact, as multisets of labelled arcs) and runs the extracted shift_cert_ok on
   lemon's potentials and flows for every driven shift pass. *)

(* [F] LP weak duality for ANY network: potentials pi that are complementary to a conserving flow f >= 0
   minimise the supply-weighted potential sum (here: sum over the touched nets of U_net - L_net) among ALL
   dual-feasible potentials pi' *)
Theorem c05_shift_lp_weak_duality : forall arcs sup pi f pi',
  flow_ok arcs pi f = true -> conserve arcs sup f = true -> dual_feasible arcs pi' = true ->
  wobj sup pi <= wobj sup pi'.
Proof. exact cert_weak_duality. Qed.

(* [F] a certified answer is OPTIMAL: for every row structure d, x model xm, selected cells sel (cells of the
   x model), potentials pi and flow f accepted by the certificate checker, the positions
   potential(c) - potential(fixed) give an x wirelength (sum over ALL nets of the model, computed from scratch
   after the write-back) that is <= the x wirelength of ANY assignment x' of positions to the selected cells
   satisfying the ordering/boundary constraints (Moves.shift_ok, the guard of c02_shift_guard_sound) *)
Theorem c05_shift_certificate_optimal : forall d xm sel pi f x',
  Forall (fun c => (c < length (ipos xm))%nat) sel ->
  shift_cert_ok (shift_net d xm sel) pi f = true ->
  shift_ok d (assign sel x') = true ->
  xvalue xm (positions_of sel pi) <= xvalue xm (assign sel x').
Proof. exact shift_cert_optimal. Qed.

(* [F] the x wirelength is the sum over the nets touching a selected cell (the objective of the linear
   programme: pin positions of selected cells from the new positions, of the other cells from the model) plus
   the sum over the other nets, which does not depend on the positions given to the selected cells: untouched
   nets do not change; and the certified positions minimise the touched part *)
Theorem c05_shift_untouched_nets_unchanged : forall xm sel x,
  Forall (fun c => (c < length (ipos xm))%nat) sel ->
  xvalue xm (assign sel x) = touched_value xm sel x + untouched_value xm sel.
Proof. exact xvalue_touched_untouched. Qed.

Theorem c05_shift_certificate_optimal_touched : forall d xm sel pi f x',
  Forall (fun c => (c < length (ipos xm))%nat) sel ->
  shift_cert_ok (shift_net d xm sel) pi f = true ->
  shift_ok d (assign sel x') = true ->
  touched_value xm sel (x_of pi) <= touched_value xm sel x'.
Proof. exact shift_cert_optimal_touched. Qed.

(* [F] the write-back loop (xtopo_.updateCellPos for every selected cell) leaves the incremental model in a
   state satisfying its invariant whose value IS that from-scratch x wirelength *)
Theorem c05_shift_writeback_value : forall ups xm, IInv xm ->
  IInv (write_updates xm ups) /\ inets (write_updates xm ups) = inets xm /\
  ipos (write_updates xm ups) = write_pos (ipos xm) ups /\ ivalue (write_updates xm ups) = xvalue xm ups.
Proof. exact write_updates_spec. Qed.

(* [F] monotonicity clause of C05 for the shift pass, all states: when the row structure is legal (Inv) and
   the x model holds the positions of its cells (consistent), the CURRENT positions satisfy the constraints,
   so a certified shift pass does not increase the x value; the y model is not touched; the optimised value
   does not increase; the rows stay legal and consistent with the x model *)
Theorem c05_certified_shift_never_worsens : forall d s sel pi f,
  OInv s -> Inv d -> consistent d (ox s) -> Forall (fun c => (c < length (ipos (ox s)))%nat) sel ->
  shift_cert_ok (shift_net d (ox s) sel) pi f = true ->
  let ups := positions_of sel pi in
  let s' := oshift s ups in
  OInv s' /\ same_nets s' s /\ ivalue (ox s') <= ivalue (ox s) /\ oy s' = oy s /\ ovalue s' <= ovalue s /\
  Inv (apply_shift d ups) /\ consistent (apply_shift d ups) (ox s') /\
  (forall x', shift_ok d (assign sel x') = true -> ivalue (ox s') <= xvalue (ox s) (assign sel x')).
Proof. exact shift_cert_step. Qed.

(* [F] along ANY history of best-move calls, reorderings AND certified shift passes (each run on a legal row
   structure consistent with the x model of that moment) the optimised value never increases *)
Theorem c05_history_with_certified_shifts_monotone : forall l s, OInv s -> chist_ok s l ->
  OInv (csteps_run s l) /\ ovalue (csteps_run s l) <= ovalue s.
Proof. exact certified_history_monotone. Qed.

(* non-vacuity: one row [0,10], cells 0 (x 0, w 2) and 1 (x 5, w 2) joined by a net; both selected.  The
   potentials (cell 1 -> 2, U -> 2, others 0) and one unit of flow along U -> cell 1 -> cell 0 -> L are accepted;
   the shift moves cell 1 against cell 0 and the value drops from 5 to 2; a flow that breaks conservation and
   potentials that overlap the cells are rejected *)
Definition sh_rows : dstate :=
  {| d_rows := [ {| dr_min := 0; dr_max := 10; dr_y := 0; dr_o := oN;
                    dr_cells := [ {| p_id := 0; p_x := 0; p_w := 2; p_pol := pANY; p_o := oN |};
                                  {| p_id := 1; p_x := 5; p_w := 2; p_pol := pANY; p_o := oN |} ] |} ];
     d_loose := [] |}.
Definition sh_state : ostate :=
  {| ox := incr_build [0; 5; 0] [[(0%nat, 0); (1%nat, 0)]]; oy := incr_build [0; 0; 0] [[(0%nat, 0); (1%nat, 0)]] |}.
Definition sh_pi (n : snode) : Z := match n with NCell 1 => 2 | NU _ => 2 | _ => 0 end.
Definition sh_flow : list Z := [1; 0; 0; 1; 0; 0; 1].
Example c05_shift_nonvacuous :
  OInv sh_state /\ Inv sh_rows /\ consistent sh_rows (ox sh_state) /\
  n_arcs (shift_net sh_rows (ox sh_state) [0%nat; 1%nat]) =
    [(NCell 1, NCell 0, -2); (NCell 0, NFixed, 0); (NFixed, NCell 1, 8);
     (NCell 0, NL 0, 0); (NU 0, NCell 0, 0); (NCell 1, NL 0, 0); (NU 0, NCell 1, 0)] /\
  shift_cert_ok (shift_net sh_rows (ox sh_state) [0%nat; 1%nat]) sh_pi sh_flow = true /\
  shift_cert_ok (shift_net sh_rows (ox sh_state) [0%nat; 1%nat]) sh_pi [1; 0; 0; 1; 0; 0; 0] = false /\
  shift_cert_ok (shift_net sh_rows (ox sh_state) [0%nat; 1%nat]) (fun n => match n with NCell 1 => 1 | NU _ => 1 | _ => 0 end) sh_flow = false /\
  positions_of [0%nat; 1%nat] sh_pi = [(0%nat, 0); (1%nat, 2)] /\
  ovalue sh_state = 5 /\ ovalue (oshift sh_state (positions_of [0%nat; 1%nat] sh_pi)) = 2 /\
  chist_ok sh_state [CS sh_rows [0%nat; 1%nat] sh_pi sh_flow].
Proof.
  split; [split; apply build_inv|]. split; [unfold Inv, sh_rows, row_ok; cbn; repeat constructor; cbn; lia|].
  split; [intros r c [<-|[]] [<-|[<-|[]]]; reflexivity|].
  split; [vm_compute; reflexivity|]. split; [vm_compute; reflexivity|]. split; [vm_compute; reflexivity|].
  split; [vm_compute; reflexivity|]. split; [vm_compute; reflexivity|]. split; [vm_compute; reflexivity|].
  split; [vm_compute; reflexivity|].
  cbn [chist_ok cstep_ok]. split; [|exact I].
  split; [unfold Inv, sh_rows, row_ok; cbn; repeat constructor; cbn; lia|].
  split; [intros r c [<-|[]] [<-|[<-|[]]]; reflexivity|].
  split; [repeat constructor|vm_compute; reflexivity].
Qed.

(* [R, known finding F8] the pin offsets of the optimised value are frozen at construction.  When a
   cell with a row polarity moves to a row of another orientation its real pin offsets change,
   and a move that lowers the frozen value can raise the true wirelength.  Witness: a 1x4 cell
   with a pin at its lower-left corner, a fixed pin at (0,3); the cell moves from the N row at
   y=0 to the FS row at y=4: frozen value 3 -> 1 (accepted), true wirelength 3 -> 5. *)
Definition w_net : list (list hpin) := [[{| pc := 0%nat; pxo := 0; pyo := 0 |}; {| pc := 1%nat; pxo := 0; pyo := 0 |}]].
Definition w_fixed : hcell := {| hx := 0; hy := 3; hw := 0; hh := 0; ho := oN |}.
Definition w_cell (y : Z) (o : orient) : hcell := {| hx := 0; hy := y; hw := 1; hh := 4; ho := o |}.
Theorem c05_frozen_offsets_refuted :
  hpwl [w_cell 4 oN; w_fixed] w_net < hpwl [w_cell 0 oN; w_fixed] w_net /\      (* what the optimiser sees *)
  hpwl [w_cell 0 oN; w_fixed] w_net < hpwl [w_cell 4 oFS; w_fixed] w_net.       (* what Circuit::hpwl reports *)
Proof. vm_compute. split; reflexivity. Qed.

(* non-vacuity: a model with two nets over three cells; a candidate list with an infeasible, a
   worsening and two improving candidates: the LAST improving one is performed *)
Definition ex_state : ostate :=
  {| ox := incr_build [0; 10; 20] [[(0%nat, 0); (1%nat, 0)]; [(1%nat, 0); (2%nat, 0)]];
     oy := incr_build [0; 0; 0] [[(0%nat, 0); (1%nat, 0)]; [(1%nat, 0); (2%nat, 0)]] |}.
Example c05_nonvacuous :
  OInv ex_state /\ ovalue ex_state = 20 /\
  let r := best_move ex_state [None; Some [(0%nat, (30, 0))]; Some [(0%nat, (10, 0))]; Some [(0%nat, (9, 0))]] in
  snd r = true /\ ovalue (fst r) = 11.
Proof. split; [split; apply build_inv|]. vm_compute. repeat split. Qed.

Print Assumptions c05_evaluation_is_pure.
Print Assumptions c05_accepted_move_decreases.
Print Assumptions c05_reordering_decreases.
Print Assumptions c05_history_monotone.
Print Assumptions c05_value_is_extent_sum.
Print Assumptions c05_frozen_offsets_refuted.
Print Assumptions c05_initial_value_is_hpwl.
Print Assumptions c05_shift_lp_weak_duality.
Print Assumptions c05_shift_certificate_optimal.
Print Assumptions c05_shift_untouched_nets_unchanged.
Print Assumptions c05_shift_certificate_optimal_touched.
Print Assumptions c05_shift_writeback_value.
Print Assumptions c05_certified_shift_never_worsens.
Print Assumptions c05_history_with_certified_shifts_monotone.

(* ======================================================================================== *)
(* C05, composition -- the wirelength of the CIRCUIT exposed by detailed placement (to be merged into
   Properties_C05.v).  Models: DetailedValue.v (Circuit::hpwl over Circuit.circuit, the two incremental
   models at construction, the coupling invariant between the row structure and the models, the paired
   steps bestSwap/bestInsert/bestSwapUpdate, runShiftsOnCells, RowReordering::run), on top of
   DetailedInit.from_circuit, DetailedExport.write_back, Optimiser.v, ShiftLp.v.
   Hypotheses that the property text does not spell out, and why they are there:
     int_pins          the pin coordinates of the circuits whose Circuit::hpwl is compared fit in a machine int
                       (true of every C++ state by typing; Circuit::hpwl and IncrNetModel start their min / max
                       loops from INT_MAX / INT_MIN, which is only exact on ints);
     orient_frozen     THE F8 SCOPE RESTRICTION: no cell with a row polarity has, in the exposed circuit, another
                       orientation than at construction (the models keep the pin offsets of that moment);
                       c05_exposed_frozen_offsets_refuted shows that it cannot be dropped;
     phist_ok          per step: best-move candidates are swaps / inserts; the cells of a shift pass / reordering
                       are cells of the rows; lemon's answer passes the proved certificate checker; the write-back
                       of a reordering is accepted by the structure (otherwise the C++ throws and exposes nothing). *)
From Coq Require Import List ZArith Lia Bool.
Import ListNotations.
Require Import CV.Orient CV.FreeSpace CV.Circuit CV.CircuitProofs CV.Hpwl CV.Moves CV.MovesProofs CV.MovesOrientProofs.
Require Import CV.Optimiser CV.OptimiserProofs CV.ShiftLp CV.ShiftLpProofs CV.LegalizerSoundProofs.
Require Import CV.DetailedInit CV.DetailedInitProofs CV.DetailedExport CV.DetailedExportProofs.
Require Import CV.DetailedValue CV.DetailedValueProofs CV.DetailedValueStepProofs.

(* [F] Circuit::hpwl over Circuit.circuit: the model through Hpwl.hpwl (C09) is the direct transcription of
   coloquinte.cpp 236-259 (x(cell) + pinXOffset, sentinels INT_MAX / INT_MIN, empty nets skipped) *)
Theorem c05_hpwl_circuit_is_circuit_hpwl : forall c nets, hpwl_circuit c nets = hpwl_direct c nets.
Proof. exact hpwl_circuit_direct. Qed.

(* [F] the coupling invariant holds after construction: DetailedPlacement::fromIspdCircuit + xTopology + yTopology
   of a legal circuit of the C01 domain (PInv: the structure stands for the circuit (C02's Rel), its rows are legal,
   no cell is unplaced, ids are unique, both models satisfy their invariant, their nets are the ones of
   construction, and `coupled`: x model = p_x, y model = y of the row for every cell in a row, circuit position for
   every other cell, the extra cell at 0) *)
Theorem c05_coupling_holds_at_construction : forall c rh nets d0,
  std_design c rh -> legal c -> from_circuit c = DOk d0 ->
  PInv c rh nets {| ps_d := d0; ps_o := init_models c nets |}.
Proof. exact init_PInv. Qed.

(* [F] every paired step keeps the invariant and does not increase the optimised value *)
Theorem c05_coupling_preserved_by_every_step : forall c rh nets s st,
  std_design c rh -> PInv c rh nets s -> pstep_ok s st ->
  PInv c rh nets (pstep_run s st) /\ ovalue (ps_o (pstep_run s st)) <= ovalue (ps_o s).
Proof. exact pstep_keeps_invariant. Qed.

Theorem c05_coupling_preserved_by_every_history : forall c rh nets l s,
  std_design c rh -> PInv c rh nets s -> phist_ok s l ->
  PInv c rh nets (psteps_run s l) /\ ovalue (ps_o (psteps_run s l)) <= ovalue (ps_o s).
Proof. exact phist_keeps_invariant. Qed.

(* [F] under the invariant, the two models hold exactly the positions of the exposed circuit *)
Theorem c05_models_hold_exposed_positions : forall c rh d o,
  Rel c rh d -> coupled c d o ->
  ipos (ox o) = map hx (hcells (write_back c d)) ++ [0] /\ ipos (oy o) = map hy (hcells (write_back c d)) ++ [0].
Proof. exact exposed_positions. Qed.

(* [F] value of the exposed circuit: Circuit::hpwl() after exportPlacement IS DetailedPlacer::value(), in the
   F8 scope (orient_frozen) *)
Theorem c05_exposed_hpwl_is_value : forall c rh nets s,
  PInv c rh nets s -> orient_frozen c (ps_d s) -> int_pins (write_back c (ps_d s)) nets ->
  hpwl_circuit (write_back c (ps_d s)) nets = ovalue (ps_o s).
Proof. exact exposed_value_inv. Qed.

(* [F] what is exposed before any accepted move is the legalized circuit itself *)
Theorem c05_exposed_initially : forall c rh d0,
  std_design c rh -> legal c -> from_circuit c = DOk d0 -> orient_frozen c d0 /\ write_back c d0 = c.
Proof. exact exposed_initial. Qed.

(* [F] C05, main: for every legal circuit of the C01 domain accepted by from_circuit and every history l1 ++ l2 of
   paired steps, the circuit exposed after l1 ++ l2 has a wirelength <= the one exposed after l1 <= the legalized
   one (successive callbacks, and the return), provided both exposed states are in the F8 scope; both circuits are
   legal (C02).  NOTE on the hypotheses: orient_frozen constrains the states REACHED by the history (not the input;
   input-level discharge only for circuits without polarised cells: c05_no_polarity_no_restriction); phist_ok asks
   shift_cert_ok = true of every shift step (that lemon always produces an accepted answer is not proved); int_pins
   bounds pin coordinates only.  Totalisations outside the hypotheses: preorder maps wb = None to "unchanged",
   row_y defaults to 0, an out-of-range pin cell gets a default cell.  The Examples below use pANY cells only
   (orient_frozen then holds trivially). *)
Theorem c05_exposed_wirelength_never_increases : forall c rh nets d0 l1 l2,
  std_design c rh -> legal c -> from_circuit c = DOk d0 ->
  let s0 := {| ps_d := d0; ps_o := init_models c nets |} in
  phist_ok s0 (l1 ++ l2) ->
  let sj := psteps_run s0 l1 in
  let sk := psteps_run s0 (l1 ++ l2) in
  orient_frozen c (ps_d sj) -> orient_frozen c (ps_d sk) ->
  int_pins c nets -> int_pins (write_back c (ps_d sj)) nets -> int_pins (write_back c (ps_d sk)) nets ->
  exposed_hpwl c nets sk <= exposed_hpwl c nets sj <= hpwl_circuit c nets /\
  legal (write_back c (ps_d sj)) /\ legal (write_back c (ps_d sk)).
Proof. exact exposed_monotone. Qed.

(* [F] the same with hypotheses on the INPUT only (apart from the F8 scope): int_pins of the legalized circuit and
   pins_fit (every pin of a movable row-high cell stays a machine int wherever the cell sits in a row) give int_pins
   at every exposed state of the F8 scope *)
Theorem c05_exposed_pins_stay_ints : forall c rh nets s,
  std_design c rh -> PInv c rh nets s -> orient_frozen c (ps_d s) -> int_pins c nets -> pins_fit c rh nets ->
  int_pins (write_back c (ps_d s)) nets.
Proof. exact exposed_int_pins. Qed.

Theorem c05_exposed_wirelength_never_increases_static : forall c rh nets d0 l1 l2,
  std_design c rh -> legal c -> from_circuit c = DOk d0 ->
  let s0 := {| ps_d := d0; ps_o := init_models c nets |} in
  phist_ok s0 (l1 ++ l2) ->
  let sj := psteps_run s0 l1 in
  let sk := psteps_run s0 (l1 ++ l2) in
  orient_frozen c (ps_d sj) -> orient_frozen c (ps_d sk) ->
  int_pins c nets -> pins_fit c rh nets ->
  exposed_hpwl c nets sk <= exposed_hpwl c nets sj <= hpwl_circuit c nets /\
  legal (write_back c (ps_d sj)) /\ legal (write_back c (ps_d sk)).
Proof. exact exposed_monotone_static. Qed.

(* [F] circuits without polarised cells are entirely in the F8 scope *)
Theorem c05_no_polarity_no_restriction : forall c d,
  (forall k, In k (cells c) -> c_pol k = pANY) -> orient_frozen c d.
Proof. exact orient_frozen_any. Qed.

(* [R, known finding F8] the hypothesis orient_frozen cannot be dropped: a legal two-row circuit, one polarised cell,
   one accepted bestInsert: every other hypothesis of c05_exposed_wirelength_never_increases holds, the optimised
   value DEcreases (3 -> 1) and Circuit::hpwl of the exposed (legal) circuit INcreases (3 -> 5) *)
Theorem c05_exposed_frozen_offsets_refuted :
  exists c rh nets d0 l,
    std_design c rh /\ legal c /\ from_circuit c = DOk d0 /\
    let s0 := {| ps_d := d0; ps_o := init_models c nets |} in
    phist_ok s0 l /\ int_pins c nets /\ int_pins (write_back c (ps_d (psteps_run s0 l))) nets /\
    legal (write_back c (ps_d (psteps_run s0 l))) /\
    ~ orient_frozen c (ps_d (psteps_run s0 l)) /\
    ovalue (ps_o (psteps_run s0 l)) < ovalue (ps_o s0) /\
    hpwl_circuit c nets < exposed_hpwl c nets (psteps_run s0 l).
Proof. exact exposed_frozen_offsets_refuted. Qed.

(* non-vacuity: rows [0,20]x[0,2] (N) and [0,20]x[2,4] (FS); movable 2x2 cells WITHOUT polarity A = 0 at (0,0),
   B = 1 at (10,2), C = 2 at (14,0); fixed pins 3 at (9,3), 4 at (9,0), 5 at (11,1); nets {A.(1,1), 3}, {B.(1,1), 4},
   {C.(0,0), 5}.  History: bestSwap(A, {B}) -- a swap ACROSS ROWS, accepted: A -> (9,2), B -> (6,0), wirelength
   19 -> 8 --, then runShiftsOnCells({B, C}) with an accepted certificate: B -> 8, C -> 11, wirelength 8 -> 3.
   All hypotheses of c05_exposed_wirelength_never_increases hold at both exposed states; the numbers are computed
   on the exposed circuits (Circuit::hpwl) and agree with the optimised value. *)
Definition ex5 : circuit :=
  {| rows := [mkrow 0 20 0 2 oN; mkrow 0 20 2 4 oFS];
     cells := [mkcell 0 0 2 2 oN pANY false true; mkcell 10 2 2 2 oN pANY false true; mkcell 14 0 2 2 oN pANY false true;
               mkcell 9 3 0 0 oN pANY true false; mkcell 9 0 0 0 oN pANY true false; mkcell 11 1 0 0 oN pANY true false] |}.
Definition ex5_nets : list (list hpin) := [[hp 0 1 1; hp 3 0 0]; [hp 1 1 1; hp 4 0 0]; [hp 2 0 0; hp 5 0 0]].
Definition ex5_pi (n : snode) : Z :=
  match n with NCell 1 => 8 | NCell 2 => 11 | NL 1 => 9 | NU 1 => 9 | NL 2 => 11 | NU 2 => 11 | _ => 0 end.
Definition ex5_flow : list Z := [0; 0; 0; 0; 0; 1; 1; 0; 0; 1; 1].
Definition ex5_l1 : list pstep := [PBest [MSwap 0 1]].
Definition ex5_l2 : list pstep := [PShift [1%nat; 2%nat] ex5_pi ex5_flow].

Example c05_compose_nonvacuous :
  std_design ex5 2 /\ legal ex5 /\ (forall k, In k (cells ex5) -> c_pol k = pANY) /\
  exists d0, from_circuit ex5 = DOk d0 /\
    let s0 := {| ps_d := d0; ps_o := init_models ex5 ex5_nets |} in
    let sj := psteps_run s0 ex5_l1 in
    let sk := psteps_run s0 (ex5_l1 ++ ex5_l2) in
    phist_ok s0 (ex5_l1 ++ ex5_l2) /\
    orient_frozen ex5 (ps_d sj) /\ orient_frozen ex5 (ps_d sk) /\
    int_pins ex5 ex5_nets /\ int_pins (write_back ex5 (ps_d sj)) ex5_nets /\ int_pins (write_back ex5 (ps_d sk)) ex5_nets /\
    map (fun k => (c_x k, c_y k)) (cells (write_back ex5 (ps_d sj))) = [(9, 2); (6, 0); (14, 0); (9, 3); (9, 0); (11, 1)] /\
    map (fun k => (c_x k, c_y k)) (cells (write_back ex5 (ps_d sk))) = [(9, 2); (8, 0); (11, 0); (9, 3); (9, 0); (11, 1)] /\
    hpwl_circuit ex5 ex5_nets = 19 /\ exposed_hpwl ex5 ex5_nets sj = 8 /\ exposed_hpwl ex5 ex5_nets sk = 3 /\
    ovalue (ps_o s0) = 19 /\ ovalue (ps_o sj) = 8 /\ ovalue (ps_o sk) = 3.
Proof.
  assert (HA : forall k, In k (cells ex5) -> c_pol k = pANY).
  { intros k Hk. vm_compute in Hk. repeat (destruct Hk as [<-|Hk]; [reflexivity|]). destruct Hk. }
  assert (SD : std_design ex5 2).
  { split; [lia|]. split; [intros r [<-|[<-|[]]]; reflexivity|].
    split; [apply pairwise_disjointb_spec; vm_compute; reflexivity|].
    split; [intros r [<-|[<-|[]]]; reflexivity|].
    intros k Hk. vm_compute in Hk.
    repeat (destruct Hk as [<-|Hk];
            [split; [vm_compute; reflexivity|]; split; [exists 1%nat; split; [lia|vm_compute; reflexivity]|left; reflexivity]|]).
    destruct Hk. }
  split; [exact SD|]. split; [apply legalb_correct; vm_compute; reflexivity|]. split; [exact HA|].
  eexists. split; [vm_compute; reflexivity|]. cbn zeta.
  split.
  { cbn [app ex5_l1 ex5_l2 phist_ok pstep_ok]. split; [reflexivity|]. split; [|exact I].
    split; vm_compute; reflexivity. }
  split; [apply orient_frozen_any; exact HA|]. split; [apply orient_frozen_any; exact HA|].
  split; [apply int_pinsb_sound; vm_compute; reflexivity|].
  split; [apply int_pinsb_sound; vm_compute; reflexivity|].
  split; [apply int_pinsb_sound; vm_compute; reflexivity|].
  vm_compute. repeat split; reflexivity.
Qed.

Example c05_compose_static_nonvacuous : int_pins ex5 ex5_nets /\ pins_fit ex5 2 ex5_nets.
Proof.
  split; [apply int_pinsb_sound; vm_compute; reflexivity|].
  intros net p k r Hn Hp Hk Fx Hh Hr.
  destruct Hn as [<-|[<-|[<-|[]]]]; destruct Hp as [<-|[<-|[]]]; vm_compute in Hk; injection Hk as <-; try discriminate Fx;
    destruct Hr as [<-|[<-|[]]]; vm_compute; repeat split; discriminate.
Qed.

Print Assumptions c05_hpwl_circuit_is_circuit_hpwl.
Print Assumptions c05_coupling_holds_at_construction.
Print Assumptions c05_coupling_preserved_by_every_step.
Print Assumptions c05_coupling_preserved_by_every_history.
Print Assumptions c05_models_hold_exposed_positions.
Print Assumptions c05_exposed_hpwl_is_value.
Print Assumptions c05_exposed_initially.
Print Assumptions c05_exposed_wirelength_never_increases.
Print Assumptions c05_exposed_pins_stay_ints.
Print Assumptions c05_exposed_wirelength_never_increases_static.
Print Assumptions c05_no_polarity_no_restriction.
Print Assumptions c05_exposed_frozen_offsets_refuted.


(* ======================================================================================== *)
(* C05, the CLOSED reordering pass -- RowReordering with its enumeration (coq/Reorder.v): the regions of the window
   (addCells / addRow: one per maximal run of window cells of a row, bounds = the span the run occupies, the row's end
   when the run touches it), runRegionChoice (every cell to every region, width test, polarity test of cffa2e7),
   runOrdering (`while (std::next_permutation(...))`: every arrangement of each region EXCEPT the sorted one the loop
   starts from; a region with fewer than two cells has none, and such an assignment evaluates nothing), packing from
   minPos, strict-improvement test, writeback().  The search threads the two net models through single updateCellPos
   calls as the C++ does.  No oracle: `PReorder cs leaves` of the theorems above is instantiated with
   cs = cells_ and leaves = Reorder.leaves_of.  Tie: ./check C05 (checks/c05_reorder.py: Reorder.run against
   DetailedPlacer::runReorderingOnCells, placement and values exact). *)
Require Import CV.Reorder CV.ReorderGeomProofs CV.ReorderEnumProofs CV.ReorderSearchProofs CV.ReorderProofs CV.ReorderCountProofs.
From Coq Require Import Permutation Factorial.

(* [F] every leaf the enumeration evaluates is  leaf_of (chosen_of widths gps)  for a list gps = (region, arrangement)
   over ALL regions in their order: the arrangements are together a permutation of the registered cells (each cell
   exactly once), each non-empty arrangement fits the width of its region, every cell is on a row its polarity allows;
   positions are packed from the region's minPos, the predecessor chain starts at the region's cellPred *)
Theorem c05_reordering_leaf_shape : forall d rgs leaf, In leaf (leaves_of d rgs) ->
  exists gps, leaf = leaf_of (chosen_of (width_of d) gps) /\ map fst gps = map fst rgs /\
    Permutation (concat (map snd gps)) (map p_id (registered rgs)) /\ Forall (Wok' d) gps.
Proof. exact leaves_shape. Qed.

(* [F] (c) + (a): for every state satisfying the coupling invariant and every window of distinct cells of the rows, the
   closed pass IS the paired step PReorder on (cells_, leaves_of), that step satisfies pstep_ok -- in particular the
   write-back of the retained leaf is accepted by the row structure (DetailedPlacement::place does not throw) and
   leaves no cell unplaced: hypothesis 4 of design/C05_compose.md is discharged --, and the number of leaves evaluated
   is length leaves_of *)
Theorem c05_closed_reordering_is_paired_step : forall c rh nets s cs,
  PInv c rh nets s -> NoDup cs -> (forall x, In x cs -> held (ps_d s) x = true) ->
  exists rgs, regions_of (ps_d s) cs cs = Some rgs /\
    let cells := rev (sort_asc (map p_id (registered rgs))) in
    let leaves := leaves_of (ps_d s) rgs in
    pstep_ok s (PReorder cells leaves) /\
    run s cs = Some (preorder s cells leaves, length leaves).
Proof. exact run_is_preorder. Qed.

(* [F] C05 for the closed pass: it returns (never throws), keeps the coupling invariant PInv and does not increase the
   optimised value; with c05_exposed_hpwl_is_value: Circuit::hpwl of the exposed circuit does not increase (F8 scope) *)
Theorem c05_closed_reordering_never_worsens : forall c rh nets s cs,
  std_design c rh -> PInv c rh nets s -> NoDup cs -> (forall x, In x cs -> held (ps_d s) x = true) ->
  exists s' n, run s cs = Some (s', n) /\ PInv c rh nets s' /\ ovalue (ps_o s') <= ovalue (ps_o s).
Proof. exact run_keeps_invariant. Qed.

(* [F] (b), what the pass returns: the minimum of the value at entry and of the values of ALL enumerated leaves (each
   evaluated with every window cell at the leaf's position); the structure changes only for a STRICT improvement, and
   then to the write-back of an enumerated leaf of that minimal value *)
Theorem c05_closed_reordering_returns_minimum : forall c rh nets s cs,
  PInv c rh nets s -> NoDup cs -> (forall x, In x cs -> held (ps_d s) x = true) ->
  exists rgs s' n, regions_of (ps_d s) cs cs = Some rgs /\ run s cs = Some (s', n) /\
    let d := ps_d s in let o := ps_o s in let leaves := leaves_of d rgs in
    n = length leaves /\
    ovalue (ps_o s') <= ovalue o /\
    (forall leaf, In leaf leaves -> ovalue (ps_o s') <= leaf_value_of d o leaf) /\
    ((ps_d s' = d /\ ovalue (ps_o s') = ovalue o) \/
     (exists leaf, In leaf leaves /\ ovalue (ps_o s') = leaf_value_of d o leaf /\ ovalue (ps_o s') < ovalue o /\
                   wb d (rev (sort_asc (map p_id (registered rgs)))) leaf = Some (ps_d s'))).
Proof. exact run_returns_minimum. Qed.

(* [F] (d) termination: the recursion is structural (no fuel); the number of leaves evaluated is at most
   nbRegions ^ nbCells * nbCells! *)
Theorem c05_reordering_leaves_bounded : forall d rgs,
  (length (leaves_of d rgs) <= length rgs ^ length (registered rgs) * fact (length (registered rgs)))%nat.
Proof. exact leaves_of_length. Qed.

(* non-vacuity: one row [0,10]x[0,2]; movable 2x2 cells 0 at x = 6 and 1 at x = 0 (row order 1, 0); fixed pins 2 at (0,1) and 3 at
   (9,1); net {cell 0, pin 2}.  The window {0, 1} is one region [0, 10] (the run touches both row ends); the enumeration
   evaluates ONE leaf (the arrangement 1, 0 packed from 0: the sorted arrangement 0, 1 is the one next_permutation skips);
   it is strictly better (7 -> 3) and is written back: cell 0 moves from 6 to 2 *)
Definition exr : circuit :=
  {| rows := [mkrow 0 10 0 2 oN];
     cells := [mkcell 6 0 2 2 oN pANY false true; mkcell 0 0 2 2 oN pANY false true;
               mkcell 0 1 0 0 oN pANY true false; mkcell 9 1 0 0 oN pANY true false] |}.
Definition exr_nets : list (list hpin) := [[hp 0 0 0; hp 2 0 0]].

Example exr_std : std_design exr 2.
Proof.
  split; [lia|]. split; [intros r [<-|[]]; reflexivity|].
  split; [apply pairwise_disjointb_spec; vm_compute; reflexivity|].
  split; [intros r [<-|[]]; reflexivity|].
  intros k Hk. vm_compute in Hk.
  repeat (destruct Hk as [<-|Hk];
          [split; [vm_compute; reflexivity|]; split; [exists 1%nat; split; [lia|vm_compute; reflexivity]|left; reflexivity]|]).
  destruct Hk.
Qed.

Example c05_closed_reordering_nonvacuous :
  std_design exr 2 /\ legal exr /\
  exists d0, from_circuit exr = DOk d0 /\
    let s0 := {| ps_d := d0; ps_o := init_models exr exr_nets |} in
    PInv exr 2 exr_nets s0 /\ NoDup [0%nat; 1%nat] /\ (forall x, In x [0%nat; 1%nat] -> held d0 x = true) /\
    exists s', run s0 [0%nat; 1%nat] = Some (s', 1%nat) /\ ovalue (ps_o s0) = 7 /\ ovalue (ps_o s') = 3 /\
      map (fun r => map (fun c => (p_id c, p_x c)) (dr_cells r)) (d_rows d0) = [[(1%nat, 0); (0%nat, 6)]] /\
      map (fun r => map (fun c => (p_id c, p_x c)) (dr_cells r)) (d_rows (ps_d s')) = [[(1%nat, 0); (0%nat, 2)]].
Proof.
  split; [exact exr_std|]. assert (HL : legal exr) by (apply legalb_correct; vm_compute; reflexivity). split; [exact HL|].
  eexists. split; [vm_compute; reflexivity|]. cbn zeta.
  split; [apply init_PInv; [exact exr_std|exact HL|vm_compute; reflexivity]|].
  split; [repeat constructor; cbn; intuition discriminate|].
  split; [intros x [<-|[<-|[]]]; vm_compute; reflexivity|].
  eexists. split; [vm_compute; reflexivity|]. vm_compute. repeat split; reflexivity.
Qed.

(* OBSERVATION (not a violation of C05, which only demands monotonicity): the arrangement in ascending cell index is never
   evaluated.  Same circuit, nets pulling cell 0 to the left pin and cell 1 (twice) to the right pin: the enumeration
   consists of the single leaf (1 at 0, 0 at 2), value 23 < 27, which is written back; the arrangement (0 at 0, 1 at 2) of the
   same packing form is accepted by the row structure, has value 17, and is not enumerated *)
Definition exr_nets2 : list (list hpin) := [[hp 0 0 0; hp 2 0 0]; [hp 1 0 0; hp 3 0 0]; [hp 1 0 0; hp 3 0 0]].
Example c05_reordering_skips_sorted_arrangement :
  exists d0 g run01, from_circuit exr = DOk d0 /\ regions_of d0 [0%nat; 1%nat] [0%nat; 1%nat] = Some [(g, run01)] /\
    let o := init_models exr exr_nets2 in
    let alt := leaf_of (chosen_of (width_of d0) [(g, [0%nat; 1%nat])]) in
    leaves_of d0 [(g, run01)] = [[(1%nat, 0%nat, None, 0); (0%nat, 0%nat, Some 1%nat, 2)]] /\
    alt = [(0%nat, 0%nat, None, 0); (1%nat, 0%nat, Some 0%nat, 2)] /\
    (exists d', wb d0 [1%nat; 0%nat] alt = Some d' /\ d_loose d' = []) /\
    ovalue o = 27 /\ leaf_value_of d0 o [(1%nat, 0%nat, None, 0); (0%nat, 0%nat, Some 1%nat, 2)] = 23 /\ leaf_value_of d0 o alt = 17 /\
    exists s', run {| ps_d := d0; ps_o := o |} [0%nat; 1%nat] = Some (s', 1%nat) /\ ovalue (ps_o s') = 23.
Proof.
  eexists. eexists. eexists. split; [vm_compute; reflexivity|]. split; [vm_compute; reflexivity|]. cbn zeta.
  split; [vm_compute; reflexivity|]. split; [vm_compute; reflexivity|].
  split; [eexists; split; vm_compute; reflexivity|].
  split; [vm_compute; reflexivity|]. split; [vm_compute; reflexivity|]. split; [vm_compute; reflexivity|].
  eexists. split; vm_compute; reflexivity.
Qed.

(* [F] (b) completeness of the enumeration: take ANY assignment `a` of the registered cells to the regions whose final
   lists (cells in ascending index per region: `distribute`) fit the widths and polarities (cell widths >= 0, as in every
   legal row structure), and ANY arrangement of every region other than the ascending one: that leaf is evaluated.
   Together with c05_reordering_leaf_shape (+ loop_perms = all permutations but the first): the leaves are exactly these.
   NOT enumerated, as the code stands: arrangements in which some region keeps its cells in ascending index order --
   in particular every assignment that gives some region fewer than two cells (see c05_reordering_skips_sorted_arrangement) *)
Require Import CV.ReorderCompleteProofs.
Theorem c05_reordering_enumeration_complete : forall d rgs a ps,
  let gs := map fst rgs in
  let cells := sort_asc (map p_id (registered rgs)) in
  let ord := distribute a cells (map (fun _ => []) rgs) in
  (forall c, In c cells -> 0 <= width_of d c) ->
  (forall c, In c cells -> exists g, nth_error gs (a c) = Some g) ->
  (forall i g, nth_error gs i = Some g ->
     alloc_width (width_of d) (nth i ord []) <= rg_width g /\ forall c, In c (nth i ord []) -> rok d g c) ->
  Forall2 (fun o p => Permutation o p /\ p <> o) ord ps ->
  In (leaf_of (chosen_of (width_of d) (combine gs ps))) (leaves_of d rgs).
Proof. exact enumeration_complete_final. Qed.

(* non-vacuity on exr: both cells to the only region, the arrangement 1, 0: the hypotheses hold and the leaf is the one evaluated *)
Example c05_reordering_enumeration_complete_nonvacuous :
  exists d0 rgs, from_circuit exr = DOk d0 /\ regions_of d0 [0%nat; 1%nat] [0%nat; 1%nat] = Some rgs /\
    let a := fun _ : nat => 0%nat in
    distribute a (sort_asc (map p_id (registered rgs))) (map (fun _ => []) rgs) = [[0%nat; 1%nat]] /\
    (forall c, In c (sort_asc (map p_id (registered rgs))) -> 0 <= width_of d0 c) /\
    (forall c, In c (sort_asc (map p_id (registered rgs))) -> exists g, nth_error (map fst rgs) (a c) = Some g) /\
    (forall i g, nth_error (map fst rgs) i = Some g ->
       alloc_width (width_of d0) (nth i [[0%nat; 1%nat]] []) <= rg_width g /\ forall c, In c (nth i [[0%nat; 1%nat]] []) -> rok d0 g c) /\
    Forall2 (fun o p => Permutation o p /\ p <> o) [[0%nat; 1%nat]] [[1%nat; 0%nat]] /\
    leaf_of (chosen_of (width_of d0) (combine (map fst rgs) [[1%nat; 0%nat]])) = [(1%nat, 0%nat, None, 0); (0%nat, 0%nat, Some 1%nat, 2)].
Proof.
  eexists. eexists. split; [vm_compute; reflexivity|]. split; [vm_compute; reflexivity|]. cbn zeta.
  split; [vm_compute; reflexivity|].
  split; [intros c Hc; vm_compute in Hc; destruct Hc as [<-|[<-|[]]]; vm_compute; discriminate|].
  split; [intros c _; eexists; vm_compute; reflexivity|].
  split.
  { intros [|i] g Hn; [|destruct i; discriminate]. vm_compute in Hn. injection Hn as <-.
    split; [vm_compute; discriminate|]. intros c [<-|[<-|[]]]; vm_compute; reflexivity. }
  split; [constructor; [split; [apply perm_swap|discriminate]|constructor]|]. vm_compute. reflexivity.
Qed.

(* [F] cells_ -- the cells the pass unplaces / re-places, sorted with std::greater -- is a permutation of the window: every
   window cell is registered in exactly one region *)
Theorem c05_reordering_registers_window : forall d cs rgs,
  NoDup (map p_id (cells_of d)) -> NoDup cs -> regions_of d cs cs = Some rgs ->
  Permutation cs (rev (sort_asc (map p_id (registered rgs)))).
Proof. exact cells_perm_window. Qed.

Print Assumptions c05_reordering_leaf_shape.
Print Assumptions c05_reordering_registers_window.
Print Assumptions c05_reordering_enumeration_complete.
Print Assumptions c05_closed_reordering_is_paired_step.
Print Assumptions c05_closed_reordering_never_worsens.
Print Assumptions c05_closed_reordering_returns_minimum.
Print Assumptions c05_reordering_leaves_bounded.
