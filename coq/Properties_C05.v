(* C05 -- detailed placement never worsens wirelength.
   Models: Optimiser.v (accept/reject logic of bestSwap / bestInsert / bestSwapUpdate and of
   RowReordering over the incremental wirelength model of Hpwl.v), tied to /repo by ./check C05
   (exact replay of every best-move call of DetailedPlacer with the implementation's candidates;
   value() against the from-scratch wirelength after every optimiser pass; Circuit::hpwl() at
   every Detailed callback). *)
From Coq Require Import List ZArith Lia Bool.
Import ListNotations.
Require Import CV.Orient CV.Hpwl CV.HpwlProofs CV.HpwlFoldProofs CV.Optimiser CV.OptimiserProofs.
Require Import CV.Moves CV.MovesProofs CV.ShiftLp CV.ShiftLpProofs.
Local Open Scope Z_scope.

(* [F] valueOnSwap / valueOnInsert: the value returned is the value at the candidate
   positions and the evaluation leaves positions and value exactly as they were, for every
   state reachable from a freshly built model and every candidate *)
Theorem c05_evaluation_is_pure : forall s ms, OInv s ->
  let r := value_on s ms in
  fst r = ovalue (set_many s ms) /\ OInv (snd r) /\ same_nets (snd r) s /\ same_pos (snd r) s /\ ovalue (snd r) = ovalue s.
Proof. exact value_on_pure. Qed.

(* [F] bestSwap / bestInsert / bestSwapUpdate, for EVERY list of candidates (feasible or not):
   a move that is performed strictly decreases the optimised value; when none is performed
   value and positions are unchanged *)
Theorem c05_accepted_move_decreases : forall s cands, OInv s ->
  let r := best_move s cands in
  OInv (fst r) /\ same_nets (fst r) s /\
  (snd r = true -> ovalue (fst r) < ovalue s) /\
  (snd r = false -> ovalue (fst r) = ovalue s /\ same_pos (fst r) s).
Proof. exact best_move_decreases. Qed.

(* [F] row reordering, for every enumeration of leaves that assign the reordered cells: either a
   strictly better order is written back, or nothing changes (positions restored) *)
Theorem c05_reordering_decreases : forall s cs leaves, OInv s -> Forall (leaf_ok cs) leaves ->
  let r := reorder s cs leaves in
  OInv (fst r) /\ same_nets (fst r) s /\
  (snd r = true -> ovalue (fst r) < ovalue s) /\
  (snd r = false -> ovalue (fst r) = ovalue s /\ same_pos (fst r) s).
Proof. exact reorder_decreases. Qed.

(* [F] along ANY history of such steps the optimised value never increases *)
Theorem c05_history_monotone : forall os s, OInv s -> Forall ostep_ok os ->
  OInv (osteps_run s os) /\ ovalue (osteps_run s os) <= ovalue s.
Proof. exact history_monotone. Qed.

(* [F] the optimised value is the geometric one: the sum over nets of the x-extent and of the
   y-extent of the pin positions (C09), in every state satisfying the invariant *)
Theorem c05_value_is_extent_sum : forall s, OInv s ->
  ovalue s = fold_right (fun net a => extent (map (ipin_pos (ipos (ox s))) net) + a) 0 (inets (ox s))
           + fold_right (fun net a => extent (map (ipin_pos (ipos (oy s))) net) + a) 0 (inets (oy s)).
Proof.
  intros s Hs. rewrite (ovalue_scratch s Hs). cbn [incr_build ivalue]. rewrite !sum_widths_map. reflexivity.
Qed.

(* [F] at construction (DetailedPlacer's constructor builds the x and the y model over all cells of
   the circuit, pin offsets taken with the orientations of that moment) the optimised value IS
   Circuit::hpwl of the circuit, and the state satisfies the invariant the theorems above need *)
Theorem c05_initial_value_is_hpwl : forall cells nets subset,
  (forall net, In net nets -> bounded (map (pin_px cells) net) /\ bounded (map (pin_py cells) net)) ->
  let s := {| ox := circuit_topology true cells nets subset; oy := circuit_topology false cells nets subset |} in
  OInv s /\ ovalue s = hpwl cells nets.
Proof.
  intros cells nets subset Hb. cbn zeta. split.
  - split; unfold circuit_topology, topology; apply build_inv.
  - unfold ovalue. cbn [ox oy]. apply circuit_value_is_hpwl. exact Hb.
Qed.

(* ---------- the shift pass (DetailedPlacer::runShiftsOnCells) ----------
   The C++ builds a min-cost-flow network (ShiftLp.shift_net: positional arcs from the row structure, one pair
   of arcs per pin of every net touching a selected cell, supplies +1/-1 at the U/L node of these nets), has
   lemon's NetworkSimplex solve it, and writes  x[c] = potential(c) - potential(fixed).  The simplex is not
   modelled; its answer (potentials + arc flows) is CERTIFIED: ShiftLp.shift_cert_ok checks dual feasibility
   (all reduced costs cost + pi(src) - pi(tgt) >= 0), flow >= 0, flow conservation with the supplies,
   complementary slackness (flow > 0 => reduced cost = 0) and that the net bounds lie on the right side of the
   INT_MAX/INT_MIN sentinels of the wirelength model.  ./check C05 compares the network the C++ built with
   shift_net on the same state (exact, as multisets of labelled arcs) and runs the extracted shift_cert_ok on
   lemon's potentials and flows for every driven shift pass. *)

(* [F] LP weak duality for ANY network: potentials pi that are complementary to a conserving flow f >= 0
   minimise the supply-weighted potential sum (here: sum over the touched nets of U_net - L_net) among ALL
   dual-feasible potentials pi' *)
Theorem c05_shift_lp_weak_duality : forall arcs sup pi f pi',
  flow_ok arcs pi f = true -> conserve arcs sup f = true -> dual_feasible arcs pi' = true ->
  wobj sup pi <= wobj sup pi'.
Proof. exact cert_weak_duality. Qed.

(* [F] a certified answer is OPTIMAL: for every row structure d, x model xm, selected cells sel (cells of the
   x model), potentials pi and flow f accepted by the certificate checker, the positions
   potential(c) - potential(fixed) give an x wirelength (sum over ALL nets of the model, computed from scratch
   after the write-back) that is <= the x wirelength of ANY assignment x' of positions to the selected cells
   satisfying the ordering/boundary constraints (Moves.shift_ok, the guard of c02_shift_guard_sound) *)
Theorem c05_shift_certificate_optimal : forall d xm sel pi f x',
  Forall (fun c => (c < length (ipos xm))%nat) sel ->
  shift_cert_ok (shift_net d xm sel) pi f = true ->
  shift_ok d (assign sel x') = true ->
  xvalue xm (positions_of sel pi) <= xvalue xm (assign sel x').
Proof. exact shift_cert_optimal. Qed.

(* [F] the x wirelength is the sum over the nets touching a selected cell (the objective of the linear
   programme: pin positions of selected cells from the new positions, of the other cells from the model) plus
   the sum over the other nets, which does not depend on the positions given to the selected cells: untouched
   nets do not change; and the certified positions minimise the touched part *)
Theorem c05_shift_untouched_nets_unchanged : forall xm sel x,
  Forall (fun c => (c < length (ipos xm))%nat) sel ->
  xvalue xm (assign sel x) = touched_value xm sel x + untouched_value xm sel.
Proof. exact xvalue_touched_untouched. Qed.

Theorem c05_shift_certificate_optimal_touched : forall d xm sel pi f x',
  Forall (fun c => (c < length (ipos xm))%nat) sel ->
  shift_cert_ok (shift_net d xm sel) pi f = true ->
  shift_ok d (assign sel x') = true ->
  touched_value xm sel (x_of pi) <= touched_value xm sel x'.
Proof. exact shift_cert_optimal_touched. Qed.

(* [F] the write-back loop (xtopo_.updateCellPos for every selected cell) leaves the incremental model in a
   state satisfying its invariant whose value IS that from-scratch x wirelength *)
Theorem c05_shift_writeback_value : forall ups xm, IInv xm ->
  IInv (write_updates xm ups) /\ inets (write_updates xm ups) = inets xm /\
  ipos (write_updates xm ups) = write_pos (ipos xm) ups /\ ivalue (write_updates xm ups) = xvalue xm ups.
Proof. exact write_updates_spec. Qed.

(* [F] monotonicity clause of C05 for the shift pass, all states: when the row structure is legal (Inv) and
   the x model holds the positions of its cells (consistent), the CURRENT positions satisfy the constraints,
   so a certified shift pass does not increase the x value; the y model is not touched; the optimised value
   does not increase; the rows stay legal and consistent with the x model *)
Theorem c05_certified_shift_never_worsens : forall d s sel pi f,
  OInv s -> Inv d -> consistent d (ox s) -> Forall (fun c => (c < length (ipos (ox s)))%nat) sel ->
  shift_cert_ok (shift_net d (ox s) sel) pi f = true ->
  let ups := positions_of sel pi in
  let s' := oshift s ups in
  OInv s' /\ same_nets s' s /\ ivalue (ox s') <= ivalue (ox s) /\ oy s' = oy s /\ ovalue s' <= ovalue s /\
  Inv (apply_shift d ups) /\ consistent (apply_shift d ups) (ox s') /\
  (forall x', shift_ok d (assign sel x') = true -> ivalue (ox s') <= xvalue (ox s) (assign sel x')).
Proof. exact shift_cert_step. Qed.

(* [F] along ANY history of best-move calls, reorderings AND certified shift passes (each run on a legal row
   structure consistent with the x model of that moment) the optimised value never increases *)
Theorem c05_history_with_certified_shifts_monotone : forall l s, OInv s -> chist_ok s l ->
  OInv (csteps_run s l) /\ ovalue (csteps_run s l) <= ovalue s.
Proof. exact certified_history_monotone. Qed.

(* non-vacuity: one row [0,10], cells 0 (x 0, w 2) and 1 (x 5, w 2) joined by a net; both selected.  The
   potentials (cell 1 -> 2, U -> 2, others 0) and one unit of flow along U -> cell 1 -> cell 0 -> L are accepted;
   the shift moves cell 1 against cell 0 and the value drops from 5 to 2; a flow that breaks conservation and
   potentials that overlap the cells are rejected *)
Definition sh_rows : dstate :=
  {| d_rows := [ {| dr_min := 0; dr_max := 10; dr_y := 0; dr_o := oN;
                    dr_cells := [ {| p_id := 0; p_x := 0; p_w := 2; p_pol := pANY; p_o := oN |};
                                  {| p_id := 1; p_x := 5; p_w := 2; p_pol := pANY; p_o := oN |} ] |} ];
     d_loose := [] |}.
Definition sh_state : ostate :=
  {| ox := incr_build [0; 5; 0] [[(0%nat, 0); (1%nat, 0)]]; oy := incr_build [0; 0; 0] [[(0%nat, 0); (1%nat, 0)]] |}.
Definition sh_pi (n : snode) : Z := match n with NCell 1 => 2 | NU _ => 2 | _ => 0 end.
Definition sh_flow : list Z := [1; 0; 0; 1; 0; 0; 1].
Example c05_shift_nonvacuous :
  OInv sh_state /\ Inv sh_rows /\ consistent sh_rows (ox sh_state) /\
  n_arcs (shift_net sh_rows (ox sh_state) [0%nat; 1%nat]) =
    [(NCell 1, NCell 0, -2); (NCell 0, NFixed, 0); (NFixed, NCell 1, 8);
     (NCell 0, NL 0, 0); (NU 0, NCell 0, 0); (NCell 1, NL 0, 0); (NU 0, NCell 1, 0)] /\
  shift_cert_ok (shift_net sh_rows (ox sh_state) [0%nat; 1%nat]) sh_pi sh_flow = true /\
  shift_cert_ok (shift_net sh_rows (ox sh_state) [0%nat; 1%nat]) sh_pi [1; 0; 0; 1; 0; 0; 0] = false /\
  shift_cert_ok (shift_net sh_rows (ox sh_state) [0%nat; 1%nat]) (fun n => match n with NCell 1 => 1 | NU _ => 1 | _ => 0 end) sh_flow = false /\
  positions_of [0%nat; 1%nat] sh_pi = [(0%nat, 0); (1%nat, 2)] /\
  ovalue sh_state = 5 /\ ovalue (oshift sh_state (positions_of [0%nat; 1%nat] sh_pi)) = 2 /\
  chist_ok sh_state [CS sh_rows [0%nat; 1%nat] sh_pi sh_flow].
Proof.
  split; [split; apply build_inv|]. split; [unfold Inv, sh_rows, row_ok; cbn; repeat constructor; cbn; lia|].
  split; [intros r c [<-|[]] [<-|[<-|[]]]; reflexivity|].
  split; [vm_compute; reflexivity|]. split; [vm_compute; reflexivity|]. split; [vm_compute; reflexivity|].
  split; [vm_compute; reflexivity|]. split; [vm_compute; reflexivity|]. split; [vm_compute; reflexivity|].
  split; [vm_compute; reflexivity|].
  cbn [chist_ok cstep_ok]. split; [|exact I].
  split; [unfold Inv, sh_rows, row_ok; cbn; repeat constructor; cbn; lia|].
  split; [intros r c [<-|[]] [<-|[<-|[]]]; reflexivity|].
  split; [repeat constructor|vm_compute; reflexivity].
Qed.

(* [R, known finding F8] the pin offsets of the optimised value are frozen at construction.  When a
   cell with a row polarity moves to a row of another orientation its real pin offsets change,
   and a move that lowers the frozen value can raise the true wirelength.  Witness: a 1x4 cell
   with a pin at its lower-left corner, a fixed pin at (0,3); the cell moves from the N row at
   y=0 to the FS row at y=4: frozen value 3 -> 1 (accepted), true wirelength 3 -> 5. *)
Definition w_net : list (list hpin) := [[{| pc := 0%nat; pxo := 0; pyo := 0 |}; {| pc := 1%nat; pxo := 0; pyo := 0 |}]].
Definition w_fixed : hcell := {| hx := 0; hy := 3; hw := 0; hh := 0; ho := oN |}.
Definition w_cell (y : Z) (o : orient) : hcell := {| hx := 0; hy := y; hw := 1; hh := 4; ho := o |}.
Theorem c05_frozen_offsets_refuted :
  hpwl [w_cell 4 oN; w_fixed] w_net < hpwl [w_cell 0 oN; w_fixed] w_net /\      (* what the optimiser sees *)
  hpwl [w_cell 0 oN; w_fixed] w_net < hpwl [w_cell 4 oFS; w_fixed] w_net.       (* what Circuit::hpwl reports *)
Proof. vm_compute. split; reflexivity. Qed.

(* non-vacuity: a model with two nets over three cells; a candidate list with an infeasible, a
   worsening and two improving candidates: the LAST improving one is performed *)
Definition ex_state : ostate :=
  {| ox := incr_build [0; 10; 20] [[(0%nat, 0); (1%nat, 0)]; [(1%nat, 0); (2%nat, 0)]];
     oy := incr_build [0; 0; 0] [[(0%nat, 0); (1%nat, 0)]; [(1%nat, 0); (2%nat, 0)]] |}.
Example c05_nonvacuous :
  OInv ex_state /\ ovalue ex_state = 20 /\
  let r := best_move ex_state [None; Some [(0%nat, (30, 0))]; Some [(0%nat, (10, 0))]; Some [(0%nat, (9, 0))]] in
  snd r = true /\ ovalue (fst r) = 11.
Proof. split; [split; apply build_inv|]. vm_compute. repeat split. Qed.

Print Assumptions c05_evaluation_is_pure.
Print Assumptions c05_accepted_move_decreases.
Print Assumptions c05_reordering_decreases.
Print Assumptions c05_history_monotone.
Print Assumptions c05_value_is_extent_sum.
Print Assumptions c05_frozen_offsets_refuted.
Print Assumptions c05_initial_value_is_hpwl.
Print Assumptions c05_shift_lp_weak_duality.
Print Assumptions c05_shift_certificate_optimal.
Print Assumptions c05_shift_untouched_nets_unchanged.
Print Assumptions c05_shift_certificate_optimal_touched.
Print Assumptions c05_shift_writeback_value.
Print Assumptions c05_certified_shift_never_worsens.
Print Assumptions c05_history_with_certified_shifts_monotone.
