(* C05 -- detailed placement never worsens wirelength.
   Models: Optimiser.v (accept/reject logic of bestSwap / bestInsert / bestSwapUpdate and of
   RowReordering over the incremental wirelength model of Hpwl.v), tied to /repo by ./check C05
   (exact replay of every best-move call of DetailedPlacer with the implementation's candidates;
   value() against the from-scratch wirelength after every optimiser pass; Circuit::hpwl() at
   every Detailed callback). *)
From Coq Require Import List ZArith Lia Bool.
Import ListNotations.
Require Import CV.Orient CV.Hpwl CV.HpwlProofs CV.HpwlFoldProofs CV.Optimiser CV.OptimiserProofs.
Local Open Scope Z_scope.

(* [F] valueOnSwap / valueOnInsert: the value returned is the value at the candidate
   positions and the evaluation leaves positions and value exactly as they were, for every
   state reachable from a freshly built model and every candidate *)
Theorem c05_evaluation_is_pure : forall s ms, OInv s ->
  let r := value_on s ms in
  fst r = ovalue (set_many s ms) /\ OInv (snd r) /\ same_nets (snd r) s /\ same_pos (snd r) s /\ ovalue (snd r) = ovalue s.
Proof. exact value_on_pure. Qed.

(* [F] bestSwap / bestInsert / bestSwapUpdate, for EVERY list of candidates (feasible or not):
   a move that is performed strictly decreases the optimised value; when none is performed
   value and positions are unchanged *)
Theorem c05_accepted_move_decreases : forall s cands, OInv s ->
  let r := best_move s cands in
  OInv (fst r) /\ same_nets (fst r) s /\
  (snd r = true -> ovalue (fst r) < ovalue s) /\
  (snd r = false -> ovalue (fst r) = ovalue s /\ same_pos (fst r) s).
Proof. exact best_move_decreases. Qed.

(* [F] row reordering, for every enumeration of leaves that assign the reordered cells: either a
   strictly better order is written back, or nothing changes (positions restored) *)
Theorem c05_reordering_decreases : forall s cs leaves, OInv s -> Forall (leaf_ok cs) leaves ->
  let r := reorder s cs leaves in
  OInv (fst r) /\ same_nets (fst r) s /\
  (snd r = true -> ovalue (fst r) < ovalue s) /\
  (snd r = false -> ovalue (fst r) = ovalue s /\ same_pos (fst r) s).
Proof. exact reorder_decreases. Qed.

(* [F] along ANY history of such steps the optimised value never increases *)
Theorem c05_history_monotone : forall os s, OInv s -> Forall ostep_ok os ->
  OInv (osteps_run s os) /\ ovalue (osteps_run s os) <= ovalue s.
Proof. exact history_monotone. Qed.

(* [F] the optimised value is the geometric one: the sum over nets of the x-extent and of the
   y-extent of the pin positions (C09), in every state satisfying the invariant *)
Theorem c05_value_is_extent_sum : forall s, OInv s ->
  ovalue s = fold_right (fun net a => extent (map (ipin_pos (ipos (ox s))) net) + a) 0 (inets (ox s))
           + fold_right (fun net a => extent (map (ipin_pos (ipos (oy s))) net) + a) 0 (inets (oy s)).
Proof.
  intros s Hs. rewrite (ovalue_scratch s Hs). cbn [incr_build ivalue]. rewrite !sum_widths_map. reflexivity.
Qed.

(* [F] at construction (DetailedPlacer's constructor builds the x and the y model over all cells of
   the circuit, pin offsets taken with the orientations of that moment) the optimised value IS
   Circuit::hpwl of the circuit, and the state satisfies the invariant the theorems above need *)
Theorem c05_initial_value_is_hpwl : forall cells nets subset,
  (forall net, In net nets -> bounded (map (pin_px cells) net) /\ bounded (map (pin_py cells) net)) ->
  let s := {| ox := circuit_topology true cells nets subset; oy := circuit_topology false cells nets subset |} in
  OInv s /\ ovalue s = hpwl cells nets.
Proof.
  intros cells nets subset Hb. cbn zeta. split.
  - split; unfold circuit_topology, topology; apply build_inv.
  - unfold ovalue. cbn [ox oy]. apply circuit_value_is_hpwl. exact Hb.
Qed.

(* [V] the shift pass (runShiftsOnCells: dual of a min-cost flow solved by lemon's network
   simplex, not modelled): "value after <= value before" is checked on every driven pass and
   on every exposed state, not proved. *)

(* [R, known finding F8] the pin offsets of the optimised value are frozen at construction.  When a
   cell with a row polarity moves to a row of another orientation its real pin offsets change,
   and a move that lowers the frozen value can raise the true wirelength.  Witness: a 1x4 cell
   with a pin at its lower-left corner, a fixed pin at (0,3); the cell moves from the N row at
   y=0 to the FS row at y=4: frozen value 3 -> 1 (accepted), true wirelength 3 -> 5. *)
Definition w_net : list (list hpin) := [[{| pc := 0%nat; pxo := 0; pyo := 0 |}; {| pc := 1%nat; pxo := 0; pyo := 0 |}]].
Definition w_fixed : hcell := {| hx := 0; hy := 3; hw := 0; hh := 0; ho := oN |}.
Definition w_cell (y : Z) (o : orient) : hcell := {| hx := 0; hy := y; hw := 1; hh := 4; ho := o |}.
Theorem c05_frozen_offsets_refuted :
  hpwl [w_cell 4 oN; w_fixed] w_net < hpwl [w_cell 0 oN; w_fixed] w_net /\      (* what the optimiser sees *)
  hpwl [w_cell 0 oN; w_fixed] w_net < hpwl [w_cell 4 oFS; w_fixed] w_net.       (* what Circuit::hpwl reports *)
Proof. vm_compute. split; reflexivity. Qed.

(* non-vacuity: a model with two nets over three cells; a candidate list with an infeasible, a
   worsening and two improving candidates: the LAST improving one is performed *)
Definition ex_state : ostate :=
  {| ox := incr_build [0; 10; 20] [[(0%nat, 0); (1%nat, 0)]; [(1%nat, 0); (2%nat, 0)]];
     oy := incr_build [0; 0; 0] [[(0%nat, 0); (1%nat, 0)]; [(1%nat, 0); (2%nat, 0)]] |}.
Example c05_nonvacuous :
  OInv ex_state /\ ovalue ex_state = 20 /\
  let r := best_move ex_state [None; Some [(0%nat, (30, 0))]; Some [(0%nat, (10, 0))]; Some [(0%nat, (9, 0))]] in
  snd r = true /\ ovalue (fst r) = 11.
Proof. split; [split; apply build_inv|]. vm_compute. repeat split. Qed.

Print Assumptions c05_evaluation_is_pure.
Print Assumptions c05_accepted_move_decreases.
Print Assumptions c05_reordering_decreases.
Print Assumptions c05_history_monotone.
Print Assumptions c05_value_is_extent_sum.
Print Assumptions c05_frozen_offsets_refuted.
Print Assumptions c05_initial_value_is_hpwl.
