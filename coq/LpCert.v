From Coq Require Import List ZArith Lia Bool.
Import ListNotations.
Local Open Scope Z_scope.

Fixpoint zsum (f : nat -> Z) (l : list nat) : Z := match l with [] => 0 | a :: l' => f a + zsum f l' end.

Lemma zsum_ext f g l : (forall a, In a l -> f a = g a) -> zsum f l = zsum g l.
Proof. induction l as [|a l IH]; cbn [zsum]; intros H; [reflexivity|]. rewrite (H a) by (left; reflexivity). rewrite IH; [reflexivity|]. intros b Hb; apply H; right; assumption. Qed.
Lemma zsum_le f g l : (forall a, In a l -> f a <= g a) -> zsum f l <= zsum g l.
Proof. induction l as [|a l IH]; cbn [zsum]; intros H; [lia|]. specialize (H a (or_introl eq_refl)) as Ha. assert (zsum f l <= zsum g l) by (apply IH; intros b Hb; apply H; right; assumption). lia. Qed.
Lemma zsum_plus f g l : zsum (fun a => f a + g a) l = zsum f l + zsum g l.
Proof. induction l as [|a l IH]; cbn [zsum]; [reflexivity|]. rewrite IH; lia. Qed.
Lemma zsum_minus f g l : zsum (fun a => f a - g a) l = zsum f l - zsum g l.
Proof. induction l as [|a l IH]; cbn [zsum]; [reflexivity|]. rewrite IH; lia. Qed.
Lemma zsum_scal k f l : zsum (fun a => k * f a) l = k * zsum f l.
Proof. induction l as [|a l IH]; cbn [zsum]; [lia|]. rewrite IH; lia. Qed.
Lemma zsum_zero l : zsum (fun _ => 0) l = 0.
Proof. induction l as [|a l IH]; cbn [zsum]; lia. Qed.
Lemma zsum_swap (f : nat -> nat -> Z) l1 l2 :
  zsum (fun a => zsum (fun b => f a b) l2) l1 = zsum (fun b => zsum (fun a => f a b) l1) l2.
Proof.
  induction l1 as [|a l1 IH]; cbn [zsum].
  - symmetry; apply zsum_zero.
  - rewrite IH. rewrite <- zsum_plus. reflexivity.
Qed.

Section Transport.
Variables (srcs snks : list nat).            (* index sets *)
Variables (d cap : nat -> Z) (c : nat -> nat -> Z).   (* c snk src *)

Definition load (x : nat -> nat -> Z) j := zsum (fun i => x j i) srcs.
Definition sent (x : nat -> nat -> Z) i := zsum (fun j => x j i) snks.
Definition cost (x : nat -> nat -> Z) := zsum (fun j => zsum (fun i => c j i * x j i) srcs) snks.

Definition feasible (x : nat -> nat -> Z) : Prop :=
  (forall i, In i srcs -> sent x i = d i) /\
  (forall j, In j snks -> load x j <= cap j) /\
  (forall i j, In i srcs -> In j snks -> 0 <= x j i).

Definition dual_ok (u v : nat -> Z) : Prop :=
  (forall j, In j snks -> 0 <= v j) /\ (forall i j, In i srcs -> In j snks -> u i - v j <= c j i).

Definition slack (x : nat -> nat -> Z) (u v : nat -> Z) : Prop :=
  (forall i j, In i srcs -> In j snks -> 0 < x j i -> u i - v j = c j i) /\
  (forall j, In j snks -> 0 < v j -> load x j = cap j).

Definition dual_value (u v : nat -> Z) := zsum (fun i => u i * d i) srcs - zsum (fun j => v j * cap j) snks.

Lemma reduced_sum (x : nat -> nat -> Z) u v :
  zsum (fun j => zsum (fun i => (u i - v j) * x j i) srcs) snks
  = zsum (fun i => u i * sent x i) srcs - zsum (fun j => v j * load x j) snks.
Proof.
  transitivity (zsum (fun j => zsum (fun i => u i * x j i) srcs - v j * load x j) snks).
  - apply zsum_ext; intros j _. unfold load. rewrite <- zsum_scal, <- zsum_minus. apply zsum_ext; intros i _; lia.
  - rewrite zsum_minus. f_equal. rewrite zsum_swap. apply zsum_ext; intros i _. unfold sent. rewrite <- zsum_scal. reflexivity.
Qed.

Lemma weak_duality x u v : feasible x -> dual_ok u v -> dual_value u v <= cost x.
Proof.
  intros (Hs & Hl & Hp) (Hv & Huv). unfold cost, dual_value.
  assert (H1 : zsum (fun j => zsum (fun i => (u i - v j) * x j i) srcs) snks
               <= zsum (fun j => zsum (fun i => c j i * x j i) srcs) snks).
  { apply zsum_le; intros j Hj. apply zsum_le; intros i Hi.
    specialize (Hp i j Hi Hj). specialize (Huv i j Hi Hj). nia. }
  rewrite reduced_sum in H1.
  assert (H2 : zsum (fun i => u i * sent x i) srcs = zsum (fun i => u i * d i) srcs).
  { apply zsum_ext; intros i Hi. rewrite (Hs i Hi); reflexivity. }
  assert (H3 : zsum (fun j => v j * load x j) snks <= zsum (fun j => v j * cap j) snks).
  { apply zsum_le; intros j Hj. specialize (Hl j Hj). specialize (Hv j Hj). nia. }
  lia.
Qed.

Lemma strong_at_slack x u v : feasible x -> dual_ok u v -> slack x u v -> cost x = dual_value u v.
Proof.
  intros (Hs & Hl & Hp) (Hv & Huv) (Sx & Sv). unfold cost, dual_value.
  assert (H1 : zsum (fun j => zsum (fun i => c j i * x j i) srcs) snks
             = zsum (fun j => zsum (fun i => (u i - v j) * x j i) srcs) snks).
  { apply zsum_ext; intros j Hj. apply zsum_ext; intros i Hi.
    specialize (Hp i j Hi Hj). destruct (Z.eq_dec (x j i) 0) as [E|E]; [rewrite E; lia|].
    rewrite (Sx i j Hi Hj) by lia. reflexivity. }
  rewrite H1, reduced_sum.
  assert (H2 : zsum (fun i => u i * sent x i) srcs = zsum (fun i => u i * d i) srcs).
  { apply zsum_ext; intros i Hi. rewrite (Hs i Hi); reflexivity. }
  assert (H3 : zsum (fun j => v j * load x j) snks = zsum (fun j => v j * cap j) snks).
  { apply zsum_ext; intros j Hj. specialize (Hv j Hj). destruct (Z.eq_dec (v j) 0) as [E|E]; [rewrite E; lia|].
    rewrite (Sv j Hj) by lia. reflexivity. }
  lia.
Qed.

Theorem lp_cert_sound x u v x' :
  feasible x -> dual_ok u v -> slack x u v -> feasible x' -> cost x <= cost x'.
Proof. intros Hx Hd Hs Hx'. rewrite (strong_at_slack x u v Hx Hd Hs). apply weak_duality; assumption. Qed.
End Transport.
Print Assumptions lp_cert_sound.
