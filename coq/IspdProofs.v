(* C20 -- proofs about the models of Ispd.v: the reader applied to the exporter's files returns the
   circuit's projection (round trip), equal HPWL, reflection lemmas for the domain and for the binding rule. *)
From Coq Require Import String Ascii.
From Coq Require Import List ZArith Lia Bool.
Import ListNotations.
Require Import CV.Orient CV.Hpwl CV.Ispd.
Local Open Scope string_scope.
Local Open Scope list_scope.
Local Open Scope Z_scope.

(* ------------------------------------------------------------------ small list facts *)
Lemma length_number_from {A} (l : list A) k : length (number_from k l) = length l.
Proof. revert k; induction l; intros; cbn; auto. Qed.

Lemma map_snd_number_from {A} (l : list A) k : map snd (number_from k l) = l.
Proof. revert k; induction l; intros; cbn; f_equal; auto. Qed.

Lemma map_fst_number_from {A} (l : list A) k : map fst (number_from k l) = seq k (length l).
Proof. revert k; induction l; intros; cbn; f_equal; auto. Qed.

Lemma set_nth_app {A} (p : list A) d r a : set_nth (p ++ d :: r) (length p) a = p ++ a :: r.
Proof. induction p; cbn; f_equal; auto. Qed.

Lemma all_some_map {A B} (f : B -> option A) (g : A -> B) l :
  (forall a, In a l -> f (g a) = Some a) -> all_some (map f (map g l)) = Some l.
Proof.
  induction l; intros H; cbn; auto.
  rewrite (H a (or_introl eq_refl)), IHl; auto. intros; apply H; right; auto.
Qed.

Lemma all_some_Some {A} (l : list A) : all_some (map Some l) = Some l.
Proof. induction l; cbn; auto. rewrite IHl; auto. Qed.

(* ------------------------------------------------------------------ numbers *)
Lemma round_half_double z : round_half (2 * z) = z.
Proof.
  unfold round_half. replace (Z.even (2 * z)) with true by (symmetry; rewrite Z.even_mul; reflexivity).
  rewrite Z.mul_comm. apply Z.div_mul. lia.
Qed.

(* ------------------------------------------------------------------ name dictionary *)
Lemma lookup_from_seq i : forall n k acc,
  lookup_from (map TCell (seq k n)) k (TCell i) acc = if (Nat.leb k i && Nat.ltb i (k + n))%bool then Some i else acc.
Proof.
  induction n; intros k acc; cbn [seq map lookup_from].
  - destruct (Nat.leb_spec k i), (Nat.ltb_spec i (k + 0)); cbn [andb]; auto; lia.
  - rewrite IHn. cbn [token_eqb].
    destruct (Nat.eqb_spec k i), (Nat.leb_spec (S k) i), (Nat.leb_spec k i), (Nat.ltb_spec i (S k + n)), (Nat.ltb_spec i (k + S n));
      cbn [andb]; try lia; auto; congruence.
Qed.

Lemma name_index_seq n i : (i < n)%nat -> name_index (map TCell (seq 0 n)) (TCell i) = Some i.
Proof.
  intros H. unfold name_index. rewrite lookup_from_seq.
  destruct (Nat.leb_spec 0 i), (Nat.ltb_spec i (0 + n)); cbn [andb]; auto; lia.
Qed.

(* ------------------------------------------------------------------ .nodes *)
Definition node_of (ic : nat * cell) : node := mkNode (TCell (fst ic)) (cw (snd ic)) (ch (snd ic)) (cfixed (snd ic)) true.

Lemma nodes_step_line s ic :
  nodes_step (Some s) (nodes_line ic) = Some (mkNS (ns_nb s) (ns_term s) (ns_first s) (ns_nodes s ++ [node_of ic])).
Proof. destruct ic as [i c]. unfold nodes_line, node_of. cbn [fst snd]. destruct (cfixed c); reflexivity. Qed.

Lemma nodes_fold cs : forall k s,
  fold_left nodes_step (map nodes_line (number_from k cs)) (Some s) =
  Some (mkNS (ns_nb s) (ns_term s) (ns_first s) (ns_nodes s ++ map node_of (number_from k cs))).
Proof.
  induction cs; intros k s; cbn [number_from map fold_left].
  - rewrite app_nil_r. destruct s; reflexivity.
  - rewrite nodes_step_line, IHcs. cbn. rewrite <- app_assoc. reflexivity.
Qed.

Lemma filter_nfixed cs : forall k, length (filter nfixed (map node_of (number_from k cs))) = length (filter cfixed cs).
Proof. induction cs; intros k; cbn; auto. destruct (cfixed a); cbn; rewrite IHcs; auto. Qed.

Lemma read_nodes_export c : read_nodes (export_nodes c) = Some (map node_of (number_from 0 (cells c))).
Proof.
  unfold read_nodes, export_nodes. cbn [fold_left].
  change (nodes_step (nodes_step (nodes_step (nodes_step (Some (mkNS None None false [])) (ucla "nodes")) [])
            (kv "NumNodes" (Z.of_nat (length (cells c))))) (kv "NumTerminals" (Z.of_nat (length (filter cfixed (cells c))))))
    with (Some (mkNS (Some (Z.of_nat (length (cells c)))) (Some (Z.of_nat (length (filter cfixed (cells c))))) true [])).
  rewrite nodes_fold. cbn [ns_nb ns_term ns_nodes app opt_is].
  rewrite map_length, length_number_from, filter_nfixed, !Z.eqb_refl. reflexivity.
Qed.

(* ------------------------------------------------------------------ .nets *)
Definition cell_names (n : nat) : list token := map TCell (seq 0 n).
Definition rp_of (cs : list cell) (p : pin) : rpin :=
  (pcell p, 2 * ppx p - cw (nth (pcell p) cs dcell), 2 * ppy p - ch (nth (pcell p) cs dcell)).
Definition rn_of (cs : list cell) (inet : nat * list pin) : rnet :=
  (TNet (fst inet), Z.of_nat (length (snd inet)), map (rp_of cs) (snd inet)).

Lemma nets_step_pin cs s nm deg pins older p :
  ts_rev s = (nm, deg, pins) :: older -> (pcell p < length cs)%nat ->
  nets_step (cell_names (length cs)) (Some s) (pin_line true cs p) =
  Some (mkTS (ts_nets s) (ts_pins s) (ts_first s) ((nm, deg, pins ++ [rp_of cs p]) :: older)).
Proof.
  intros H L. unfold pin_line, nets_step, rp_of. cbn [split filter is_ws negb tb sp].
  cbn [starts no_colon filter is_colon negb andb]. cbn [tok_float2].
  unfold cell_names. rewrite (name_index_seq _ _ L), H. reflexivity.
Qed.

Lemma nets_fold_pins cs net : forall s nm deg pins older,
  ts_rev s = (nm, deg, pins) :: older -> Forall (fun p => (pcell p < length cs)%nat) net ->
  fold_left (nets_step (cell_names (length cs))) (map (pin_line true cs) net) (Some s) =
  Some (mkTS (ts_nets s) (ts_pins s) (ts_first s) ((nm, deg, pins ++ map (rp_of cs) net) :: older)).
Proof.
  induction net; intros s nm deg pins older H F; cbn [map fold_left].
  - rewrite app_nil_r, <- H. destruct s; reflexivity.
  - inversion F; subst. rewrite (nets_step_pin _ _ _ _ _ _ _ H H2).
    erewrite IHnet; [ | cbn [ts_rev]; reflexivity | assumption ]. cbn. rewrite <- app_assoc. reflexivity.
Qed.

Lemma nets_fold_net cs s inet :
  Forall (fun p => (pcell p < length cs)%nat) (snd inet) ->
  fold_left (nets_step (cell_names (length cs))) (net_lines true cs inet) (Some s) =
  Some (mkTS (ts_nets s) (ts_pins s) (ts_first s) (rn_of cs inet :: ts_rev s)).
Proof.
  intros F. unfold net_lines. cbn [fold_left].
  change (nets_step (cell_names (length cs)) (Some s)
            [TWord "NetDegree"; sp; TColon; sp; TInt (Z.of_nat (length (snd inet))); sp; TNet (fst inet)])
    with (Some (mkTS (ts_nets s) (ts_pins s) (ts_first s) ((TNet (fst inet), Z.of_nat (length (snd inet)), []) :: ts_rev s))).
  erewrite nets_fold_pins; [ | cbn [ts_rev]; reflexivity | assumption ]. reflexivity.
Qed.

Lemma nets_fold cs ns : forall k s,
  Forall (fun n => Forall (fun p => (pcell p < length cs)%nat) n) ns ->
  fold_left (nets_step (cell_names (length cs))) (flat_map (net_lines true cs) (number_from k ns)) (Some s) =
  Some (mkTS (ts_nets s) (ts_pins s) (ts_first s) (rev (map (rn_of cs) (number_from k ns)) ++ ts_rev s)).
Proof.
  induction ns; intros k s F; cbn [number_from flat_map map rev].
  - destruct s; reflexivity.
  - inversion F; subst. rewrite fold_left_app, nets_fold_net by assumption.
    rewrite IHns by assumption. cbn [ts_nets ts_pins ts_first ts_rev]. rewrite <- app_assoc. reflexivity.
Qed.

Lemma nb_pins_rn cs ns : forall k,
  fold_right (fun (n : rnet) a => (length (snd n) + a)%nat) 0%nat (map (rn_of cs) (number_from k ns)) = nb_pins ns.
Proof. induction ns; intros k; cbn; auto. rewrite map_length, IHns. reflexivity. Qed.

Lemma deg_ok_rn cs ns : forall k,
  forallb (fun n : rnet => match n with (_, deg, pins) => Z.eqb deg (Z.of_nat (length pins)) end) (map (rn_of cs) (number_from k ns)) = true.
Proof. induction ns; intros k; cbn; auto. rewrite map_length, Z.eqb_refl, IHns. reflexivity. Qed.

Lemma conv_rp cs p :
  conv_pin (map cw cs) (map ch cs) (rp_of cs p) = p.
Proof.
  unfold conv_pin, rp_of. change 0 with (cw dcell) at 1. rewrite map_nth. change 0 with (ch dcell) at 1. rewrite map_nth.
  replace (cw (nth (pcell p) cs dcell) + (2 * ppx p - cw (nth (pcell p) cs dcell))) with (2 * ppx p) by lia.
  replace (ch (nth (pcell p) cs dcell) + (2 * ppy p - ch (nth (pcell p) cs dcell))) with (2 * ppy p) by lia.
  rewrite !round_half_double. destruct p; reflexivity.
Qed.

Lemma conv_rn cs ns : forall k,
  map (fun n : rnet => map (conv_pin (map cw cs) (map ch cs)) (snd n)) (map (rn_of cs) (number_from k ns)) = ns.
Proof.
  induction ns; intros k; cbn; auto. rewrite IHns. f_equal.
  rewrite map_map. rewrite <- (map_id a) at 2. apply map_ext. intros; apply conv_rp.
Qed.

Lemma read_nets_export c :
  Forall (fun n => Forall (fun p => (pcell p < length (cells c))%nat) n) (nets c) ->
  read_nets (export_nets true c) (cell_names (length (cells c))) (map cw (cells c)) (map ch (cells c)) = Some (nets c).
Proof.
  intros F. unfold read_nets, export_nets. cbn [fold_left].
  change (nets_step (cell_names (length (cells c)))
            (nets_step (cell_names (length (cells c)))
               (nets_step (cell_names (length (cells c)))
                  (nets_step (cell_names (length (cells c)))
                     (nets_step (cell_names (length (cells c))) (Some (mkTS None None false [])) (ucla "nets")) [])
                  (kv "NumNets" (Z.of_nat (length (nets c))))) (kv "NumPins" (Z.of_nat (nb_pins (nets c))))) [])
    with (Some (mkTS (Some (Z.of_nat (length (nets c)))) (Some (Z.of_nat (nb_pins (nets c)))) true [])).
  rewrite (nets_fold _ _ _ _ F). cbn [ts_nets ts_pins ts_rev ts_first].
  rewrite app_nil_r, rev_involutive, deg_ok_rn, nb_pins_rn, map_length, length_number_from.
  cbn [opt_is]. rewrite !Z.eqb_refl. cbn [andb]. rewrite conv_rn. reflexivity.
Qed.

(* ------------------------------------------------------------------ .pl *)
Lemma place_step_line n s px py po x0 y0 o0 rx ry ro c :
  ps_x s = px ++ x0 :: rx -> ps_y s = py ++ y0 :: ry -> ps_o s = po ++ o0 :: ro ->
  length py = length px -> length po = length px -> (length px < n)%nat -> real_orient (co c) = true ->
  place_step (cell_names n) (Some s) (place_line (length px, c)) =
  Some (mkPS (ps_first s) (px ++ cx c :: rx) (py ++ cy c :: ry) (po ++ Some (co c) :: ro)).
Proof.
  intros Hx Hy Ho Ly Lo L R. unfold place_line, place_step. cbn [fst snd split filter is_ws negb tb sp].
  cbn [starts no_colon filter is_colon negb andb tok_int tok_orient]. unfold cell_names.
  rewrite (name_index_seq _ _ L), R, Hx, Hy, Ho.
  rewrite set_nth_app. rewrite <- Ly at 1. rewrite set_nth_app. rewrite <- Lo at 1. rewrite set_nth_app. reflexivity.
Qed.

Lemma place_fold n cs : forall s px py po,
  ps_x s = px ++ repeat 0 (length cs) -> ps_y s = py ++ repeat 0 (length cs) -> ps_o s = po ++ repeat None (length cs) ->
  length py = length px -> length po = length px -> (length px + length cs = n)%nat ->
  Forall (fun x => real_orient (co x) = true) cs ->
  fold_left (place_step (cell_names n)) (map place_line (number_from (length px) cs)) (Some s) =
  Some (mkPS (ps_first s) (px ++ map cx cs) (py ++ map cy cs) (po ++ map (fun x => Some (co x)) cs)).
Proof.
  induction cs; intros s px py po Hx Hy Ho Ly Lo Ln F; cbn [number_from map fold_left].
  - cbn in Hx, Hy, Ho. rewrite <- Hx, <- Hy, <- Ho. destruct s; reflexivity.
  - inversion_clear F as [|? ? R F']. cbn [length repeat] in *.
    erewrite (place_step_line n); eauto; [ | lia ].
    replace (S (length px)) with (length (px ++ [cx a])) by (rewrite app_length; cbn; lia).
    rewrite (IHcs _ (px ++ [cx a]) (py ++ [cy a]) (po ++ [Some (co a)])); cbn [ps_x ps_y ps_o ps_first];
      rewrite <- ?app_assoc; cbn [app]; try reflexivity; try assumption; rewrite ?app_length; cbn [length]; lia.
Qed.

Lemma read_place_export c :
  Forall (fun x => real_orient (co x) = true) (cells c) ->
  read_place (export_place c) (cell_names (length (cells c))) =
  Some (map cx (cells c), map cy (cells c), map (fun x => Some (co x)) (cells c)).
Proof.
  intros F. unfold read_place, export_place. cbv zeta.
  replace (length (cell_names (length (cells c)))) with (length (cells c))
    by (unfold cell_names; rewrite map_length, seq_length; reflexivity).
  cbn [fold_left].
  change (place_step (cell_names (length (cells c)))
            (place_step (cell_names (length (cells c)))
               (Some (mkPS false (repeat 0 (length (cells c))) (repeat 0 (length (cells c))) (repeat None (length (cells c))))) (ucla "pl")) [])
    with (Some (mkPS true (repeat 0 (length (cells c))) (repeat 0 (length (cells c))) (repeat None (length (cells c))))).
  rewrite (place_fold (length (cells c)) (cells c) _ [] [] []); auto.
Qed.

(* ------------------------------------------------------------------ .scl *)
Definition desc_of (r : row) : line :=
  [TWord "Coordinate"; TInt (rminy r); TWord "Height"; TInt (rmaxy r - rminy r); TWord "Sitewidth"; TInt 1;
   TWord "Sitespacing"; TInt 1; TWord "Siteorient"; TOrient (rorient r); TWord "Sitesymmetry"; TInt 1;
   TWord "SubrowOrigin"; TInt (rminx r); TWord "NumSites"; TInt (rmaxx r - rminx r)].

Lemma num_rows_fold rs : forall x, fold_left num_rows_step (flat_map (row_lines true) rs) (Some x) = Some x.
Proof. induction rs; intros x; cbn [flat_map]; auto. rewrite fold_left_app. rewrite <- (IHrs x) at 2. f_equal. Qed.

Lemma desc_fold rs : forall acc,
  fold_left desc_step (flat_map (row_lines true) rs) (acc, false) = (rev (map desc_of rs) ++ acc, false).
Proof.
  induction rs; intros acc; cbn [flat_map map rev]; auto.
  rewrite fold_left_app.
  change (fold_left desc_step (row_lines true a) (acc, false)) with (desc_of a :: acc, false).
  rewrite IHrs, <- app_assoc. reflexivity.
Qed.

Lemma scan_desc y h x w o : real_orient o = true ->
  scan_pairs (mkRS None None None None 1 oN true)
    [TWord "Coordinate"; TInt y; TWord "Height"; TInt h; TWord "Sitewidth"; TInt 1;
     TWord "Sitespacing"; TInt 1; TWord "Siteorient"; TOrient o; TWord "Sitesymmetry"; TInt 1;
     TWord "SubrowOrigin"; TInt x; TWord "NumSites"; TInt w] = mkRS (Some x) (Some y) (Some w) (Some h) 1 o true.
Proof. intros R. destruct o; try discriminate R; vm_compute; reflexivity. Qed.

Lemma read_row_desc r : real_orient (rorient r) = true -> read_row (desc_of r) = Some r.
Proof.
  destruct r as [x0 x1 y0 y1 o]. cbn [rorient]. intros R. unfold read_row, desc_of.
  cbn [rminx rmaxx rminy rmaxy rorient]. rewrite (scan_desc _ _ _ _ _ R).
  cbn [rs_ok rs_minx rs_miny rs_w rs_h rs_site rs_o]. f_equal. f_equal; lia.
Qed.

Lemma read_rows_export c :
  Forall (fun r => real_orient (rorient r) = true) (rows c) -> read_rows (export_rows true c) = Some (rows c).
Proof.
  intros F. unfold read_rows, export_rows. cbn [fold_left].
  change (num_rows_step (num_rows_step (num_rows_step (num_rows_step (Some None) (ucla "scl")) [])
            (kv "NumRows" (Z.of_nat (length (rows c))))) [])
    with (Some (Some (Z.of_nat (length (rows c))))).
  rewrite num_rows_fold.
  change (desc_step (desc_step (desc_step (desc_step ([], false) (ucla "scl")) []) (kv "NumRows" (Z.of_nat (length (rows c))))) [])
    with (@nil line, false).
  rewrite desc_fold. cbn [fst]. rewrite app_nil_r, rev_involutive.
  apply all_some_map. intros r I. apply read_row_desc. rewrite Forall_forall in F. auto.
Qed.

(* ------------------------------------------------------------------ read_ispd (export_ispd c) *)
Lemma names_of_nodes cs : forall k, map nname (map node_of (number_from k cs)) = map TCell (seq k (length cs)).
Proof. induction cs; intros k; cbn; f_equal; auto. Qed.
Lemma widths_of_nodes cs : forall k, map nw (map node_of (number_from k cs)) = map cw cs.
Proof. induction cs; intros k; cbn; f_equal; auto. Qed.
Lemma heights_of_nodes cs : forall k, map nh (map node_of (number_from k cs)) = map ch cs.
Proof. induction cs; intros k; cbn; f_equal; auto. Qed.

Lemma filter_nonempty (ns : list (list pin)) :
  Forall (fun n => n <> []) ns -> filter (fun n => match n with [] => false | _ => true end) ns = ns.
Proof. induction 1; cbn; auto. destruct x; [congruence|]. rewrite IHForall. reflexivity. Qed.

Lemma final_cells rh cs : forall px py po,
  length py = length px -> length po = length px ->
  map proj_cell
    (map (fun inode : nat * node =>
            let (i, n) := inode in
            mkCell (nw n) (nh n) (nfixed n) (nobs n) (pol_of rh (nh n))
                   (nth i (px ++ map cx cs) 0) (nth i (py ++ map cy cs) 0) (nth i (po ++ map co cs) oN))
         (number_from (length px) (map node_of (number_from (length px) cs)))) = map proj_cell cs.
Proof.
  induction cs; intros px py po Ly Lo; cbn [number_from map]; auto.
  f_equal.
  - unfold proj_cell, node_of. cbn [fst snd nw nh nfixed cw ch cfixed cx cy co].
    rewrite (app_nth2 px), (app_nth2 py), (app_nth2 po) by lia.
    rewrite Ly, Lo, !Nat.sub_diag. reflexivity.
  - replace (S (length px)) with (length (px ++ [cx a])) by (rewrite app_length; cbn; lia).
    specialize (IHcs (px ++ [cx a]) (py ++ [cy a]) (po ++ [co a])).
    rewrite <- !app_assoc in IHcs. cbn [app] in IHcs. apply IHcs; rewrite !app_length; cbn; lia.
Qed.

Lemma fs_get_export pf rf name c :
  fs_get (export_ispd_v pf rf name c) name "aux" = Some (export_aux name) /\
  fs_get (export_ispd_v pf rf name c) name "nodes" = Some (export_nodes c) /\
  fs_get (export_ispd_v pf rf name c) name "pl" = Some (export_place c) /\
  fs_get (export_ispd_v pf rf name c) name "nets" = Some (export_nets pf c) /\
  fs_get (export_ispd_v pf rf name c) name "scl" = Some (export_rows rf c).
Proof. unfold export_ispd_v. cbn [fs_get]. rewrite !String.eqb_refl. cbn. auto. Qed.

Lemma read_aux_export name : read_aux (export_aux name) = Some (name, name, name, name).
Proof. reflexivity. Qed.

Theorem roundtrip name c :
  wf c -> exists r, read_ispd (export_ispd name c) name = Some r /\ project r = project c.
Proof.
  intros (Ho & Hr & Hn & rh & Hrh & Hz).
  assert (Hidx : Forall (fun n => Forall (fun p => (pcell p < length (cells c))%nat) n) (nets c)).
  { eapply Forall_impl; [|exact Hn]. intros n [_ F]. eapply Forall_impl; [|exact F]. intros p P. apply P. }
  assert (Hne : Forall (fun n : list pin => n <> []) (nets c)).
  { eapply Forall_impl; [|exact Hn]. intros n [N _]. exact N. }
  unfold read_ispd, export_ispd.
  destruct (fs_get_export true true name c) as (E1 & E2 & E3 & E4 & E5).
  rewrite E1, read_aux_export, E2, E3, E4, E5, read_nodes_export.
  rewrite names_of_nodes, widths_of_nodes, heights_of_nodes.
  change (map TCell (seq 0 (length (cells c)))) with (cell_names (length (cells c))).
  rewrite (read_nets_export c Hidx), (read_place_export c Ho), (read_rows_export c Hr).
  replace (map (fun x : cell => Some (co x)) (cells c)) with (map Some (map co (cells c))) by (rewrite map_map; reflexivity).
  rewrite all_some_Some, Hrh.
  assert (Hh : forallb (fun h : Z => (4 * rh <? h) || negb (rh =? 0)) (map ch (cells c)) = true).
  { apply forallb_forall. intros h I. apply in_map_iff in I. destruct I as (x & <- & I).
    destruct Hz as [Z | P].
    - apply Z.eqb_neq in Z. rewrite Z. apply orb_true_r.
    - rewrite Forall_forall in P. specialize (P x I). destruct (Z.eqb_spec rh 0); [|apply orb_true_r].
      subst rh. replace (4 * 0 <? ch x) with true by (symmetry; apply Z.ltb_lt; lia). reflexivity. }
  rewrite Hh. eexists. split; [reflexivity|].
  unfold project. cbn [cells nets rows]. rewrite (filter_nonempty _ Hne).
  pose proof (final_cells rh (cells c) [] [] [] eq_refl eq_refl) as FC. cbn [app length] in FC. rewrite FC. reflexivity.
Qed.

(* ------------------------------------------------------------------ therefore the same wirelength *)
Lemma hcells_of_proj : forall l1 l2, map proj_cell l1 = map proj_cell l2 -> map to_hcell l1 = map to_hcell l2.
Proof.
  induction l1; destruct l2; cbn; intros H; try discriminate; auto.
  injection H as H1 H2. f_equal; auto.
  unfold proj_cell in H1. unfold to_hcell. destruct a, c; cbn in *. congruence.
Qed.

Theorem same_projection_same_hpwl r c : project r = project c -> circuit_hpwl r = circuit_hpwl c.
Proof.
  unfold project, circuit_hpwl. intros H. injection H as H1 H2 H3. rewrite (hcells_of_proj _ _ H1), H2. reflexivity.
Qed.

Theorem roundtrip_hpwl name c :
  wf c -> exists r, read_ispd (export_ispd name c) name = Some r /\ circuit_hpwl r = circuit_hpwl c.
Proof. intros W. destruct (roundtrip name c W) as (r & R & P). exists r. split; auto. apply same_projection_same_hpwl; auto. Qed.

(* ------------------------------------------------------------------ the domain, as a boolean (used by ./check C20 to select the in-domain cases) *)
Lemma text_exactb_correct k : text_exactb k = true <-> text_exact k.
Proof. unfold text_exactb, text_exact. rewrite andb_true_iff, !Z.ltb_lt. tauto. Qed.

Lemma wfb_correct c : wfb c = true <-> wf c.
Proof.
  unfold wfb, wf. rewrite !andb_true_iff, !forallb_forall, !Forall_forall.
  split.
  - intros (((A & B) & C) & D). split; [exact A|]. split; [exact B|]. split.
    + intros n I. specialize (C n I). apply andb_true_iff in C. destruct C as [C0 C]. split.
      * destruct n; [discriminate|congruence].
      * apply Forall_forall. intros p J. rewrite forallb_forall in C. specialize (C p J).
        rewrite !andb_true_iff in C. destruct C as ((C1 & C2) & C3).
        unfold pin_ok. rewrite <- !text_exactb_correct. apply Nat.ltb_lt in C1. auto.
    + destruct (row_height (rows c)) as [rh|]; [|discriminate]. exists rh. split; auto.
      apply orb_true_iff in D. destruct D as [D | D].
      * left. apply negb_true_iff, Z.eqb_neq in D. exact D.
      * right. apply Forall_forall. rewrite forallb_forall in D. intros x I. apply Z.ltb_lt. auto.
  - intros (A & B & C & rh & D & E). split; [split; [split; [exact A|exact B]|]|].
    + intros n I. destruct (C n I) as [N F]. apply andb_true_iff. split; [destruct n; congruence|].
      apply forallb_forall. intros p J. rewrite Forall_forall in F. destruct (F p J) as (P1 & P2 & P3).
      rewrite !andb_true_iff, !text_exactb_correct. split; [split|]; auto. apply Nat.ltb_lt; auto.
    + rewrite D. apply orb_true_iff. destruct E as [E | E].
      * left. apply negb_true_iff, Z.eqb_neq. exact E.
      * right. apply forallb_forall. rewrite Forall_forall in E. intros x I. apply Z.ltb_lt. auto.
Qed.

(* ------------------------------------------------------------------ the unchanged tree (finding F14) *)
(* one FN cell of width 4 with a pin at x-offset 1, one N row: the unchanged exporter writes the pin of the
   flipped cell (oriented offset 3, minus half the unoriented width) and the reader returns offset 3 *)
Definition f14_pins : circuit :=
  mkCircuit [mkCell 4 2 false true pANY 10 0 oFN; mkCell 2 2 false true pANY 0 0 oN]
            [[mkPin 0 1 1; mkPin 1 0 0]] [mkRow 0 20 0 2 oN].
(* one N cell, an FS row: the unchanged exporter writes "Siteorient : 1" and the row comes back N *)
Definition f14_rows : circuit :=
  mkCircuit [mkCell 2 2 false true pANY 0 0 oN] [[mkPin 0 1 1]] [mkRow 0 20 0 2 oFS; mkRow 0 20 2 4 oN].

Theorem unfixed_pins_refuted :
  exists c, wf c /\ exists r, read_ispd (export_ispd_v false true "c" c) "c" = Some r /\
                              project r <> project c /\ circuit_hpwl r <> circuit_hpwl c.
Proof.
  exists f14_pins. split; [apply wfb_correct; vm_compute; reflexivity|].
  eexists. split; [vm_compute; reflexivity|]. split; vm_compute; discriminate.
Qed.

Theorem unfixed_rows_refuted :
  exists c, wf c /\ exists r, read_ispd (export_ispd_v true false "c" c) "c" = Some r /\
                              map rorient (rows r) <> map rorient (rows c).
Proof.
  exists f14_rows. split; [apply wfb_correct; vm_compute; reflexivity|].
  eexists. split; [vm_compute; reflexivity|]. vm_compute; discriminate.
Qed.

(* ------------------------------------------------------------------ bindings: the rule as a proposition *)
Definition declared_field (d : list decl) (o f : string) : Prop := exists b fs ms, find_struct d o = Some (b, fs, ms) /\ In f fs.
Definition declared_method (d : list decl) (o f : string) : Prop := exists b fs ms, find_struct d o = Some (b, fs, ms) /\ In f ms.
Definition declared_enumerator (d : list decl) (e v : string) : Prop := exists vs, find_enum d e = Some vs /\ In v vs.
Definition is_owner (d : list decl) (cls o : string) : Prop := In o (owners (S (length d)) d cls).

Definition binding_ok (d : list decl) (b : binding) : Prop :=
  match bk b with
  | BEnum => bowner b = bclass_cpp b /\ declared_enumerator d (bclass_cpp b) (bcpp b) /\ bpy b = bcpp b
  | BReadWrite => is_owner d (bclass_cpp b) (bowner b) /\ declared_field d (bowner b) (bcpp b) /\ bcpp b = camel (bpy b)
  | BProperty => is_owner d (bclass_cpp b) (bowner b) /\ declared_method d (bowner b) (bcpp b) /\ bcpp b = camel (bpy b) /\
                 is_owner d (bclass_cpp b) (bset_owner b) /\ declared_method d (bset_owner b) (bset b) /\
                 bset b = String.append "set" (cap (camel (bpy b)))
  | BPropertyRO => is_owner d (bclass_cpp b) (bowner b) /\ declared_method d (bowner b) (bcpp b) /\
                   (bcpp b = camel (bpy b) \/ bcpp b = String.append "compute" (cap (camel (bpy b))))
  | BMethod => True
  end.

Lemma mem_In s l : mem s l = true <-> In s l.
Proof.
  unfold mem. rewrite existsb_exists. split.
  - intros (x & I & E). apply String.eqb_eq in E. subst; auto.
  - intros I. exists s. split; auto. apply String.eqb_refl.
Qed.
Lemma has_field_correct d o f : has_field d o f = true <-> declared_field d o f.
Proof.
  unfold has_field, declared_field. destruct (find_struct d o) as [[[b fs] ms]|].
  - rewrite mem_In. split; [intros; eauto|intros (? & ? & ? & E & I); congruence].
  - split; [discriminate|intros (? & ? & ? & E & _); discriminate].
Qed.
Lemma has_method_correct d o f : has_method d o f = true <-> declared_method d o f.
Proof.
  unfold has_method, declared_method. destruct (find_struct d o) as [[[b fs] ms]|].
  - rewrite mem_In. split; [intros; eauto|intros (? & ? & ? & E & I); congruence].
  - split; [discriminate|intros (? & ? & ? & E & _); discriminate].
Qed.

Theorem binding_okb_correct d b : binding_okb d b = true <-> binding_ok d b.
Proof.
  unfold binding_okb, binding_ok, is_owner, declared_enumerator. destruct (bk b).
  - rewrite !andb_true_iff, !String.eqb_eq. destruct (find_enum d (bclass_cpp b)) as [vs|].
    + rewrite mem_In. split; [intros ((A & B) & C); eauto 6|intros (A & (vs' & E & I) & C); repeat split; auto; congruence].
    + split; [intros ((_ & B) & _); discriminate|intros (_ & (vs' & E & _) & _); discriminate].
  - rewrite !andb_true_iff, !mem_In, has_field_correct, String.eqb_eq. tauto.
  - rewrite !andb_true_iff, !mem_In, !has_method_correct, !String.eqb_eq. tauto.
  - rewrite !andb_true_iff, orb_true_iff, !mem_In, !has_method_correct, !String.eqb_eq. tauto.
  - tauto.
Qed.

Theorem bindings_okb_all d bs : forallb (binding_okb d) bs = true -> Forall (binding_ok d) bs.
Proof. intros H. apply Forall_forall. intros b I. apply binding_okb_correct. rewrite forallb_forall in H. auto. Qed.

(* the two entries of the unchanged module.cpp (lines 39-40) against the header's enum *)
Theorem unfixed_bindings_refuted :
  let d := [DEnum "CellRowPolarity" ["ANY"; "SAME"; "OPPOSITE"; "NW"; "SE"]] in
  ~ binding_ok d (mkB BEnum "CellRowPolarity" "CellRowPolarity" "NW" "CellRowPolarity" "ANY" "" "" 39) /\
  ~ binding_ok d (mkB BEnum "CellRowPolarity" "CellRowPolarity" "SE" "CellRowPolarity" "ANY" "" "" 40).
Proof. split; intros H; apply binding_okb_correct in H; vm_compute in H; discriminate. Qed.
