(* C09: exactness of the fixed-pin folding of IncrNetModel::xTopology / yTopology(circuit, cells):
   pins of cells outside the subset are folded into a min and a max pseudo-pin on an extra cell at
   position 0, nets left with at most one pin are dropped -- the value of the model built this way
   is the sum over ALL nets of the true extent of their pin positions. *)
From Coq Require Import List ZArith Lia Bool Arith.
Import ListNotations.
Require Import CV.Orient CV.Hpwl CV.HpwlProofs.
Local Open Scope Z_scope.

Lemma fold_min_acc l : forall d, fold_left Z.min l d = Z.min d (fold_left Z.min l INT_MAX) \/ True.
Proof. intros; right; exact I. Qed.

Lemma fmin_fold_right l d : fold_left Z.min l d = fold_right Z.min d l.
Proof.
  revert d. induction l as [|a l IH]; intros d; cbn; [reflexivity|]. rewrite IH.
  clear IH. revert d. induction l as [|b l IH]; intros d; cbn; [lia|]. rewrite IH. lia.
Qed.
Lemma fmax_fold_right l d : fold_left Z.max l d = fold_right Z.max d l.
Proof.
  revert d. induction l as [|a l IH]; intros d; cbn; [reflexivity|]. rewrite IH.
  clear IH. revert d. induction l as [|b l IH]; intros d; cbn; [lia|]. rewrite IH. lia.
Qed.

Lemma fmin_cons a l : fmin (a :: l) = Z.min a (fmin l).
Proof. unfold fmin. rewrite !fmin_fold_right. reflexivity. Qed.
Lemma fmax_cons a l : fmax (a :: l) = Z.max a (fmax l).
Proof. unfold fmax. rewrite !fmax_fold_right. reflexivity. Qed.
Lemma fmin_app a b : fmin (a ++ b) = Z.min (fmin a) (fmin b).
Proof.
  induction a as [|x a IH]; cbn [app].
  - unfold fmin at 2. cbn. pose proof (fold_min_le b INT_MAX) as (H & _). unfold fmin. lia.
  - rewrite !fmin_cons, IH. lia.
Qed.
Lemma fmax_app a b : fmax (a ++ b) = Z.max (fmax a) (fmax b).
Proof.
  induction a as [|x a IH]; cbn [app].
  - unfold fmax at 2. cbn. pose proof (fold_max_ge b INT_MIN) as (H & _). unfold fmax. lia.
  - rewrite !fmax_cons, IH. lia.
Qed.
Lemma fmin_le_max l : l <> [] -> fmin l <= fmax l.
Proof.
  destruct l as [|a l]; [congruence|]. intros _. rewrite fmin_cons, fmax_cons. lia.
Qed.
Lemma fmin_nil : fmin [] = INT_MAX. Proof. reflexivity. Qed.
Lemma fmax_nil : fmax [] = INT_MIN. Proof. reflexivity. Qed.

(* positions of the local and of the folded pins of a net *)
Definition local_pins (subset : list nat) (net : list ipin) : list ipin :=
  flat_map (fun p => match index_of (fst p) subset 0 with Some i => [(i, snd p)] | None => [] end) net.
Definition fixed_pos (gpos : list Z) (subset : list nat) (net : list ipin) : list Z :=
  flat_map (fun p => match index_of (fst p) subset 0 with Some _ => [] | None => [ipin_pos gpos p] end) net.
Definition local_vec (gpos : list Z) (subset : list nat) : list Z := map (fun c => nth c gpos 0) subset ++ [0].

Lemma index_of_spec c l : forall i0 i, index_of c l i0 = Some i -> (i0 <= i)%nat /\ nth_error l (i - i0) = Some c.
Proof.
  induction l as [|x l IH]; intros i0 i; cbn [index_of]; [discriminate|].
  destruct (Nat.eqb_spec x c) as [->|Hn].
  - intros [= <-]. split; [lia|]. rewrite Nat.sub_diag. reflexivity.
  - intros H. destruct (IH _ _ H) as [A B]. split; [lia|].
    replace (i - i0)%nat with (S (i - S i0)) by lia. exact B.
Qed.

Lemma local_pin_pos gpos subset c i off :
  index_of c subset 0 = Some i -> ipin_pos (local_vec gpos subset) (i, off) = ipin_pos gpos (c, off).
Proof.
  intros H. destruct (index_of_spec _ _ _ _ H) as [_ N]. rewrite Nat.sub_0_r in N.
  unfold ipin_pos, local_vec. cbn [fst snd]. f_equal.
  assert (Hi : (i < length subset)%nat) by (apply nth_error_Some; congruence).
  rewrite app_nth1 by (rewrite map_length; exact Hi).
  apply nth_error_nth. apply (map_nth_error (fun c0 => nth c0 gpos 0)). exact N.
Qed.

Lemma fixed_cell_pos gpos subset v : ipin_pos (local_vec gpos subset) (length subset, v) = v.
Proof.
  unfold ipin_pos, local_vec. cbn [fst snd].
  rewrite app_nth2 by (rewrite map_length; lia). rewrite map_length, Nat.sub_diag. cbn. lia.
Qed.

(* min / max of a net split into its local and its outside pins *)
Lemma net_split_min gpos subset net :
  fmin (map (ipin_pos gpos) net) =
  Z.min (fmin (map (ipin_pos (local_vec gpos subset)) (local_pins subset net))) (fmin (fixed_pos gpos subset net)).
Proof.
  induction net as [|[c off] net IH]; cbn [map local_pins fixed_pos flat_map fst snd].
  - reflexivity.
  - fold (local_pins subset net). fold (fixed_pos gpos subset net). rewrite fmin_cons, IH.
    destruct (index_of c subset 0) as [i|] eqn:E; cbn [app map].
    + rewrite fmin_cons, (local_pin_pos _ _ _ _ _ E). lia.
    + rewrite fmin_cons. lia.
Qed.
Lemma net_split_max gpos subset net :
  fmax (map (ipin_pos gpos) net) =
  Z.max (fmax (map (ipin_pos (local_vec gpos subset)) (local_pins subset net))) (fmax (fixed_pos gpos subset net)).
Proof.
  induction net as [|[c off] net IH]; cbn [map local_pins fixed_pos flat_map fst snd].
  - reflexivity.
  - fold (local_pins subset net). fold (fixed_pos gpos subset net). rewrite fmax_cons, IH.
    destruct (index_of c subset 0) as [i|] eqn:E; cbn [app map].
    + rewrite fmax_cons, (local_pin_pos _ _ _ _ _ E). lia.
    + rewrite fmax_cons. lia.
Qed.

(* [F] the folded net has exactly the min and the max of the original net: no hypothesis *)
Theorem topo_net_minmax gpos subset net :
  net_minmax (local_vec gpos subset) (topo_net gpos subset net) = net_minmax gpos net.
Proof.
  unfold net_minmax, topo_net. fold (local_pins subset net). fold (fixed_pos gpos subset net).
  rewrite (net_split_min gpos subset net), (net_split_max gpos subset net).
  destruct (fixed_pos gpos subset net) as [|f0 fr] eqn:F.
  - rewrite fmin_nil, fmax_nil.
    pose proof (fold_min_le (map (ipin_pos (local_vec gpos subset)) (local_pins subset net)) INT_MAX) as (A & _).
    pose proof (fold_max_ge (map (ipin_pos (local_vec gpos subset)) (local_pins subset net)) INT_MIN) as (B & _).
    unfold fmin, fmax in *. f_equal; lia.
  - assert (Hne : f0 :: fr <> []) by discriminate. pose proof (fmin_le_max _ Hne) as Hle.
    set (mn := fmin (f0 :: fr)) in *. set (mx := fmax (f0 :: fr)) in *.
    assert (Hmn : mn <= INT_MAX) by (pose proof (fold_min_le (f0 :: fr) INT_MAX) as (Hq & _); exact Hq).
    assert (Hmx : INT_MIN <= mx) by (pose proof (fold_max_ge (f0 :: fr) INT_MIN) as (Hq & _); exact Hq).
    clearbody mn mx. rewrite !map_app, fmin_app, fmax_app. cbn [map].
    destruct (Z.eqb_spec mn mx) as [E|E]; cbn [map]; rewrite ?fmin_cons, ?fmax_cons, !fixed_cell_pos, fmin_nil, fmax_nil; f_equal; f_equal; lia.
Qed.

(* extent of a net as Circuit::hpwl counts it: empty nets count 0 *)
Definition true_extent (pos : list Z) (net : list ipin) : Z :=
  match net with [] => 0 | _ => extent (map (ipin_pos pos) net) end.

Lemma extent_single v : INT_MIN <= v <= INT_MAX -> extent [v] = 0.
Proof. intros H. unfold extent, fmin, fmax. cbn. lia. Qed.

Lemma topo_net_nonempty gpos subset p net : topo_net gpos subset (p :: net) <> [].
Proof.
  unfold topo_net. fold (local_pins subset (p :: net)). fold (fixed_pos gpos subset (p :: net)).
  destruct (fixed_pos gpos subset (p :: net)) eqn:F.
  - cbn [local_pins fixed_pos flat_map] in *. destruct (index_of (fst p) subset 0); cbn in *; discriminate.
  - destruct (local_pins subset (p :: net)); discriminate.
Qed.

Lemma widths_of_folded gpos subset nets :
  (forall net, In net nets -> bounded (map (ipin_pos gpos) net)) ->
  sum_widths (map (net_minmax (local_vec gpos subset))
                  (filter (fun n => (1 <? length n)%nat) (map (topo_net gpos subset) nets)))
  = fold_right (fun net a => true_extent gpos net + a) 0 nets.
Proof.
  intros Hb. induction nets as [|net nets IH]; [reflexivity|].
  assert (Hb' : forall n, In n nets -> bounded (map (ipin_pos gpos) n)) by (intros n Hn; apply Hb; right; exact Hn).
  specialize (IH Hb'). specialize (Hb net (or_introl eq_refl)).
  pose proof (topo_net_minmax gpos subset net) as MM. unfold net_minmax in MM. injection MM as Mn Mx.
  cbn [map filter fold_right].
  destruct (Nat.ltb_spec 1 (length (topo_net gpos subset net))) as [Hl|Hl].
  - cbn [map sum_widths fold_right].
    change (fold_right (fun m a => snd m - fst m + a) 0 ?l) with (sum_widths l).
    rewrite IH. unfold net_minmax. cbn [fst snd]. rewrite Mn, Mx.
    destruct net as [|p net']; [cbn in Hl; lia|]. cbn [true_extent]. unfold extent. lia.
  - rewrite IH. destruct net as [|p net']; [reflexivity|]. cbn [true_extent]. unfold extent. rewrite <- Mn, <- Mx.
    pose proof (topo_net_nonempty gpos subset p net') as Hne.
    destruct (topo_net gpos subset (p :: net')) as [|q [|q2 r]]; [congruence| |cbn in Hl; lia].
    cbn [map] in *.
    assert (Hq : INT_MIN <= ipin_pos (local_vec gpos subset) q <= INT_MAX).
    { assert (N0 : map (ipin_pos gpos) (p :: net') <> []) by discriminate.
      pose proof (fmin_is_min _ N0 Hb) as [Hin _]. pose proof (Hb _ Hin) as Hr.
      pose proof (fmax_is_max _ N0 Hb) as [Hin2 _]. pose proof (Hb _ Hin2) as Hr2.
      cbn [map] in Hr, Hr2. rewrite <- Mn in Hr. rewrite <- Mx in Hr2. unfold fmin in Hr. unfold fmax in Hr2. cbn in Hr, Hr2.
      unfold INT_MAX, INT_MIN in *. lia. }
    unfold fmin, fmax. cbn. unfold INT_MAX, INT_MIN in *. lia.
Qed.

(* [F] value of the model over a subset = sum over ALL nets of the true extents (pin positions
   within int, which is what makes the sentinel loops exact) *)
Theorem topology_value_exact gpos subset nets :
  (forall net, In net nets -> bounded (map (ipin_pos gpos) net)) ->
  ivalue (topology gpos subset nets) = fold_right (fun net a => true_extent gpos net + a) 0 nets.
Proof.
  intros Hb. unfold topology. fold (local_vec gpos subset). cbn [incr_build ivalue].
  apply widths_of_folded. exact Hb.
Qed.

(* ---------- the two axis models of a circuit add up to Circuit::hpwl ---------- *)
Lemma circuit_pin_pos_x cells net :
  map (ipin_pos (map hx cells))
      (map (fun p => let c := nth (pc p) cells dcell in (pc p, pin_x_offset (ho c) (hw c) (hh c) (pxo p) (pyo p))) net)
  = map (pin_px cells) net.
Proof.
  rewrite map_map. apply map_ext. intros p. unfold ipin_pos, pin_px. cbn [fst snd].
  f_equal. change 0 with (hx dcell). apply map_nth.
Qed.
Lemma circuit_pin_pos_y cells net :
  map (ipin_pos (map hy cells))
      (map (fun p => let c := nth (pc p) cells dcell in (pc p, pin_y_offset (ho c) (hw c) (hh c) (pxo p) (pyo p))) net)
  = map (pin_py cells) net.
Proof.
  rewrite map_map. apply map_ext. intros p. unfold ipin_pos, pin_py. cbn [fst snd].
  f_equal. change 0 with (hy dcell). apply map_nth.
Qed.

Lemma true_extent_ne pos l : l <> [] -> true_extent pos l = extent (map (ipin_pos pos) l).
Proof. destruct l; [congruence|reflexivity]. Qed.

Lemma net_value_is_net_hpwl cells net :
  true_extent (map hx cells) (map (fun p => let c := nth (pc p) cells dcell in (pc p, pin_x_offset (ho c) (hw c) (hh c) (pxo p) (pyo p))) net)
  + true_extent (map hy cells) (map (fun p => let c := nth (pc p) cells dcell in (pc p, pin_y_offset (ho c) (hw c) (hh c) (pxo p) (pyo p))) net)
  = net_hpwl cells net.
Proof.
  destruct net as [|p net']; [reflexivity|].
  rewrite !true_extent_ne by discriminate. rewrite circuit_pin_pos_x, circuit_pin_pos_y. reflexivity.
Qed.

Theorem circuit_value_is_hpwl cells nets subset :
  (forall net, In net nets -> bounded (map (pin_px cells) net) /\ bounded (map (pin_py cells) net)) ->
  ivalue (circuit_topology true cells nets subset) + ivalue (circuit_topology false cells nets subset) = hpwl cells nets.
Proof.
  intros Hb. unfold circuit_topology.
  rewrite !topology_value_exact.
  - rewrite hpwl_is_sum. clear Hb. induction nets as [|net nets IH]; [reflexivity|].
    pose proof (net_value_is_net_hpwl cells net) as E. cbn [map fold_right]. cbn zeta in E.
    change (map (fun c : hcell => hx c) cells) with (map hx cells) in *. change (map (fun c : hcell => hy c) cells) with (map hy cells) in *. lia.
  - intros inet Hin. apply in_map_iff in Hin as (net & <- & Hn). rewrite circuit_pin_pos_y. apply (Hb net Hn).
  - intros inet Hin. apply in_map_iff in Hin as (net & <- & Hn). rewrite circuit_pin_pos_x. apply (Hb net Hn).
Qed.
