(* Line-by-line model of the legalizer (src/place_detailed/legalizer.cpp,
   tetris_legalizer.cpp, abacus_legalizer.cpp) with the order of the cells as a
   parameter (computeCellOrder's float key is not modelled: the correspondence
   feeds the implementation's own order), and of DetailedPlacer::legalize /
   Legalizer::fromIspdCircuit / exportPlacement at the circuit level. *)
From Coq Require Import List ZArith Lia Bool.
Import ListNotations.
Require Import CV.Orient CV.FreeSpace CV.RowLeg CV.Circuit.
Local Open Scope Z_scope.

Record cell := { cw : Z; ch : Z; cpol : polarity; ctx : Z; cty : Z; cor : orient }.   (* placed width/height, polarity, target x/y/orientation *)
Definition placed := option (Z * Z * orient).

(* ---------- shared base ---------- *)
Fixpoint insert_row (r : row) (l : list row) : list row :=   (* stable insertion sort by (minY,minX) *)
  match l with
  | [] => [r]
  | x :: l' => if (minY (rr r) <? minY (rr x)) || ((minY (rr r) =? minY (rr x)) && (minX (rr r) <? minX (rr x)))
               then r :: l else x :: insert_row r l'
  end.
Definition sort_rows (l : list row) : list row := fold_right insert_row [] l.

Definition nthZ {A} (l : list A) (i : Z) : option A := if i <? 0 then None else nth_error l (Z.to_nat i).

(* first index with minY >= y *)
Fixpoint lower_bound (rows : list row) (y : Z) (i : Z) : Z :=
  match rows with [] => i | r :: rs => if minY (rr r) <? y then lower_bound rs y (i + 1) else i end.
Definition closest_row (rows : list row) (y : Z) : Z :=
  let n := Z.of_nat (length rows) in
  let it := lower_bound rows y 0 in
  if it =? n then n - 1 else if it =? 0 then 0 else
  match nthZ rows it, nthZ rows (it - 1) with
  | Some r, Some rp => if y - minY (rr rp) <? minY (rr r) - y then it - 1 else it
  | _, _ => it end.

Definition get_orientation (rows : list row) (c : cell) (rowi : Z) : option orient :=
  match nthZ rows rowi with
  | None => None
  | Some r => let o := cell_orientation_in_row (cpol c) (ro r) in
              Some (if orient_eqb o oUNKNOWN then cor c else o)
  end.

Fixpoint upd {A} (l : list A) (i : nat) (a : A) : list A :=
  match l, i with [], _ => [] | _ :: l', O => a :: l' | x :: l', S i' => x :: upd l' i' a end.

(* ---------- Tetris ---------- *)
Section Tetris.
Variable rows : list row.
Variable rh : Z.

(* rows r >= rowInd with minY = y: intervals [freePos, maxX - w] *)
Fixpoint level_intervals (rs : list row) (fp : list Z) (y w : Z) : list (Z * Z) :=
  match rs, fp with
  | r :: rs', f :: fp' =>
      if minY (rr r) =? y then
        (if f <=? maxX (rr r) - w then [(f, maxX (rr r) - w)] else []) ++ level_intervals rs' fp' y w
      else []
  | _, _ => []
  end.
Definition level (fp : list Z) (y w : Z) : list (Z * Z) :=
  let i := closest_row rows y in
  if i <? 0 then [] else level_intervals (skipn (Z.to_nat i) rows) (skipn (Z.to_nat i) fp) y w.

Fixpoint possible_intervals (fuel : nat) (fp : list Z) (w h y : Z) : list (Z * Z) :=
  let iv := level fp y w in
  match fuel with
  | O => iv
  | S fuel' =>
    if (h <=? rh) || (match iv with [] => true | _ => false end) then iv else
    let other := possible_intervals fuel' fp w (h - rh) (y + rh) in
    flat_map (fun '(b1, e1) => flat_map (fun '(b2, e2) =>
      if (b1 <=? e2) && (b2 <=? e1) then [(Z.max b1 b2, Z.min e1 e2)] else []) other) iv
  end.

Definition clamp (x b e : Z) := if x <? b then b else if e <? x then e else x.

Definition attempt (fuel : nat) (fp : list Z) (c : cell) (y : Z) : option Z :=
  match get_orientation rows c (closest_row rows y) with
  | None => None
  | Some o =>
    if orient_eqb o oINVALID then None else
    let '(w, h) := if xorb (is_turn o) (is_turn (cor c)) then (ch c, cw c) else (cw c, ch c) in
    let p := possible_intervals fuel fp w h y in
    match p with [] => None | _ =>
      let x := ctx c in
      let '(dest, _) := fold_left (fun '(dest, found) '(b, e) =>
          let pos := clamp x b e in
          if negb found || (Z.abs (pos - x) <? Z.abs (dest - x)) then (pos, true) else (dest, found)) p (0, false) in
      Some dest
    end
  end.

(* scan a list of row indices with the tryPlace closure *)
Fixpoint t_scan (fuel : nat) (fp : list Z) (c : cell) (idx : list Z) (st : bool * Z * Z * Z) : bool * Z * Z * Z :=
  match idx with
  | [] => st
  | i :: idx' =>
    let '(found, bestDist, bestX, bestY) := st in
    match nthZ rows i with None => st | Some r =>
      let y := minY (rr r) in
      if found && (bestDist <=? Z.abs (cty c - y)) then st else
      match attempt fuel fp c y with
      | None => t_scan fuel fp c idx' st
      | Some x =>
        let dist := Z.abs (ctx c - x) + Z.abs (cty c - y) in
        if negb found || (dist <? bestDist) then t_scan fuel fp c idx' (true, dist, x, y)
        else t_scan fuel fp c idx' st
      end
    end
  end.

Fixpoint inst_level (rs : list row) (fp : list Z) (x y w : Z) : list Z :=
  match rs, fp with
  | r :: rs', f :: fp' =>
      if minY (rr r) =? y then
        (if (x <? maxX (rr r)) && (minX (rr r) <? x + w) then x + w else f) :: inst_level rs' fp' x y w
      else fp
  | _, _ => fp
  end.
Fixpoint instanciate (fuel : nat) (fp : list Z) (x y w h : Z) : list Z :=
  if (h <=? 0) || (w <=? 0) then fp else
  let i := closest_row rows y in
  let fp1 := if i <? 0 then fp else
     firstn (Z.to_nat i) fp ++ inst_level (skipn (Z.to_nat i) rows) (skipn (Z.to_nat i) fp) x y w in
  match fuel with O => fp1 | S fuel' => if h <=? rh then fp1 else instanciate fuel' fp1 x (y + rh) w (h - rh) end.

Definition zrange (a b : Z) : list Z := map (fun k => a + Z.of_nat k) (seq 0 (Z.to_nat (b - a))).   (* a .. b-1 *)

Definition t_place (fuel : nat) (fp : list Z) (c : cell) : list Z * placed :=
  let n := Z.of_nat (length rows) in
  let init := closest_row rows (cty c) in
  let st0 := (false, 2147483647, 0, 0) in
  let st1 := t_scan fuel fp c (zrange init n) st0 in
  let '(found, _, bx, by_) := t_scan fuel fp c (rev (zrange 0 init)) st1 in
  if negb found then (fp, None) else
  match get_orientation rows c (closest_row rows by_) with
  | None => (fp, None)
  | Some o => let '(w, h) := if xorb (is_turn o) (is_turn (cor c)) then (ch c, cw c) else (cw c, ch c) in
              (instanciate fuel fp bx by_ w h, Some (bx, by_, o))
  end.
End Tetris.

(* the body of the loop over the cells (named so that it can be reasoned about) *)
Definition t_step (rows : list row) (rh : Z) (fuel : nat) (st : list Z * list placed) (c : cell) : list Z * list placed :=
  let '(fp, acc) := st in let '(fp', p) := t_place rows rh fuel fp c in (fp', p :: acc).

Definition tetris_run (rows0 : list row) (cells : list cell) : list placed :=
  let rows := sort_rows rows0 in
  let rh := match rows with r :: _ => maxY (rr r) - minY (rr r) | [] => 0 end in
  let fuel := length rows in
  let fp0 := map (fun r => minX (rr r)) rows in
  rev (snd (fold_left (t_step rows rh fuel) cells (fp0, []))).

(* ---------- Abacus ---------- *)

Section Abacus.
Variable rows : list row.

Definition a_try (legs : list rl) (c : cell) (i : Z) (st : Z * Z) : bool * (Z * Z) :=   (* (stop, (bestRow,bestDist)) *)
  let '(bestRow, bestDist) := st in
  match nthZ rows i, nthZ legs i with
  | Some r, Some lg =>
    if negb (maxY (rr r) - minY (rr r) =? ch c) then (false, st) else
    let yDist := cw c * Z.abs (minY (rr r) - cty c) in
    if negb (bestRow =? -1) && (bestDist <? yDist) then (true, st) else
    if (remaining_space lg <? cw c) then (false, st) else
    match get_orientation rows c i with
    | None => (false, st)
    | Some o => if orient_eqb o oINVALID then (false, st) else
      let xDist := snd (get_cost lg (cw c) (ctx c)) in
      let dist := xDist + yDist in
      if (bestRow =? -1) || (dist <? bestDist) then (false, (i, dist)) else (false, st)
    end
  | _, _ => (false, st)
  end.
Fixpoint a_scan (legs : list rl) (c : cell) (idx : list Z) (st : Z * Z) : Z * Z :=
  match idx with [] => st | i :: idx' =>
    let '(stop, st') := a_try legs c i st in if stop then st' else a_scan legs c idx' st' end.

Definition a_place (legs : list rl) (rowcells : list (list nat)) (ci : nat) (c : cell)
  : list rl * list (list nat) * bool :=
  let n := Z.of_nat (length rows) in
  let init := closest_row rows (cty c) in
  let st1 := a_scan legs c (zrange init n) (-1, 9223372036854775807) in
  let '(bestRow, _) := a_scan legs c (rev (zrange 0 init)) st1 in
  if bestRow =? -1 then (legs, rowcells, false) else
  match nthZ legs bestRow, nthZ rowcells bestRow with
  | Some lg, Some rc =>
     (upd legs (Z.to_nat bestRow) (fst (push lg (cw c) (ctx c))),
      upd rowcells (Z.to_nat bestRow) (rc ++ [ci]), true)
  | _, _ => (legs, rowcells, false)
  end.
End Abacus.

(* the body of the loop over the cells *)
Definition a_step (rows : list row) (st : list rl * list (list nat) * nat) (c : cell) : list rl * list (list nat) * nat :=
  let '(legs, rcs, ci) := st in
  let '(legs', rcs', _) := a_place rows legs rcs ci c in (legs', rcs', S ci).

(* the state after the loop: per-row legalizers, per-row cell indices in insertion order *)
Definition abacus_state (rows : list row) (cells : list cell) : list rl * list (list nat) * nat :=
  fold_left (a_step rows) cells
    (map (fun r => rl_init (minX (rr r)) (maxX (rr r))) rows, map (fun _ => @nil nat) rows, O).

(* read-back of one (cell index, x) pair of row i *)
Definition a_write (rows : list row) (cells : list cell) (i : Z) (r : row) (res : list placed) (p : nat * Z) : list placed :=
  let '(ci, x) := p in
  match nth_error cells ci with
  | Some c => match get_orientation rows c i with Some o => upd res ci (Some (x, minY (rr r), o)) | None => res end
  | None => res end.

Fixpoint a_fill (rows : list row) (cells : list cell) (i : Z) (rws : list row) (lgs : list rl)
         (rcl : list (list nat)) (res : list placed) : list placed :=
  match rws, lgs, rcl with
  | r :: rws', lg :: lgs', rc :: rcl' =>
      a_fill rows cells (i + 1) rws' lgs' rcl' (fold_left (a_write rows cells i r) (combine rc (placement lg)) res)
  | _, _, _ => res
  end.

Definition abacus_run (rows0 : list row) (cells : list cell) : list placed :=
  let rows := sort_rows rows0 in
  let '(legs, rcs, _) := abacus_state rows cells in
  a_fill rows cells 0 rows legs rcs (map (fun _ => @None (Z * Z * orient)) cells).

(* ---------- Legalizer::run ---------- *)
Inductive outcome := Ok (pl : list (Z * Z * orient)) | NoRow | NotAllPlaced.

Definition remaining_rows (rows : list row) (cells : list cell) (st : list placed) : list row :=
  let obs := flat_map (fun '(c, p) => match p with
      | Some (x, y, _) => [{| minX := x; maxX := x + cw c; minY := y; maxY := y + ch c |}] | None => [] end) (combine cells st) in
  flat_map (fun r => freespace_rows r obs) rows.

Definition select (cells : list cell) (st : list placed) (order : list nat) (keep : cell -> bool) : list (nat * cell) :=
  flat_map (fun ci => match nth_error cells ci, nth_error st ci with
     | Some c, Some None => if keep c then [(ci, c)] else []
     | _, _ => [] end) order.

Definition import (st : list placed) (sel : list (nat * cell)) (res : list placed) : list placed :=
  fold_left (fun st '((ci, _), p) => match p with Some _ => upd st ci p | None => st end) (combine sel res) st.

Definition legalize (rows0 : list row) (cells : list cell) (order : list nat) : outcome :=
  let rows := sort_rows rows0 in
  let st0 := map (fun _ => @None (Z * Z * orient)) cells in
  let any_unplaced st := existsb (fun ci => match nth_error st ci with Some None => true | _ => false end) order in
  match rows with
  | [] => if any_unplaced st0 then NoRow else (if (length cells =? 0)%nat then Ok [] else NotAllPlaced)
  | r0 :: _ =>
    let rh := maxY (rr r0) - minY (rr r0) in
    let sel1 := select cells st0 order (fun c => rh <? ch c) in
    let st1 := import st0 sel1 (tetris_run (remaining_rows rows cells st0) (map snd sel1)) in
    let sel2 := select cells st1 order (fun c => ch c =? rh) in
    let st2 := import st1 sel2 (abacus_run (remaining_rows rows cells st1) (map snd sel2)) in
    if forallb (fun p => match p with Some _ => true | None => false end) st2
    then Ok (flat_map (fun p => match p with Some v => [v] | None => [] end) st2)
    else NotAllPlaced
  end.

(* ---------- circuit level: DetailedPlacer::legalize ---------- *)
(* Legalizer::fromIspdCircuit: movable cells only, placed dimensions *)
Definition leg_cell_of (k : ccell) : cell :=
  let p := placement_of k in
  {| cw := maxX p - minX p; ch := maxY p - minY p; cpol := c_pol k; ctx := c_x k; cty := c_y k; cor := c_o k |}.
Definition leg_cells (c : circuit) : list cell := map leg_cell_of (movable c).

(* Legalizer::exportPlacement: parallel index over the non-fixed cells *)
Fixpoint export_cells (cs : list ccell) (pl : list (Z * Z * orient)) : list ccell :=
  match cs with
  | [] => []
  | k :: cs' =>
    if c_fixed k then k :: export_cells cs' pl else
    match pl with
    | (x, y, o) :: pl' =>
      {| c_x := x; c_y := y; c_w := c_w k; c_h := c_h k; c_o := o; c_pol := c_pol k;
         c_fixed := c_fixed k; c_obs := c_obs k |} :: export_cells cs' pl'
    | [] => k :: export_cells cs' []
    end
  end.

Inductive leg_result := LegOk (c' : circuit) | LegNoRow | LegNotAllPlaced.

Definition legalize_circuit (c : circuit) (order : list nat) : leg_result :=
  match legalize (free_rows c) (leg_cells c) order with
  | Ok pl => LegOk {| rows := rows c; cells := export_cells (cells c) pl |}
  | NoRow => LegNoRow
  | NotAllPlaced => LegNotAllPlaced
  end.

(* the circuit as the caller sees it after the call (an error leaves it as it was:
   exportPlacement runs after run() returned) *)
Definition circuit_after (c : circuit) (order : list nat) : circuit :=
  match legalize_circuit c order with LegOk c' => c' | _ => c end.
