(* Extraction of the C17 model (quadratic net models over Q) for the correspondence runs.
   ExtrOcamlBasic only: bool/option/list/prod/unit/sumbool map to OCaml's; Z,
   positive, nat, Q stay the extracted Coq datatypes.  No Extract Constant. *)
From Coq Require Import Extraction ExtrOcamlBasic ZArith QArith List.
Require Import CV.Quad.
Extraction Language OCaml.
Extraction "model_quad.ml"
  Quad.build_nm Quad.build_nm_int Quad.create Quad.create_star0 Quad.create_bipoint0 Quad.create_clique0
  Quad.add_penalty Quad.finalize Quad.solver_input Quad.row_sum Quad.mat_vec Quad.bipoint_energy Quad.star_energy
  Quad.s_mat Quad.s_rhs Quad.s_init Quad.nm_nets Quad.n_weight Qred.
