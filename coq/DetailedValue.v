(* C05, composition: the wirelength of the CIRCUIT exposed by detailed placement.
   Definitions only (proofs: DetailedValueProofs.v).

   DetailedPlacer (src/place_detailed/place_detailed.cpp) keeps two state components in lock-step:
     placement_        the row structure (Moves.dstate, built by DetailedInit.from_circuit),
     xtopo_ / ytopo_   the two incremental net models (Hpwl.incr, paired in Optimiser.ostate), built by
                       IncrNetModel::xTopology(circuit) / yTopology(circuit) over ALL cells of the circuit
                       (incr_net_model.cpp 26-44: cells = 0..nbCells()-1), pin offsets taken with the
                       orientations of that moment and never refreshed.
   Every operation that changes placement_ also updates both models:
     doSwap(c1,c2)   = placement_.swap; updateCellPos(c1); updateCellPos(c2)        (:131-136)
     doInsert(c,..)  = placement_.insert; updateCellPos(c)                          (:138-142)
     updateCellPos(c) = x/ytopo_.updateCellPos(c, placement_.cellPos(c))            (:889-896)
     runShiftsOnCells: placement_.cellX_[c] = pos; xtopo_.updateCellPos(c, pos)     (:558-562)
     RowReordering::writeback: unplace all, place in the best order, update both models from the
                       placement; without improvement only the models are reset     (:799-823)
   and the circuit is exposed by DetailedPlacement::exportPlacement (DetailedExport.write_back). *)
From Coq Require Import List ZArith Lia Bool.
Import ListNotations.
Require Import CV.Orient CV.FreeSpace CV.Circuit CV.Hpwl CV.Moves CV.MovesOrientProofs CV.Optimiser CV.ShiftLp.
Require Import CV.DetailedInit CV.DetailedExport.
Local Open Scope Z_scope.

(* ---------- Circuit::hpwl over Circuit.circuit ----------
   Circuit.circuit carries no nets (C01/C02 do not need them); the nets are given separately, as lists
   of pins (cell index, offset in the N orientation) like in Hpwl.v. *)
Definition hcell_of (k : ccell) : hcell := {| hx := c_x k; hy := c_y k; hw := c_w k; hh := c_h k; ho := c_o k |}.
Definition hcells (c : circuit) : list hcell := map hcell_of (cells c).

(* x / y of pin p as Circuit::hpwl computes it: x(cell) + pinXOffset(net, pin) *)
Definition cpin_x (c : circuit) (p : hpin) : Z :=
  match nth_error (cells c) (pc p) with
  | Some k => c_x k + pin_x_offset (c_o k) (c_w k) (c_h k) (pxo p) (pyo p)
  | None => pin_x_offset oN 0 0 (pxo p) (pyo p)
  end.
Definition cpin_y (c : circuit) (p : hpin) : Z :=
  match nth_error (cells c) (pc p) with
  | Some k => c_y k + pin_y_offset (c_o k) (c_w k) (c_h k) (pxo p) (pyo p)
  | None => pin_y_offset oN 0 0 (pxo p) (pyo p)
  end.

(* Circuit::hpwl() (coloquinte.cpp 236-259), through the model of C09 *)
Definition hpwl_circuit (c : circuit) (nets : list (list hpin)) : Z := hpwl (hcells c) nets.

(* the same, written directly on the circuit (conversion lemma: hpwl_circuit_direct) *)
Definition hpwl_direct (c : circuit) (nets : list (list hpin)) : Z :=
  fold_left (fun acc net => acc + match net with
                                  | [] => 0
                                  | _ => extent (map (cpin_x c) net) + extent (map (cpin_y c) net)
                                  end) nets 0.

(* the pin coordinates are machine ints (Circuit::hpwl starts its min / max loops from INT_MAX /
   INT_MIN; in the C++ every coordinate IS an int) *)
Definition int_pins (c : circuit) (nets : list (list hpin)) : Prop :=
  forall net, In net nets ->
    (forall v, In v (map (pin_px (hcells c)) net) -> INT_MIN <= v <= INT_MAX) /\
    (forall v, In v (map (pin_py (hcells c)) net) -> INT_MIN <= v <= INT_MAX).

(* ---------- the two models at construction (DetailedPlacer::DetailedPlacer) ---------- *)
Definition all_cells (c : circuit) : list nat := seq 0 (length (cells c)).
Definition init_models (c : circuit) (nets : list (list hpin)) : ostate :=
  {| ox := circuit_topology true (hcells c) nets (all_cells c);
     oy := circuit_topology false (hcells c) nets (all_cells c) |}.

(* ---------- DetailedPlacement::cellPos(c) read off the row structure ----------
   (cellX_[c], cellY_[c]) of a placed cell: its x and the y of the row it is in *)
Definition pos_in (d : dstate) (id : nat) : option (Z * Z) :=
  match find_row (d_rows d) id 0 with
  | Some (_, r, _, m, _) => Some (p_x m, dr_y r)
  | None => None
  end.

Definition held (d : dstate) (id : nat) : bool := match pos_in d id with Some _ => true | None => false end.

(* ---------- the coupling invariant ----------
   n = number of cells of the circuit; the models have n + 1 cells (the extra one, at position 0, carries
   the folded fixed pins -- none here, every cell is in the subset -- and never moves) *)
Definition coupled (c : circuit) (d : dstate) (o : ostate) : Prop :=
  let n := length (cells c) in
  length (ipos (ox o)) = S n /\ length (ipos (oy o)) = S n /\
  nth n (ipos (ox o)) 0 = 0 /\ nth n (ipos (oy o)) 0 = 0 /\
  (* a cell the structure holds in a row: x model = its x, y model = the y of its row *)
  (forall i x y, pos_in d i = Some (x, y) -> cur_pos o i = (x, y)) /\
  (* a cell the structure does not hold keeps its circuit position *)
  (forall i k, nth_error (cells c) i = Some k -> pos_in d i = None -> cur_pos o i = (c_x k, c_y k)).

(* the nets of the models are the ones frozen at construction *)
Definition frozen_nets (c : circuit) (nets : list (list hpin)) (o : ostate) : Prop :=
  inets (ox o) = inets (ox (init_models c nets)) /\ inets (oy o) = inets (oy (init_models c nets)).

(* F8 scope: no cell WITH a row polarity has, in the exposed circuit, another orientation than in the
   circuit the models were built from *)
Definition orient_frozen (c : circuit) (d : dstate) : Prop :=
  forall i k, nth_error (cells c) i = Some k -> c_pol k <> pANY -> c_o (export_cell d i k) = c_o k.

(* ---------- paired steps ---------- *)
Record pstate := { ps_d : dstate; ps_o : ostate }.

(* the cells whose model positions doSwap / doInsert refresh, in the order of the C++ *)
Definition touched (m : mop) : list nat :=
  match m with MSwap c1 c2 => [c1; c2] | MInsert c _ _ => [c] | _ => [] end.
Definition is_move (m : mop) : bool := match m with MSwap _ _ | MInsert _ _ _ => true | _ => false end.

(* positions of the cells cs as the placement holds them (None when one of them is not placed) *)
Fixpoint moves_at (d : dstate) (cs : list nat) : option (list pmove) :=
  match cs with
  | [] => Some []
  | c :: t => match pos_in d c, moves_at d t with
              | Some p, Some l => Some ((c, p) :: l)
              | _, _ => None
              end
  end.

(* valueOnSwap / valueOnInsert: feasible (canSwap / canInsert, identified with success of Moves.swap /
   Moves.insert as in C02) -> positionsOnSwap / positionOnInsert, which are the positions the cells have
   after the move (Moves.swap places c1, c2 at exactly these x; y = the y of the target row) *)
Definition cand_moves (d : dstate) (m : mop) : option (list pmove) :=
  match apply_mop d m with
  | Some d' => moves_at d' (touched m)
  | None => None
  end.

(* the candidate scan of bestSwap / bestInsert / bestSwapUpdate (Optimiser.best_scan), remembering WHICH
   candidate is retained *)
Definition pscan (d : dstate) (o : ostate) (cands : list mop) : ostate * option mop :=
  let bestValue := ovalue o in
  fold_left (fun (acc : ostate * option mop) m =>
     match cand_moves d m with
     | None => acc
     | Some ms => let r := value_on (fst acc) ms in
                  if fst r <? bestValue then (snd r, Some m) else (snd r, snd acc)
     end) cands (o, None).

(* ... followed by doSwap / doInsert of the retained candidate: the structure moves, then the models are
   refreshed from the structure *)
Definition pbest (s : pstate) (cands : list mop) : pstate :=
  let d := ps_d s in
  match pscan d (ps_o s) cands with
  | (o', Some m) =>
      match apply_mop d m, cand_moves d m with
      | Some d', Some ms => {| ps_d := d'; ps_o := set_many o' ms |}
      | _, _ => {| ps_d := d; ps_o := o' |}
      end
  | (o', None) => {| ps_d := d; ps_o := o' |}
  end.

(* runShiftsOnCells: both components receive potential(c) - potential(fixed) *)
Definition pshift (s : pstate) (sel : list nat) (pi : snode -> Z) : pstate :=
  let ups := positions_of sel pi in
  {| ps_d := apply_shift (ps_d s) ups; ps_o := oshift (ps_o s) ups |}.

(* RowReordering: a leaf of the enumeration gives every reordered cell a row, a predecessor and an x *)
Definition placement := (nat * nat * option nat * Z)%type.      (* cell, row, pred, x *)
Definition pl_cell (p : placement) : nat := fst (fst (fst p)).
Definition row_y (d : dstate) (rowi : nat) : Z := match nth_error (d_rows d) rowi with Some r => dr_y r | None => 0 end.
(* what the search writes into the models for the leaf: ytopo_.updateCellPos(c, rowY(region.row)) (:761),
   xtopo_.updateCellPos(c, predPos) (:791) *)
Definition leaf_moves (d : dstate) (leaf : list placement) : list pmove :=
  map (fun p => match p with (c, rowi, _, x) => (c, (x, row_y d rowi)) end) leaf.

Definition prscan (d : dstate) (o : ostate) (leaves : list (list placement)) : ostate * Z * option (list placement) :=
  fold_left (fun (acc : ostate * Z * option (list placement)) leaf =>
     let s1 := set_many (fst (fst acc)) (leaf_moves d leaf) in
     if ovalue s1 <? snd (fst acc) then (s1, ovalue s1, Some leaf) else (s1, snd (fst acc), snd acc))
    leaves (o, ovalue o, None).

(* writeback() with improvement_: unplace every cell, place them in the best order (place throws "Cannot
   place the cell" when its guard fails: None) *)
Fixpoint apply_all (d : dstate) (ops : list mop) : option dstate :=
  match ops with
  | [] => Some d
  | m :: t => match apply_mop d m with Some d' => apply_all d' t | None => None end
  end.
Definition wb_ops (cs : list nat) (leaf : list placement) : list mop :=
  map MUnplace cs ++ map (fun p => match p with (c, rowi, pred, x) => MPlace c rowi pred x end) leaf.
Definition wb (d : dstate) (cs : list nat) (leaf : list placement) : option dstate := apply_all d (wb_ops cs leaf).

Definition preorder (s : pstate) (cs : list nat) (leaves : list (list placement)) : pstate :=
  let d := ps_d s in
  let o := ps_o s in
  match prscan d o leaves with
  | (o', _, Some leaf) =>
      {| ps_d := match wb d cs leaf with Some d' => d' | None => d end;      (* None: the C++ has thrown *)
         ps_o := set_many o' (leaf_moves d leaf) |}
  | (o', _, None) => {| ps_d := d; ps_o := set_many o' (saved o cs) |}       (* models reset from the placement *)
  end.

Inductive pstep :=
| PBest (cands : list mop)
| PShift (sel : list nat) (pi : snode -> Z) (f : list Z)
| PReorder (cs : list nat) (leaves : list (list placement)).

Definition pstep_run (s : pstate) (st : pstep) : pstate :=
  match st with
  | PBest cands => pbest s cands
  | PShift sel pi _ => pshift s sel pi
  | PReorder cs leaves => preorder s cs leaves
  end.
Definition psteps_run (s : pstate) (l : list pstep) : pstate := fold_left pstep_run l s.

(* ---------- what a step needs (checked at the state it is applied to) ----------
   PBest     the candidates are swaps / inserts (any cells, rows, predecessors: infeasible ones are skipped);
   PShift    the selected cells are cells of the rows (runShiftsOnRows takes them from placement_.rowCells)
             and lemon's answer passes the proved certificate checker (c05_shift_certificate_optimal);
   PReorder  the reordered cells are cells of the rows, every leaf assigns exactly these cells, and the
             write-back of the retained leaf is accepted by the structure and re-places every cell it
             unplaced (otherwise DetailedPlacement::place throws "Cannot place the cell", run() is
             aborted and nothing is exposed afterwards). *)
Definition leaf_cells (leaf : list placement) : list nat := map pl_cell leaf.

Definition pstep_ok (s : pstate) (st : pstep) : Prop :=
  match st with
  | PBest cands => forallb is_move cands = true
  | PShift sel pi f =>
      forallb (held (ps_d s)) sel = true /\
      shift_cert_ok (shift_net (ps_d s) (ox (ps_o s)) sel) pi f = true
  | PReorder cs leaves =>
      forallb (held (ps_d s)) cs = true /\
      Forall (fun leaf => forall j, In j (leaf_cells leaf) <-> In j cs) leaves /\
      match prscan (ps_d s) (ps_o s) leaves with
      | (_, _, Some leaf) => exists d', wb (ps_d s) cs leaf = Some d' /\ d_loose d' = []
      | (_, _, None) => True
      end
  end.

Fixpoint phist_ok (s : pstate) (l : list pstep) : Prop :=
  match l with
  | [] => True
  | st :: r => pstep_ok s st /\ phist_ok (pstep_run s st) r
  end.

(* what a callback / the caller sees: Circuit::hpwl() of the circuit after exportPlacement *)
Definition exposed_hpwl (c : circuit) (nets : list (list hpin)) (s : pstate) : Z :=
  hpwl_circuit (write_back c (ps_d s)) nets.

(* boolean form of int_pins (for concrete circuits) *)
Definition in_int (v : Z) : bool := (INT_MIN <=? v) && (v <=? INT_MAX).
Definition int_pinsb (c : circuit) (nets : list (list hpin)) : bool :=
  forallb (fun net => forallb in_int (map (pin_px (hcells c)) net) && forallb in_int (map (pin_py (hcells c)) net)) nets.

(* a condition on the INPUT that makes int_pins hold at every exposed state of the F8 scope: every pin of a cell the
   optimiser may move stays a machine int wherever the cell sits in a row (x between the ends of the row, y = the
   row's) *)
Definition pins_fit (c : circuit) (rh : Z) (nets : list (list hpin)) : Prop :=
  forall net p k r, In net nets -> In p net -> nth_error (cells c) (pc p) = Some k ->
    c_fixed k = false -> placed_h k = rh -> In r (rows c) ->
    let ox := pin_x_offset (c_o k) (c_w k) (c_h k) (pxo p) (pyo p) in
    let oy := pin_y_offset (c_o k) (c_w k) (c_h k) (pxo p) (pyo p) in
    INT_MIN <= minX (rr r) + ox /\ maxX (rr r) + ox <= INT_MAX /\ INT_MIN <= minY (rr r) + oy <= INT_MAX.
