(* C07 <- C18 -- definitions only (proofs: LinksC18Proofs.v).
   The values of the three operations of Circuit::expandCellsToDensity / expandCellsByFactor (coloquinte.cpp) that
   C07's listing tie (MachineOpsCover.v) left ENotListed, as LISTINGS over the binary64 model CV.ExpandFloat:
     (i)   `++newW` in the while loop of expandCellsToDensity (after `int newW = (int)fracW`): the ints it stores;
     (ii)  `expandedArea += static_cast<double>(expansionFactor[i]) * area(i)`: the doubles converted to long long;
     (iii) `static_cast<int>(cellWidth_[i] * static_cast<double>(expansion[i]))`: the doubles converted to int.
   A conversion of a double x to an integer type is defined in C++ iff x is finite and its truncation is representable:
   conv_int_ok / conv_ll_ok. *)
From Coq Require Import ZArith List Bool Reals.
From Flocq Require Import Core BinarySingleNaN.
Require Import CV.Orient CV.FreeSpace CV.Expand CV.SpreadFloat CV.ExpandFloat.
Import ListNotations.
Local Open Scope Z_scope.

(* [conv.fpint]: the truncated value must be representable in the destination type *)
Definition conv_int_ok (x : f64) : Prop := is_finite x = true /\ (- bpow radix2 31 - 1 < B2R x < bpow radix2 31)%R.
Definition conv_ll_ok (x : f64) : Prop := is_finite x = true /\ (- bpow radix2 63 - 1 < B2R x < bpow radix2 63)%R.

(* ------------------------------------------------------------------ (i) the values stored by ++newW *)
(* the loop of ExpandFloat.carry_loop_f, same fuel: the new value of newW at every increment *)
Fixpoint carry_inc_vals (fuel : nat) (h : Z) (newW : Z) (missing : f64) : list Z :=
  if Bleb (d_of_Z h) missing then
    match fuel with
    | O => []
    | S f => (newW + 1) :: carry_inc_vals f h (newW + 1) (dsub missing (d_of_Z h))
    end
  else [].

(* one iteration of the loop over the cells (ExpandFloat.expand_cell_f) *)
Definition cell_inc_vals (f cap : f64) (k : ecell) (missing : f64) : list Z :=
  if processed k then
    let h := e_h k in
    let fw := frac_width_f f cap k in
    let m1 := carry_in_f missing h fw in
    carry_inc_vals (Z.to_nat (Btrunc m1 / h)) h (Btrunc fw) m1
  else [].

Fixpoint cells_inc_vals (f cap : f64) (cells : list ecell) (missing : f64) : list Z :=
  match cells with
  | [] => []
  | k :: r =>
      cell_inc_vals f cap k missing ++
      match expand_cell_f f cap k missing with
      | Some (_, m') => cells_inc_vals f cap r m'
      | None => []
      end
  end.

(* expandCellsToDensity(t, m, mew) on the circuit c: the increments of the expansion branch, none in the others *)
Definition density_inc_vals (t m mew : f64) (c : ecircuit) : list Z :=
  let ca := movable_area (e_cells c) in
  let ra := row_placement_area_f m c in
  if (ca =? 0) || (ra =? 0) then [] else
  let d := density_f ca ra in
  if Bleb t d then [] else
  cells_inc_vals (ddiv t d) (cap_f mew c) (e_cells c) (B754_zero false).

(* ------------------------------------------------------------------ (ii) the doubles converted to long long *)
(* ExpandFloat.expanded_area_f, the converted double of every movable cell *)
Fixpoint expanded_conv_vals (cells : list ecell) (es : list f32) (acc : Z) : list f64 :=
  match cells, es with
  | k :: cr, e :: er =>
      if e_fixed k then expanded_conv_vals cr er acc
      else expanded_step_f acc e (cell_area k) :: expanded_conv_vals cr er (Btrunc (expanded_step_f acc e (cell_area k)))
  | _, _ => []
  end.

(* the exact products e_i * area_i of the movable cells and their number *)
Fixpoint expanded_exact (cells : list ecell) (es : list f32) : R :=
  match cells, es with
  | k :: cr, e :: er => ((if e_fixed k then 0 else B2R e * IZR (cell_area k)) + expanded_exact cr er)%R
  | _, _ => 0%R
  end.
Fixpoint nb_movable (cells : list ecell) (es : list f32) : nat :=
  match cells, es with
  | k :: cr, _ :: er => ((if e_fixed k then 0 else 1) + nb_movable cr er)%nat
  | _, _ => O
  end.

(* ------------------------------------------------------------------ (iii) the doubles converted to int *)
Definition width_conv_vals (cells : list ecell) (es : list f32) : list f64 :=
  flat_map (fun ke => if e_fixed (fst ke) then [] else [scaled_width_f (e_w (fst ke)) (snd ke)]) (combine cells es).

(* expandCellsByFactor(es, maxD, m) on c: the conversions of the last loop (expansion branch only), with the factors
   the loop really uses (adjusted when expandedDensity > maxDensity) *)
Definition factor_conv_vals (es : list f32) (maxD m : f64) (c : ecircuit) : list f64 :=
  if negb (Nat.eqb (length es) (length (e_cells c))) then [] else
  if existsb (fun e => Bltb e f_0_999) es then [] else
  let ca := movable_area (e_cells c) in
  let ea := expanded_area_f (e_cells c) es 0 in
  let ra := row_placement_area_f m c in
  if (ca =? 0) || (ra =? 0) then [] else
  let d := density_f ca ra in
  if Bleb maxD d then [] else
  let ed := density_f ea ra in
  let es' := if Bltb maxD ed then map (adjust_f (ratio_f maxD d ed)) es else es in
  width_conv_vals (e_cells c) es'.
