(* C05 -- the wirelength along DetailedPlacer::run() with the loops INSIDE the model (to be merged into Properties_C05.v).
   Model: DetailedRun.v; proofs: DetailedRunTermProofs.v, DetailedRunTotalProofs.v, DetailedRunCircuitProofs.v.
   Tie: checks/c02_run.py (both model values after every whole pass and at every callback of whole runs, EXACT). *)
From Coq Require Import List ZArith Lia Bool.
Import ListNotations.
Require Import CV.Orient CV.FreeSpace CV.Circuit CV.CircuitProofs CV.Hpwl CV.Moves CV.MovesProofs CV.MovesOrientProofs CV.Optimiser CV.ShiftLp.
Require Import CV.Legalizer CV.LegalizerProofs CV.LegalizerSoundProofs CV.DetailedInit CV.DetailedInitProofs CV.DetailedExport CV.DetailedExportProofs.
Require Import CV.DetailedValue CV.DetailedValueProofs CV.DetailedValueStepProofs CV.RowNeigh CV.Reorder.
Require Import CV.DetailedRun CV.DetailedRunProofs CV.DetailedRunStructProofs CV.DetailedRunTermProofs CV.DetailedRunTotalProofs CV.DetailedRunCircuitProofs CV.DetailedRunShiftProofs.
Require Import CV.Properties_C02_run.
Local Open Scope Z_scope.

(* [F] the optimised value of a state satisfying the coupling invariant is >= 0 (every net of the two models has >= 2 pins) *)
Theorem c05_run_value_never_negative : forall c rh nets s, PInv c rh nets s -> 0 <= ovalue (ps_o s).
Proof. exact ovalue_nonneg. Qed.

(* [F] the measure of the while loop: bestSwapUpdate returns (no cell out of the rows is dereferenced); when it reports a swap,
   the value has dropped by at least 1 (the test `val < bestValue` is strict) *)
Theorem c05_run_accepted_swap_lowers_value : forall c rh nets, std_design c rh -> forall s cc from nb,
  PInv c rh nets s -> held (ps_d s) cc = true -> from_ok (ps_d s) from ->
  exists r, best_swap_update s cc from nb = ROk r /\ 0 <= ovalue (ps_o (bs_state r)) /\
    (bs_found r = true -> ovalue (ps_o (bs_state r)) <= ovalue (ps_o s) - 1).
Proof. exact accepted_swap_decreases. Qed.

(* [F] MAIN, Circuit level.  c = the legalized circuit.  For the result (s', ex) of run() -- ex = the states exposed at the
   callbacks, in order --: Circuit::hpwl of the final circuit <= the legalized one; every callback circuit lies between them; of
   two callbacks the later one is not longer -- each comparison under the F8 scope (orient_frozen) at the two compared states.
   int_pins / pins_fit: the pin coordinates are machine ints wherever the cells sit (an artefact of Z) *)
Theorem c05_run_exposed_wirelength_never_increases : forall c rh nets, std_design c rh -> legal c -> forall p shifts d0 s' ex,
  from_circuit c = DOk d0 -> params_ok p = true ->
  let s0 := {| ps_d := d0; ps_o := init_models c nets |} in
  oracle_ok (Z.to_nat (dp_nbPasses p)) p shifts s0 -> run_passes p shifts s0 = ROk (s', ex) ->
  int_pins c nets -> pins_fit c rh nets ->
  (orient_frozen c (ps_d s') -> exposed_hpwl c nets s' <= hpwl_circuit c nets) /\
  (forall e, In e ex -> orient_frozen c (ps_d e) ->
     exposed_hpwl c nets e <= hpwl_circuit c nets /\ (orient_frozen c (ps_d s') -> exposed_hpwl c nets s' <= exposed_hpwl c nets e)) /\
  (forall l1 e1 l2 e2 l3, ex = l1 ++ e1 :: l2 ++ e2 :: l3 -> orient_frozen c (ps_d e1) -> orient_frozen c (ps_d e2) ->
     exposed_hpwl c nets e2 <= exposed_hpwl c nets e1).
Proof. exact place_detailed_value. Qed.

(* [F] the same on the circuits the model of DetailedPlacer::place returns: c' (final) and exs (seen by the callbacks), with the F8 scope
   stated on the circuits (same_polar_orient c e: no polarised cell has, in e, another orientation than in the legalized circuit c) *)
Theorem c05_place_detailed_model_never_worsens_hpwl : forall c rh nets, std_design c rh -> legal c -> forall p shifts d0 c' exs,
  from_circuit c = DOk d0 -> params_ok p = true ->
  oracle_ok (Z.to_nat (dp_nbPasses p)) p shifts {| ps_d := d0; ps_o := init_models c nets |} ->
  int_pins c nets -> pins_fit c rh nets ->
  place_detailed_model c nets p shifts = ROk (c', exs) ->
  (same_polar_orient c c' -> hpwl_circuit c' nets <= hpwl_circuit c nets) /\
  Forall (fun e => same_polar_orient c e ->
            hpwl_circuit e nets <= hpwl_circuit c nets /\ (same_polar_orient c c' -> hpwl_circuit c' nets <= hpwl_circuit e nets)) exs.
Proof. exact place_detailed_model_hpwl. Qed.

(* [F] MAIN with the shift DRIVER closed (oracle = lemon's answer per runShiftsOnCells call, accepted only through the proved
   certificate checker; see Properties_C02_run.v): the circuits the model of DetailedPlacer::place returns -- c' final, exs at the
   callbacks, in order -- never have a larger Circuit::hpwl than the legalized circuit, the final one not larger than any callback
   circuit, a later callback circuit not larger than an earlier one (F8 scope same_polar_orient at the compared circuits); or the
   run stopped on the oracle.  No hypothesis on the oracle. *)
Theorem c05_place_detailed_closed_never_worsens_hpwl : forall c rh nets, std_design c rh -> legal c -> forall p answers d0,
  from_circuit c = DOk d0 -> params_ok p = true -> int_pins c nets -> pins_fit c rh nets ->
  ok_or_oracle (place_detailed_model_c c nets p answers)
    (fun r => let '(c', exs, _) := r in
       (same_polar_orient c c' -> hpwl_circuit c' nets <= hpwl_circuit c nets) /\
       Forall (fun e => same_polar_orient c e ->
                 hpwl_circuit e nets <= hpwl_circuit c nets /\ (same_polar_orient c c' -> hpwl_circuit c' nets <= hpwl_circuit e nets)) exs /\
       (forall l1 e1 l2 e2 l3, exs = l1 ++ e1 :: l2 ++ e2 :: l3 -> same_polar_orient c e1 -> same_polar_orient c e2 ->
                 hpwl_circuit e2 nets <= hpwl_circuit e1 nets)).
Proof. exact place_detailed_c_hpwl. Qed.

(* non-vacuity on exrun (Properties_C02_run.v: two rows N / FS, cell 0 polarised NW, cells changing row): every hypothesis of the
   main theorem holds, every exposed state is in the F8 scope (the polarised cell cannot leave its row), and the exposed
   Circuit::hpwl values are 19 (legalized) >= 12 >= 12 >= 9 >= 9 (callbacks) >= 9 (final), equal to the optimised values *)
Lemma exrun_frozen d : (forall k, nth_error (cells exrun) 0 = Some k -> c_o (export_cell d 0 k) = c_o k) -> orient_frozen exrun d.
Proof.
  intros H0 i k Hk Hp. destruct i as [|[|[|[|[|[|i]]]]]]; cbn in Hk; try (injection Hk as <-; exfalso; apply Hp; reflexivity).
  - exact (H0 k Hk).
  - destruct i; discriminate.
Qed.

Example c05_run_nonvacuous :
  int_pins exrun exrun_nets /\ pins_fit exrun 2 exrun_nets /\
  exists d0 s' ex, from_circuit exrun = DOk d0 /\
    run_passes exrun_p [] {| ps_d := d0; ps_o := init_models exrun exrun_nets |} = ROk (s', ex) /\
    orient_frozen exrun (ps_d s') /\ Forall (fun e => orient_frozen exrun (ps_d e)) ex /\
    hpwl_circuit exrun exrun_nets = 19 /\ map (exposed_hpwl exrun exrun_nets) ex = [12; 12; 9; 9] /\ exposed_hpwl exrun exrun_nets s' = 9 /\
    map (fun e => ovalue (ps_o e)) ex = [12; 12; 9; 9] /\ ovalue (ps_o s') = 9.
Proof.
  split; [apply int_pinsb_sound; vm_compute; reflexivity|].
  split.
  { intros net p k r Hn Hp Hk Fx Hh Hr.
    destruct Hn as [<-|[<-|[<-|[]]]]; destruct Hp as [<-|[<-|[]]]; vm_compute in Hk; injection Hk as <-; try discriminate Fx;
      destruct Hr as [<-|[<-|[]]]; vm_compute; repeat split; discriminate. }
  eexists _, _, _. split; [vm_compute; reflexivity|]. split; [vm_compute; reflexivity|].
  split; [apply exrun_frozen; intros k [= <-]; vm_compute; reflexivity|].
  split; [repeat constructor; apply exrun_frozen; intros k [= <-]; vm_compute; reflexivity|].
  vm_compute. repeat split; reflexivity.
Qed.

(* non-vacuity of the closed theorem: on exrun with the four recorded answers of lemon (Properties_C02_run.v) the model returns, every
   returned circuit is in the F8 scope, and Circuit::hpwl goes 19 (legalized) >= 12 (after the swaps) >= 5 (after the shifts) >= 5 (final) *)
Example c05_run_closed_nonvacuous :
  exists c' exs, place_detailed_model_c exrun exrun_nets exrun_ps [exrun_ans1; exrun_ans2; exrun_ans3; exrun_ans4] = ROk (c', exs, []) /\
    same_polar_orient exrun c' /\ Forall (same_polar_orient exrun) exs /\
    hpwl_circuit exrun exrun_nets = 19 /\ map (fun e => hpwl_circuit e exrun_nets) exs = [12; 5] /\ hpwl_circuit c' exrun_nets = 5.
Proof.
  assert (G : forall c', nth_error (cells c') 0 = Some (mkcell 0 0 2 2 oN pNW false true) -> same_polar_orient exrun c').
  { intros c' H0 i k k' Hk Hk' Hp. destruct i as [|[|[|[|[|[|i]]]]]]; cbn in Hk; try (injection Hk as <-; exfalso; apply Hp; reflexivity).
    - injection Hk as <-. rewrite H0 in Hk'. injection Hk' as <-. reflexivity.
    - destruct i; discriminate. }
  eexists _, _. split; [vm_compute; reflexivity|]. split; [apply G; reflexivity|]. split; [repeat constructor; apply G; reflexivity|].
  vm_compute. repeat split; reflexivity.
Qed.

Print Assumptions c05_run_value_never_negative.
Print Assumptions c05_run_accepted_swap_lowers_value.
Print Assumptions c05_run_exposed_wirelength_never_increases.
Print Assumptions c05_place_detailed_model_never_worsens_hpwl.
Print Assumptions c05_place_detailed_closed_never_worsens_hpwl.
Print Assumptions c05_run_nonvacuous.
Print Assumptions c05_run_closed_nonvacuous.
