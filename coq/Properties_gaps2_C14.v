(* C14 part of the review-gap statements (umbrella: Properties_gaps2.v); every proof is `exact <lemma>`.
   To be merged by the lead into Properties_C14.v.  Labels: [F] all inputs, [R] refuted (witness inside
   check()'s domain).  Models: Transp1d.v; ReviewGaps2C14MemModel.v (option-valued reads and writes of the
   sorter constructor, convert, totalDemand/flushPositions).  Notes: design/review/gaps2.md. *)
From Coq Require Import List ZArith Lia Bool.
Import ListNotations.
Require Import CV.Transp1d CV.Transp1dProofs CV.ReviewGaps2C14 CV.ReviewGaps2C14MemModel CV.ReviewGaps2C14Mem CV.ReviewGaps2C14Sweep.
Local Open Scope Z_scope.

(* ---------------------------------------------------------------- balanceDemand() *)

(* [F] balanceDemand(): positions and supplies untouched, one demand per sink as before, demands only grow --
   by a common `added >= 0`, plus 1 on the first k sinks with k < max(1, nbSinks) --, and (sizes consistent)
   total demand afterwards = max(total demand, total supply) *)
Theorem c14_balance_demand_spec : forall pb pb', balance_demand pb = Ok pb' -> balanced pb pb'.
Proof. exact balance_demand_spec. Qed.

(* [F] total demand = total supply after balancing a deficient problem; no-op otherwise *)
Theorem c14_balance_demand_exact : forall pb pb',
  length (pb_d pb) = nb_sinks pb -> total (pb_d pb) < total (pb_s pb) ->
  balance_demand pb = Ok pb' -> total (pb_d pb') = total (pb_s pb').
Proof. exact balance_demand_exact. Qed.
Theorem c14_balance_demand_noop : forall pb pb',
  total (pb_s pb) <= total (pb_d pb) -> balance_demand pb = Ok pb' -> pb' = pb.
Proof. exact balance_demand_noop. Qed.

(* [F] the remainder loop `for (i = 0; i < missing; ++i) d[i] += 1`: the remainder is in [0, nbSinks), so
   the loop stays inside d and the model's add_first never truncates ... *)
Theorem c14_balance_remainder_lt : forall missing m, 0 < missing -> 0 < m ->
  0 <= missing - Z.quot missing m * m < m.
Proof. exact balance_remainder_lt. Qed.
(* ... add_first adds exactly min(k, |l|) ones: "truncation" would be k > |l| *)
Theorem c14_add_first_total : forall k l, total (add_first k l) = total l + Z.of_nat (Nat.min k (length l)).
Proof. exact add_first_total. Qed.

(* [F] balanceDemand() answers unless it divides by nbSinks() = 0 *)
Theorem c14_balance_demand_total : forall pb,
  (exists pb', balance_demand pb = Ok pb') <-> (total (pb_s pb) <= total (pb_d pb) \/ (0 < nb_sinks pb)%nat).
Proof. exact balance_demand_total. Qed.
Theorem c14_balance_demand_divzero : forall pb,
  balance_demand pb = Err EDivZero <-> (total (pb_d pb) < total (pb_s pb) /\ nb_sinks pb = O).
Proof. exact balance_demand_divzero. Qed.

(* [F] check() passes after balancing when sizes were consistent and nothing was negative *)
Theorem c14_balance_demand_check : forall pb pb',
  (check pb = None \/ check pb = Some ESupplyGtDemand) -> balance_demand pb = Ok pb' -> check pb' = None.
Proof. exact balance_demand_check. Qed.

(* [F] balanceDemand(); assign() -- improveXTransport / improveYTransport -- answers, and every entry is a
   sink index, as soon as there is a sink (with or without a sink of positive demand) *)
Theorem c14_assign_range : forall pb r, assign pb = Ok r -> (0 < nb_sinks pb)%nat ->
  length r = nb_sources pb /\ forall i, (i < nb_sources pb)%nat -> (nn r i < nb_sinks pb)%nat.
Proof. exact assign_range. Qed.
Theorem c14_balance_then_assign_total : forall pb,
  (check pb = None \/ check pb = Some ESupplyGtDemand) -> (0 < nb_sinks pb)%nat ->
  exists pb' r, balance_demand pb = Ok pb' /\ assign pb' = Ok r /\
    length r = nb_sources pb /\ forall i, (i < nb_sources pb)%nat -> (nn r i < nb_sinks pb)%nat.
Proof. exact balance_then_assign_total. Qed.

(* ---------------------------------------------------------------- presupposition of c14_assign_shape *)

(* [F] no sink of positive demand: the result is the zero vector (what the code does) *)
Theorem c14_assign_all_zero : forall pb r, assign pb = Ok r ->
  (forall j, (j < nb_sinks pb)%nat -> zn (pb_d pb) j <= 0) ->
  length r = nb_sources pb /\ forall i, nn r i = O.
Proof. exact assign_all_zero. Qed.

(* [R] so "each entry is a sink of positive demand" fails inside check()'s domain: `T1 0 1 1 0 0 0 0` ... *)
Theorem c14_assign_positive_demand_refuted :
  exists pb r, check pb = None /\ assign pb = Ok r /\
    exists i, (i < nb_sources pb)%nat /\ (nn r i < nb_sinks pb)%nat /\ ~ 0 < zn (pb_d pb) (nn r i).
Proof. exact assign_positive_demand_refuted. Qed.
(* [R] ... and with no sink at all the entry 0 names a sink that does not exist: `T1 0 1 0 0 0` *)
Theorem c14_assign_sink_index_refuted :
  exists pb r, check pb = None /\ assign pb = Ok r /\ exists i, (i < nb_sources pb)%nat /\ ~ (nn r i < nb_sinks pb)%nat.
Proof. exact assign_sink_index_refuted. Qed.

(* [F] the clause holds EXACTLY when some sink has positive demand (problems with at least one source) *)
Theorem c14_assign_shape_iff : forall pb r, assign pb = Ok r -> (0 < nb_sources pb)%nat ->
  ((forall i, (i < nb_sources pb)%nat -> (nn r i < nb_sinks pb)%nat /\ 0 < zn (pb_d pb) (nn r i)) <->
   (exists j, (j < nb_sinks pb)%nat /\ 0 < zn (pb_d pb) j)).
Proof. exact assign_shape_iff. Qed.

(* ---------------------------------------------------------------- memory clause beyond c14_no_oob *)

(* [F] sorter constructor (incl. the F11 repair: snkSort[k-1], snkSort[k], snkSort[k'].second, the write
   idleSink[i], no size_t underflow of --k), convert, totalDemand + flushPositions at the state run() reaches:
   no access outside a vector on any input accepted by check(), and the values are those of the
   default-valued model (so its nth/zn defaults are never used there) *)
Theorem c14_no_default_read : forall pb, check pb = None ->
  let so := mk_sorter pb in let P := convert so pb in
  mk_sorter_m pb = Some so /\ convert_m so pb = Some P /\
  (forall s, push_all P (seq 0 (n_src P)) init_st = Some s ->
     flush_m P (pp s) = Some (flush (zn (sD P) (n_snk P) - Sx P (length (pp s))) (pp s)) /\
     run P = flush_m P (pp s)).
Proof. exact no_default_read. Qed.

(* [F] the machine-level reads do detect a short supply vector (non-vacuity of the option model) *)
Theorem c14_pos_pairs_m_short : forall pos amt, (length amt < length pos)%nat -> pos_pairs_m pos amt = None.
Proof. exact pos_pairs_m_short. Qed.

(* [P] the sweep run()/push() still reads through `zn` defaults (no option-valued transcription, hence no
   equality theorem for it).  Proved: the index invariant at every push(k) boundary from which each of its
   reads is in range (ReviewGaps2C14Sweep.v lists read by read which conjunct bounds it): some sink exists,
   lastOccupiedSink and optimalSink < nbSinks, |p| = k, |S| = nbSources+1, |D| = nbSinks+1.
   MISSING: the per-read statement itself (machine-level model of push/pushOnce/pushNew*Events/getSlope). *)
Theorem c14_sweep_index_invariant_partial : forall P k s,
  wf_sprob P -> (k <= n_src P)%nat -> (0 < n_src P)%nat ->
  push_all P (seq 0 k) init_st = Some s ->
  (0 < n_snk P)%nat /\ (lo s < n_snk P)%nat /\ (os s < n_snk P)%nat /\ length (pp s) = k /\
  length (sS P) = S (n_src P) /\ length (sD P) = S (n_snk P) /\
  length (su P) = n_src P /\ length (sv P) = n_snk P.
Proof. exact sweep_index_invariant. Qed.

Example c14_balance_demand_nonvacuous :
  balance_demand {| pb_u := [0; 5]; pb_v := [1; 2; 3]; pb_s := [4; 7]; pb_d := [1; 0; 2] |}
  = Ok {| pb_u := [0; 5]; pb_v := [1; 2; 3]; pb_s := [4; 7]; pb_d := [4; 3; 4] |}.
Proof. exact balance_demand_nonvacuous. Qed.
Example c14_no_default_read_nonvacuous :
  let pb := {| pb_u := [7; 1; 4; 1]; pb_v := [6; 0; 6; 3]; pb_s := [3; 2; 0; 1]; pb_d := [2; 2; 0; 4] |} in
  check pb = None /\ option_map idleSink (mk_sorter_m pb) = Some [0; 0; 3; 0]%nat /\
  mk_sorter_m {| pb_u := [7; 1]; pb_v := [6]; pb_s := [3]; pb_d := [2] |} = None.
Proof. cbv zeta. repeat split; vm_compute; reflexivity. Qed.

Print Assumptions c14_balance_demand_spec.
Print Assumptions c14_balance_demand_exact.
Print Assumptions c14_balance_demand_noop.
Print Assumptions c14_balance_remainder_lt.
Print Assumptions c14_add_first_total.
Print Assumptions c14_balance_demand_total.
Print Assumptions c14_balance_demand_divzero.
Print Assumptions c14_balance_demand_check.
Print Assumptions c14_assign_range.
Print Assumptions c14_balance_then_assign_total.
Print Assumptions c14_assign_all_zero.
Print Assumptions c14_assign_positive_demand_refuted.
Print Assumptions c14_assign_sink_index_refuted.
Print Assumptions c14_assign_shape_iff.
Print Assumptions c14_no_default_read.
Print Assumptions c14_pos_pairs_m_short.
Print Assumptions c14_sweep_index_invariant_partial.
