(* Links between properties: statements that other theorems leave as hypotheses, proved.
   Prefix = the property a statement belongs to (c06_, c16_, c18_, c07_, c05_, c02_).
   1. C06 <- C16 (Links.v, LinksC06Proofs.v): the two hypotheses about the view of the hierarchical grid that
      c06_ub_exposed_centres_inside_rows_bbox (Properties_C06_compose.v) takes from C16 hold for every state of C16's
      model (Density.v) on the grid of a circuit.
   2. C07 <- C18 (LinksC18Proofs.v): the float -> int conversions and the `++` of expandCellsToDensity /
      expandCellsByFactor that C07's listing tie left ENotListed.
   3. C05/C02 (LinksRunProofs.v): the lemon answers run_passes_c consumes are a prefix of its input.
   Labels: [F] proved for all inputs of the stated domain; [W] witness computed inside Coq.
   Axioms: the statements of part 1 that mention ub_exposure / run_global and those of part 2 depend on the standard
   library's real numbers through Flocq (ClassicalDedekindReals.sig_forall_dec, sig_not_dec,
   FunctionalExtensionality.functional_extensionality_dep, Classical_Prop.classic) exactly as the theorems they
   instantiate; everything else is closed under the global context. *)
From Coq Require Import ZArith Reals List Bool Lia Lra.
From Flocq Require Import Core BinarySingleNaN.
Require Import CV.Orient CV.FreeSpace CV.Spread CV.SpreadProofs CV.SpreadFloat CV.SpreadFloatProofs.
Require Import CV.GlobalCompose CV.GlobalComposeProofs.
Require CV.Density CV.DensityProofs.
Require Import CV.Links CV.LinksC06Proofs.
Import ListNotations.
Local Open Scope Z_scope.

(* ================================================================ 1. C06 <- C16 *)

(* [F] (a), general: setupHierarchy on ANY grid with at least one bin per direction yields levels that are levels_ok
   for THE GRID'S bin counts (hier_wf only says "for some numbers") *)
Theorem c16_make_hier_levels_of_grid : forall g h, Density.make_hier g = Some h ->
  (2 <= length (Density.limX g))%nat -> (2 <= length (Density.limY g))%nat ->
  Density.hgrid h = g /\
  DensityProofs.levels_ok (length (Density.limX g) - 1) (Density.xlim h) (Density.xpar h) /\
  DensityProofs.levels_ok (length (Density.limY g) - 1) (Density.ylim h) (Density.ypar h).
Proof. exact make_hier_levels. Qed.

(* [F] (a): the limits of every level pass the boolean test of C06's tie (sub-sequence of the finest limits keeping
   both ends, at least two) and are a limits_view; as many limits as the level has indices *)
Theorem c16_level_limits_pass_is_view : forall fine nb Lv P lvl vs, (1 <= nb)%nat -> DensityProofs.levels_ok nb Lv P ->
  length fine = S nb -> DensityProofs.schainZ fine ->
  Density.level_limits fine Lv lvl = Some vs ->
  is_view fine vs = true /\ limits_view fine vs /\ length vs = length (nth lvl Lv []).
Proof. exact level_limits_is_view. Qed.

(* [F] the finest limits of the grid of a circuit: at least one bin, strictly increasing, in both directions *)
Theorem c16_circuit_grid_finest_limits : forall margin maxSize rows cells,
  0 <= margin -> 1 <= maxSize -> has_proper_row rows ->
  let g := Density.grid_of_circuit maxSize margin rows cells in
  (2 <= length (Density.limX g))%nat /\ (2 <= length (Density.limY g))%nat /\
  DensityProofs.schainZ (Density.limX g) /\ DensityProofs.schainZ (Density.limY g).
Proof. exact circuit_grid_fine. Qed.

(* [F] (a) for a circuit: at ANY pair of levels of the hierarchy of its grid, with ANY cell lists, the view exists and
   satisfies view_of_circuit (the first hypothesis of the composed theorem) *)
Theorem c06_c16_view_at_any_level : forall margin maxSize rows cells h lx ly bc,
  0 <= margin -> 1 <= maxSize -> has_proper_row rows ->
  let g := Density.grid_of_circuit maxSize margin rows cells in
  Density.make_hier g = Some h -> (lx < length (Density.xlim h))%nat -> (ly < length (Density.ylim h))%nat ->
  exists v, view_at g h lx ly bc = Some v /\ v_cells v = bc /\
    view_of_circuit margin maxSize rows cells v = true /\
    limits_view (fst (Spread.grid_of_circuit margin maxSize rows cells)) (v_x v) /\
    limits_view (snd (Spread.grid_of_circuit margin maxSize rows cells)) (v_y v) /\
    length (v_x v) = length (nth lx (Density.xlim h) []) /\ length (v_y v) = length (nth ly (Density.ylim h) []).
Proof. exact circuit_level_view. Qed.

(* [F] (b): C16's partition invariant for the circuit's demand vector gives the second hypothesis *)
Theorem c06_c16_invariant_gives_bins_positive : forall h cells s v,
  DensityProofs.inv h (circuit_demand cells) s -> v_cells v = Density.bcells s -> bins_positive cells v.
Proof. exact inv_bins_positive. Qed.

(* [F] (a) + (b): EVERY state that C16's operations (refineX | refineY | coarsenX | coarsenY | Redistribute, any history)
   reach from the constructor's state on the grid of a circuit, at whatever levels it is: its view exists, satisfies both
   hypotheses of c06_ub_exposed_centres_inside_rows_bbox, and has the shape the C++ guarantees *)
Theorem c06_c16_reached_state_satisfies_view_hypotheses : forall margin maxSize rows cells h ops s,
  0 <= margin -> 1 <= maxSize -> has_proper_row rows ->
  let g := Density.grid_of_circuit maxSize margin rows cells in
  let d := circuit_demand cells in
  Density.make_hier g = Some h -> Density.run_ops h (length d) (Density.init_state h d) ops = Some s ->
  exists v, state_view g h s = Some v /\ v_cells v = Density.bcells s /\
    view_of_circuit margin maxSize rows cells v = true /\ bins_positive cells v /\ view_shape v = true /\
    limits_view (fst (Spread.grid_of_circuit margin maxSize rows cells)) (v_x v) /\
    limits_view (snd (Spread.grid_of_circuit margin maxSize rows cells)) (v_y v).
Proof. exact reached_state_view. Qed.

(* [F] the hierarchy exists for every circuit and the constructor's state is a reached state *)
Theorem c16_circuit_has_reached_state : forall margin maxSize rows cells,
  exists h, Density.make_hier (Density.grid_of_circuit maxSize margin rows cells) = Some h /\
    Density.run_ops h (length (circuit_demand cells)) (Density.init_state h (circuit_demand cells)) [] =
      Some (Density.init_state h (circuit_demand cells)).
Proof. exact circuit_has_reached_state. Qed.

(* [F] C06's clause 1 with NO hypothesis about the view: conditional only on "the C++ bins are a state of C16's model"
   (what C16's tie compares) *)
Theorem c06_ub_exposed_centres_inside_for_c16_states : forall margin maxSize rows cells h ops s tx ty,
  0 <= margin -> 1 <= maxSize -> has_proper_row rows ->
  in_window (bbox (map rr rows)) -> cells_window cells ->
  let g := Density.grid_of_circuit maxSize margin rows cells in
  let d := circuit_demand cells in
  Density.make_hier g = Some h -> Density.run_ops h (length d) (Density.init_state h d) ops = Some s ->
  exists v, state_view g h s = Some v /\
  forall i c, nth_error cells i = Some c -> cc_fixed c = false -> (i < length tx)%nat -> (i < length ty)%nat ->
  let R := bbox (map rr rows) in
  exists X Y, nth_error (ub_exposure margin rows cells v tx ty) i = Some (Some (X, Y)) /\
    2 * minX R - placed_w c mod 2 <= 2 * X + placed_w c <= 2 * maxX R + placed_w c mod 2 /\
    2 * minY R - placed_h c mod 2 <= 2 * Y + placed_h c <= 2 * maxY R + placed_h c mod 2.
Proof. exact ub_exposed_inside_for_reached_state. Qed.

(* [F] an iteration oracle of run_global whose view is the view of a reached state satisfies oracle_ok ... *)
Theorem c06_c16_oracle_reached_ok : forall margin maxSize rows cells it,
  0 <= margin -> 1 <= maxSize -> has_proper_row rows ->
  oracle_reached maxSize margin rows cells it -> oracle_ok margin maxSize rows cells it.
Proof. exact oracle_reached_ok. Qed.

(* [F] ... hence the closed loop of GlobalPlacer::run, the views being views of reached states of C16's model *)
Theorem c06_run_global_exposed_inside_for_c16_states :
  forall margin maxSize rows cells wrl maxNbSteps nbInitialSteps its vlast s0,
  0 <= margin -> 1 <= maxSize -> has_proper_row rows -> in_window (bbox (map rr rows)) -> cells_window cells ->
  state_len (length cells) s0 -> Forall (oracle_reached maxSize margin rows cells) its ->
  view_reached maxSize margin rows cells vlast ->
  forall e, In e (snd (run_global margin rows cells wrl maxNbSteps nbInitialSteps its vlast s0)) ->
  fst e <> KLowerBound ->
  forall i c, nth_error cells i = Some c -> cc_fixed c = false ->
  exists X Y, nth_error (snd e) i = Some (Some (X, Y)) /\ centre_inside (bbox (map rr rows)) c X Y.
Proof. exact run_global_exposed_inside_reached. Qed.

(* the circuit of c06_compose_nonvacuous (split row, fixed obstruction, odd width, turned cell, flipped cell, movable cell
   without area; margin 1, bin size 10): the hierarchy of its grid, a history refineX, refineY, Redistribute that reaches a
   state at levels (1, 0) whose view merges the two right columns; the demands; the exposure for targets with
   infinities and NaN *)
Definition lk_rows := [ {| rr := {| minX := 0; maxX := 40; minY := 0; maxY := 10 |}; ro := oN |};
                        {| rr := {| minX := 0; maxX := 18; minY := 10; maxY := 20 |}; ro := oFS |};
                        {| rr := {| minX := 22; maxX := 40; minY := 10; maxY := 20 |}; ro := oFS |} ].
Definition lk_cells : list ccell :=
  [ (10, 0, 6, 10, oN, true, true); (5, 5, 3, 10, oN, false, false); (30, 3, 10, 4, oE, false, false);
    (-7, 50, 4, 10, oFN, false, false); (2, 2, 0, 10, oN, false, false) ].
Definition lk_ops := [Density.RefineX; Density.RefineY; Density.Redist [(0, 0); (1, 1)]%nat [[3; 1]; [2]]%nat].
Definition lk_view := {| v_x := [1; 13; 39]; v_y := [0; 10; 20]; v_cells := [[[3; 1]; []]; [[]; [2]]]%nat |}.
Definition lk_tx : list f32 := [B754_infinity false; f_of_me 7 (-1); f_of_Z 30; f_of_Z (-7); B754_nan].
Definition lk_ty : list f32 := [f_of_Z 0; B754_nan; f_of_me 13 (-2); B754_infinity true; f_of_Z 1000].

Example c06_c16_link_nonvacuous :
  has_proper_row lk_rows /\ in_window (bbox (map rr lk_rows)) /\ cells_window lk_cells /\
  circuit_demand lk_cells = [0; 30; 40; 40; 0] /\
  exists h s, Density.make_hier (Density.grid_of_circuit 10 1 lk_rows lk_cells) = Some h /\
    Density.xlim h = [[0; 1; 2; 3]; [0; 1; 3]; [0; 3]]%nat /\
    Density.run_ops h 5 (Density.init_state h (circuit_demand lk_cells)) lk_ops = Some s /\
    (Density.lvx s, Density.lvy s) = (1, 0)%nat /\
    state_view (Density.grid_of_circuit 10 1 lk_rows lk_cells) h s = Some lk_view /\
    view_of_circuit 1 10 lk_rows lk_cells lk_view = true /\ view_shape lk_view = true /\
    ub_exposure 1 lk_rows lk_cells lk_view lk_tx lk_ty =
      [Some (10, 0); Some (9, 3); Some (24, 10); Some (2, -2); Some (39, 15)].
Proof.
  split; [eexists; split; [left; reflexivity|simpl; lia]|].
  split; [unfold in_window; vm_compute; repeat split; discriminate|].
  split.
  { intros c Hc Hf. simpl in Hc.
    repeat (destruct Hc as [<-|Hc]; [try discriminate Hf; vm_compute; repeat split; try discriminate; reflexivity|]).
    destruct Hc. }
  split; [vm_compute; reflexivity|].
  eexists. eexists. vm_compute. repeat split; reflexivity.
Qed.

(* ================================================================ 2. C07 <- C18: the conversions left ENotListed *)
Require Import CV.Expand CV.ExpandProofs CV.ExpandFloat CV.ExpandFloatBase CV.ExpandFloatProofs CV.ExpandFloatCarry
               CV.ExpandFloatArea CV.ExpandFloatFactor.
Require Import CV.LinksC18 CV.LinksC18Proofs.
Local Close Scope Z_scope.
Local Open Scope R_scope.

(* Listings (LinksC18.v): density_inc_vals = the ints stored by `++newW` (coloquinte.cpp:719) over the binary64 model of
   expandCellsToDensity; expanded_conv_vals = the doubles converted to long long by `expandedArea += (double)e * area(i)`
   (:749); factor_conv_vals = the doubles converted to int by `static_cast<int>(cellWidth_[i] * (double)expansion[i])`
   (:783).  conv_int_ok / conv_ll_ok x: x finite and its truncation representable (C++ [conv.fpint]). *)

(* [F] (i), the loop, SHARP form: for every processed cell  h * fracW + H + 2^-20 <= h * 2^31  (inc_cond), H above every
   height and above the incoming missingArea: every `++newW` stores an int; the loop returns; every new width is an int.
   (Over the reals the carry gives newW' < fracW + H/h: a TALLER cell before a short one makes several increments.) *)
Theorem c18_density_increments_are_ints : forall f cap (H : Z), (H <= 2 ^ 31)%Z -> forall cells (m : f64),
  int_sizes cells -> Forall (fw_ok f cap) cells -> Forall (fun k => (e_h k <= H)%Z) cells ->
  Forall (inc_cond f cap H) cells ->
  is_finite m = true -> 0 <= B2R m < IZR H ->
  Forall in_int (cells_inc_vals f cap cells m) /\
  exists cells' m', expand_cells_f f cap cells m = Some (cells', m') /\ Forall (fun k => (0 <= e_w k < 2 ^ 31)%Z) cells'.
Proof. exact cells_inc_vals_ok. Qed.

(* [F] (i) on the ARGUMENTS of expandCellsToDensity(t, m, mew): finite target <= 1, int sizes, areas below 2^63, the cap
   maxRowWidth * maxExpandedWidth finite, >= 0 and  cap + H + 1 <= 2^31  (H >= every cell height): every `++newW` stores an
   int and every new width is in [0, 2^31) (so `(int)fracW` is defined too: c18f_density_conversion_defined) *)
Theorem c18_density_increment_defined : forall (t m mew : f64) c (H : Z),
  is_finite t = true -> B2R t <= 1 -> int_sizes (e_cells c) ->
  (movable_area (e_cells c) < 2 ^ 63)%Z -> (row_placement_area_f m c < 2 ^ 63)%Z ->
  is_finite (cap_f mew c) = true -> 0 <= B2R (cap_f mew c) ->
  (1 <= H <= 2 ^ 31)%Z -> Forall (fun k => (e_h k <= H)%Z) (e_cells c) ->
  B2R (cap_f mew c) + IZR H + 1 <= bpow radix2 31 ->
  Forall in_int (density_inc_vals t m mew c) /\
  (forall c' b, expand_to_density_f_br t m mew c = Some (c', b) -> Forall (fun k => (0 <= e_w k < 2 ^ 31)%Z) (e_cells c')).
Proof. exact density_inc_vals_ok. Qed.

(* [F] (ii), the loop from any accumulator in [0, 2^63): finite factors >= 0, movable areas in [0, 2^53) (exact as
   doubles),  acc + SUM e_i * area_i + 2^12 * (number of movable cells) <= 2^63  (2^12 covers the three roundings of a
   step at magnitude 2^63): every converted double is in the range of long long; the result is in [0, 2^63) *)
Theorem c18_expanded_area_conversions_defined : forall cells es (acc : Z), ll_dom cells es -> (0 <= acc)%Z ->
  IZR acc < bpow radix2 63 ->
  IZR acc + expanded_exact cells es + INR (nb_movable cells es) * bpow radix2 12 <= bpow radix2 63 ->
  Forall conv_ll_ok (expanded_conv_vals cells es acc) /\
  (0 <= expanded_area_f cells es acc)%Z /\ IZR (expanded_area_f cells es acc) < bpow radix2 63 /\
  IZR (expanded_area_f cells es acc) <= IZR acc + expanded_exact cells es + INR (nb_movable cells es) * bpow radix2 12.
Proof. exact expanded_conv_vals_ok. Qed.

(* [F] (ii) on the ARGUMENTS: factors in [0, E], E * (movable area) + 2^12 * (number of cells) <= 2^63.  Also DISCHARGES
   the hypothesis |expanded_area_f| < 2^63 that c18f_factor_never_narrower assumes *)
Theorem c18_expanded_area_defined_by_factor_bound : forall cells es (E : R), ll_dom cells es ->
  Forall (fun e => B2R e <= E) es -> 0 <= E ->
  E * IZR (movable_area cells) + INR (length cells) * bpow radix2 12 <= bpow radix2 63 ->
  Forall conv_ll_ok (expanded_conv_vals cells es 0) /\ (Z.abs (expanded_area_f cells es 0) < 2 ^ 63)%Z.
Proof. exact expanded_conv_vals_ok_args. Qed.

(* [F] (iii), one conversion: finite factor >= 0 and  width * factor <= 2^31 - 1 *)
Theorem c18_scaled_width_conversion_defined : forall (w : Z) (e : f32), (0 <= w < 2 ^ 31)%Z ->
  is_finite e = true -> 0 <= B2R e -> IZR w * B2R e <= bpow radix2 31 - 1 -> conv_int_ok (scaled_width_f w e).
Proof. exact scaled_width_conv_ok. Qed.

(* [F] the adjusted factor (float)(1.0 + (e - 1.0) * ratio), 0 <= ratio <= 1, is in [1, e] for 1 <= e <= 2^31 *)
Theorem c18_adjusted_factor_not_above : forall (ratio : f64) (e : f32), is_finite ratio = true -> 0 <= B2R ratio <= 1 ->
  is_finite e = true -> 1 <= B2R e <= bpow radix2 31 ->
  is_finite (adjust_f ratio e) = true /\ 1 <= B2R (adjust_f ratio e) <= B2R e.
Proof. exact adjust_f_le. Qed.

(* [F] (iii) on the ARGUMENTS of expandCellsByFactor(es, maxD, m): the domain of c18f_factor_never_narrower and
   width_i * es_i <= 2^31 - 1  for every movable cell, es = the factors the CALLER passes: every conversion of the last
   loop is defined, with or without the adjustment against maxDensity *)
Theorem c18_factor_width_conversions_defined : forall es maxD m c,
  int_sizes (e_cells c) -> Forall (factor_ok (bpow radix2 100)) es -> is_finite maxD = true ->
  (movable_area (e_cells c) < 2 ^ 63)%Z -> (row_placement_area_f m c < 2 ^ 63)%Z ->
  (Z.abs (expanded_area_f (e_cells c) es 0) < 2 ^ 63)%Z ->
  Forall2 width_cond (e_cells c) es ->
  Forall conv_int_ok (factor_conv_vals es maxD m c).
Proof. exact factor_conv_vals_ok. Qed.

(* ---------------------------------------------------------------- witnesses just outside, all sizes <= 2^22 *)

(* (i) one row [0, 2^22] x [0, 2^11] (area 2^33), cells 1 x 2, 2^22 x 1, (2^22 - 2) x 1 (movable area 2^23, density 2^-10),
   target 2051/4096: factor 512.75.  maxExpandedWidth = (2^32 - 3) / 2^23: cap = 2^31 - 1.5.  The first cell (height 2)
   leaves missingArea 1.5; the second one (height 1) is capped: newW = 2^31 - 2, missingArea = 2.0: two increments, the
   second one stores 2^31.  UBSan on the compiled library (harness/expand.cpp, case
   `ED 2051 4096 0 1 4294967293 8388608 1 0 4194304 0 2048 0 3 0 0 1 2 0 0 0 0 0 4194304 1 0 0 0 0 0 4194302 1 0 0 0`):
   "coloquinte.cpp:719:9: runtime error: signed integer overflow: 2147483647 + 1 cannot be represented in type 'int'".
   With the cap 2^31 - 2.5 (inc_cond holds with H = 2) the increments are 2^31 - 2, 2^31 - 1; with the default
   maxExpandedWidth = 1.0 the hypotheses of c18_density_increment_defined hold *)
Definition wit_inc : ecircuit :=
  {| e_rows := [fmkrow 0 4194304 0 2048];
     e_cells := [fmk 0 0 1 2 false false; fmk 0 0 4194304 1 false false; fmk 0 0 4194302 1 false false] |}.

Example c18_increment_overflow_witness :
  let t := d_of_me 2051 (-12) in let m0 := d_of_me 0 0 in
  int_sizes (e_cells wit_inc) /\ Forall (fun k => (e_h k <= 2)%Z) (e_cells wit_inc) /\
  density_inc_vals t m0 (d_of_me 4294967293 (-23)) wit_inc = [2147483647; 2147483648]%Z /\ ~ in_int 2147483648 /\
  density_inc_vals t m0 (d_of_me 4294967291 (-23)) wit_inc = [2147483646; 2147483647]%Z /\
  (is_finite t = true /\ B2R t <= 1 /\ is_finite (cap_f done wit_inc) = true /\ 0 <= B2R (cap_f done wit_inc) /\
   B2R (cap_f done wit_inc) + IZR 2 + 1 <= bpow radix2 31 /\ density_inc_vals t m0 done wit_inc = [4194305]%Z).
Proof.
  cbv zeta. split; [unfold int_sizes; repeat constructor; simpl; lia|]. split; [repeat constructor; simpl; lia|].
  split; [vm_compute; reflexivity|]. split; [unfold in_int; lia|]. split; [vm_compute; reflexivity|].
  split; [vm_compute; reflexivity|]. split; [apply B2R_le_1; vm_compute; reflexivity|]. split; [vm_compute; reflexivity|].
  assert (B : IZR 4194304 <= B2R (cap_f done wit_inc) < IZR 4194305).
  { apply B2R_between; [simpl; lia|simpl; lia|vm_compute; reflexivity..]. }
  split; [lra|]. split; [rewrite bpow_31; lra|vm_compute; reflexivity].
Qed.

(* (ii) one cell 2^15 x 2^15 (area 2^30) with the factor 2^33 (accepted: >= 0.999f): the double converted is 2^63.
   UBSan (`EF 1 1 0 1 1 0 4194304 0 32768 0 1 0 0 32768 32768 0 0 0 1 8589934592 1`): "coloquinte.cpp:749:20: runtime
   error: 9.22337e+18 is outside the range of representable values of type 'long long int'".  Factor 2^32: 2^62, defined *)
Definition wit_ll : list ecell := [fmk 0 0 32768 32768 false false].

Example c18_expanded_area_overflow_witness :
  ll_dom wit_ll [f_of_me 1 33] /\
  map Btrunc (expanded_conv_vals wit_ll [f_of_me 1 33] 0) = [9223372036854775808]%Z /\ ~ in_ll 9223372036854775808 /\
  map Btrunc (expanded_conv_vals wit_ll [f_of_me 1 32] 0) = [4611686018427387904]%Z /\ in_ll 4611686018427387904.
Proof.
  split.
  { split.
    - constructor; [intros _; vm_compute; split; [discriminate|reflexivity]|constructor].
    - constructor; [split; [vm_compute; reflexivity|]|constructor].
      apply (Bleb_true_le (B754_zero false) (f_of_me 1 33)); [reflexivity|vm_compute; reflexivity|vm_compute; reflexivity]. }
  split; [vm_compute; reflexivity|]. split; [unfold in_ll; lia|]. split; [vm_compute; reflexivity|unfold in_ll; lia].
Qed.

(* (iii) one row [0, 2^22] x [0, 2^12], one cell 2^20 x 1 with the factor 2048 (utilisation after: 1/8, no adjustment): the
   product is 2^31.  UBSan (`EF 1 1 0 1 1 0 4194304 0 4096 0 1 0 0 1048576 1 0 0 0 1 2048 1`): "coloquinte.cpp:783:54:
   runtime error: 2.14748e+09 is outside the range of representable values of type 'int'".  Factor 2047: 2146435072 *)
Definition wit_w : ecircuit :=
  {| e_rows := [fmkrow 0 4194304 0 4096]; e_cells := [fmk 0 0 1048576 1 false false] |}.

Example c18_width_conversion_overflow_witness :
  map Btrunc (factor_conv_vals [f_of_Z 2048] done (d_of_me 0 0) wit_w) = [2147483648]%Z /\ ~ in_int 2147483648 /\
  map Btrunc (factor_conv_vals [f_of_Z 2047] done (d_of_me 0 0) wit_w) = [2146435072]%Z /\ in_int 2146435072.
Proof.
  split; [vm_compute; reflexivity|]. split; [unfold in_int; lia|]. split; [vm_compute; reflexivity|unfold in_int; lia].
Qed.

(* ================================================================ 3. C05/C02: the consumed lemon answers form a prefix *)
Require Import CV.Optimiser CV.ShiftLp CV.DetailedInit CV.DetailedValue CV.DetailedRun CV.LinksRun CV.LinksRunProofs.
Require CV.Properties_C02_run.
Local Close Scope R_scope.
Local Open Scope Z_scope.

(* [F] DetailedRun.run_passes_c (the closed driver of the shift pass with lemon's recorded answers): on success the
   recorded list is  used ++ rest, rest = the answers returned as "not consumed", and every answer of `used` was ACCEPTED
   (LinksRun.answer_accepted: the record names the cells of the model's call, its arcs are the multiset of arcs of the
   MODEL's network, and the proved checker ShiftLp.shift_cert_ok accepts lemon's potentials and flows on that network),
   in call order *)
Theorem c05_run_passes_c_consumes_prefix : forall p answers s s' ex rest,
  run_passes_c p answers s = ROk (s', ex, rest) ->
  exists used, answers = used ++ rest /\ Forall answer_accepted used.
Proof. exact run_passes_c_prefix. Qed.

(* [F] "no records left over" (what the tie requires) hence means: every recorded answer was consumed and accepted *)
Theorem c05_run_passes_c_none_left_all_accepted : forall p answers s s' ex,
  run_passes_c p answers s = ROk (s', ex, []) -> Forall answer_accepted answers.
Proof. exact run_passes_c_all_accepted. Qed.

(* [F] the same for the whole model of DetailedPlacer::place on a circuit *)
Theorem c02_place_detailed_model_c_consumes_prefix : forall c nets p answers c' ex rest,
  place_detailed_model_c c nets p answers = ROk (c', ex, rest) ->
  exists used, answers = used ++ rest /\ Forall answer_accepted used.
Proof. exact place_detailed_model_c_prefix. Qed.

(* the run of c02_run_closed_shift_nonvacuous (four answers recorded on the C++ run, all consumed); with a fifth record
   appended the model makes the same four calls and returns the fifth as not consumed *)
Example c05_prefix_nonvacuous :
  let a1 := Properties_C02_run.exrun_ans1 in let a2 := Properties_C02_run.exrun_ans2 in
  let a3 := Properties_C02_run.exrun_ans3 in let a4 := Properties_C02_run.exrun_ans4 in
  exists c' exs c'' exs',
    place_detailed_model_c Properties_C02_run.exrun Properties_C02_run.exrun_nets Properties_C02_run.exrun_ps
      [a1; a2; a3; a4] = ROk (c', exs, []) /\
    place_detailed_model_c Properties_C02_run.exrun Properties_C02_run.exrun_nets Properties_C02_run.exrun_ps
      [a1; a2; a3; a4; a2] = ROk (c'', exs', [a2]) /\
    Forall answer_accepted [a1; a2; a3; a4].
Proof.
  cbv zeta.
  assert (E1 : exists c' exs,
    place_detailed_model_c Properties_C02_run.exrun Properties_C02_run.exrun_nets Properties_C02_run.exrun_ps
      [Properties_C02_run.exrun_ans1; Properties_C02_run.exrun_ans2; Properties_C02_run.exrun_ans3;
       Properties_C02_run.exrun_ans4] = ROk (c', exs, [])) by (eexists _, _; vm_compute; reflexivity).
  destruct E1 as (c' & exs & E1).
  assert (E2 : exists c'' exs',
    place_detailed_model_c Properties_C02_run.exrun Properties_C02_run.exrun_nets Properties_C02_run.exrun_ps
      [Properties_C02_run.exrun_ans1; Properties_C02_run.exrun_ans2; Properties_C02_run.exrun_ans3;
       Properties_C02_run.exrun_ans4; Properties_C02_run.exrun_ans2] = ROk (c'', exs', [Properties_C02_run.exrun_ans2]))
    by (eexists _, _; vm_compute; reflexivity).
  destruct E2 as (c'' & exs' & E2).
  exists c', exs, c'', exs'. split; [exact E1|]. split; [exact E2|].
  destruct (c02_place_detailed_model_c_consumes_prefix _ _ _ _ _ _ _ E1) as (used & Eu & Fu).
  rewrite app_nil_r in Eu. rewrite Eu. exact Fu.
Qed.

Print Assumptions c16_make_hier_levels_of_grid.
Print Assumptions c16_level_limits_pass_is_view.
Print Assumptions c16_circuit_grid_finest_limits.
Print Assumptions c06_c16_view_at_any_level.
Print Assumptions c06_c16_invariant_gives_bins_positive.
Print Assumptions c06_c16_reached_state_satisfies_view_hypotheses.
Print Assumptions c16_circuit_has_reached_state.
Print Assumptions c06_ub_exposed_centres_inside_for_c16_states.
Print Assumptions c06_c16_oracle_reached_ok.
Print Assumptions c06_run_global_exposed_inside_for_c16_states.
Print Assumptions c18_density_increments_are_ints.
Print Assumptions c18_density_increment_defined.
Print Assumptions c18_expanded_area_conversions_defined.
Print Assumptions c18_expanded_area_defined_by_factor_bound.
Print Assumptions c18_scaled_width_conversion_defined.
Print Assumptions c18_adjusted_factor_not_above.
Print Assumptions c18_factor_width_conversions_defined.
Print Assumptions c05_run_passes_c_consumes_prefix.
Print Assumptions c05_run_passes_c_none_left_all_accepted.
Print Assumptions c02_place_detailed_model_c_consumes_prefix.
