(* Invariants of the row-legalizer model: legality of the placement for every
   history of pushes that fit and queries; purity of the cost query. *)
From Coq Require Import List ZArith Lia Bool.
Import ListNotations.
Require Import CV.RowLeg.
Local Open Scope Z_scope.

(* ------------------------------------------------------------------ *)
(* raw-state invariant: every constraining position c_i (newest first) with
   the used space after it u_i satisfies  begin <= c_i <= end - u_i *)
Fixpoint cp_ok (b e : Z) (cp ws : list Z) (usedAfter : Z) : Prop :=
  match cp, ws with
  | c :: cp', w :: ws' =>
      b <= c /\ c + usedAfter <= e /\ 0 < w <= usedAfter /\ cp_ok b e cp' ws' (usedAfter - w)
  | [], [] => usedAfter = 0
  | _, _ => False
  end.

(* the queue is sorted, max first *)
Fixpoint sorted_q (q : list bound) : Prop :=
  match q with
  | [] => True
  | x :: q' => (match q' with [] => True | y :: _ => bound_lt x y = false end) /\ sorted_q q'
  end.

Definition Inv (s : rl) : Prop :=
  cp_ok (rbegin s) (rend s) (cpos s) (widths s) (used s)
  /\ rbegin s <= rend s - used s /\ 0 <= used s /\ sorted_q (bounds s).

Lemma bound_lt_irrefl a : bound_lt a a = false.
Proof. unfold bound_lt. rewrite !Z.ltb_irrefl, Z.eqb_refl. reflexivity. Qed.

Lemma bound_eq a b : bound_lt a b = false -> bound_lt b a = false -> a = b.
Proof.
  unfold bound_lt. destruct a as [pa wa], b as [pb wb]; cbn [bpos bw]. intros H1 H2.
  apply orb_false_iff in H1 as [H1a H1b]. apply orb_false_iff in H2 as [H2a H2b].
  apply Z.ltb_ge in H1a, H2a. assert (pa = pb) by lia. subst pb.
  rewrite Z.eqb_refl in H1b, H2b. cbn in H1b, H2b. apply Z.ltb_ge in H1b, H2b.
  f_equal; lia.
Qed.

Lemma bound_lt_trans_false a b c :
  bound_lt a b = false -> bound_lt b c = false -> bound_lt a c = false.
Proof.
  unfold bound_lt. destruct a as [pa wa], b as [pb wb], c as [pc wc]; cbn [bpos bw]. intros H1 H2.
  apply orb_false_iff in H1 as [H1a H1b]. apply orb_false_iff in H2 as [H2a H2b].
  apply Z.ltb_ge in H1a, H2a. apply orb_false_iff. split; [apply Z.ltb_ge; lia|].
  destruct (Z.eqb_spec pa pc) as [->|]; [|reflexivity]. cbn.
  assert (pb = pc) by lia. subst pb. rewrite Z.eqb_refl in H1b, H2b. cbn in H1b, H2b.
  apply Z.ltb_ge in H1b, H2b. apply Z.ltb_ge. lia.
Qed.

Lemma bound_lt_total a b : bound_lt a b = true -> bound_lt b a = false.
Proof.
  unfold bound_lt. destruct a as [pa wa], b as [pb wb]; cbn [bpos bw]. intros H.
  apply orb_true_iff in H as [H|H].
  - apply Z.ltb_lt in H. apply orb_false_iff. split; [apply Z.ltb_ge; lia|].
    destruct (Z.eqb_spec pb pa); [lia|reflexivity].
  - apply andb_true_iff in H as [H1 H2]. apply Z.eqb_eq in H1. apply Z.ltb_lt in H2. subst pb.
    rewrite Z.ltb_irrefl, Z.eqb_refl. cbn. apply Z.ltb_ge. lia.
Qed.

Lemma pq_insert_sorted b q : sorted_q q -> sorted_q (pq_insert b q).
Proof.
  induction q as [|x q IH]; cbn [pq_insert sorted_q]; [tauto|]. intros [Hx Hq].
  destruct (bound_lt x b) eqn:E.
  - cbn [sorted_q]. split; [apply bound_lt_total; exact E|]. split; assumption.
  - cbn [sorted_q]. split; [|apply IH; exact Hq].
    destruct q as [|y q']; cbn [pq_insert]; [exact E|].
    destruct (bound_lt y b); [exact E|exact Hx].
Qed.

(* a bound that is >= the head of a sorted queue goes back in front of it *)
Lemma pq_insert_head b q : sorted_q (b :: q) -> pq_insert b q = b :: q.
Proof.
  revert b. induction q as [|x q IH]; intros b; cbn [pq_insert]; [reflexivity|].
  intros [Hbx Hq]. destruct (bound_lt x b) eqn:E; [reflexivity|].
  assert (x = b) by (apply bound_eq; assumption). subst x.
  rewrite IH; [reflexivity|exact Hq].
Qed.

Lemma pq_insert_middle b l1 l2 :
  Forall (fun x => bound_lt x b = false) l1 -> sorted_q (b :: l2) ->
  pq_insert b (l1 ++ l2) = l1 ++ b :: l2.
Proof.
  induction l1 as [|x l1 IH]; intros Hall Hs; cbn [app pq_insert].
  - apply pq_insert_head; exact Hs.
  - inversion Hall as [|? ? Hx Hrest]; subst. rewrite Hx. f_equal. apply IH; assumption.
Qed.

Lemma sorted_q_tail x q : sorted_q (x :: q) -> sorted_q q.
Proof. cbn [sorted_q]; tauto. Qed.

Lemma sorted_q_all_le x q : sorted_q (x :: q) -> Forall (fun y => bound_lt x y = false) q.
Proof.
  revert x. induction q as [|y q IH]; intros x; [constructor|]. intros [Hxy Hq].
  constructor; [exact Hxy|]. specialize (IH y Hq).
  eapply Forall_impl; [|exact IH]. intros z Hz. eapply bound_lt_trans_false; eassumption.
Qed.

(* re-pushing the popped prefix of a sorted queue, in pop order, restores it *)
Lemma repush_restores passed q :
  sorted_q (passed ++ q) ->
  forall done, Forall (fun x => Forall (fun y => bound_lt x y = false) passed) done ->
  sorted_q (done ++ passed ++ q) ->
  fold_left (fun q b => pq_insert b q) passed (done ++ q) = done ++ passed ++ q.
Proof.
  induction passed as [|p passed IH]; intros Hs done Hd Hall; cbn [fold_left app]; [reflexivity|].
  rewrite pq_insert_middle.
  - replace (done ++ p :: q) with ((done ++ [p]) ++ q) by (rewrite <- app_assoc; reflexivity).
    rewrite IH.
    + rewrite <- app_assoc. reflexivity.
    + exact (sorted_q_tail _ _ Hs).
    + apply Forall_app. split.
      * eapply Forall_impl; [|exact Hd]. intros x Hx. inversion Hx; assumption.
      * constructor; [|constructor]. cbn [app] in Hs.
        pose proof (sorted_q_all_le _ _ Hs) as H. apply Forall_app in H. tauto.
    + rewrite <- app_assoc. exact Hall.
  - eapply Forall_impl; [|exact Hd]. intros x Hx. inversion Hx; assumption.
  - (* sorted (p :: q): from sorted (p :: passed ++ q) *)
    cbn [app] in Hs. pose proof (sorted_q_all_le _ _ Hs) as H. apply Forall_app in H as [_ H].
    clear - H Hs. assert (Hq : sorted_q q).
    { apply sorted_q_tail in Hs. induction passed as [|z passed IHp]; [exact Hs|].
      apply IHp. exact (sorted_q_tail _ _ Hs). }
    destruct q as [|y q']; cbn [sorted_q]; [tauto|]. split; [|exact Hq].
    inversion H; assumption.
Qed.

(* the loop pops a prefix: queue = passed ++ remaining *)
Lemma pop_loop_split q ta lim w passed0 sl cp c q' passed sl' cp' c' :
  pop_loop q ta lim w passed0 sl cp c = (q', passed, sl', cp', c') ->
  exists popped, passed = passed0 ++ popped /\ q = popped ++ q'.
Proof.
  revert passed0 sl cp c. induction q as [|t q IH]; intros passed0 sl cp c; cbn [pop_loop].
  - intros H. inversion H; subst. exists []. rewrite app_nil_r. split; reflexivity.
  - destruct (_ || _).
    + intros H. apply IH in H as (popped & -> & ->). exists (t :: popped).
      rewrite <- app_assoc. split; reflexivity.
    + intros H. inversion H; subst. exists []. rewrite app_nil_r. split; reflexivity.
Qed.

Lemma sorted_q_app_Forall l1 l2 :
  sorted_q (l1 ++ l2) -> Forall (fun x => Forall (fun y => bound_lt x y = false) l2) l1.
Proof.
  induction l1 as [|x l1 IH]; intros Hs; [constructor|]. cbn [app] in Hs. constructor.
  - pose proof (sorted_q_all_le _ _ Hs) as H. apply Forall_app in H. tauto.
  - apply IH. exact (sorted_q_tail _ _ Hs).
Qed.

(* prediction leaves the whole state unchanged *)
Theorem query_restores_state s w t : sorted_q (bounds s) -> fst (get_cost s w t) = s.
Proof.
  intros Hs. unfold get_cost, get_displacement.
  destruct (pop_loop _ _ _ _ _ _ _ _) as [[[[q passed] slope] cur] cost] eqn:E.
  cbn [fst]. apply pop_loop_split in E as (popped & -> & Hq). cbn [app] in *.
  pose proof (repush_restores popped q) as R. rewrite Hq in Hs. specialize (R Hs [] (Forall_nil _) Hs).
  cbn [app] in R. rewrite R, <- Hq. destruct s; reflexivity.
Qed.

(* the predicted cost is the cost reported when the insertion is performed *)
Theorem query_predicts_push s w t : snd (get_cost s w t) = snd (push s w t).
Proof.
  unfold get_cost, push, get_displacement.
  destruct (pop_loop _ _ _ _ _ _ _ _) as [[[[q passed] slope] cur] cost]. reflexivity.
Qed.

(* ------------------------------------------------------------------ *)

Lemma init_inv b e : b <= e -> Inv (rl_init b e).
Proof. intros H; unfold Inv, rl_init; cbn; lia. Qed.

Lemma pop_loop_sorted q ta lim w passed0 sl cp c q' passed sl' cp' c' :
  pop_loop q ta lim w passed0 sl cp c = (q', passed, sl', cp', c') -> sorted_q q -> sorted_q q'.
Proof.
  intros H Hs. apply pop_loop_split in H as (popped & _ & ->).
  induction popped as [|z popped IH]; [exact Hs|]. apply IH. exact (sorted_q_tail _ _ Hs).
Qed.

Lemma push_inv s w t :
  Inv s -> 0 < w -> w <= remaining_space s -> Inv (fst (push s w t)).
Proof.
  intros (Hcp & Hb & Hu & Hs) Hw Hfit. unfold remaining_space in Hfit. unfold push, get_displacement.
  destruct (pop_loop _ _ _ _ _ _ _ _) as [[[[q passed] slope] cur] cost] eqn:E.
  cbn [fst]. unfold Inv; cbn [rbegin rend cpos widths used bounds cp_ok].
  replace (used s + w - w) with (used s) by lia.
  pose proof (pop_loop_sorted _ _ _ _ _ _ _ _ _ _ _ _ _ E Hs) as Hq.
  repeat split; try assumption; try lia.
  destruct (0 <? slope); destruct (rbegin s <? t - used s); repeat apply pq_insert_sorted; exact Hq.
Qed.

Lemma query_inv s w t : Inv s -> Inv (fst (get_cost s w t)).
Proof. intros H. rewrite query_restores_state; [exact H|]. destruct H as (_ & _ & _ & H). exact H. Qed.

(* ------------------------------------------------------------------ *)
(* legality of the produced placement.  Oldest-first formulation: *)
Fixpoint legal_pl (b e : Z) (pl ws : list Z) : Prop :=
  match pl, ws with
  | x :: pl', w :: ws' => b <= x /\ x + w <= e /\ legal_pl (x + w) e pl' ws'
  | [], [] => True
  | _, _ => False
  end.

(* newest-first formulation: each cell ends before the start of the next newer one *)
Fixpoint legal_rev (b : Z) (hi : Z) (pl ws : list Z) : Prop :=
  match pl, ws with
  | x :: pl', w :: ws' => x + w <= hi /\ b <= x /\ legal_rev b x pl' ws'
  | [], [] => True
  | _, _ => False
  end.

Lemma placement_aux_legal b e cp ws u m hi :
  cp_ok b e cp ws u ->
  (match m with None => hi = e | Some mv => hi = mv + u /\ b <= mv end) ->
  legal_rev b hi (placement_aux cp ws u m) ws.
Proof.
  revert ws u m hi. induction cp as [|c cp IH]; intros [|w ws] u m hi Hcp Hm;
    cbn [placement_aux legal_rev cp_ok] in *; try tauto.
  destruct Hcp as (Hbc & Hce & Hw & Hcp).
  split; [|split].
  - destruct m as [mv|]; [destruct Hm as [-> Hbm]|subst hi]; lia.
  - destruct m as [mv|]; [destruct Hm as [-> Hbm]|]; lia.
  - apply IH; [assumption|]. split; [lia|]. destruct m as [mv|]; [destruct Hm as [_ Hbm]|]; lia.
Qed.

(* pairwise reading of legal_rev; indices count from the newest cell, so a larger
   index is an older cell, further to the left *)
Lemma legal_rev_pairwise b hi pl ws :
  Forall (fun w => 0 < w) ws -> legal_rev b hi pl ws ->
  length pl = length ws /\
  (forall i x w, nth_error pl i = Some x -> nth_error ws i = Some w -> b <= x /\ x + w <= hi) /\
  (forall i j xi xj wj, (i < j)%nat -> nth_error pl i = Some xi -> nth_error pl j = Some xj ->
                        nth_error ws j = Some wj -> xj + wj <= xi).
Proof.
  revert hi ws. induction pl as [|y pl IH]; intros hi [|v ws] Hpos; cbn [legal_rev]; try tauto.
  - intros _. split; [reflexivity|]. split.
    + intros [|i] x w; cbn; discriminate.
    + intros [|i] [|j] xi xj wj; cbn; discriminate.
  - intros (H1 & H2 & H3). inversion Hpos as [|? ? Hv Hpos']; subst.
    destruct (IH _ _ Hpos' H3) as (Hl & Hn & Hp). split; [cbn; lia|]. split.
    + intros [|i] x w; cbn [nth_error].
      * intros [= <-] [= <-]. lia.
      * intros Hx Hw. destruct (Hn i x w Hx Hw) as (A & B). lia.
    + intros [|i] [|j] xi xj wj Hij; cbn [nth_error]; try lia.
      * intros [= <-] Hx Hw. destruct (Hn j xj wj Hx Hw). lia.
      * intros Hi Hx Hw. apply (Hp i j xi xj wj); try assumption; lia.
Qed.

Lemma cp_ok_widths_pos b e cp ws u : cp_ok b e cp ws u -> Forall (fun w => 0 < w) ws.
Proof.
  revert ws u. induction cp as [|c cp IH]; intros [|w ws] u; cbn [cp_ok]; try tauto.
  - constructor.
  - intros (_ & _ & Hw & H). constructor; [lia|]. eapply IH; exact H.
Qed.

Theorem placement_legal_rev s :
  Inv s -> legal_rev (rbegin s) (rend s) (placement_aux (cpos s) (widths s) (used s) None) (widths s).
Proof. intros (H & _ & _). eapply placement_aux_legal; eauto. Qed.
