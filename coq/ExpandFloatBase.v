(* C18, floating-point analysis: facts about the binary64 / binary32 operations used by ExpandFloat.v
   (each operation computes the rounding rnd64 / rnd32 of the exact result when no overflow occurs;
   conversions; comparisons).  Proofs only; no statement about the expansion functions here. *)
From Coq Require Import ZArith Reals Psatz Lra Lia List Bool.
From Flocq Require Import Core BinarySingleNaN Relative Sterbenz.
Require Import CV.SpreadFloat CV.SpreadFloatProofs CV.ExpandFloat.
Local Open Scope R_scope.

Notation fexp64 := (FLT_exp (-1074) 53).
Notation fexp32 := (FLT_exp (-149) 24).
Local Instance prec53 : Prec_gt_0 53 := p53.
Local Instance valid64 : Valid_exp fexp64 := FLT_exp_valid (-1074) 53.
Local Instance prec53_1024 : Prec_lt_emax 53 1024 := p53_1024.
Local Instance prec24 : Prec_gt_0 24 := p24.
Local Instance valid32 : Valid_exp fexp32 := FLT_exp_valid (-149) 24.
Local Instance prec24_128 : Prec_lt_emax 24 128 := p24_128.

Definition fmt64 (x : R) : Prop := generic_format radix2 fexp64 x.

Lemma rnd64_le : forall x y, x <= y -> rnd64 x <= rnd64 y.
Proof. intros x y H. unfold rnd64. apply round_le; auto with typeclass_instances. Qed.

Lemma rnd64_id : forall x, fmt64 x -> rnd64 x = x.
Proof. intros x H. unfold rnd64. apply round_generic; auto with typeclass_instances. Qed.

Lemma fmt64_rnd : forall x, fmt64 (rnd64 x).
Proof. intros x. unfold rnd64, fmt64. apply generic_format_round; auto with typeclass_instances. Qed.

Lemma rnd64_abs_le : forall x B, fmt64 B -> Rabs x <= B -> Rabs (rnd64 x) <= B.
Proof. intros x B FB H. unfold rnd64. apply abs_round_le_generic; auto with typeclass_instances. Qed.

Lemma fmt64_bpow : forall e, (-1074 <= e)%Z -> fmt64 (bpow radix2 e).
Proof. intros e He. apply generic_format_bpow. unfold FLT_exp. lia. Qed.

Lemma rnd64_ge : forall x B, fmt64 B -> B <= x -> B <= rnd64 x.
Proof. intros x B FB H. rewrite <- (rnd64_id B FB). apply rnd64_le. exact H. Qed.

Lemma rnd64_le_fmt : forall x B, fmt64 B -> x <= B -> rnd64 x <= B.
Proof. intros x B FB H. rewrite <- (rnd64_id B FB). apply rnd64_le. exact H. Qed.

Lemma rnd64_0 : rnd64 0 = 0.
Proof. unfold rnd64. apply round_0. auto with typeclass_instances. Qed.

Lemma rnd64_nonneg : forall x, 0 <= x -> 0 <= rnd64 x.
Proof. intros x H. rewrite <- rnd64_0. apply rnd64_le. exact H. Qed.

Lemma rnd64_no_overflow : forall x, Rabs x <= bpow radix2 1023 ->
  Rlt_bool (Rabs (rnd64 x)) (bpow radix2 1024) = true.
Proof.
  intros x H. apply Rlt_bool_true.
  apply Rle_lt_trans with (bpow radix2 1023).
  - apply rnd64_abs_le; [apply fmt64_bpow; lia|exact H].
  - apply bpow_lt. lia.
Qed.

Lemma B2R_fmt64 : forall x : f64, fmt64 (B2R x).
Proof. intros x. apply (generic_format_B2R 53 1024). Qed.

(* an integer of magnitude < 2^53 is a binary64 value *)
Lemma fmt64_IZR : forall z : Z, (Z.abs z < 2 ^ 53)%Z -> fmt64 (IZR z).
Proof.
  intros z Hz. unfold fmt64. apply generic_format_FLT.
  exists (Float radix2 z 0); simpl; [unfold F2R; simpl; ring|lia|lia].
Qed.

Lemma fmt64_1 : fmt64 1.
Proof. apply (fmt64_IZR 1). simpl. lia. Qed.

Lemma dmul_correct : forall x y : f64, is_finite x = true -> is_finite y = true ->
  Rabs (B2R x * B2R y) <= bpow radix2 1023 ->
  B2R (dmul x y) = rnd64 (B2R x * B2R y) /\ is_finite (dmul x y) = true.
Proof.
  intros x y Fx Fy H.
  pose proof (Bmult_correct 53 1024 p53 p53_1024 mode_NE x y) as C.
  change (round radix2 (SpecFloat.fexp 53 1024) (round_mode mode_NE) (B2R x * B2R y)) with (rnd64 (B2R x * B2R y)) in C.
  rewrite (rnd64_no_overflow _ H) in C. destruct C as [C1 [C2 _]].
  split; [exact C1|]. unfold dmul. rewrite C2, Fx, Fy. reflexivity.
Qed.

Lemma dadd_correct : forall x y : f64, is_finite x = true -> is_finite y = true ->
  Rabs (B2R x + B2R y) <= bpow radix2 1023 ->
  B2R (dadd x y) = rnd64 (B2R x + B2R y) /\ is_finite (dadd x y) = true.
Proof.
  intros x y Fx Fy H.
  pose proof (Bplus_correct 53 1024 p53 p53_1024 mode_NE x y Fx Fy) as C.
  change (round radix2 (SpecFloat.fexp 53 1024) (round_mode mode_NE) (B2R x + B2R y)) with (rnd64 (B2R x + B2R y)) in C.
  rewrite (rnd64_no_overflow _ H) in C. destruct C as [C1 [C2 _]].
  split; [exact C1|exact C2].
Qed.

Lemma dsub_correct : forall x y : f64, is_finite x = true -> is_finite y = true ->
  Rabs (B2R x - B2R y) <= bpow radix2 1023 ->
  B2R (dsub x y) = rnd64 (B2R x - B2R y) /\ is_finite (dsub x y) = true.
Proof.
  intros x y Fx Fy H.
  pose proof (Bminus_correct 53 1024 p53 p53_1024 mode_NE x y Fx Fy) as C.
  change (round radix2 (SpecFloat.fexp 53 1024) (round_mode mode_NE) (B2R x - B2R y)) with (rnd64 (B2R x - B2R y)) in C.
  rewrite (rnd64_no_overflow _ H) in C. destruct C as [C1 [C2 _]].
  split; [exact C1|exact C2].
Qed.

Lemma ddiv_correct : forall x y : f64, is_finite x = true -> B2R y <> 0 ->
  Rabs (B2R x / B2R y) <= bpow radix2 1023 ->
  B2R (ddiv x y) = rnd64 (B2R x / B2R y) /\ is_finite (ddiv x y) = true.
Proof.
  intros x y Fx Hy H.
  pose proof (Bdiv_correct 53 1024 p53 p53_1024 mode_NE x y Hy) as C.
  change (round radix2 (SpecFloat.fexp 53 1024) (round_mode mode_NE) (B2R x / B2R y)) with (rnd64 (B2R x / B2R y)) in C.
  rewrite (rnd64_no_overflow _ H) in C. destruct C as [C1 [C2 _]].
  split; [exact C1|]. unfold ddiv. rewrite C2. exact Fx.
Qed.

Lemma done_correct : B2R done = 1 /\ is_finite done = true.
Proof. split; [apply Bone_correct|apply is_finite_Bone]. Qed.

(* (double)z: correctly rounded, exact for |z| < 2^53 *)
Lemma d_of_Z_correct : forall z : Z, (Z.abs z <= 2 ^ 1000)%Z ->
  B2R (d_of_Z z) = rnd64 (IZR z) /\ is_finite (d_of_Z z) = true.
Proof.
  intros z Hz.
  pose proof (binary_normalize_correct 53 1024 p53 p53_1024 mode_NE z 0 false) as C.
  cbv zeta in C.
  assert (E : F2R (Float radix2 z 0) = IZR z) by (unfold F2R; simpl; ring).
  rewrite E in C.
  change (round radix2 (SpecFloat.fexp 53 1024) (round_mode mode_NE) (IZR z)) with (rnd64 (IZR z)) in C.
  rewrite rnd64_no_overflow in C.
  - destruct C as [C1 [C2 _]]. split; [exact C1|exact C2].
  - rewrite <- abs_IZR. apply Rle_trans with (IZR (2 ^ 1000)); [apply IZR_le; exact Hz|].
    rewrite (IZR_Zpower radix2) by lia. apply bpow_le. lia.
Qed.

Lemma d_of_Z_exact : forall z : Z, (Z.abs z < 2 ^ 53)%Z ->
  B2R (d_of_Z z) = IZR z /\ is_finite (d_of_Z z) = true.
Proof.
  intros z Hz. destruct (d_of_Z_correct z) as [C1 C2].
  { apply Z.lt_le_incl. eapply Z.lt_le_trans; [exact Hz|]. apply Z.pow_le_mono_r; lia. }
  split; [|exact C2]. rewrite C1. apply rnd64_id. apply fmt64_IZR. exact Hz.
Qed.

(* (int)x / (long long)x: the truncation toward zero of the value *)
Lemma Btrunc_Ztrunc : forall x : f64, Btrunc x = Ztrunc (B2R x).
Proof.
  intros x. apply eq_IZR. rewrite Btrunc_correct; [|exact p53_1024].
  unfold round, F2R, scaled_mantissa, cexp, FIX_exp. simpl. rewrite Rmult_1_r. rewrite Rmult_1_r. reflexivity.
Qed.

Lemma Ztrunc_ge_int : forall (w : Z) (x : R), IZR w <= x -> (w <= Ztrunc x)%Z.
Proof.
  intros w x H. destruct (Rle_or_lt 0 x) as [Hp|Hn].
  - rewrite Ztrunc_floor by exact Hp. apply Zfloor_lub. exact H.
  - rewrite Ztrunc_ceil by lra. apply le_IZR. eapply Rle_trans; [exact H|apply Zceil_ub].
Qed.

Lemma dltb_lt : forall a b : f64, is_finite a = true -> is_finite b = true ->
  Bltb a b = true -> B2R a < B2R b.
Proof.
  intros a b Fa Fb H. rewrite (Bltb_correct 53 1024 a b Fa Fb) in H.
  destruct (Rlt_bool_spec (B2R a) (B2R b)); [assumption|discriminate].
Qed.

Lemma dltb_false_ge : forall a b : f64, is_finite a = true -> is_finite b = true ->
  Bltb a b = false -> B2R b <= B2R a.
Proof.
  intros a b Fa Fb H. rewrite (Bltb_correct 53 1024 a b Fa Fb) in H.
  destruct (Rlt_bool_spec (B2R a) (B2R b)); [discriminate|assumption].
Qed.

Lemma dleb_le : forall a b : f64, is_finite a = true -> is_finite b = true ->
  Bleb a b = true -> B2R a <= B2R b.
Proof.
  intros a b Fa Fb H. rewrite (Bleb_correct 53 1024 a b Fa Fb) in H.
  destruct (Rle_bool_spec (B2R a) (B2R b)); [assumption|discriminate].
Qed.

Lemma dleb_false_gt : forall a b : f64, is_finite a = true -> is_finite b = true ->
  Bleb a b = false -> B2R b < B2R a.
Proof.
  intros a b Fa Fb H. rewrite (Bleb_correct 53 1024 a b Fa Fb) in H.
  destruct (Rle_bool_spec (B2R a) (B2R b)); [discriminate|assumption].
Qed.

(* ------------------------------------------------------------------ conversions between binary32 and binary64 *)
Lemma fmt32_fmt64 : forall x, fmt32 x -> fmt64 x.
Proof.
  intros x H. apply FLT_format_generic in H; [|exact p24]. destruct H as [f Hx Hm He].
  unfold fmt64. apply generic_format_FLT. exists f; [exact Hx| |].
  - eapply Z.lt_le_trans; [exact Hm|]. apply (Z.pow_le_mono_r 2 24 53); lia.
  - eapply Z.le_trans; [|exact He]. discriminate.
Qed.

(* (double)e is exact *)
Lemma d_of_f_correct : forall e : f32, is_finite e = true ->
  B2R (d_of_f e) = B2R e /\ is_finite (d_of_f e) = true.
Proof.
  intros e Fe. destruct e as [s|s| |s m ex B]; try discriminate Fe.
  - split; reflexivity.
  - cbn [d_of_f].
    pose proof (binary_normalize_correct 53 1024 p53 p53_1024 mode_NE (cond_Zopp s (Zpos m)) ex s) as C.
    cbv zeta in C.
    change (F2R (Float radix2 (cond_Zopp s (Zpos m)) ex)) with (B2R (B754_finite s m ex B)) in C.
    change (round radix2 (SpecFloat.fexp 53 1024) (round_mode mode_NE) (B2R (B754_finite s m ex B)))
      with (rnd64 (B2R (B754_finite s m ex B))) in C.
    rewrite (rnd64_id _ (fmt32_fmt64 _ (B2R_fmt32 _))) in C.
    rewrite Rlt_bool_true in C.
    + destruct C as [C1 [C2 _]]. split; assumption.
    + apply Rlt_le_trans with (bpow radix2 128); [apply abs_B2R_lt_emax|apply bpow_le; lia].
Qed.

(* (float)x: one binary32 rounding *)
Lemma f_of_d_correct : forall x : f64, is_finite x = true -> Rabs (B2R x) <= bpow radix2 127 ->
  B2R (f_of_d x) = rnd32 (B2R x) /\ is_finite (f_of_d x) = true.
Proof.
  intros x Fx Hx. destruct x as [s|s| |s m ex B]; try discriminate Fx.
  - cbn [f_of_d B2R]. rewrite rnd32_0. split; reflexivity.
  - cbn [f_of_d].
    pose proof (binary_normalize_correct 24 128 p24 p24_128 mode_NE (cond_Zopp s (Zpos m)) ex s) as C.
    cbv zeta in C.
    change (F2R (Float radix2 (cond_Zopp s (Zpos m)) ex)) with (B2R (B754_finite s m ex B)) in C.
    change (round radix2 (SpecFloat.fexp 24 128) (round_mode mode_NE) (B2R (B754_finite s m ex B)))
      with (rnd32 (B2R (B754_finite s m ex B))) in C.
    rewrite (rnd32_no_overflow _ Hx) in C. destruct C as [C1 [C2 _]]. split; assumption.
Qed.
