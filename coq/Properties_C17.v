(* C17 -- the continuous wirelength solver honours real-valued net weights.
   Model: coq/Quad.v (NetModel::addNet, MatrixCreator::addPin/addBipoint/addClique/addStar/addB2B/addLightStar/
   addPenalty/finalize of /repo/src/place_global/net_model.cpp over Q); proofs: coq/QuadProofs.v.
   Labels: [F] proved for all inputs; [R] refuted for the faithful model of the UNCHANGED tree (finding F12:
   net_model.hpp declares std::vector<int> netWeight_); the [F] theorems are about the repaired tree
   (std::vector<float>), whose addNet stores the weight unchanged.
   Not here (validated by runs of checks/c17.py, not proved): what Eigen's single-precision conjugate gradient returns
   for these systems (bitwise equality under factors 2^k, closeness under 2.5 and 7). *)
From Coq Require Import List ZArith QArith Lia.
Require Import CV.Quad CV.QuadProofs.
Import ListNotations.
Open Scope Q_scope.

(* [F] homogeneity of the assembly.  nm' has the nets of nm with every weight multiplied by k (nm_scaled); then every
   triplet and every right-hand-side entry produced by createStar(topo), addBipoint/addClique on every net, and
   create(topo, pl, eps, model) for the four models B2B/Star/Clique/LightStar around any placement is multiplied by k
   (same rows, columns, order, initial guess), also after addPenalty with strengths multiplied by k. *)
Theorem c17_assembly_homogeneous : forall k nm' nm, nm_scaled k nm' nm ->
  sys_scaled k (create_star0 nm') (create_star0 nm) /\
  sys_scaled k (create_bipoint0 nm') (create_bipoint0 nm) /\
  sys_scaled k (create_clique0 nm') (create_clique0 nm) /\
  (forall m pl eps, sys_scaled k (create m nm' pl eps) (create m nm pl eps)) /\
  (forall m pl eps tg st' st cutoff, vec_scaled k st' st ->
     sys_scaled k (add_penalty pl tg st' cutoff (create m nm' pl eps)) (add_penalty pl tg st cutoff (create m nm pl eps))).
Proof. exact assembly_homogeneous. Qed.

(* [F] the repaired addNet (3- and 5-argument forms) stores the weight it is given: the same calls with weights k*w
   build a NetModel that is nm_scaled *)
Theorem c17_add_net_stores_weight : forall k n nets' nets,
  Forall2 (fun e' e : list Z * list Q * option (Q * Q) * Q => fst e' = fst e /\ snd e' == k * snd e) nets' nets ->
  nm_scaled k (build_nm n nets') (build_nm n nets).
Proof. exact build_nm_scaled. Qed.

(* [F] the linear-algebra consequence: for k > 0 the systems handed to the solver by solveStar(params), solve /
   solveStar(pl) / solveB2B(pl) and solveWithPenalty (after finalize(), whose 1e-8 regularisation is NOT scaled) have
   exactly the same solutions over Q.  nm_ok is what NetModel::check() enforces (cells in [-1, nbCells)). *)
Theorem c17_solution_set_invariant : forall k nm' nm, 0 < k -> nm_ok nm -> nm_scaled k nm' nm ->
  (forall x, solves (system_star0 nm') x <-> solves (system_star0 nm) x) /\
  (forall m pl eps x, solves (system m nm' pl eps) x <-> solves (system m nm pl eps) x) /\
  (forall m pl eps tg st' st cutoff x, vec_scaled k st' st -> (length pl <= nm_cells nm)%nat ->
     solves (system_penalty m nm' pl eps tg st' cutoff) x <-> solves (system_penalty m nm pl eps tg st cutoff) x).
Proof. exact solution_set_invariant. Qed.

(* [F] the pull on a cell (row i of M x - b, at any x) is proportional to the common weight factor *)
Theorem c17_pull_proportional_to_weight : forall k nm' nm, nm_scaled k nm' nm ->
  (forall x i, row_sum i (s_mat (create_star0 nm')) x - nth (Z.to_nat i) (s_rhs (create_star0 nm')) 0 ==
               k * (row_sum i (s_mat (create_star0 nm)) x - nth (Z.to_nat i) (s_rhs (create_star0 nm)) 0)) /\
  (forall m pl eps x i, row_sum i (s_mat (create m nm' pl eps)) x - nth (Z.to_nat i) (s_rhs (create m nm' pl eps)) 0 ==
               k * (row_sum i (s_mat (create m nm pl eps)) x - nth (Z.to_nat i) (s_rhs (create m nm pl eps)) 0)).
Proof. exact pull_proportional. Qed.

(* [F] two-pin nets (addBipoint): the assembled (M, b) is the normal-equation system of
   E(x) = sum_n w_n/2 (x_a + o_a - x_b - o_b)^2: E(x+h) = E(x) + h.(M x - b) + E_flat(h) exactly, where E_flat is the
   same energy without offsets (so M x - b is the gradient and M the Hessian) ... *)
Theorem c17_bipoint_normal_equations : forall nm x h, nm_ok nm -> length x = nm_cells nm -> length h = nm_cells nm ->
  bipoint_energy nm (vadd x h) == bipoint_energy nm x + lin (create_bipoint0 nm) h x + bipoint_energy (nm_flat nm) h.
Proof. exact bipoint_expansion. Qed.

(* [F] ... hence every solution of the system is a weighted least-squares optimum (weights >= 0) *)
Theorem c17_bipoint_least_squares : forall nm x h, nm_ok nm -> (forall n, In n (nm_nets nm) -> 0 <= n_weight n) ->
  length x = nm_cells nm -> length h = nm_cells nm -> solves (create_bipoint0 nm) x ->
  bipoint_energy nm x <= bipoint_energy nm (vadd x h).
Proof. exact bipoint_optimum. Qed.

(* [F] and conversely every minimiser solves the system: the solver's system characterises the optimum exactly *)
Theorem c17_bipoint_least_squares_conv : forall nm x, nm_ok nm -> (forall n, In n (nm_nets nm) -> 0 <= n_weight n) -> length x = nm_cells nm ->
  (forall h, length h = nm_cells nm -> bipoint_energy nm x <= bipoint_energy nm (vadd x h)) ->
  solves (create_bipoint0 nm) x.
Proof. exact bipoint_optimum_conv. Qed.

(* [F] the initial star model (createStar(topo), used by solveStar(params)): unknowns are the cells followed by one
   star point per net of more than two pins; same two statements for
   E(x, s) = sum_{2-pin nets} w/2 (..)^2 + sum_{other nets} w/(2 nb) sum_i (x_i + o_i - s_net)^2 *)
Theorem c17_star_normal_equations : forall nm x h, nm_ok nm -> length x = star_size nm -> length h = star_size nm ->
  star_energy nm (vadd x h) == star_energy nm x + lin (create_star0 nm) h x + star_energy (nm_flat nm) h.
Proof. exact star_expansion. Qed.

Theorem c17_star_least_squares : forall nm x h, nm_ok nm -> (forall n, In n (nm_nets nm) -> 0 <= n_weight n) ->
  length x = star_size nm -> length h = star_size nm -> solves (create_star0 nm) x ->
  star_energy nm x <= star_energy nm (vadd x h).
Proof. exact star_optimum. Qed.

Theorem c17_star_least_squares_conv : forall nm x, nm_ok nm -> (forall n, In n (nm_nets nm) -> 0 <= n_weight n) -> length x = star_size nm ->
  (forall h, length h = star_size nm -> star_energy nm x <= star_energy nm (vadd x h)) ->
  solves (create_star0 nm) x.
Proof. exact star_optimum_conv. Qed.

(* [F] every model is a sequence of addPin calls; whatever the sequence, the assembled system is the normal-equation
   system of the sum of w/2 (pos1 - pos2)^2 over the calls (this covers B2B, Star, Clique, LightStar around a
   placement, whose weights w depend on the placement, and addPenalty) *)
Theorem c17_addpin_sequence_least_squares : forall n ops x h, Forall (op_ok n) ops -> (forall o, In o ops -> 0 <= p_w o) ->
  length x = n -> length h = n -> solves (apply_ops ops (sys_empty n)) x ->
  ops_energy ops x <= ops_energy ops (vadd x h).
Proof. exact ops_optimum. Qed.

Theorem c17_addpin_sequence_least_squares_conv : forall n ops x, Forall (op_ok n) ops -> (forall o, In o ops -> 0 <= p_w o) -> length x = n ->
  (forall h, length h = n -> ops_energy ops x <= ops_energy ops (vadd x h)) ->
  solves (apply_ops ops (sys_empty n)) x.
Proof. exact ops_optimum_conv. Qed.

(* [F] finalize() only regularises rows that no net touched: a solution of the finalized system solves (M, b) *)
Theorem c17_finalize_keeps_equations : forall s x, sys_inv s -> solves (finalize s) x -> solves s x.
Proof. exact solves_finalize_weaken. Qed.

(* [R] unchanged tree, netWeight_ is std::vector<int> (add_net_int truncates): all three clauses fail for a net of
   weight 1/2 between cell 0 and a fixed pin at 4 (finding F12) *)
Theorem c17_homogeneity_refuted_for_int_container :
  exists k cells offs w, 0 < k /\
    ~ sys_scaled k (create_star0 (add_net_int cells offs (k * w) (nm_empty 1))) (create_star0 (add_net_int cells offs w (nm_empty 1))).
Proof. exact truncating_homogeneity_refuted. Qed.

Theorem c17_solution_set_refuted_for_int_container :
  exists k cells offs w x, 0 < k /\
    solves (system_star0 (add_net_int cells offs w (nm_empty 1))) x /\
    ~ solves (system_star0 (add_net_int cells offs (k * w) (nm_empty 1))) x.
Proof. exact truncating_solution_set_refuted. Qed.

Theorem c17_least_squares_refuted_for_int_container :
  exists cells offs w x h,
    solves (system_star0 (add_net_int cells offs w (nm_empty 1))) x /\
    ~ star_energy (add_net cells offs w (nm_empty 1)) x <= star_energy (add_net cells offs w (nm_empty 1)) (vadd x h).
Proof. exact truncating_not_least_squares. Qed.

(* ---------------------------------------------------------------- non-vacuity: the hypotheses are satisfiable on
   non-trivial values (fractional weights below 1, fixed pins, a 3-pin net, a star point) *)

(* two cells; net A: cells 0,1 + fixed extent [0,8], weight 1/2; net B: cells 0,1,1, weight 3/4 *)
Definition ex_nets (k : Q) : list (list Z * list Q * option (Q * Q) * Q) :=
  [([0%Z; 1%Z], [0; 1], Some (0, 8), k * (1 # 2)); ([0%Z; 1%Z; 1%Z], [0; 0; 2], None, k * (3 # 4))].
Definition ex_nm := build_nm 2 (ex_nets 1).
Definition ex_nm5 := build_nm 2 (ex_nets (5 # 2)).

Example ex_ok : nm_ok ex_nm.
Proof. apply nm_okb_ok. vm_compute. reflexivity. Qed.

Example ex_add_net_stores_weight : nm_scaled (5 # 2) ex_nm5 ex_nm.
Proof. apply c17_add_net_stores_weight. repeat constructor; simpl; ring. Qed.

Example ex_assembly_homogeneous : sys_scaled (5 # 2) (create B2B ex_nm5 [3; 7] (1 # 10)) (create B2B ex_nm [3; 7] (1 # 10)).
Proof. apply (c17_assembly_homogeneous (5 # 2) ex_nm5 ex_nm ex_add_net_stores_weight). Qed.

Example ex_solution_set_invariant : forall x,
  solves (system_penalty LightStar ex_nm5 [3; 7] (1 # 10) [1; 2] [(5 # 2) * (1 # 3); (5 # 2) * 2] 1) x <->
  solves (system_penalty LightStar ex_nm [3; 7] (1 # 10) [1; 2] [1 # 3; 2] 1) x.
Proof.
  intros x. apply (c17_solution_set_invariant (5 # 2) ex_nm5 ex_nm); [reflexivity|exact ex_ok|exact ex_add_net_stores_weight| |simpl; auto].
  repeat constructor; ring.
Qed.

Example ex_pull : forall x i,
  row_sum i (s_mat (create_star0 ex_nm5)) x - nth (Z.to_nat i) (s_rhs (create_star0 ex_nm5)) 0 ==
  (5 # 2) * (row_sum i (s_mat (create_star0 ex_nm)) x - nth (Z.to_nat i) (s_rhs (create_star0 ex_nm)) 0).
Proof. apply (c17_pull_proportional_to_weight (5 # 2) ex_nm5 ex_nm ex_add_net_stores_weight). Qed.

(* cell 0 tied to a fixed pin at 4 with weight 1/2, cell 1 (offset 0) tied to cell 0 (offset 1) with weight 3/4: x = (4, 5) *)
Definition ex_bip := build_nm 2 [([0%Z], [0], Some (4, 4), 1 # 2); ([1%Z; 0%Z], [0; 1], None, 3 # 4)].
Example ex_bip_solves : solves (create_bipoint0 ex_bip) [4; 5].
Proof. apply solves_rows. intros [|[|i]] Hi; [vm_compute; reflexivity|vm_compute; reflexivity|vm_compute in Hi; lia]. Qed.
Example ex_bipoint_normal_equations : forall a b,
  bipoint_energy ex_bip (vadd [4; 5] [a; b]) == bipoint_energy ex_bip [4; 5] + lin (create_bipoint0 ex_bip) [a; b] [4; 5] + bipoint_energy (nm_flat ex_bip) [a; b].
Proof. intros. apply c17_bipoint_normal_equations; [apply nm_okb_ok; vm_compute| |]; reflexivity. Qed.
Example ex_bipoint_least_squares : forall a b, bipoint_energy ex_bip [4; 5] <= bipoint_energy ex_bip (vadd [4; 5] [a; b]).
Proof.
  intros. apply c17_bipoint_least_squares; try reflexivity; [apply nm_okb_ok; vm_compute; reflexivity| |exact ex_bip_solves].
  intros n [E|[E|[]]]; subst n; vm_compute; discriminate.
Qed.

(* converse on the same instance: whatever minimises the energy of ex_bip solves its system; instantiated at the
   minimiser (4, 5) the hypothesis is ex_bipoint_least_squares *)
Example ex_bipoint_least_squares_conv : solves (create_bipoint0 ex_bip) [4; 5].
Proof.
  apply c17_bipoint_least_squares_conv; try reflexivity; [apply nm_okb_ok; vm_compute; reflexivity| |].
  - intros n [E|[E|[]]]; subst n; vm_compute; discriminate.
  - intros [|a [|b [|c r]]] Hh; simpl in Hh; try discriminate. apply ex_bipoint_least_squares.
Qed.

(* one net of weight 1/2 with cell 0 and fixed pins at 0 and 6: three pins, one star point; x = 3, s = 3 *)
Definition ex_star := build_nm 1 [([0%Z], [0], Some (0, 6), 1 # 2)].
Example ex_star_solves : solves (create_star0 ex_star) [3; 3].
Proof. apply solves_rows. intros [|[|i]] Hi; [vm_compute; reflexivity|vm_compute; reflexivity|vm_compute in Hi; lia]. Qed.
Example ex_star_normal_equations : forall a b,
  star_energy ex_star (vadd [3; 3] [a; b]) == star_energy ex_star [3; 3] + lin (create_star0 ex_star) [a; b] [3; 3] + star_energy (nm_flat ex_star) [a; b].
Proof. intros. apply c17_star_normal_equations; [apply nm_okb_ok; vm_compute| |]; reflexivity. Qed.
Example ex_star_least_squares : forall a b, star_energy ex_star [3; 3] <= star_energy ex_star (vadd [3; 3] [a; b]).
Proof.
  intros. apply c17_star_least_squares; try reflexivity; [apply nm_okb_ok; vm_compute; reflexivity| |exact ex_star_solves].
  intros n [E|[]]; subst n; vm_compute; discriminate.
Qed.
Example ex_star_least_squares_conv : solves (create_star0 ex_star) [3; 3].
Proof.
  apply c17_star_least_squares_conv; try reflexivity; [apply nm_okb_ok; vm_compute; reflexivity| |].
  - intros n [E|[]]; subst n; vm_compute; discriminate.
  - intros [|a [|b [|c r]]] Hh; simpl in Hh; try discriminate. apply ex_star_least_squares.
Qed.
Example ex_addpin_sequence : forall a,
  ops_energy [mkOp 0 (-1) 0 4 (1 # 2)] [4] <= ops_energy [mkOp 0 (-1) 0 4 (1 # 2)] (vadd [4] [a]).
Proof.
  intros. apply (c17_addpin_sequence_least_squares 1); try reflexivity.
  - repeat constructor; simpl; lia.
  - intros o [E|[]]; subst o; vm_compute; discriminate.
  - apply solves_rows. intros [|i] Hi; [vm_compute; reflexivity|vm_compute in Hi; lia].
Qed.
Example ex_addpin_sequence_conv : solves (apply_ops [mkOp 0 (-1) 0 4 (1 # 2)] (sys_empty 1)) [4].
Proof.
  apply c17_addpin_sequence_least_squares_conv; try reflexivity.
  - repeat constructor; simpl; lia.
  - intros o [E|[]]; subst o; vm_compute; discriminate.
  - intros [|a [|b r]] Hh; simpl in Hh; try discriminate. apply ex_addpin_sequence.
Qed.
Example ex_finalize : solves (finalize (create_star0 ex_star)) [3; 3] -> solves (create_star0 ex_star) [3; 3].
Proof. apply c17_finalize_keeps_equations. apply create_star0_inv. apply nm_okb_ok. vm_compute. reflexivity. Qed.
(* the repaired addNet on the refuting witness: weight 1/2 is kept, the system for weight 1 is twice the one for 1/2 *)
Example ex_repaired_witness :
  sys_scaled 2 (create_star0 (add_net wit_cells wit_offs (2 * (1 # 2)) (nm_empty 1))) (create_star0 (add_net wit_cells wit_offs (1 # 2) (nm_empty 1))).
Proof. apply c17_assembly_homogeneous. apply add_net_scaled; [split; simpl; auto|reflexivity]. Qed.

Print Assumptions c17_assembly_homogeneous.
Print Assumptions c17_add_net_stores_weight.
Print Assumptions c17_solution_set_invariant.
Print Assumptions c17_pull_proportional_to_weight.
Print Assumptions c17_bipoint_normal_equations.
Print Assumptions c17_bipoint_least_squares.
Print Assumptions c17_bipoint_least_squares_conv.
Print Assumptions c17_star_normal_equations.
Print Assumptions c17_star_least_squares.
Print Assumptions c17_star_least_squares_conv.
Print Assumptions c17_addpin_sequence_least_squares.
Print Assumptions c17_addpin_sequence_least_squares_conv.
Print Assumptions c17_finalize_keeps_equations.
Print Assumptions c17_homogeneity_refuted_for_int_container.
Print Assumptions c17_solution_set_refuted_for_int_container.
Print Assumptions c17_least_squares_refuted_for_int_container.
